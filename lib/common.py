"""Shared machinery of the /verif checks: TLC runs, driver runs, judging, evidence, verdicts.

Exit codes of a check: 0 = property held on everything explored (KNOWN-FINDING lines allowed),
1 = violation (always with a `VIOLATION property=<id> replay=<path>` line and a replay file),
2 = tool error / time-out (never a verdict).
"""
import threading
import json, os, re, shutil, subprocess, sys, time, signal

VERIF = os.path.dirname(os.path.dirname(os.path.abspath(__file__)))
REPO = "/repo"
SPEC = os.path.join(VERIF, "spec")
# Sensitivity experiments only (never set by a registered command): a scratch copy of the harness whose path dependencies
# point at a scratch worktree carrying a seeded change, and a scratch directory for the evidence / replay files of that run.
HARNESS = os.environ.get("VERIF_SCRATCH_HARNESS") or os.path.join(VERIF, "harness")
OUTDIR = os.environ.get("VERIF_SCRATCH_OUT") or VERIF
JAVA_CP = "/opt/veriftools/tla/tla2tools.jar:/opt/veriftools/tla/CommunityModules-deps.jar"
NCPU = os.cpu_count() or 4


class ToolError(Exception):
    pass


def log(*a):
    print(*a, file=sys.stderr, flush=True)


# --------------------------------------------------------------------------- work dir
class Work:
    def __init__(self, prop):
        self.dir = os.path.join(OUTDIR, ".work", "%s-%d" % (prop, os.getpid()))
        shutil.rmtree(self.dir, ignore_errors=True)
        os.makedirs(self.dir)

    def path(self, name):
        return os.path.join(self.dir, name)

    def cleanup(self):
        if not os.environ.get("VERIF_KEEP"):
            shutil.rmtree(self.dir, ignore_errors=True)


# --------------------------------------------------------------------------- TLC
class TlcResult:
    def __init__(self, rc, out, wall):
        self.rc, self.out, self.wall = rc, out, wall
        m = re.search(r"(\d+) states generated, (\d+) distinct states found, (\d+) states left on queue", out)
        self.generated = int(m.group(1)) if m else 0
        self.distinct = int(m.group(2)) if m else 0
        self.left = int(m.group(3)) if m else -1
        m = re.search(r"depth of the complete state graph search is (\d+)", out)
        self.depth = int(m.group(1)) if m else 0
        m = re.search(r"Invariant (\S+) is violated", out)
        self.violated = m.group(1) if m else None
        if not self.violated and "is violated" in out:
            m = re.search(r"(\S+) is violated", out)
            self.violated = m.group(1) if m else "?"
        self.ok = (rc == 0 and "No error has been found" in out) or (rc == 0 and "Finished in" in out and "Error" not in out)

    def tail(self, n=40):
        keep = [l for l in self.out.splitlines() if l.strip() and not re.match(r"^(Parsing|Semantic|Linting|Computed \d+ init)", l)]
        return "\n".join(keep[-n:])


def tlc(module, cfg, work, env=None, workers=None, timeout=900, simulate=None, depth=None,
        deque=False, xmx="12g", extra=None):
    """Run TLC on spec/<module> (a path relative to SPEC) with the given cfg (relative to the module's dir)."""
    mod_path = os.path.join(SPEC, module)
    cwd = os.path.dirname(mod_path)
    meta = work.path("tlc-%d-%d" % (int(time.time() * 1000), threading.get_ident() % 100000))
    javaopts = ["-XX:+UseParallelGC", "-Xss1g", "-Xmx" + xmx, "-DTLA-Library=" + SPEC]
    if deque:
        javaopts.append("-Dtlc2.tool.queue.IStateQueue=StateDeque")
    cmd = ["java"] + javaopts + ["-cp", JAVA_CP, "tlc2.TLC", "-workers", str(workers or min(NCPU, 12)),
                                 "-metadir", meta, "-cleanup", "-noGenerateSpecTE", "-config", cfg]
    if simulate:
        cmd += ["-simulate", simulate]
    if depth:
        cmd += ["-depth", str(depth)]
    cmd += (extra or []) + [os.path.basename(mod_path)]
    e = dict(os.environ)
    e.pop("JAVA_TOOL_OPTIONS", None)
    e.update(env or {})
    t0 = time.time()
    try:
        p = subprocess.run(cmd, cwd=cwd, env=e, stdout=subprocess.PIPE, stderr=subprocess.STDOUT, timeout=timeout)
    except subprocess.TimeoutExpired:
        shutil.rmtree(meta, ignore_errors=True)
        raise ToolError("TLC timed out after %ds on %s/%s" % (timeout, module, cfg))
    shutil.rmtree(meta, ignore_errors=True)
    return TlcResult(p.returncode, p.stdout.decode("utf-8", "replace"), time.time() - t0)


def tlc_ok(module, cfg, work, ev=None, label=None, **kw):
    """Run a model-checking instance that must pass; an invariant violation here is a spec bug (tool error)."""
    r = tlc(module, cfg, work, **kw)
    if not r.ok:
        raise ToolError("model check %s/%s failed (rc=%d):\n%s" % (module, cfg, r.rc, r.tail()))
    if ev is not None:
        ev.add_mc(label or cfg, r)
    log("  MC %-34s %8d generated %8d distinct depth %2d  %.1fs" % (label or cfg, r.generated, r.distinct, r.depth, r.wall))
    return r


def tlc_must_fail(module, cfg, work, invariant=None, ev=None, label=None, **kw):
    """Negative control: TLC must report a violation (of `invariant` when given)."""
    r = tlc(module, cfg, work, **kw)
    if r.violated is None or (invariant and r.violated != invariant):
        raise ToolError("negative control %s/%s did not fail as expected (violated=%s rc=%d):\n%s"
                        % (module, cfg, r.violated, r.rc, r.tail()))
    if ev is not None:
        ev.negative_controls.append({"cfg": cfg, "violated": r.violated})
    log("  NC %-34s violated %s as required  %.1fs" % (label or cfg, r.violated, r.wall))
    return r


# --------------------------------------------------------------------------- driver
_built = {}


def build_driver(config="default"):
    """Build the Rust driver against /repo's current working tree. config in default|sync|specialized|sync_specialized."""
    if config in _built:
        return _built[config]
    feats = {"default": [], "sync": ["sync"], "specialized": ["specialized"], "sync_specialized": ["sync", "specialized"]}[config]
    tdir = os.path.join(HARNESS, "target" if config == "default" else "target-" + config)
    cmd = ["cargo"]
    if "specialized" in feats:
        cmd.append("+nightly")
    cmd += ["build", "--offline", "-q", "-p", "driver", "--target-dir", tdir]
    if feats:
        cmd += ["--features", ",".join(feats)]
    e = dict(os.environ)
    e["CARGO_NET_OFFLINE"] = "true"
    t0 = time.time()
    p = subprocess.run(cmd, cwd=HARNESS, env=e, stdout=subprocess.PIPE, stderr=subprocess.STDOUT)
    if p.returncode != 0:
        raise ToolError("cargo build (%s) failed:\n%s" % (config, p.stdout.decode("utf-8", "replace")[-4000:]))
    log("  built driver[%s] in %.1fs" % (config, time.time() - t0))
    _built[config] = os.path.join(tdir, "debug", "driver")
    return _built[config]


def count_lines(path):
    n = 0
    with open(path, "rb") as f:
        for _ in f:
            n += 1
    return n


def run_driver(binary, args, cases, obs, timeout=600, per_case_timeout=20, env=None):
    """Run `driver <args> <cases> <obs> --from K`; the driver appends one observation line per case and flushes
    after each.  If the process dies (stack overflow, abort) or hangs, the case it was working on is recorded as
    {"abort":sig} / {"timeout":true} by this wrapper and the run resumes after it.  A crash in the code under test
    is data, not a harness failure."""
    open(obs, "w").close()
    total = count_lines(cases)
    start = 0
    deaths = 0
    hangs = 0
    e = dict(os.environ)
    e.update(env or {})
    t_end = time.time() + timeout
    while start < total:
        cmd = [binary] + args + [cases, obs, "--from", str(start)]
        p = subprocess.Popen(cmd, stdout=subprocess.PIPE, stderr=subprocess.PIPE, env=e)
        killed = None
        last_n, last_t = -1, time.time()
        while True:
            try:
                p.wait(timeout=2)
                break
            except subprocess.TimeoutExpired:
                n = os.path.getsize(obs)
                if n != last_n:
                    last_n, last_t = n, time.time()
                elif time.time() - last_t > per_case_timeout:
                    killed = "timeout"
                    p.kill()
                    p.wait()
                    break
                if time.time() > t_end:
                    p.kill()
                    p.wait()
                    if hangs > 0:        # the time went into cases that never returned: those are recorded (data), the rest of the file is left unrun
                        log("  driver %s: %d case(s) hung, the remaining %d of %d cases were not run" % (" ".join(args), hangs, total - count_lines(obs), total))
                        return total
                    raise ToolError("driver %s exceeded %ds" % (" ".join(args), timeout))
        if p.returncode == 0 and killed is None:
            break
        err = p.stderr.read().decode("utf-8", "replace")
        done = count_lines(obs)
        # make sure the obs file ends with a newline (a partial line is dropped)
        with open(obs, "rb") as f:
            data = f.read()
        if data and not data.endswith(b"\n"):
            data = data[: data.rfind(b"\n") + 1]
            with open(obs, "wb") as f:
                f.write(data)
            done = count_lines(obs)
        if p.returncode not in (None, 0) and p.returncode > 0 and p.returncode != 134 and killed is None and "DRIVER-ERROR" in err:
            raise ToolError("driver failed: " + err[-2000:])
        if done >= total:
            break
        deaths += 1
        if deaths > 2000:
            raise ToolError("driver died more than 2000 times")
        # record the case that killed the process
        with open(cases) as f:
            for i, line in enumerate(f):
                if i == done:
                    case = json.loads(line)
                    break
        if killed == "timeout":
            hangs += 1
            case["out"] = {"timeout": True}
        else:
            sig = -p.returncode if p.returncode and p.returncode < 0 else (p.returncode or 0)
            case["out"] = {"abort": int(sig)}
        case["died"] = True
        with open(obs, "a") as f:
            f.write(json.dumps(case, separators=(",", ":")) + "\n")
        start = done + 1
        if hangs >= 8:
            log("  driver %s: %d cases hung; the remaining %d of %d cases were not run" % (" ".join(args), hangs, total - count_lines(obs), total))
            break
    return total


# --------------------------------------------------------------------------- judging
def split_file(path, k):
    """Split an ndjson file into k chunk files path.1..path.k (contiguous). Returns list of (chunkfile, first_index0, n)."""
    with open(path) as f:
        lines = f.readlines()
    n = len(lines)
    k = max(1, min(k, n))
    out = []
    base = 0
    for c in range(k):
        cnt = n // k + (1 if c < n % k else 0)
        p = "%s.%d" % (path, c + 1)
        with open(p, "w") as g:
            g.writelines(lines[base: base + cnt])
        out.append((p, base, cnt))
        base += cnt
    return out, lines


def known_devs(status="known"):
    return sorted({k["deviation"] for k in load_known() if k["status"] == status})


def tv_cfg(work):
    """A judge configuration whose constant KnownDevs lists the deviation switches of the findings recorded as
    'known' (never the fixed ones: a fixed defect that returns is a violation)."""
    p = work.path("TV.cfg")
    with open(p, "w") as f:
        f.write("CONSTANT KnownDevs = {%s}\nSPECIFICATION Spec\nCHECK_DEADLOCK FALSE\n"
                % ", ".join('"%s"' % d for d in known_devs()))
    return p


def judge(tv_module, cfg, obs, work, chunks=None, timeout=900, env=None, workers=None):
    """Let TLC evaluate the specification on the observation file.  Returns (stats, rejects) where rejects is a
    list of dicts {index (0-based in obs), rec (the observation), exp, expl}."""
    n = count_lines(obs)
    if n == 0:
        return {"n": 0, "nontrivial": 0}, []
    if cfg is None:
        cfg = tv_cfg(work)
    k = chunks or max(1, min(3 * (NCPU - 2), n // 200 + 1))
    parts, lines = split_file(obs, k)
    outp = obs + ".verdict"
    e = {"OBS": obs, "OUT": outp, "CHUNKS": str(len(parts))}
    e.update(env or {})
    r = tlc(tv_module, cfg, work, env=e, workers=workers or min(len(parts), NCPU - 2), timeout=timeout)
    if not r.ok:
        raise ToolError("judge %s failed (rc=%d):\n%s" % (tv_module, r.rc, r.tail(60)))
    stats = {"n": 0, "nontrivial": 0}
    rejects = []
    for c, (p, base, cnt) in enumerate(parts):
        vp = "%s.%d" % (outp, c + 1)
        if not os.path.exists(vp):
            raise ToolError("judge %s wrote no verdict for chunk %d:\n%s" % (tv_module, c + 1, r.tail(60)))
        with open(vp) as f:
            for line in f:
                line = line.strip()
                if not line:
                    continue
                d = json.loads(line)
                if "stats" in d:
                    for key, val in d["stats"].items():
                        stats[key] = stats.get(key, 0) + val
                else:
                    idx = base + d["i"] - 1
                    rejects.append({"index": idx, "rec": json.loads(lines[idx]), "exp": d.get("exp"), "expl": d.get("expl", [])})
        os.remove(vp)
        os.remove(p)
    if stats["n"] != n:
        raise ToolError("judge %s judged %d of %d records" % (tv_module, stats["n"], n))
    log("  JUDGE %-30s %8d records %6d nontrivial %5d rejected  %.1fs" % (tv_module, n, stats.get("nontrivial", 0), len(rejects), r.wall))
    return stats, rejects


# --------------------------------------------------------------------------- known findings
def load_known():
    with open(os.path.join(VERIF, "known_findings.json")) as f:
        return json.load(f)["findings"]


def to_tagged(j):
    """plain JSON (python) -> tagged interchange value; integers and simple decimals only"""
    if j is None:
        return {"t": "null"}
    if isinstance(j, bool):
        return {"t": "bool", "b": j}
    if isinstance(j, int):
        if abs(j) > 2147483647:          # large magnitudes: p * 10^e with at most nine significant digits (JValue!JBig), or outside the model
            d = str(abs(j))
            sig = d.rstrip("0")
            if len(sig) <= 9 and len(d) >= 11 and len(d) > len(sig):
                return {"t": "num", "p": (-1 if j < 0 else 1) * int(sig), "q": 1, "e": len(d) - len(sig)}
            return {"t": "num", "big": str(j)}
        return {"t": "num", "p": j, "q": 1}
    if isinstance(j, float):
        import math
        if j == 0.0 and math.copysign(1.0, j) < 0:
            return {"t": "num", "p": 0, "q": 1, "z": True}       # -0.0: the number 0 with its sign bit set (the drivers build it so, the judge never sees z)
        from fractions import Fraction
        fr = Fraction(j).limit_denominator(1000)
        return {"t": "num", "p": fr.numerator, "q": fr.denominator}
    if isinstance(j, str):
        return {"t": "str", "s": cps(j)}
    if isinstance(j, list):
        return {"t": "arr", "a": [to_tagged(x) for x in j]}
    return {"t": "obj", "o": [{"k": cps(k), "v": to_tagged(v)} for k, v in sorted(j.items(), key=lambda kv: [ord(c) for c in kv[0]])]}


def witness_cases(prop, work, name="witness.cases"):
    """One text case per finding (known or fixed) recorded for this property: known ones must show up as
    KNOWN-FINDING in every run, fixed ones are re-checked in every run and must now be accepted."""
    path = work.path(name)
    n = 0
    with open(path, "w") as f:
        for k in load_known():
            if prop in k["properties"] and "expr" in k.get("witness", {}):
                c = {"e": "lang", "text": cps(k["witness"]["expr"]), "witness_of": k["id"]}
                if "doctext" in k["witness"]:
                    c["doctext"] = cps(k["witness"]["doctext"])
                c["doc"] = to_tagged(k["witness"].get("doc"))
                f.write(json.dumps(c) + "\n")
                n += 1
    return path, n


# --------------------------------------------------------------------------- evidence + verdict
class Evidence:
    def __init__(self, prop, tier, seed):
        self.prop, self.tier, self.seed = prop, tier, seed
        self.t0 = time.time()
        self.states = 0
        self.transitions = 0
        self.mc_runs = []
        self.negative_controls = []
        self.judged = 0
        self.accepted = 0
        self.nontrivial = 0
        self.samples = []
        self.rule = ""
        self.trusted = ["TLC 1.8 (tla2tools 2026.09.04)", "the Rust driver's spelling-free run/abstract functions (harness/driver/src/val.rs)"]
        self.assumptions = []
        self.exhaustive = False
        self.extra = {}
        self.checker = []
        self.phases = []

    def add_mc(self, label, r):
        self.states += r.distinct
        self.transitions += r.generated
        self.mc_runs.append({"instance": label, "generated": r.generated, "distinct": r.distinct, "depth": r.depth,
                             "queue_empty": r.left == 0, "wall_s": round(r.wall, 1)})

    def add_judged(self, label, stats, rejects, obs_path=None, nsamples=2):
        self.judged += stats["n"]
        self.accepted += stats["n"] - len(rejects) - stats.get("unjudged", 0)
        self.unjudged = getattr(self, "unjudged", 0) + stats.get("unjudged", 0)
        self.nontrivial += stats.get("nontrivial", 0)
        self.phases.append({"phase": label, "records": stats["n"], "nontrivial": stats.get("nontrivial", 0),
                            "rejected": len(rejects), **{k: v for k, v in stats.items() if k not in ("n", "nontrivial")}})
        if obs_path and nsamples:
            with open(obs_path) as f:
                lines = f.readlines()
            if lines:
                step = max(1, len(lines) // nsamples)
                for i in range(0, len(lines), step):
                    if len([s for s in self.samples if s.get("phase") == label]) >= nsamples:
                        break
                    rec = json.loads(lines[i])
                    smp = {"phase": label}
                    if isinstance(rec.get("text"), list):
                        smp["expression"] = uncps(rec["text"])[:400]
                    smp["record"] = shrink(rec)
                    self.samples.append(smp)

    def write(self, violations, known_hits):
        d = {
            "property_id": self.prop, "tier": self.tier, "seed": self.seed, "level": "model_checking",
            "coverage": {
                "states": self.states, "transitions": self.transitions,
                "traces_validated_against_impl": self.accepted,
                "evaluations": self.judged, "distinct_nontrivial": self.nontrivial,
                "rule": self.rule + " Every conformance phase listed under conformance_phases states its own enumeration rule in its label (the families "
                        "added after the seeded-change rounds -- sizes, aliasing, histories, number classes, Unicode classes, own runtimes -- are phases of their own).",
                "samples": self.samples[:12],
                "exhaustive": self.exhaustive,
                "model_checking_runs": self.mc_runs, "negative_controls": self.negative_controls,
                "conformance_phases": self.phases,
                "checker_cmd": "; ".join(self.checker) if self.checker else "./check %s %s" % (self.prop, self.tier),
                "trusted_base": self.trusted,
                "known_findings_reported": known_hits,
                "unjudged_open_or_outside_domain": getattr(self, "unjudged", 0),
            },
            "assumptions": self.assumptions,
            "wall_s": round(time.time() - self.t0, 1),
            "violations": violations,
        }
        d["coverage"].update(self.extra)
        os.makedirs(os.path.join(OUTDIR, "evidence"), exist_ok=True)
        with open(os.path.join(OUTDIR, "evidence", self.prop + ".json"), "w") as f:
            json.dump(d, f, indent=1)


def shrink(x, depth=0):
    """Keep samples readable: truncate very long arrays."""
    if isinstance(x, list):
        if len(x) > 40:
            return [shrink(v, depth + 1) for v in x[:40]] + ["...(%d more)" % (len(x) - 40)]
        return [shrink(v, depth + 1) for v in x]
    if isinstance(x, dict):
        return {k: shrink(v, depth + 1) for k, v in x.items()}
    return x


def cps(s):
    return [ord(c) for c in s]


def uncps(a):
    try:
        return "".join(chr(c) for c in a)
    except Exception:
        return repr(a)


def describe(rec):
    """One-line human description of an observation record for VIOLATION / KNOWN-FINDING lines."""
    parts = []
    if rec.get("e") == "obligations":
        return "Send + Sync obligations do not compile under --features sync"
    if rec.get("e") == "session":
        fe = rec.get("failed_event", {})
        return "session event %s after %d calls: %s" % (fe.get("e"), len(rec.get("history", [])) - 1, json.dumps(fe)[:200])
    for key in ("e", "kind", "fn", "api", "law"):
        if key in rec and isinstance(rec[key], str):
            parts.append("%s=%s" % (key, rec[key]))
    if "text" in rec and isinstance(rec["text"], list):
        t = uncps(rec["text"])
        parts.append("expr=%r" % (t if len(t) <= 160 else t[:80] + "...(%d characters)..." % len(t) + t[-20:]))
    if "argv" in rec and isinstance(rec["argv"], list):
        parts.append("jp " + " ".join(repr(uncps(a)) for a in rec["argv"]))
        if rec.get("stdin"):
            parts.append("stdin=%r" % uncps(rec["stdin"])[:80])
        return " ".join(parts)
    if "chars" in rec and isinstance(rec["chars"], list):
        parts.append("text=%r at character %s" % (uncps(rec["chars"]), rec.get("k")))
    if "W" in rec and isinstance(rec["W"], list):
        parts.append("whole=%r" % uncps(rec["W"]))
    if "doctext" in rec and isinstance(rec["doctext"], list):
        parts.append("doc=%r" % uncps(rec["doctext"]))
    for key in ("len", "step"):
        if key in rec:
            parts.append("%s=%s" % (key, json.dumps(rec[key])))
    return " ".join(parts)


def finish(prop, ev, rejects, work, triage=True):
    """Triage rejected records against known findings, write replays + evidence, print verdict lines, return exit code.

    A rejected record is attributed to a known finding iff the judge's `expl` (the set of named deviation switches
    under which the Level-1 model reproduces the observation exactly) contains the deviation of a finding listed as
    "known" for this property in known_findings.json.  Everything else is a violation."""
    known = [k for k in load_known() if k["status"] == "known" and prop in k["properties"]]
    by_dev = {k["deviation"]: k for k in known}
    hits = {}
    violations = []
    for r in rejects:
        dev = next((d for d in (r.get("expl") or []) if d in by_dev), None) if triage else None
        if dev:
            hits.setdefault(dev, []).append(r)
        else:
            violations.append(r)
    os.makedirs(os.path.join(OUTDIR, "replays"), exist_ok=True)
    for old in os.listdir(os.path.join(OUTDIR, "replays")):
        if old.startswith("%s-%s-" % (prop, ev.tier)):
            os.remove(os.path.join(OUTDIR, "replays", old))
    for dev, rs in sorted(hits.items()):
        k = by_dev[dev]
        print("KNOWN-FINDING: property=%s %s [%s] (%d record(s) this run; e.g. %s)"
              % (prop, k["what"], dev, len(rs), describe(rs[0]["rec"])))
    code = 0
    seen = 0
    for r in violations[:20]:
        seen += 1
        path = os.path.join(OUTDIR, "replays", "%s-%s-%d.json" % (prop, ev.tier, seen))
        with open(path, "w") as f:
            json.dump({"property": prop, "tier": ev.tier, "seed": ev.seed, "record": r["rec"],
                       "spec_expected": r.get("exp"), "explained_by": r.get("expl")}, f, indent=1)
        print("VIOLATION property=%s replay=%s  # %s" % (prop, path, describe(r["rec"])))
        code = 1
    if len(violations) > 20:
        print("# ... %d more rejected records not written out" % (len(violations) - 20))
    ev.write(len(violations), {d: len(rs) for d, rs in hits.items()})
    return code
