"""C02 — every built-in computes the specified value.   C06 — signatures (eng_sigs imports this)."""
import json, os, subprocess
import common
from common import tlc, tlc_ok, tlc_must_fail, build_driver, ToolError
import eng_eval

TIERS = {
    "quick":    dict(len=4, maxar=3, rand=15000, sigvia=["lit"]),
    "thorough": dict(len=5, maxar=4, rand=150000, sigvia=["lit", "doc"]),
}


def gen_call(work, mode, out, maxar, length, via="doc", timeout=3000):
    e = {"MODE": mode, "OUT": out, "MAXAR": str(maxar), "LEN": str(length), "VIA": via}
    r = tlc("gen/Gen_Call.tla", "Gen.cfg", work, env=e, workers=1, timeout=timeout)
    if r.rc != 0 or not os.path.exists(out):
        raise ToolError("Gen_Call %s failed:\n%s" % (mode, r.tail()))
    return common.count_lines(out)


def run(prop, tier, seed, work, ev):
    t = TIERS[tier]
    drv = build_driver()
    rejects = []
    ev.trusted.append("Eval.tla (Sig/Validate/Apply) as the reading of the JMESPath function specification (DESIGN.md Appendix A)")
    if prop == "C02":
        tlc_ok("mc/MC_Call.tla", "MC_Call_val.cfg" if tier == "quick" else "MC_Call_val_thorough.cfg", work, ev=ev,
               label="function contract on value domains; algorithms as coded (FunctionsL1) = Apply " + tier, timeout=3000)
        tlc_ok("mc/MC_Call.tla", "MC_Call_near.cfg", work, ev=ev, timeout=3000,
               label="function contract over neighbouring doubles and large magnitudes (exact order), three-way merge; FunctionsL1 = Apply")
        tlc_must_fail("mc/MC_Call.tla", "MC_Call_val_nonvacuous.cfg", work, invariant="Inv_NoTiesExercised", ev=ev)
        tlc_must_fail("mc/MC_Call.tla", "MC_Call_val_neg_unstable.cfg", work, invariant="Inv_L1Functions", ev=ev)
        tlc_must_fail("mc/MC_Call.tla", "MC_Call_val_neg_merge.cfg", work, invariant="Inv_L1Functions", ev=ev)
        ev.exhaustive = True
        ev.rule = ("cases: per-function value domains (number/string arrays of length 0..%d over small pools incl. 2-, 3- and 4-byte code "
                   "points, objects, by-functions over records with tied keys and distinguishable payloads, stability families of length "
                   "16..64 in six arrangements, to_number texts), and seeded random calls with arrays up to 200 elements, nested in "
                   "projections / map / other calls. Non-trivial: non-null result." % t["len"])
        c = work.path("val.cases")
        gen_call(work, "val", c, t["maxar"], t["len"])
        rejects += eng_eval.run_and_judge("per-function value domains", c, work, ev, drv, nsamples=3)
        c = work.path("rcalls.cases")
        subprocess.check_call([drv, "gen", "calls", str(seed), str(t["rand"]), c])
        rejects += eng_eval.run_and_judge("random calls (large arrays, ties, all planes of Unicode)", c, work, ev, drv, nsamples=3)
        rejects += eng_eval.pool_families(["nest", "compose", "hash", "mapnull", "nested", "selfnest", "byorder", "bykeys", "bignums", "strclass", "scalarties", "tonum"], work, ev, drv)
        rejects += eng_eval.pools_matching(r"[a-z_]+\(", "a function call", work, ev, drv, skip=("nest", "compose", "hash", "mapnull", "nested", "selfnest", "byorder", "bykeys", "bignums", "strclass", "scalarties", "tonum"))
    else:
        tlc_ok("mc/MC_Call.tla", "MC_Call_sig.cfg" if tier == "quick" else "MC_Call_sig_thorough.cfg", work, ev=ev,
               label="signature table: arity first, types, result types, L1 table = L0 table " + tier, timeout=3000)
        tlc_must_fail("mc/MC_Call.tla", "MC_Call_sig_neg.cfg", work, invariant="Inv_L1Sig", ev=ev)
        ev.exhaustive = True
        ev.rule = ("cases: the full decision table: 26 functions (and one unregistered name) x argument counts 0..%d x every combination of "
                   "10 argument type classes (null, boolean, number, string, empty array, number array, string array, mixed array, object, "
                   "expression reference), arguments as literals%s. Non-trivial: the call succeeds with a non-null value." %
                   (t["maxar"], " and via the document" if "doc" in t["sigvia"] else ""))
        for via in t["sigvia"]:
            c = work.path("sig.%s.cases" % via)
            gen_call(work, "sig", c, t["maxar"], t["len"], via=via)
            rejects += eng_eval.run_and_judge("decision table, arguments via %s" % via, c, work, ev, drv, nsamples=3)
        if tier == "quick":
            c = work.path("sig.doc.cases")
            gen_call(work, "sig", c, 2, t["len"], via="doc")
            rejects += eng_eval.run_and_judge("decision table up to 2 arguments, via the document", c, work, ev, drv, nsamples=1)
        rejects += eng_eval.pool_families(["errpair", "compose", "selfnest", "keyorder", "mapnull", "byorder", "bignums", "bykeys"], work, ev, drv)
        rejects += eng_eval.pools_matching(r"[a-z_]+\(", "a function call", work, ev, drv, skip=("errpair", "compose", "selfnest", "keyorder", "mapnull", "byorder", "bignums", "bykeys"))
    # values outside the number model (sums that leave the doubles, integers of 16 and more digits next to fractions): the result-type clause
    # alone -- a failure or a value of a declared result type, and no type error on arguments that are all numbers
    c = work.path("restype.cases")
    with open(c, "w") as f:
        over = ["[1e308, 1e308]", "[-1.5e308, -3e307, -1e308]", "[1.7976931348623157e308, 1e292]", "[1.7976931348623157e308, 1.7976931348623157e308]", "[9e307, 9e307, 9e307]",
                "[1e308, -1e308, 1e308]", "[1.7976931348623157e308]", "[5e-324, 5e-324]", "[123456789012345678901234567890, 1e22]"]
        for doc in over:
            for fn, text in (("sum", "sum(@)"), ("avg", "avg(@)"), ("abs", "abs(sum(@))"), ("ceil", "ceil(avg(@))"), ("floor", "floor(sum(@))"), ("max", "max(@)"), ("min", "min(@)"),
                             ("sort", "sort(@)"), ("to_string", "to_string(sum(@))"), ("type", "type(sum(@))"), ("not_null", "not_null(sum(@))"), ("to_number", "to_number(sum(@))")):
                f.write(json.dumps({"e": "restype", "fn": common.cps(fn), "mustwork": False, "text": common.cps(text), "doctext": common.cps(doc)}) + "\n")
        mixed = ['[{"id": 9007199254740993}, {"id": 2.5}]', '[{"id": 1152921504606846976}, {"id": 7}, {"id": 0.5}]', '[{"id": -9007199254740994}, {"id": 3}, {"id": 4.0}]',
                 '[{"id": 9007199254740993}, {"id": 18446744073709551615}]', '[{"id": 36028797018963968}, {"id": -1.5}]', '[{"id": 0.5}, {"id": 1152921504606846976}, {"id": 7}]',
                 '[{"id": 18446744073709551615}, {"id": 1e300}, {"id": -9223372036854775808}]', '[{"id": 1e308}, {"id": 9223372036854775807}]']
        for doc in mixed:
            for fn, text in (("sort_by", "sort_by(@, &id)"), ("max_by", "max_by(@, &id)"), ("min_by", "min_by(@, &id)"), ("sort", "sort(@[*].id)"), ("max", "max(@[*].id)"), ("min", "min(@[*].id)"),
                             ("sort_by", "sort_by(@, &abs(id))"), ("map", "map(&abs(id), @)"), ("sum", "sum(@[*].id)"), ("avg", "avg(@[*].id)"), ("contains", "contains(@[*].id, @[0].id)")):
                f.write(json.dumps({"e": "restype", "fn": common.cps(fn), "mustwork": fn not in ("sum", "avg"), "text": common.cps(text), "doctext": common.cps(doc)}) + "\n")
    rejects += eng_eval.run_and_judge("result types on values outside the number model (overflowing sums, integers of 16+ digits next to fractions): a failure or a declared type, no type error on numbers",
                                      c, work, ev, drv, nsamples=1, tv="tv/TV_ResType.tla")
    c, n = common.witness_cases(prop, work)
    if n:
        rejects += eng_eval.run_and_judge("witnesses of recorded findings", c, work, ev, drv, nsamples=1)
    return rejects


def replay(prop, path, work):
    return eng_eval.replay(prop, path, work)
