"""C14 — serde bridge: typed values are searched as their JSON image and decode back."""
import json, os
import common
from common import tlc, tlc_ok, tlc_must_fail, build_driver, run_driver, judge, ToolError


def run(prop, tier, seed, work, ev):
    drv = build_driver()
    tlc_ok("mc/MC_Serde.tla", "MC_Serde.cfg", work, ev=ev, label="Image: total, wrappers transparent, non-finite -> null, variants tagged, last duplicate wins", timeout=3000)
    ev.exhaustive = True
    ev.rule = ("cases: every serde data-model tree of depth <= 1 (quick) / 2 (thorough) over 40 leaves (each integer width at its min / max / 0, u64 above "
               "i64::MAX, finite and non-finite f32/f64, chars of three planes, strings, bytes, none, unit, unit struct, unit variants) under some, "
               "newtype struct/variant, seq, tuple, tuple struct/variant, maps with string and char keys (incl. duplicate keys), structs and struct "
               "variants, serialised by a dynamic Serialize implementation calling exactly the serializer method of each node; and 53 JSON values "
               "decoded into each of 24 Rust types (right and wrong shapes). Non-trivial: everything but bare bool/unit/none trees.")
    ev.trusted += ["Serde.tla Image as the reading of serde_json's documented data-model mapping (serde_json's own image is also compared)",
                   "Decode.tla Dec as the reading of how serde_json::from_value reads each shape (serde_json's own answers are judged by it too: a "
                   "disagreement is a tool error); for shapes outside Decode.tla serde_json::from_value is the reference (differential)"]
    tlc_ok("mc/MC_Decode.tla", "MC_Decode.cfg", work, ev=ev, timeout=3000,
           label="decoding as coded (Deserializer protocol of variable.rs x serde's visitors) = Dec (Level 0) on 36 types x witnesses and their one-edit mutations; images decode to themselves")
    for nc in ("seq_leftover_ok", "map_leftover_ok", "ident_any", "null_as_none", "enum_checks_variants"):
        tlc_must_fail("mc/MC_Decode.tla", "MC_Decode_neg_%s.cfg" % nc, work, invariant="Inv_L1", ev=ev)
    c = work.path("serde.cases")
    r = tlc("gen/Gen_Serde.tla", "Gen.cfg", work, env={"OUT": c, "DEEP": "2" if tier == "thorough" else "1"}, workers=1, timeout=1800)
    if r.rc != 0 or not os.path.exists(c):
        raise ToolError("Gen_Serde failed:\n" + r.tail())
    obs = c + ".obs"
    run_driver(drv, ["run", "serde"], c, obs)
    stats, rej = judge("tv/TV_Serde.tla", None, obs, work)
    ref = [x for x in rej if (x["exp"] or {}).get("why") == "reference"]
    if ref:
        raise ToolError("Serde.tla disagrees with serde_json itself on %d tree(s): specification bug, e.g. %s" % (len(ref), json.dumps(ref[0]["rec"]["tree"])[:300]))
    ev.add_judged("data-model trees (encode) and JSON pool x type zoo (decode)", stats, rej, obs, nsamples=4)
    # decoding judged by the specification (Decode.tla): every witness of every type and its edits, into every type
    c = work.path("dec.cases")
    r = tlc("gen/Gen_Decode.tla", "Gen.cfg", work, env={"OUT": c, "DEEP": "2" if tier == "thorough" else "1"}, workers=1, timeout=3000)
    if r.rc != 0 or not os.path.exists(c):
        raise ToolError("Gen_Decode failed:\n" + r.tail())
    obs = c + ".obs"
    run_driver(drv, ["run", "serde"], c, obs)
    stats, rej2 = judge("tv/TV_Decode.tla", None, obs, work)
    ref = [x for x in rej2 if (x["exp"] or {}).get("why") == "reference"]
    if ref:
        raise ToolError("Decode.tla disagrees with serde_json itself on %d value(s): specification bug, e.g. %s into %s" %
                        (len(ref), json.dumps(ref[0]["rec"]["json"])[:300], ref[0]["exp"].get("ty")))
    ev.add_judged("witnesses of 38 types and their %s mutations, each decoded into all 38 types: the library's answer is Dec(T, v) (same failure, or the same value by its image)"
                  % ("one- and two-edit" if tier == "thorough" else "one-edit"), stats, rej2, obs, nsamples=2)
    return rej + rej2


def replay(prop, path, work):
    drv = build_driver()
    rec = json.load(open(path))["record"]
    cases = work.path("c")
    with open(cases, "w") as f:
        f.write(json.dumps(rec) + "\n")
    obs = work.path("o")
    run_driver(drv, ["run", "serde"], cases, obs)
    stats, rej = judge("tv/TV_Decode.tla" if rec.get("kind") == "dec" else "tv/TV_Serde.tla", None, obs, work, chunks=1)
    o = json.loads(open(obs).read())
    print("observation:", json.dumps(o.get("out"))[:900])
    if rej:
        print("spec expected:", json.dumps(rej[0]["exp"])[:600])
        print("VIOLATION property=%s replay=%s" % (prop, path))
        return 1
    print("accepted by the specification")
    return 0
