"""C14 — serde bridge: typed values are searched as their JSON image and decode back."""
import json, os
import common
from common import tlc, tlc_ok, build_driver, run_driver, judge, ToolError


def run(prop, tier, seed, work, ev):
    drv = build_driver()
    tlc_ok("mc/MC_Serde.tla", "MC_Serde.cfg", work, ev=ev, label="Image: total, wrappers transparent, non-finite -> null, variants tagged, last duplicate wins", timeout=3000)
    ev.exhaustive = True
    ev.rule = ("cases: every serde data-model tree of depth <= 1 (quick) / 2 (thorough) over 40 leaves (each integer width at its min / max / 0, u64 above "
               "i64::MAX, finite and non-finite f32/f64, chars of three planes, strings, bytes, none, unit, unit struct, unit variants) under some, "
               "newtype struct/variant, seq, tuple, tuple struct/variant, maps with string and char keys (incl. duplicate keys), structs and struct "
               "variants, serialised by a dynamic Serialize implementation calling exactly the serializer method of each node; and 53 JSON values "
               "decoded into each of 24 Rust types (right and wrong shapes). Non-trivial: everything but bare bool/unit/none trees.")
    ev.trusted += ["Serde.tla Image as the reading of serde_json's documented data-model mapping (serde_json's own image is also compared)",
                   "serde_json::from_value as the reference for decoding (differential)"]
    c = work.path("serde.cases")
    r = tlc("gen/Gen_Serde.tla", "Gen.cfg", work, env={"OUT": c, "DEEP": "2" if tier == "thorough" else "1"}, workers=1, timeout=1800)
    if r.rc != 0 or not os.path.exists(c):
        raise ToolError("Gen_Serde failed:\n" + r.tail())
    obs = c + ".obs"
    run_driver(drv, ["run", "serde"], c, obs)
    stats, rej = judge("tv/TV_Serde.tla", None, obs, work)
    ref = [x for x in rej if (x["exp"] or {}).get("why") == "reference"]
    if ref:
        raise ToolError("Serde.tla disagrees with serde_json itself on %d tree(s): specification bug, e.g. %s" % (len(ref), json.dumps(ref[0]["rec"]["tree"])[:300]))
    ev.add_judged("data-model trees (encode) and JSON pool x type zoo (decode)", stats, rej, obs, nsamples=4)
    return rej


def replay(prop, path, work):
    drv = build_driver()
    rec = json.load(open(path))["record"]
    cases = work.path("c")
    with open(cases, "w") as f:
        f.write(json.dumps(rec) + "\n")
    obs = work.path("o")
    run_driver(drv, ["run", "serde"], cases, obs)
    stats, rej = judge("tv/TV_Serde.tla", None, obs, work, chunks=1)
    o = json.loads(open(obs).read())
    print("observation:", json.dumps(o.get("out"))[:900])
    if rej:
        print("spec expected:", json.dumps(rej[0]["exp"])[:600])
        print("VIOLATION property=%s replay=%s" % (prop, path))
        return 1
    print("accepted by the specification")
    return 0
