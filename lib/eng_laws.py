"""C11 — evaluation is compositional (laws checked on values observed from the implementation only)."""
import json, os
import common
from common import tlc, tlc_ok, tlc_must_fail, build_driver, run_driver, judge, ToolError


def run(prop, tier, seed, work, ev):
    drv = build_driver()
    tlc_ok("mc/MC_Eval.tla", "MC_Eval_laws.cfg" if tier == "quick" else "MC_Eval_laws_thorough.cfg", work, ev=ev,
           label="compositional laws as theorems of Eval on trees x documents " + tier, timeout=6000)
    if tier == "thorough":
        tlc_ok("mc/MC_Eval.tla", "MC_Eval_laws.cfg", work, ev=ev, label="compositional laws as theorems of Eval on trees x documents of depth 1 over all atoms", timeout=3000)
    tlc_must_fail("mc/MC_Eval.tla", "MC_Eval_neg.cfg", work, invariant="Inv_InterpIsEval", ev=ev)
    ev.exhaustive = True
    ev.rule = ("cases: 23 left parts x 16 right parts (10 projection continuations, 8 predicates) x 9 documents under the laws pipe, and, or, "
               "not, multi-select list/hash, list-wildcard / flatten / object-value / slice projection and filter; the driver evaluates the "
               "whole (from text and from the parts' public ASTs via Expression::new) and every part (per element for projections) with "
               "the real library; TLC applies only the law's combination rule to the observed values. Non-trivial: whole is non-null.")
    ev.trusted.append("the combination rules in TV_Laws.tla (map-then-drop-nulls, select-by-truthiness, tuple/record, truth tables)")
    c = work.path("laws.cases")
    r = tlc("gen/Gen_Laws.tla", "Gen.cfg", work, env={"OUT": c}, workers=1, timeout=1800)
    if r.rc != 0 or not os.path.exists(c):
        raise ToolError("Gen_Laws failed:\n" + r.tail())
    obs = c + ".obs"
    run_driver(drv, ["run", "laws"], c, obs, env={"EVAL_DOCS": c + ".docs"})
    stats, rej = judge("tv/TV_Laws.tla", None, obs, work)
    ev.add_judged("laws on enumerated parts x documents", stats, rej, obs, nsamples=3)
    # composites whose parts interact only if evaluation is NOT compositional (a `!` over a parenthesised group, an inner projection
    # over a per-element temporary): judged against Eval, which is compositional by construction (MC_Eval_laws)
    import eng_eval
    rej = rej + eng_eval.pool_families(["bool", "inflate", "hash", "foldlit", "keyorder", "mapnull", "msidx", "absent", "notgroup", "nested"], work, ev, drv)
    rej = rej + eng_eval.pools_matching(r"\||&&|\[\*\]|\[\]|\[\?|\.\*|\.\{|\.\[|![^=]", "a projection, pipe, boolean operator or multi-select", work, ev, drv,
                                        skip=("bool", "inflate", "hash", "foldlit", "keyorder", "mapnull", "msidx", "absent", "notgroup", "nested", "compose"))
    c3 = work.path("preds.cases")
    eng_eval.gen(work, "preds", c3)
    rej = rej + eng_eval.run_and_judge("filter predicates that are chains themselves", c3, work, ev, drv, docs=c3 + ".docs", nsamples=1)
    c2 = work.path("chains.cases")
    eng_eval.gen(work, "chains", c2, n=3)
    rej = rej + eng_eval.run_and_judge("operator chains (pipes, filters with inner projections, boolean operators among the links) x 4 nested documents",
                                       c2, work, ev, drv, docs=c2 + ".docs", nsamples=1)
    return rej


def replay(prop, path, work):
    drv = build_driver()
    rec = json.load(open(path))["record"]
    if rec.get("e") == "eval":
        import eng_eval
        return eng_eval.replay(prop, path, work)
    rec.pop("d", None)
    cases = work.path("c")
    with open(cases, "w") as f:
        f.write(json.dumps(rec) + "\n")
    obs = work.path("o")
    run_driver(drv, ["run", "laws"], cases, obs)
    stats, rej = judge("tv/TV_Laws.tla", None, obs, work, chunks=1)
    o = json.loads(open(obs).read())
    print("law:", o["law"], "whole:", repr(common.uncps(o["W"])))
    print("observed whole:", json.dumps(o.get("whole"))[:500])
    if rej:
        print("law requires:", json.dumps(rej[0]["exp"])[:900])
        print("VIOLATION property=%s replay=%s" % (prop, path))
        return 1
    print("accepted by the specification")
    return 0
