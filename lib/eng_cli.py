"""C18 — the jp command-line tool reports exactly what the library computes."""
import json, os, subprocess
import common
from common import tlc, tlc_ok, tlc_must_fail, build_driver, run_driver, judge, ToolError, HARNESS


def build_jp():
    tdir = os.path.join(HARNESS, "target")
    p = subprocess.run(["cargo", "build", "--offline", "-q", "-p", "jpbin", "--target-dir", tdir], cwd=HARNESS,
                       stdout=subprocess.PIPE, stderr=subprocess.STDOUT, env=dict(os.environ, CARGO_NET_OFFLINE="true"))
    if p.returncode != 0:
        raise ToolError("building jp (jmespath-cli/src/main.rs through harness/jpbin) failed:\n" + p.stdout.decode("utf-8", "replace")[-3000:])
    return os.path.join(tdir, "debug", "jp")


def run(prop, tier, seed, work, ev):
    tlc_ok("mc/MC_Cli.tla", "MC_Cli.cfg", work, ev=ev, label="jp step machine: exit/stdout/stderr discipline, --ast never reads input, -u only affects strings")
    tlc_must_fail("mc/MC_Cli.tla", "MC_Cli_neg.cfg", work, invariant="Inv_Discipline", ev=ev)
    tlc_must_fail("mc/MC_Cli.tla", "MC_Cli_neg_textonly.cfg", work, invariant="Inv_Outcome", ev=ev)
    drv = build_driver()
    jp = build_jp()
    ev.exhaustive = True
    ev.rule = ("invocations: 40 expressions (valid, invalid, runtime-failing, string / non-string results, non-ASCII, large integers, expression "
               "references) x 18 input texts (valid, invalid, empty, huge and out-of-range numbers, duplicate keys, lone surrogate) on stdin with "
               "and without -u, plus every invocation shape (expression as argument / -e file / missing file; input on stdin / -f file / missing "
               "file; -u; --ast; short and long options) over %s. The real jp binary built from jmespath-cli/src/main.rs is run; the library "
               "is called in-process on the same texts. Non-trivial: a failure, or more than 5 characters of output."
               % ("all expressions and inputs" if tier == "thorough" else "7 expressions x 5 inputs"))
    ev.trusted += ["serde_json::to_string_pretty applied to the library's own result as the meaning of 'pretty-printed JSON'",
                   "Cli.tla as the reading of the property's exit / stream discipline"]
    c = work.path("cli.cases")
    r = tlc("gen/Gen_Cli.tla", "Gen.cfg", work, env={"OUT": c, "POOLS": os.path.join(common.SPEC, "gen", "cli_pools.ndjson"),
                                                       "FULL": "1" if tier == "thorough" else "0"}, workers=1, timeout=1800)
    if r.rc != 0 or not os.path.exists(c):
        raise ToolError("Gen_Cli failed:\n" + r.tail())
    obs = c + ".obs"
    run_driver(drv, ["run", "cli"], c, obs, env={"JP_BIN": jp}, timeout=3000)
    stats, rej = judge("tv/TV_Cli.tla", None, obs, work)
    ev.add_judged("jp invocations", stats, rej, obs, nsamples=4)
    return rej


def replay(prop, path, work):
    drv = build_driver()
    jp = build_jp()
    rec = json.load(open(path))["record"]
    cases = work.path("c")
    with open(cases, "w") as f:
        f.write(json.dumps(rec) + "\n")
    obs = work.path("o")
    run_driver(drv, ["run", "cli"], cases, obs, env={"JP_BIN": jp})
    stats, rej = judge("tv/TV_Cli.tla", None, obs, work, chunks=1)
    o = json.loads(open(obs).read())
    print("argv:", [common.uncps(a) for a in o["argv"]])
    print("exit:", o["out"].get("exit"), "stdout:", repr(common.uncps(o["out"].get("stdout", []))), "stderr empty:", o["out"].get("stderr_empty"))
    if rej:
        print("spec expected:", json.dumps(rej[0]["exp"])[:500])
        print("VIOLATION property=%s replay=%s" % (prop, path))
        return 1
    print("accepted by the specification")
    return 0
