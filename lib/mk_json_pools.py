#!/usr/bin/env python3
"""Writes spec/gen/json_pools.ndjson: JSON texts (valid and invalid) as code-point arrays for the C08 judge (tv/TV_Json.tla decides
from the JSON reader of the specification what each denotes, or that it is not JSON).  Data only.

Families
  strtokens : several strings in one document, earlier ones ending in an escaped backslash / holding escaped quotes, later ones (and keys)
              holding what would be tokens outside a string (NaN, Infinity, null, true, numbers, brackets, colons, commas, comments):
              the contents of a string are never looked at as JSON
  bigobj    : objects with 20..65 members whose keys are written in scrambled, ascending or descending order and one key written twice
              or three times with different values at several distances (the last one written wins, whatever the number or the order
              of the members: a reader that sorts or batches members must keep their order of arrival)
  nonjson   : texts that other dialects accept and JSON does not (NaN, Infinity, comments, trailing commas, single quotes, hex, +1, .5)
"""
import itertools, json, os
cps = lambda s: [ord(c) for c in s]
VERIF = os.path.dirname(os.path.dirname(os.path.abspath(__file__)))
cases = []
def add(text):
    cases.append({"e": "json", "kind": "struct", "text": cps(text), "numerals": [], "classes": []})

firsts = ['a\\\\', '\\\\', 'a\\"', '\\\\\\"', 'a', 'C:\\\\', '\\\\\\\\srv\\\\share\\\\', 'say \\"', '\\u005c', 'q\\/']
seconds = ['NaN', 'Infinity', '-Infinity', 'null', 'true', '1e5', '[1]', '{\\"a\\":1}', ',', ':', '// c', '/* c */', 'to -Infinity and beyond', ']', '}', '0x10', "'s'", 'nan', 'undefined', '\\\\']
for a, b in itertools.product(firsts, seconds):
    add('["%s","%s"]' % (a, b))
    add('{"%s":1,"%s":2}' % (a, b))
    add('{"k":"%s","%s":"%s"}' % (a, b, b))
for a, b, c in itertools.product(firsts[:4], seconds[:4], firsts[:4]):
    add('[{"p":"%s"},{"s":["ok","%s","ok"]},"%s","%s"]' % (a, b, c, b))
for t in ['NaN', '[Infinity]', '{"a":-Infinity}', '[1,]', '{"a":1,}', "['a']", '0x10', '+1', '.5', '1.', '[1 2]', '{"a" 1}', '// c\n1', '/* c */ 1', 'nan', 'Infinity', '-NaN', '[NaN, 1]', 'undefined',
          '{a:1}', '"\t"', '"\\x41"', '01', '-', '[', ']', '{"a":}', '1e', '1e+', 'tru', 'True', 'NULL', '\ufeff1', '1\x0c', '\x0b1', '"a" "b"', '1 2', '{} {}', '[] []', '']:
    add(t)
# many containers in ONE document (whatever is counted while a document is read or converted is about depth, not about how many arrays or
# objects there are): 130 / 200 / 300 small arrays and objects side by side and in rows, well inside every depth limit
for n in (127, 128, 129, 130, 200, 300):
    add("[" + ",".join("[%d]" % (i % 10) for i in range(n)) + "]")
    add("[" + ",".join("{}" for i in range(n)) + "]")
    add('{"rows":[' + ",".join('{"k":[]}' for i in range(n)) + "]}")
    add("[" + ",".join("[[%d],[]]" % (i % 10) for i in range(n // 2)) + "]")
# characters that are invisible or that a tolerant reader might strip, INSIDE strings and keys (they are ordinary characters there) and in
# front of the document (where none of them is JSON)
for ch in ["\ufeff", "\u200b", "\u00ad", "\u2060", "\ufffe", "\u200e", "\u00a0", "\u2028", "\u2029", "\x7f", "\u0085", "\u2027", "\u202a"]:
    add('["a%sb"]' % ch)
    add('{"a%sb":1,"ab":2}' % ch)
    add('["%stail","head%s"]' % (ch, ch))
    add('{"%s":"%s"}' % (ch, ch))
    add(ch + '[1]')
    add('[1]' + ch)
# CR LF inside string values and keys, written raw-escaped and as \\u escapes, in both orders and doubled; the two Unicode separators together
for v in ["a\\r\\nb", "\\r\\n", "x\\u000d\\u000Ay", "\\r\\r\\n\\n", "\\n\\r", "line1\\r\\nline2\\r\\n", "\u2028\u2029", "\\u2029", "\u2029x\u2028"]:
    add('["%s"]' % v)
    add('{"v":"%s","%s":1}' % (v, v))
    add('{"a":{"b":["%s","%s"]}}' % (v, v))
# big objects with a repeated key (the last one written wins), keys in scrambled / ascending / descending order
for n in (20, 33, 34, 40, 65):
    for mul in (1, -1, 7, 11):
        order = [(i * abs(mul)) % n for i in range(n)] if abs(mul) > 1 else list(range(n))
        if len(set(order)) != n:
            order = [(i * 13 + 5) % n for i in range(n)] if len({(i * 13 + 5) % n for i in range(n)}) == n else list(range(n))
        if mul == -1:
            order.reverse()
        for (i, j) in ((0, 1), (0, n - 1), (n // 2, n // 2 + 1), (n // 3, 2 * n // 3), (n - 2, n - 1), (1, n // 2)):
            members = ['"k%03d":%d' % (k, k) for k in order]
            dup = order[i]
            members[i] = '"k%03d":"first"' % dup
            members.insert(j + 1, '"k%03d":"last"' % dup)
            add("{" + ",".join(members) + "}")
        members = ['"k%03d":%d' % (k, k) for k in order]
        dup = order[2]
        members[2] = '"k%03d":"first"' % dup
        members.insert(n // 2, '"k%03d":"middle"' % dup)
        members.append('"k%03d":"last"' % dup)
        add("{" + ",".join(members) + "}")
        add('{"rows":[{' + ",".join(members) + '}],"rows":"last"}')
out = os.path.join(VERIF, "spec", "gen", "json_pools.ndjson")
with open(out, "w") as f:
    for c in cases:
        f.write(json.dumps(c) + "\n")
print("wrote", out, len(cases))
