"""C07 — slices and indexes (also the arithmetic family of C05)."""
import json, os, subprocess
import common
from common import tlc, tlc_ok, tlc_must_fail, build_driver, run_driver, judge, ToolError, log

TIERS = {
    "quick":    dict(mc="MC_Slice_quick.cfg", small=5, maxlen=4, rand=15000),
    "thorough": dict(mc="MC_Slice_thorough.cfg", small=9, maxlen=6, rand=60000),
}


def generate(work, mode, out, env):
    e = {"MODE": mode, "OUT": out, "SMALL": "0", "MAXLEN": "0", "IN": out}
    e.update(env)
    r = tlc("gen/Gen_Slice.tla", "Gen.cfg", work, env=e, workers=1, timeout=1200)
    if r.rc != 0 or not os.path.exists(out):
        raise ToolError("Gen_Slice failed:\n" + r.tail())
    return common.count_lines(out)


def apalache(work, ev):
    """Unbounded part: Apalache over the whole i32 range and every array length (spec/apalache/SliceInt.tla):
    Init => IndInv, IndInv /\\ Next => IndInv' (so no overflow / out-of-bounds index ever), and the loop as found must fail."""
    d = os.path.join(common.SPEC, "apalache")
    outdir = work.path("apalache-out")
    runs = [("base: Init => IndInv", ["--cinit=ConstInit", "--inv=IndInv", "--length=0"], "NoError"),
            ("step: IndInv /\\ Next => IndInv'", ["--cinit=ConstInit", "--init=IndInit", "--inv=IndInv", "--length=1"], "NoError"),
            ("negative control: unchecked loop overflows", ["--cinit=ConstInitAsFound", "--inv=NoOverflow", "--length=3"], "Error")]
    res = []
    for label, args, want in runs:
        try:
            p = subprocess.run(["apalache-mc", "check", "--out-dir=" + outdir] + args + ["SliceInt.tla"], cwd=d, stdout=subprocess.PIPE,
                               stderr=subprocess.STDOUT, timeout=900)
        except subprocess.TimeoutExpired:
            raise ToolError("apalache timed out on " + label)
        out = p.stdout.decode("utf-8", "replace")
        got = "NoError" if "The outcome is: NoError" in out else ("Error" if "The outcome is: Error" in out else "?")
        if got != want:
            raise ToolError("apalache %s: expected %s, got %s\n%s" % (label, want, got, out[-1500:]))
        res.append({"obligation": label, "outcome": got})
        log("  APALACHE %-50s %s" % (label, got))
    ev.extra["apalache_inductive_invariant"] = {"module": "spec/apalache/SliceInt.tla", "domain": "start, stop, step over all of i32; len 0..2^31-1", "runs": res}
    ev.trusted.append("Apalache 0.58 (SMT-based) for the inductive invariant of the slice loop over the whole i32 range")


def conformance(prop, tier, seed, work, ev, drv):
    t = TIERS[tier]
    rejects = []
    # spec -> impl: every tuple of the boundary domain
    cases = work.path("slice.cases")
    n = generate(work, "enum", cases, {"SMALL": str(t["small"]), "MAXLEN": str(t["maxlen"])})
    obs = work.path("slice.obs")
    run_driver(drv, ["run", "slice"], cases, obs)
    stats, rej = judge("tv/TV_Slice.tla", None, obs, work)
    ev.add_judged("enumerated (len<=%d, |x|<=%d + i32 edges)" % (t["maxlen"], t["small"]), stats, rej, obs)
    rejects += rej
    # the slice in context: behind another projection, over rows of different lengths (judged through the evaluation model)
    import eng_eval
    ccases = work.path("slice.ctx.cases")
    generate(work, "context", ccases, {})
    rejects += eng_eval.run_and_judge("slice behind a projection over rows of different lengths", ccases, work, ev, drv, nsamples=1)
    rejects += eng_eval.pool_families(["litop", "twoslice", "msidx", "zeropad"], work, ev, drv)
    rejects += eng_eval.pools_matching(r"\[[^\]\[]*:[^\]\[]*\]|\[-?[0-9]+\]", "a slice or an index", work, ev, drv, skip=("litop", "twoslice", "msidx", "compose", "zeropad"))
    # impl -> spec: random larger tuples drawn by the driver, spelled and judged by TLC
    params = work.path("slice.params")
    subprocess.check_call([drv, "gen", "slice", str(seed), str(t["rand"]), params])
    rcases = work.path("slice.rcases")
    generate(work, "spell", rcases, {"IN": params})
    robs = work.path("slice.robs")
    run_driver(drv, ["run", "slice"], rcases, robs)
    stats, rej = judge("tv/TV_Slice.tla", None, robs, work)
    ev.add_judged("random (len<=60, whole i32 range)", stats, rej, robs)
    rejects += rej
    return rejects


def run(prop, tier, seed, work, ev):
    t = TIERS[tier]
    drv = build_driver()
    tlc_ok("mc/MC_Slice.tla", t["mc"], work, ev=ev, label="Slice L1|=L0 " + tier)
    tlc_must_fail("mc/MC_Slice.tla", "MC_Slice_neg.cfg", work, invariant="Inv_NoFail", ev=ev)
    tlc_must_fail("mc/MC_Slice.tla", "MC_Slice_neg_step0.cfg", work, invariant="Inv_Bounded", ev=ev)
    apalache(work, ev)
    ev.exhaustive = True
    ev.rule = ("cases: every (len,start,stop,step) of the enumerated boundary domain through `@[a:b:c]` and "
               "Variable::slice, every `@[n]`, non-array subjects, step 0; plus seeded random tuples over the whole "
               "i32 range. Non-trivial: a slice whose result has >= 2 elements.")
    ev.trusted.append("Slice.tla Level 0 (SelUp/SelDown comprehension) as the reading of the JMESPath slice rule")
    return conformance(prop, tier, seed, work, ev, drv)


def replay(prop, path, work):
    drv = build_driver()
    rec = json.load(open(path))["record"]
    cases = work.path("c")
    with open(cases, "w") as f:
        f.write(json.dumps(rec) + "\n")
    obs = work.path("o")
    run_driver(drv, ["run", "slice"], cases, obs)
    stats, rej = judge("tv/TV_Slice.tla", None, obs, work, chunks=1)
    o = json.loads(open(obs).read())
    print("observation:", json.dumps(o.get("out")))
    if rej:
        print("spec expected:", json.dumps(rej[0]["exp"]), "explained by:", rej[0]["expl"])
        print("VIOLATION property=%s replay=%s" % (prop, path))
        return 1
    print("accepted by the specification")
    return 0
