#!/usr/bin/env python3
"""Writes spec/gen/eval_pools.ndjson (+ .docs): hand-shaped expression texts as code-point arrays with their documents
(TLA+ has no string -> sequence conversion).  Only data: nothing here says what a case should evaluate to -- the judge
(tv/TV_Eval.tla) lexes each text with the Lexer model, takes the Level-0 tree and compares with Eval.

Families (field fam)
  confuse : texts that coincide under a plausible normalisation (white-space runs, trimming, letter case, Unicode blanks)
            but mean different things, each evaluated twice in both orders inside ONE process -- a result must not depend
            on what was compiled or searched before (C01, C13)
  bool    : every boolean formula of depth <= 2 over seven atoms (ordering comparisons with a non-number operand among
            them) under ! && || and parentheses, also as a filter predicate (C01, C10, C11)
  inflate : nested projections whose inner subject is a temporary built per element ({k: E}.k, [E][0], to_array(E) ...),
            over records whose inner arrays cross the sizes 8, 16, 21, 64 (C01, C11)
  hash    : multi-select hashes with keys out of order / repeated / non-ASCII, at the head, after a dot, a pipe and inside projections,
            followed by every kind of continuation (C01, C04)
  nest    : by-functions and map inside the expression reference of a by-function (state carried within one evaluation) (C02, C05)
  compose : every built-in applied to what the any-typed built-ins pass through, expression references in containers included (C05, C06)
  errpair : two failing sub-expressions under every binary construct, each with a succeeding partner too: which failure is reported (C01, C06)
  deep    : every nesting constructor at depths 1..8 on a document nested to match (C01)
  keyword : field names spelled true / false / null / and / or / not / in, in every operand position (C01, C03)
  litop   : every postfix operator, comparison and call applied directly to a literal operand (C01, C03, C07)
  mapnull / nested / twins / twoslice / cmpchain / absent / litpost / notgroup / selfnest / keyorder / msidx / foldlit / digitkeys :
            round 6 (see the comments at each block below)
  bigsigns: negative integers against integers above 2^63 - 1, numbers below -2^63 and beyond 2^64 under floor / ceil / abs and the
            sorting functions (round 9; C01, C02, C10)
  alias   : the same document node reached twice (both operands of a comparison, two arguments of a call) (C01, C10, C06)
"""
import itertools, json, os, sys
sys.path.insert(0, os.path.dirname(os.path.abspath(__file__)))
from common import to_tagged, cps
VERIF = os.path.dirname(os.path.dirname(os.path.abspath(__file__)))

docs, cases = [], []


def doc_index(d):
    t = to_tagged(d)
    for i, x in enumerate(docs):
        if x == t:
            return i + 1
    docs.append(t)
    return len(docs)


def add(fam, text, d, span=None):
    c = {"e": "eval", "fam": fam, "text": cps(text), "d": doc_index(d)}      # (d = None: the null document)
    if span:
        c["span"] = list(span)          # [lo, hi): character offsets of the sub-expression whose failure is the one to be reported
    cases.append(c)


def add2(fam, template, x, y, d, failing):
    """template with two %s; `failing` says which of x / y fail: the span of the FIRST failing one (in written = evaluation order) goes along"""
    i = template.index("%s")
    j = template.index("%s", i + 2) - 2 + len(x)
    text = template % (x, y)
    span = (i, i + len(x)) if failing[0] else ((j, j + len(y)) if failing[1] else None)
    add(fam, text, d, span)


# ---------------------------------------------------------------- confuse
keys = ["a b", "a  b", "a\tb", " a b", "a b ", "A B", "a\u00a0b", "a\u3000b", "a\nb", "ab", "a   b", "a \t b"]
cdoc = {k: i + 1 for i, k in enumerate(keys)}
cdoc["s"] = ["a b", "a  b", "A B"]
jq = lambda s: json.dumps(s, ensure_ascii=False)
ctexts = []
for k in keys:
    ctexts.append(jq(k))                                   # quoted identifier
    if "\t" not in k and "\n" not in k:
        ctexts.append("'%s'" % k)                          # raw string
        ctexts.append("length('%s')" % k)
    else:
        ctexts.append("'%s'" % k)                          # raw strings may hold raw control characters
    ctexts.append("`%s`" % jq(k))                          # JSON literal
    ctexts.append("contains(s, '%s')" % k) if "\t" not in k and "\n" not in k else None
    ctexts.append("{%s: %s}" % (jq(k), jq(k)))             # multi-select hash key and value
ctexts += ["`[1, 2]`", "`[1,2]`", "`[1,  2]`", "`{\"a b\": 1}`", "`{\"a  b\": 1}`", "`\"a b\"` == 'a b'", "`\"a b\"` == 'a  b'",
           "\"a b\" < \"a  b\"", "\"a  b\" < \"a b\"", " \"a b\"", "\"a b\" ", "\"a b\"  ||  \"a  b\"", "\"a  b\" || \"a b\"",
           "\"A B\"", "\"a B\"", "'A B'", "'a B'", "s[?@ == 'a b']", "s[?@ == 'a  b']", "s[?@ == 'A B']"]
for t in ctexts + list(reversed(ctexts)):
    add("confuse", t, cdoc)

# ---------------------------------------------------------------- bool
bdoc = {"s": "x", "n": 1, "m": 2, "t": True, "f": False, "e": "", "l": [1], "rows": [{"age": 70, "ok": True}, {"age": "n/a", "ok": True}, {"age": 30, "ok": False}, {"ok": True}]}
atoms = ["s < n", "n < m", "m < n", "t", "f", "z", "n == n", "s >= s", "z <= n", "e"]
f1 = atoms + ["!(%s)" % a for a in atoms[:7]] + ["!%s" % a for a in ("t", "f", "z")]
f2 = []
for x, y in itertools.product(f1[:14], repeat=2):
    f2.append("(%s) && (%s)" % (x, y))
    f2.append("(%s) || (%s)" % (x, y))
for f in f1 + f2:
    add("bool", f, bdoc)
for f in f2:
    add("bool", "!(%s)" % f, bdoc)
for x, y in itertools.product(atoms[:7], repeat=2):       # without the inner parentheses: precedence decides
    add("bool", "!(%s && %s)" % (x, y), bdoc)
    add("bool", "!(%s || %s)" % (x, y), bdoc)
    add("bool", "!%s && %s" % ("t" if x == "t" else "f", y), bdoc)
ratoms = ["age < `65`", "age >= `65`", "ok", "age == `70`", "!ok", "age", "age <= `70`", "age > `18`"]
for x, y in itertools.product(ratoms, repeat=2):
    for shape in ("rows[?%s && %s].age", "rows[?!(%s && %s)].age", "rows[?!(%s || %s)].age", "rows[?!(%s) || %s].age", "rows[?(%s) || !(%s)].age"):
        add("bool", shape % (x, y), bdoc)

# ---------------------------------------------------------------- inflate
def rec(i, j):
    return {"z": (i * 100 + j) if j % 5 else None if j % 10 == 0 else "s%d" % j, "y": j % 3}


def idoc(sizes):
    return {"x": [{"a": [rec(i, j) for j in range(n)], "b": i} for i, n in enumerate(sizes)] + [{"b": 99}]}


wraps = ["{k: %s}.k", "[%s][0]", "values({k: %s})[0]", "to_array(%s)", "not_null(%s)", "reverse(reverse(%s))", "%s[:]", "merge({k: %s}).k", "%s",
         "sort_by(%s, &y)", "map(&@, %s)", "[%s, %s][1]", "{k: {j: %s}}.k.j"]
outer = ["x[*].", "x[].", "x[?a].", "x[:].", "x[?b < `50`].", "map(&"]
inner = ["[*].z", "[].z", "[?z].z", "[::1].z", "[*].[z, y]", "[?y == `1`].{z: z}"]
sizes = [(8, 9, 1), (16, 17, 2), (3, 70, 21), (1, 1, 1), (9, 8, 8), (65, 64, 0)]
for sz in sizes:
    d = idoc(sz)
    for o, w, p in itertools.product(outer, wraps, inner):
        if w.startswith("[") and not o.startswith("map"):
            continue                     # `x[*].[a][0]` is the recorded finding F15 (C04); the temporary is reached through map(&...) instead
        e = w.replace("%s", "a")
        t = (o + e + p + ", x)") if o.startswith("map") else (o + e + p)
        add("inflate", t, d)

# ---------------------------------------------------------------- alias
adoc = {"s": "x", "n": 1, "l": [1, 2], "o": {"k": {"v": "w"}}, "z": None, "b": True, "rows": [{"name": "p", "n": 1}, {"name": 2, "n": 2}],
        "big": ["s%d" % (i % 7) for i in range(16)], "bign": [(i * 7) % 11 for i in range(17)]}
ops = ["==", "!=", "<", "<=", ">", ">="]
for path in ["s", "n", "l", "o", "z", "b", "o.k.v", "l[0]", "missing", "@", "rows[0]", "big", "big[3]"]:
    for op in ops:
        add("alias", "%s %s %s" % (path, op, path), adoc)
        add("alias", "[%s, %s][0] %s [%s][0]" % (path, path, op, path), adoc)
for op in ops:
    add("alias", "rows[?name %s name]" % op, adoc)
    add("alias", "rows[?@ %s @]" % op, adoc)
    add("alias", "rows[*].[n %s n, name %s name]" % (op, op), adoc)
    add("alias", "o.k.[v %s v, @ %s @]" % (op, op), adoc)
fns = ["max", "min", "sort", "sum", "avg", "length", "reverse", "to_array", "join(',', %s)", "to_string", "type", "not_null"]
call = lambda f, a: (f % a) if "%s" in f else "%s(%s)" % (f, a)
for f, g in itertools.product(fns, repeat=2):
    for a in ("big", "bign", "l"):
        add("alias", "[%s, %s]" % (call(f, a), call(g, a)), adoc)
for a in ("big", "bign"):
    add("alias", "contains(%s, %s[0])" % (a, a), adoc)
    add("alias", "[%s == %s, %s[?@ == %s[0]]]" % (a, a, a, a), adoc)

# ---------------------------------------------------------------- hash
# multi-select hashes: keys written out of order, repeated keys, non-ASCII keys -- the result is an object (members by key, the last
# repeated key wins), whatever follows it
hdoc = {"first": "Ada", "last": "Lovelace", "born": 1815, "x": {"first": 1, "last": 2, "born": 3}, "xs": [{"first": "a", "last": "b", "born": 1}, {"first": "c", "last": None, "born": 2}]}
hashes = ["{z: first, m: last, a: born}", "{a: first, a: last}", "{b: first, a: last}", "{a: first, b: last, a: born}", "{\"é\": first, e: last, z: born, Z: first}",
          "{k: first}", "{b: born, a: {d: last, c: first}}", "{z: first, a: missing}", "{c: first, b: last, c: born, a: first, b: born}"]
for h in hashes:
    for t in ["%s", "%s.*", "%s | *", "x.%s", "x.%s.*", "xs[*].%s", "xs[*].%s.*", "xs[].%s.* | [0]", "(%s).*", "%s.* | [0]", "keys(%s)", "values(%s)", "%s | keys(@)",
              "%s | values(@)", "%s.a", "%s.z", "xs[?born > `1`].%s.*", "[%s, %s]", "%s.*[0]", "length(%s)", "merge(%s, {a: `0`})", "to_array(%s)[0].*", "map(&%s.*, xs)",
              "xs[*].%s | [0].*", "!%s", "%s == %s", "sort_by(xs, &born)[*].%s.*", "not_null(%s).*", "%s || first", "%s && first"]:
        add("hash", t.replace("%s", h), hdoc)

# ---------------------------------------------------------------- nest
# a by-function (or map) inside the expression reference of a by-function: the inner call must not disturb the outer one
def groups(sizes, seed):
    return {"g": [{"id": i, "m": [{"k": ((i * 7 + j * 5 + seed) % 11), "j": j} for j in range(n)]} for i, n in enumerate(sizes)]}
byf = ["sort_by", "max_by", "min_by"]
for sizes in [(2, 2, 2, 2), (1, 3, 2, 1, 2), (3, 1), (2, 2, 2, 2, 2, 2, 2), (1,), (4, 1, 1, 1, 1, 1)]:
    d = groups(sizes, len(sizes))
    for f, g in itertools.product(byf, byf):
        inner = "%s(m, &k)" % g
        key = inner + ("[0].k" if g == "sort_by" else ".k")
        add("nest", "%s(g, &%s)" % (f, key) + ("[*].id" if f == "sort_by" else ".id"), d)
        add("nest", "%s(g, &%s)" % (f, key), d)
    add("nest", "sort_by(g, &sum(map(&k, sort_by(m, &j))))[*].id", d)
    add("nest", "map(&sort_by(m, &k)[*].j, sort_by(g, &length(m)))", d)
    add("nest", "sort_by(g, &map(&k, sort_by(m, &k))[0])[*].id", d)
    add("nest", "sort_by(g, &sort_by(sort_by(m, &j), &k)[-1].k)[*].id", d)
    add("nest", "g[*].sort_by(m, &k)[0].j", d)
    add("nest", "max_by(g, &length(sort_by(m, &k))).id", d)

# ---------------------------------------------------------------- compose
# every built-in on what the any-typed built-ins pass through, expression references inside containers among it: totality (C05) --
# and the value wherever the specification determines it
cdoc2 = {"foo": [1, 2], "s": "x", "n": -1.5, "o": {"a": 1}, "z": None}
leaves = ["foo", "s", "n", "o", "z", "&foo", "&foo[0]", "`1`", "'x'", "@"]
wrap = ["%s", "to_array(%s)", "not_null(%s)", "[%s]", "{k: %s}", "[not_null(%s), `1`]", "map(&@, to_array(%s))", "to_array(to_array(%s))", "not_null(z, %s)", "{k: [%s]}.k"]
one = ["abs", "avg", "ceil", "floor", "keys", "length", "max", "min", "not_null", "reverse", "sort", "sum", "to_array", "to_number", "to_string", "type", "values", "merge"]
two = ["contains", "ends_with", "starts_with", "join", "map", "max_by", "min_by", "sort_by", "merge", "not_null"]
args1 = [w % l if "%s" in w else w for w in wrap for l in leaves]
for f in one:
    for a in args1:
        add("compose", "%s(%s)" % (f, a), cdoc2)
small = [w % l for w in wrap[:5] for l in ("foo", "s", "&foo", "o")]
for f in two:
    for a, b in itertools.product(small, repeat=2):
        add("compose", "%s(%s, %s)" % (f, a, b), cdoc2)
for a in args1:
    add("compose", "foo[*].to_string([@, %s])" % a, cdoc2)
    add("compose", "%s == %s" % (a, a), cdoc2)

# ---------------------------------------------------------------- errpair
# two failing sub-expressions in one expression: evaluation is left to right and the FIRST failure is the one reported (short-circuit
# operators skip the right side; arguments are evaluated before the call is looked up and validated)
edoc = {"a": [1, 2], "s": "x", "n": 1, "t": True, "f": False, "z": None}
fails = ["abs(s)", "abs()", "nosuch(n)", "a[::0]", "length(n)", "keys(a)", "sum(s)", "abs(n, n)", "abs(s, n)", "starts_with(n)", "map(@)", "length(n, s)", "join(a)", "sort_by(s)", "contains(n, n, n)"]
oks = ["n", "z", "t", "f", "s", "a", "abs(n)"]
ctx = ["%s || %s", "%s && %s", "%s == %s", "%s | %s", "[%s, %s]", "{x: %s, y: %s}", "not_null(%s, %s)", "%s < %s", "a[?%s].x || %s", "!%s || %s",
       "nosuch(%s, %s)", "abs(%s, %s)", "contains(%s, %s)", "a[*].[%s, %s]", "map(&%s, a) || %s", "sort_by(a, &%s) || %s", "(%s).x || %s", "%s.x.y && %s"]
SHORT = ("%s || %s", "%s && %s", "!%s || %s", "a[?%s].x || %s", "%s.x.y && %s", "(%s).x || %s", "map(&%s, a) || %s", "sort_by(a, &%s) || %s")   # the right side may not run at all
for c in ctx:
    for x, y in itertools.product(fails[:6], fails[:6]):
        add2("errpair", c, x, y, edoc, (True, True))
    for x in fails:
        for y in oks:
            add2("errpair", c, x, y, edoc, (True, False))
            if c in SHORT or c.startswith("a[*]"):      # (inside a projection the 'succeeding' partner is evaluated on the elements, where it may fail)
                add("errpair", c % (y, x), edoc)
            else:
                add2("errpair", c, y, x, edoc, (False, True))

# ---------------------------------------------------------------- deep
# every nesting constructor at depths 1..8 with a document nested to match: the value, not only termination
def deepdoc(d):
    v = 1
    for _ in range(d):
        v = {"a": [v, None], "b": v if not isinstance(v, int) else 2}
    return v
for d in range(1, 9):
    dd = deepdoc(8)
    forms = {"paren": "(" * d + "a" + ")" * d, "not": "!" * d + "a", "dot": "a" + "[0].a" * (d - 1), "index": "a" + "[0].a[0]" * (d - 1) if d < 5 else "a[0]",
             "star": "a" + "[*].a" * (d - 1) + "[*]", "flat": "a" + "[]" * d, "list": "[" * d + "a" + "]" * d, "hash": "{a: " * d + "a" + "}" * d,
             "pipe": "a" + " | [0].a" * (d - 1), "or": "z" + " || z" * (d - 1) + " || b", "and": "a" + " && a" * (d - 1) + " && b.b",
             "call": "not_null(" * d + "a[1]" + ", `%d`)" % d * 1 + ")" * (d - 1), "filter": "a" + "[?a]" * d, "vals": "@" + ".*" * d,
             "expref": "map(&" * d + "a" + ", @)" * 1 + ", to_array(@))" * (d - 1), "cmp": "a" + " == a" * d, "slice": "a" + "[:1]" * d,
             "mixed": "a" + ("[*].a[0] | [?a].b" * d)[: 17 * d]}
    for k, t in forms.items():
        add("deep", t, dd)

# ---------------------------------------------------------------- keyword
# identifiers spelled like the keywords of other languages are ordinary field names in every position
kdoc = {"true": 1, "false": 0, "null": "n", "and": [1], "or": {"not": 2}, "not": None, "x": True, "y": None, "c": 1, "in": "i", "items": [{"on": True, "true": 1}, {"on": 1, "true": True}, {"on": None}]}
for w in ("true", "false", "null", "and", "or", "not", "in"):
    for t in ["%s", "x == %s", "%s == x", "c == %s", "%s == c", "y == %s", "[%s, x]", "{k: %s}", "%s || x", "x || %s", "!%s", "%s.not", "items[?on == %s]", "items[?%s == on]",
              "items[*].%s", "%s[0]", "not_null(%s)", "%s != %s", "x && %s", "%s | [@]", "items[?on == %s].on | [0]", "(%s)", "x < %s", "%s >= c", "length(to_array(%s))",
              "items[?%s]", "items[*].[on == %s]"]:
        add("keyword", t.replace("%s", w), kdoc)

# ---------------------------------------------------------------- litop
# every postfix operator, comparison and a few calls applied directly to a literal operand (nothing may be decided at parse time
# differently from what a search decides)
lits = ["`[10, 20, 30]`", "`{\"a\": 1, \"b\": [1, 2]}`", "`\"abc\"`", "`1`", "`null`", "`true`", "`[]`", "`[[1, 2], [3, 4]]`", "'raw'", "`[null, 0, \"\"]`", "`{}`", "`-1.5`"]
posts = ["[0]", "[-1]", "[-2]", "[5]", "[-5]", "[::0]", "[1:]", "[::-1]", "[:-1]", "[-9:2]", ".a", ".b[0]", "[*]", "[]", "[?@]", "[?!@]", ".*", " | [0]", " | [-1]", " == `1`", " < `2`", " || `0`",
         " && `0`", "[0][0]", "[-1][-1]", "[*][0]", "[1:][0]", "[::0].a", "[-1] == `30`", ".a == `1`", "[0:0]", "[3:1:-1]", "[-1:]", "[:1][-1]"]
for l, q in itertools.product(lits, posts):
    add("litop", l + q, {"a": 1})
    add("litop", "(" + l + ")" + q, {"a": 1})
for l in lits:
    for t in ["length(%s)", "type(%s)", "to_string(%s)", "to_array(%s)[-1]", "not_null(%s)", "!%s", "%s == %s", "[%s][0]", "{k: %s}.k", "a || %s", "reverse(%s)", "keys(%s)", "abs(%s)",
              "foo[?@ == %s[-1]]", "max(%s)", "sort(%s)[-1]", "%s | @[-1]", "contains(%s, `1`)", "join(',', %s)"]:
        add("litop", t.replace("%s", l), {"a": 1, "foo": [30, 4, [3, 4], "c"]})


# ================================================================ round 6 families
OPS = ["==", "!=", "<", "<=", ">", ">="]
# ---------------------------------------------------------------- mapnull
# expression references whose body does not read its input (literals, multi-selects of literals) or reads it trivially, applied by map /
# projections / by-functions over arrays with null and non-null elements at every position: a multi-select on null IS null, a literal is not
mdocs = [[1, None, 2], [None, 7], [None], [{"k": 1}, None, "x"], [None, True, None], [[1], None, {"k": None}], [], [0, "", None, [], {}], [1, None, [None, "a"]], [[None], None, True],
         [[[1]], None, [[2]]]]
bodies = ["`1`", "[`1`]", "{k: `1`}", "[`3`, `4`][1]", "{k: `\"v\"`, n: length(`\"ab\"`)}", "[`1`, @]", "@", "k", "[k]", "{x: k}", "[@]", "`null`", "'s'", "[`1`][0]", "[]", "*",
          "[*]", "!@", "@ == `null`", "type(@)", "not_null(@, `0`)", "[`1`] | [0]", "`[1]`[0]", "[`1`][*]", "{k: `1`}.k", "[`1`] || `2`", "`1` && [`1`]", "(@ || `1`) && [`2`]"]
for d in mdocs:
    for b in bodies:
        add("mapnull", "map(&%s, @)" % b, d)
        # (a multi-select list after a dot that is stepped into again is known finding F15's form: through map only)
        add("mapnull", "[*].%s" % b if not b.startswith(("`", "'", "!", "@", "(")) and "][" not in b else "[*] | map(&%s, @)" % b, d)
    # the same through a flatten projection, whose right-hand side sees null elements too (nested ones after the splice)
    for b in ["type(@)", "to_string(@)", "not_null(@, 'dflt')", "[@]", "{k: @}", "k", "@", "[`1`]", "length(to_array(@))", "@ == `null`"]:
        add("mapnull", "[].%s" % b if not b.startswith("@") else "[] | map(&%s, @)" % b, d)
        add("mapnull", "[[@, `null`], @][].%s" % b if not b.startswith("@") else "[[@, `null`], @][] | map(&%s, @)" % b, d)
        add("mapnull", "length([].%s)" % b if not b.startswith("@") else "length([])", d)
    for b in ["`1`", "'s'", "[`1`][0]", "{k: `1`}.k", "[`1`]", "`null`", "length([`1`, @])", "type(@)", "@ == `null` && `0` || `1`"]:
        for f in ("sort_by", "max_by", "min_by"):
            add("mapnull", "%s(@, &%s)" % (f, b), d)
# ---------------------------------------------------------------- nested
# shallow versus deep: every container built-in and flatten on values whose members are containers themselves (merge replaces, flatten
# removes ONE level and drops empty nested lists, contains / == compare deeply)
ndoc = {"a": {"k": {"x": 1}}, "b": {"k": {"y": 2}}, "c": {"k": {}}, "d": {"k": [1]}, "e": {"k": None, "j": {"x": {"y": 1}}}, "l": [[1, [2]], [3], [], [[]]],
        "m": [[], 1, []], "n": [[], []], "o": [[[]], "x"], "rows": [{"id": 1, "tags": []}, {"id": 2, "tags": []}, {"id": 3}], "p": [[1, 2], [1, 2]],
        "q": [{"k": [1]}, {"k": [1]}], "g": [{"m": [{"k": 1}]}, {"m": [{"k": 2}]}], "w": {"p": {"q": {"r": 1, "s": 2}}, "t": 0}, "u": {"t": 1}, "v": {"p": {"q": {"s": 3}}}}
ntexts = ["merge(a, b)", "merge(b, a)", "merge(a, b, c)", "merge(a, c)", "merge(c, a)", "merge(a, d)", "merge(d, a)", "merge(a, e)", "merge(e, a)", "merge(a, b).k", "merge(a, b, a)",
          "values(merge(a, b))", "keys(merge(a, b).k)", "merge(w, u, v)", "merge(v, u, w)", "merge(w, v).p.q", "keys(merge(w, v).p.q)", "merge(e, e.j)", "merge(a, a.k, b.k)",
          "l[]", "l[][]", "l[][][]", "m[]", "n[]", "o[]", "o[][]", "rows[*].tags[]", "rows[*].tags[] || 'none'", "!(rows[*].tags[])", "rows[*].tags", "rows[].tags[]", "g[].m[?k == `3`][]",
          "g[].m[?k == `1`][]", "contains(l, `[3]`)", "contains(l, `[]`)", "contains(l, `[[]]`)", "contains(p, `[1, 2]`)", "contains(p, `[2, 1]`)", "reverse(l)", "to_array(l)", "to_array(a)",
          "length(l)", "length(a)", "not_null(c.z, l)", "l == l", "p[0] == p[1]", "q[0] == q[1]", "values(a)", "values(e)", "keys(e)", "max_by(q, &k[0])", "map(&k, q)", "l[*][]", "l[*][0]",
          "[l, m][]", "[l, m][][]", "type(l[0])", "[m, n][*][]", "m[] | length(@)", "n[] == `[]`", "[n][]", "[n][][]", "[[n]][][][]", "{x: n}.x[]", "n[*]", "m[?@ == `[]`]", "m[?@ == `[]`][]",
          "sort_by(q, &k[0])", "to_string(n)", "to_string(merge(a, b))", "a == b", "a.k == b.k", "merge(a, b) == b", "merge(`{}`, a) == a"]
for t in ntexts:
    add("nested", t, ndoc)
# ---------------------------------------------------------------- twins
# the same text between different delimiters in ONE expression: a raw string 'T', a JSON literal `T`, a quoted identifier "T" are three
# different things, in either order
for T in ["1", "null", "true", "0.5", "[1, 2]", "{}", '"a"', '""', "-1"]:
    raw, lit = "'%s'" % T, "`%s`" % T
    simple = '"' not in T
    qid = '"%s"' % T if simple else None
    tdoc = {T: "field"} if simple else {"k": 1}
    forms = ["[%s, %s]" % (raw, lit), "[%s, %s]" % (lit, raw), "%s == %s" % (raw, lit), "%s == %s" % (lit, raw), "{a: %s, b: %s}" % (raw, lit), "{a: %s, b: %s}" % (lit, raw),
             "[%s, %s, %s]" % (raw, raw, lit), "[%s, %s, %s]" % (lit, raw, lit), "contains([%s], %s)" % (raw, lit), "[type(%s), type(%s)]" % (raw, lit), "%s | [@, %s]" % (raw, lit),
             "[%s][?@ == %s]" % (lit, raw), "[%s, %s] | [1]" % (raw, lit), "[%s, %s] | [1]" % (lit, raw)]
    if qid:
        forms += ["[%s, %s, %s]" % (qid, raw, lit), "[%s, %s, %s]" % (lit, raw, qid), "[%s, %s]" % (raw, qid), "{a: %s, b: %s, c: %s}" % (raw, qid, lit), "%s == %s" % (qid, raw)]
    for t in forms:
        add("twins", t, tdoc)
# ---------------------------------------------------------------- twoslice
# two or three slices in one expression with every combination of explicit / omitted parts (nothing of one slice belongs to another), and
# slices with an omitted start directly behind every kind of projection
sdoc = {"foo": list(range(10)), "rows": [[1, 2, 3], [4, 5], [6, 7, 8, 9]], "recs": [{"k": 1, "v": [1, 2]}, {"v": [3]}, {"k": 2, "v": [4, 5, 6]}], "obj": {"a": [1, 2, 3], "b": [4]}}
S1 = ["[::-1]", "[::2]", "[::3]", "[1::2]", "[:5:2]", "[::-2]", "[8:2:-3]", "[2:8:1]", "[:4]"]
S2 = ["[:3]", "[1:3]", "[:]", "[1:]", "[::]", "[2:]", "[:-1]", "[-2:]", "[0:2:]", "[::1]"]
for a, b in itertools.product(S1, S2):
    for sh in ["foo%s | @%s", "foo%s%s", "{a: foo%s, b: foo%s}", "[foo%s, foo%s]", "foo%s | @%s | @[::-1]"]:
        add("twoslice", sh % (a, b), sdoc)
        add("twoslice", sh % (b, a), sdoc)
for P in ["rows[*]", "rows[]", "rows[1:]", "recs[?k].v", "obj.*", "[rows, rows][]", "rows[*][*]", "rows[::-1]", "recs[*].v", "rows[?@[2]]"]:
    for S in ["[:2]", "[::-1]", "[:1]", "[::]", "[:]", "[:-1]", "[::2]", "[0:2]", "[-2:]", "[1::2]", "[:2][:1]", "[::-1][:1]", "[:1][0]", "[::0]"]:
        add("twoslice", P + S, sdoc)
# ---------------------------------------------------------------- cmpchain
# two comparators side by side without parentheses: all six have ONE binding power and associate to the left
cdoc3 = {"t": True, "one": 1, "two": 2, "f": False, "n": None, "s": "a", "rows": [{"a": True, "b": 1, "c": 2}, {"a": 1, "b": 1, "c": True}, {"a": False, "b": 2, "c": 1}]}
for o1, o2 in itertools.product(OPS, OPS):
    for x, y, z in [("t", "one", "two"), ("one", "one", "two"), ("`1`", "`1`", "`2`"), ("two", "one", "t"), ("one", "two", "two"), ("n", "one", "n"), ("f", "two", "one")]:
        add("cmpchain", "%s %s %s %s %s" % (x, o1, y, o2, z), cdoc3)
    add("cmpchain", "rows[?a %s b %s c]" % (o1, o2), cdoc3)
    add("cmpchain", "rows[*].[a %s b %s c]" % (o1, o2), cdoc3)
    add("cmpchain", "one %s two && two %s one || t %s f" % (o1, o2, o1), cdoc3)
# ---------------------------------------------------------------- absent
# filter predicates `field OP literal` over arrays that mix objects with the key, with an explicit null, without the key, and
# elements that are not objects at all: a missing field is null, and null != x / null == null hold
adoc2 = {"rows": [{"id": 1, "k": 1}, {"id": 2, "k": 2}, {"id": 3, "k": None}, {"id": 4}, 7, "x", None, [1], False, 0, {}], "xs": [[1, 2], {"a": 1, "b": 2}, "s", {"a": 3, "b": 3}, {}]}
for op in OPS:
    for lit in ["`1`", "`null`", "'x'", "`2`", "`false`", "`0`", "zz", "id"]:
        for sh in ["rows[?k %s %s]", "rows[?%s %s k]", "rows[?k %s %s].id", "rows[?@.k %s %s]", "rows[?k %s %s] | [0]", "rows[?!(k %s %s)]", "rows[?k %s %s || id]", "rows[*].[k %s %s]"]:
            t = sh % ((lit, op) if sh.startswith("rows[?%s") else (op, lit))
            add("absent", t, adoc2)
    add("absent", "xs[?a %s b]" % op, adoc2)
    add("absent", "xs[?a %s b] | [0]" % op, adoc2)
# ---------------------------------------------------------------- litpost
# a literal as the RIGHT operand of a comparator (and of || / &&) followed by every postfix operator: the operator belongs to the literal
ldoc2 = {"a": 7, "b": [7, 8], "s": "xyz", "c": None, "rows": [{"v": 7, "n": "seven"}, {"v": 8, "n": "eight"}]}
lits2 = ["`[7, 8]`", "`{\"k\": 7}`", "`[[7], [8]]`", "`[{\"k\":7},{\"k\":8}]`", "'xyz'", "`7`"]
posts2 = ["[0]", "[1]", "[-1]", ".k", "[]", "[*].k", "[?@ < `9`]", "[:1]", ".*", ".[k]", ".{x: k}", "[*]", "[0][0]", "[] | [0]"]
for op in OPS + ["||", "&&"]:
    for l, q in itertools.product(lits2, posts2):
        add("litpost", "a %s %s%s" % (op, l, q), ldoc2)
    for l, q in itertools.product(lits2[:4], posts2[:6]):
        add("litpost", "c || a %s %s%s" % (op, l, q), ldoc2)
        add("litpost", "rows[?v %s %s%s].n" % (op, l, q), ldoc2)
        add("litpost", "b %s %s%s" % (op, l, q), ldoc2)
# ---------------------------------------------------------------- notgroup
# a parenthesised group as the (start of the) operand of every prefix / infix context, followed by every step: `!` binds tighter than
# `.`, `[?`, `[]` and looser than `[n]`, `[*]`
gdoc = {"a": {"b": False, "k": [1]}, "z": None, "list": [{"k": 1, "b": True}, {"k": None}, [2]], "rows": [{"x": {"on": False}, "y": None, "n": "first"}, {"x": None, "y": {"on": True}, "n": "second"}]}
groups2 = ["(a)", "(a || z)", "(list)", "(rows[0].x)", "((a))", "(z || list)"]
steps = [".b", ".*", ".{x: b}", ".[b]", "[?k]", "[]", "[0]", "[*].k", "[:1]", " | b", ".b == `null`", "[-1]", ".k[0]", "[?k].b"]
ctxs = ["!%s", "!!%s", "z || %s", "z == %s", "%s == z", "[%s]", "{k: %s}", "z | %s", "not_null(%s)", "!%s || 'fallback'", "`1` < %s", "a && %s", "!%s == `null`"]
for c, g, st in itertools.product(ctxs, groups2, steps):
    add("notgroup", c % (g + st), gdoc)
for t in ["rows[*].[!(x).on]", "rows[?!(x || y).on].n", "rows[?!(x).on].n", "rows[*].!(x).on", "rows[?(x || y).on].n", "sort_by(rows, &!(x).on)"]:
    add("notgroup", t, gdoc)
# ---------------------------------------------------------------- selfnest
# a call as an argument of a call of the SAME function, with zero, one and two arguments: nothing is spliced, every call is checked by itself
BUILTINS = ["abs", "avg", "ceil", "contains", "ends_with", "floor", "join", "keys", "length", "map", "max", "max_by", "merge", "min", "min_by", "not_null", "reverse", "sort",
            "sort_by", "starts_with", "sum", "to_array", "to_number", "to_string", "type", "values"]
sndoc = {"a": {}, "b": {"x": 1}, "n": [1, 2], "s": "ab"}
for f in BUILTINS:
    for sh in ["%s(%s())", "%s(%s(), @)", "%s(@, %s())", "%s(%s(@))", "%s(%s(@), @)", "%s(@, %s(@))", "%s(a, %s(b, %s()))", "%s(%s(a, b), a)", "%s(n, %s(n))", "%s(%s(s), s)"]:
        add("selfnest", sh.replace("%s", f), sndoc)
# ---------------------------------------------------------------- keyorder
# two failing members of one multi-select hash with keys NOT in ascending order (the one written first is reported), also lists
for x, y in itertools.product(fails[:6], fails[:6]):
    for sh in ["{y: %s, x: %s}", "{b: %s, a: %s, c: n}", "{zeta: %s, alpha: %s}", '{"é": %s, B: %s}', "{a: %s, B: %s}.x", "a[*].{n: %s, first: %s}", "n | {y: %s, x: %s}", "{k: {y: %s, x: %s}}",
               "{b: n, a: %s, B: %s}"]:
        add2("keyorder", sh, x, y, edoc, (True, True))
for x in fails:
    for y in oks:
        add2("keyorder", "{y: %s, x: %s}", x, y, edoc, (True, False))
        add2("keyorder", "{y: %s, x: %s}", y, x, edoc, (False, True))
# ---------------------------------------------------------------- msidx
# a multi-select list / hash that is indexed or stepped into at once, with indexes beyond its arity in both directions; members not
# selected are still evaluated (their failures are reported)
xdoc = {"a": 1, "b": 2, "c": [3, 4]}
for L in ["[a]", "[a, b]", "[a, b, c]", "[a, nosuch(@)]", "[nosuch(@), a]", "[c, c][1]", "[@, `0`, 'x']"]:
    for i in [-5, -4, -3, -2, -1, 0, 1, 2, 3, 4, -2147483648, 2147483647, -2147483647]:
        add("msidx", "%s[%d]" % (L, i), xdoc)
        add("msidx", "%s[%d] || 'none'" % (L, i), xdoc)
    for sl in ["[-9:]", "[:-9]", "[5:]", "[::-1]", "[-1:-9:-1]"]:
        add("msidx", L + sl, xdoc)
for t in ["(c | [@, `0`, 'x'][-7]) == `null`", "c[?[@, `1`][-3] == `null`]", "{a: a, b: b}.c", "{a: a, b: nosuch(@)}.a", "[a, b] | [-3]", "z.[a, b][-3]", "c.[@, @][-3]"]:
    add("msidx", t, xdoc)
# ---------------------------------------------------------------- foldlit
# && / || with a literal on either side: the result is an OPERAND's value (the left one when it decides), and the other side's failure is
# reported when it is evaluated
fdoc = {"n": None, "f": False, "s": "", "l": [], "o": {}, "t": True, "k": 7, "rows": [{"a": ""}, {"a": []}, {"a": 3}, {}]}
flits = ["`false`", "`null`", "''", "`[]`", "`{}`", "`0`", "`true`", "'a'", "`[0]`"]
fxs = ["missing", "l", "s", "k", "t", "f", "n", "o", "length(k)", "nosuch(@)", "l[0]", "rows[0].a"]
for L, X in itertools.product(flits, fxs):
    for sh in ["%s && %s", "%s || %s"]:
        add("foldlit", sh % (X, L), fdoc)
        add("foldlit", sh % (L, X), fdoc)
        add("foldlit", "[" + sh % (X, L) + ", k]", fdoc)
    add("foldlit", "rows[*].[a && %s]" % L, fdoc)
    add("foldlit", "rows[*].[a || %s]" % L, fdoc)
    add("foldlit", "rows[?a && %s]" % L, fdoc)
    add("foldlit", "!(%s && %s)" % (X, L), fdoc)
# ---------------------------------------------------------------- digitkeys
# member names made of digits (quoted identifiers): a name never indexes an array
kdoc2 = {"a": ["x", "y", "z"], "o": {"1": "one", "0": "zero", "01": "lead", "-1": "neg"}, "b": {"c": [0, 1, {"d": "deep"}]}, "rows": list(range(12)), "0": "top"}
for t in ['a."1"', '"0"', 'b.c."2".d', 'rows."10"', 'a."-1"', 'a."01"', 'o."1"', 'o."01"', 'o."-1"', 'a."0"', '[a, o][*]."1"', 'a | "1"', '@."0"', 'rows."0"', 'a."1" || o."1"', '{x: a."2"}',
          'a[?"0"]', 'values(o)."0"', 'b.c[2].d', 'b.c."2"', '*."1"', 'a.*', '"a"."1"', '"rows"."11"', 'o."0" == a."0"']:
    add("digitkeys", t, kdoc2)
    add("digitkeys", t, ["only", {"0": "inner"}])

# ---------------------------------------------------------------- bsruns
# runs of 0..7 backslashes directly before a closing or an escaped delimiter in all three quoted forms, alone and inside larger
# expressions: sentences and non-sentences alike (the language judge decides which is which from the lexer model)
rdoc = {"a" + "\\" * k: k for k in range(5)}
rdoc.update({"foo": [{"k\\\"": "v\\'"}, {"k": "v"}], "a": "a"})
for n in range(8):
    bs = "\\" * n
    for t in ["'a%s'", "'a%s'b'", "'%s'", '"a%s"', '"a%s"b"', '`"a%s"`', '`"a%s`b"`', '`"a%s"b"`', "['a%s', 'z']", "a == 'a%s'", "foo[?\"k%s\"\" == 'v%s'']", "{\"x%s\"y\": 'z%s'w'}",
              "length('%s') == `1`", "'%s' | length(@)", "[`\"%s\"`]", "\"a%s\".b", "'a%sb'", '"a%sb"']:
        add("bsruns", t.replace("%s", bs), rdoc)
# ---------------------------------------------------------------- byorder
# by-functions: the key of element i is evaluated and type-checked before element i+1 is looked at -- an earlier element with a key of the
# wrong type and a later element whose key expression fails (slice / unknown function / arity / type), in both orders and at every position
bdoc2 = {"items": [{"k": False, "a": []}, {"k": [1], "a": [1, "x"]}], "three": [{"k": 1, "a": [1]}, {"k": "s", "a": ["s"]}, {"k": [1], "a": [1, "x"]}],
         "ok": [{"k": 2}, {"k": 1}], "late": [{"k": 1}, {"k": 2}, {"k": [0]}], "first": [{"k": [0]}, {"k": 2}, {"k": "s"}]}
keyexprs = ["(k && k[::0])", "(k && nosuch(k))", "(k && abs(k, k))", "max(a)", "k[::0]", "(k[0] && k[::0]) || k", "(k[0] && nosuch(@)) || k", "(k[0] && abs()) || k", "k", "k[0]", "abs(k)",
            "length(k)", "not_null(k[0], k)", "to_number(k) || nosuch(@)"]
for f in ("sort_by", "max_by", "min_by"):
    for arr in ("items", "three", "ok", "late", "first", "reverse(items)", "reverse(three)", "reverse(late)", "reverse(first)", "three[1:]", "[three[0], three[2], three[1]]"):
        for ke in keyexprs:
            add("byorder", "%s(%s, &%s)" % (f, arr, ke), bdoc2)
for arr in ("items", "three", "late", "first"):
    for ke in keyexprs:
        add("byorder", "map(&%s, %s)" % (ke, arr), bdoc2)
        add("byorder", "%s[*].%s" % (arr, ke.strip("()") if ke.startswith("(k[0]") else ke), bdoc2) if not ke.startswith("(") else None
# ================================================================ round 7 families
# ---------------------------------------------------------------- bykeys
# by-functions (and map) with every form of key expression: negative and positive indexes, slices, nested paths, pipes, filters, calls,
# groups -- an expression reference means what its body means on each element
brows = [{"id": "a", "v": [5, 1, 9], "p": {"q": [7, 0, 3]}, "n": 2}, {"id": "b", "v": [4, 3, 2], "p": {"q": [3, 8, 1]}, "n": 1}, {"id": "c", "v": [6, 2, 7], "p": {"q": [1, 2, 9]}, "n": 3}]
bks = ["v[-1]", "v[-2]", "v[-3]", "v[0]", "v[1]", "v[2]", "v[1:][0]", "v[::-1][0]", "p.q[-2]", "p.q[-3]", "p.q[1]", "@.v[-2]", "(v)[-2]", "(v[-2])", "v | [-2]", "v[?@ > `2`] | [-1]", "length(v)",
       "not_null(v[-2], `0`)", "v[-2] || n", "n", "max(v)", "sum(v[-2:])", "v[:-1][-1]", "[v[-2]][0]", "{k: v[-2]}.k", "to_string(v[-2])", "id", "v[-2] && id"]
for ke in bks:
    for f in ("sort_by", "max_by", "min_by"):
        add("bykeys", "%s(@, &%s)%s" % (f, ke, "[*].id" if f == "sort_by" else ".id"), brows)
    add("bykeys", "map(&%s, @)" % ke, brows)
    add("bykeys", "[*].%s" % ke if not ke.startswith(("(", "[", "{", "@")) else "map(&%s, @) | [0]" % ke, brows)
for ke in ["[-2]", "[-3]", "[0]", "[-1]", "[1:] | [0]", "@[-2]", "sum(@)"]:
    for f in ("sort_by", "max_by", "min_by"):
        add("bykeys", "%s(@, &%s)" % (f, ke), [[3, 1, 4], [1, 9, 2], [2, 5, 6]])
# ---------------------------------------------------------------- msnull
# a multi-select list / hash followed at once by every postfix operator, on a null current node (behind a pipe, on a null element inside
# an expression reference, on the null document) and on a non-null one: a multi-select on null IS null, nothing of it is evaluated
mdoc2 = {"a": [1], "b": [2, 3], "c": {}, "s": "x"}
mss = ["[a, b]", "[@, `1`]", "[length(@)]", "{x: a, y: b}", "[a]", "[`1`, `2`]", "{k: `1`}", "[nosuch(@)]", "{n: length(@)}", "{k: b, n: abs(@)}", "{n: nosuch(@)}"]
mposts = ["[]", "[0]", "[-1]", "[*]", "[:1]", "[?@]", " | [0]", ".x", ".*", "[][]", "[] | [0]", " | length(@)", "[*][0]", " || 'dflt'", " && `1`", " == `null`", "[0] == `null`"]
for m, q in itertools.product(mss, mposts):
    for pre in ["", "nope | ", "c.nope | ", "a | ", "c | ", "@ | ", "s | "]:
        add("msnull", pre + m + q, mdoc2)
    add("msnull", m + q, None)
    add("msnull", "map(&%s%s, @)" % (m, q), [None, [1], {"a": [2]}])
# ---------------------------------------------------------------- exprefbody
# an expression reference whose body STARTS with every kind of token that can start an expression, followed by every kind of continuation:
# the body extends as far as an expression does (binding power 0)
edoc2 = {"items": [{"a": None, "b": {"c": 1}, "n": [1, 2], "k": True, "v": [3]}, {"a": {"c": 2}, "b": None, "n": [3], "k": False, "v": [1, 2]}], "rows": [[{"k": 2}], [{"k": 1}]]}
starts = ["(a || b)", "[0]", "[*]", "[]", "{x: a}", "!a", "*", "[?k]", "@", "`1`", "'s'", "\"a\"", "a", "[a, b]", "&a"]
conts = ["", ".c", " || b", " && b", " | [0]", " == `1`", "[0]", ".x", "[]", ".n", " | length(@)", ".k", "[*]", " != `null`"]
for st, ct in itertools.product(starts, conts):
    add("exprefbody", "map(&%s%s, items)" % (st, ct), edoc2)
    add("exprefbody", "map(&%s%s, rows)" % (st, ct), edoc2)
for st, ct in itertools.product(["[0].k", "(@)[0].k", "[0] | k", "[*].k | [0]", "{x: [0].k}.x", "!`false` && [0].k", "[?k].k | [0]", "*[0]", "@[0].k", "[-1].k"], ["", " || `0`"]):
    for f in ("sort_by", "max_by", "min_by"):
        add("exprefbody", "%s(rows, &%s%s)" % (f, st, ct), edoc2)
# ---------------------------------------------------------------- firstnull
# projections some of whose results are null (dropped), then an index / slice / pipe that depends on WHICH results remain
fdoc2 = {"rows": [{"ok": False, "id": 1}, {"ok": True}, {"ok": True, "id": 3, "tags": ["x"]}, {"ok": True, "id": 4, "tags": []}, {"id": 5}], "m": [[None], [None, 2], [3]]}
for proj in ["rows[?ok].id", "rows[*].id", "rows[?ok].tags[0]", "rows[?ok == `true`].id", "rows[].id", "rows[?ok].tags", "rows[1:].id", "rows[?!ok].id", "rows[*].tags[0]", "m[*][0]", "m[][0]",
             "rows[?ok].[id]", "rows[?ok].{i: id}", "rows[?id].ok", "rows[?tags].id", "rows[?ok] | [*].id"]:
    for tail in [" | [0]", " | [1]", " | [-1]", " | [:1]", " | length(@)", " | [0] || 'none'", ""]:
        add("firstnull", proj + tail, fdoc2)
        add("firstnull", "{first: %s%s}" % (proj, tail), fdoc2)
    for tail in ["[0]", "[-1]", "[1]", "[:1]"]:
        add("firstnull", "(%s)%s" % (proj, tail), fdoc2)
# ---------------------------------------------------------------- bignums
# integers beyond 2^53 and 2^63 (at most nine significant digits: inside the number model) next to fractions and small integers, in every
# order, under the sorting / extreme functions and comparisons: a number is a number whatever its size and spelling
big = [9100000000000000, 1200000000000000000, -9100000000000000, 18000000000000000000, 36000000000000000]
small = [2.5, 7, 0.5, 3, -1]
for perm in [[big[0], 2.5], [2.5, big[0]], [big[1], 7, 0.5], [0.5, big[1], 7], [big[2], 3, 2.5], [big[0], big[3]], [big[3], big[0], 0.5], [big[4], -1, 2.5], [7, big[2], big[4], 0.5],
             [big[0], big[0], 2.5], [big[3], 2.5, big[1]]]:
    recs = [{"k": x, "i": i} for i, x in enumerate(perm)]
    for t in ["sort_by(@, &k)[*].i", "max_by(@, &k).i", "min_by(@, &k).i", "sort(@[*].k)", "max(@[*].k)", "min(@[*].k)", "sort_by(@, &(k || `0`))[*].i", "@[?k > `5`].i", "@[?k >= `2.5`].i",
              "map(&abs(k), @)", "@[*].k | sort(@) | [0]", "sort_by(@, &abs(k))[*].i", "contains(@[*].k, @[0].k)", "@[0].k == @[-1].k", "@[0].k < @[-1].k", "reverse(sort(@[*].k))"]:
        add("bignums", t, recs)

# ---------------------------------------------------------------- zeropad
# number tokens written with leading zeros (the grammar's number is an optional "-" and one or more digits) in every index and slice slot
zdoc = {"foo": list(range(12))}
for t in ["foo[01]", "foo[010]", "foo[00]", "foo[01:03]", "foo[1:03]", "foo[:011]", "foo[::02]", "foo[00:]", "foo[009::-3]", "foo[*] | [02:5]", "foo[007]", "foo[0011]", "foo[-01]", "foo[-007:]",
          "foo[0:010:02]", "foo[0000000001]", "foo[01][0]", "[foo[01], foo[1]]", "foo[01] == foo[1]", "foo[?@ > `3`][01]", "foo[:-01]", "foo[-00]", "foo[1:][00]"]:
    add("zeropad", t, zdoc)
# ================================================================ round 9 families
# ---------------------------------------------------------------- bigsigns
# integers on both sides of the signed 64-bit range next to small negative numbers: a negative integer against an integer above 2^63 - 1
# (one fits i64 only, the other u64 only), numbers below -2^63 and beyond 2^64 under the rounding functions, in both operand orders,
# from the document and as literals: order and rounding are about the VALUE, never about the integer type a number happens to fit
bsd = {"n": -1, "m": -7, "z": 0, "p": 5, "f": -1.5, "b": 9300000000000000000, "c": 18000000000000000000, "nb": -9300000000000000000,
       "nc": -18000000000000000000, "nd": -30000000000000000000000000, "pd": 30000000000000000000000000, "i": 9100000000000000000,
       "ni": -9100000000000000000}
bsd["all"] = [bsd[k] for k in ["n", "b", "m", "c", "z", "nb", "p", "nc", "f", "nd", "pd", "i", "ni"]]
bsd["recs"] = [{"k": x, "i": j} for j, x in enumerate(bsd["all"])]
for x, y in [("n", "b"), ("m", "c"), ("n", "c"), ("f", "b"), ("z", "b"), ("p", "b"), ("nb", "b"), ("nc", "c"), ("n", "i"), ("ni", "b"), ("ni", "i"), ("nb", "n"), ("nd", "n"), ("pd", "c"), ("i", "b"), ("b", "c")]:
    for op in ["<", "<=", ">", ">=", "==", "!="]:
        add("bigsigns", "%s %s %s" % (x, op, y), bsd)
        add("bigsigns", "%s %s %s" % (y, op, x), bsd)
for lit_a, lit_b in [("-1", "9300000000000000000"), ("-7", "18000000000000000000"), ("-9100000000000000000", "9300000000000000000"), ("0", "9300000000000000000"), ("-1", "9100000000000000000")]:
    for op in ["<", "<=", ">", ">=", "==", "!="]:
        add("bigsigns", "`%s` %s `%s`" % (lit_a, op, lit_b), bsd)
        add("bigsigns", "`%s` %s `%s`" % (lit_b, op, lit_a), bsd)
        add("bigsigns", "n %s `%s`" % (op, lit_b), bsd)
for t in ["sort(all)", "max(all)", "min(all)", "reverse(sort(all))", "sort_by(recs, &k)[*].i", "max_by(recs, &k).i", "min_by(recs, &k).i", "all[?@ < `0`]", "all[?@ > b]", "all[?@ < b]", "all[?@ >= n]",
          "recs[?k < `9300000000000000000`].i", "recs[?k > `-1`].i", "map(&floor(@), all)", "map(&ceil(@), all)", "map(&abs(@), all)", "floor(nb)", "ceil(nb)", "floor(nc)", "ceil(nc)", "floor(nd)",
          "ceil(nd)", "floor(pd)", "ceil(pd)", "floor(c)", "ceil(c)", "floor(b)", "ceil(b)", "abs(nb)", "abs(nd)", "abs(nc) == c", "floor(nd) == nd", "ceil(nd) == nd", "floor(nb) == nb", "ceil(nc) < n",
          "floor(f)", "ceil(f)", "floor(`-1e19`)", "ceil(`-1e19`)", "floor(`1e19`)", "ceil(`-3e25`)", "floor(`-18000000000000000000`)", "[floor(nb), ceil(nb)] == [nb, nb]", "map(&ceil(@), [f, nd])",
          "sort_by(recs, &floor(k))[*].i", "max_by(recs, &ceil(k)).i", "min_by(recs, &floor(k)).i", "sort_by(recs, &abs(k))[*].i", "to_number(to_string(nb)) == nb", "not_null(floor(nd), n)",
          "contains(all, b)", "contains(all, nb)", "sort([n, b])", "sort([b, n])", "max([n, b])", "min([b, n])", "min([n, i, b])", "max([ni, n, b])"]:
    add("bigsigns", t, bsd)
# ================================================================ round 8 families
# ---------------------------------------------------------------- strclass
# every string function on strings holding characters that text tools treat specially: CR LF (in both orders), combining marks (first, middle,
# last, alone), zero-width and bidi characters, a surrogate-range neighbour, astral characters: a string is a sequence of code points
sstrs = ["a\r\nb", "\r\n", "\r\n\r", "c\n\rd", "\n", "\r", "́abc", "éa", "abć", "⃗", "︠z", "ẍy", "a​b", "‮abc", "퟿", "\U0001F600a\U0001F1E9\U0001F1EA",
         "ab", ""]
sdoc3 = {"a": sstrs, "s": "a\r\nb", "m": "́abc", "k": [{"s": x, "i": i} for i, x in enumerate(sstrs)]}
for t in ["a[*].reverse(@)", "a[*].length(@)", "reverse(s)", "reverse(m)", "reverse(reverse(s)) == s", "reverse(reverse(m)) == m", "a[*].reverse(reverse(@))", "join('', a)", "join('\r\n', a[:3])",
          "a[*].contains(@, '\n')", "a[*].starts_with(@, '\r')", "a[*].ends_with(@, '\n')", "sort(a)", "max(a)", "min(a)", "a[*].to_string(@)", "sort_by(k, &s)[*].i", "max_by(k, &s).i",
          "min_by(k, &s).i", "a[*].type(@)", "a[?@ == '\r\n']", "a[?contains(@, '́')]", "reverse(a)", "a[*].to_array(@)[0]", "length(join('', a))", "a[*].not_null(@)", "a[*].[reverse(@), @]",
          "reverse('︠z')", "reverse('a\r\nb')", "length('\r\n')", "'x\r\ny' == 'x\ny'", "contains(a, 'a\r\nb')", "contains(a, 'a\nb')"]:
    add("strclass", t, sdoc3)
# ---------------------------------------------------------------- scalarties
# sort_by / max_by / min_by over SCALAR elements with a computed key that ties: ties keep their original order (first wins), whatever the elements themselves are
for arr in [["bb", "aa", "c"], [2, 1, -1, -2], [1.7, 1.2, 0.9, 0.1], [3, 2, 1], ["b", "a"], ["ccc", "bb", "aa", "b", "a", "dd"], [-3, 3, -2, 2, -1, 1], [5, "x", 4, "y"], [[2], [1], [3, 0]],
            [True, False, True], ["b", "B", "a", "A"]]:
    for ke in ["length(@)", "abs(@)", "floor(@)", "`0`", "type(@)", "'k'", "ceil(@)", "length(to_string(@))", "to_string(type(@))", "length(to_array(@))"]:
        for f in ("sort_by", "max_by", "min_by"):
            add("scalarties", "%s(@, &%s)" % (f, ke), arr)
# ---------------------------------------------------------------- twotokens
# two delimited tokens (raw string, quoted identifier, JSON literal; each with and without an escaped delimiter inside) in ONE expression, in
# every order and in several contexts: each token is decoded by itself
toks2 = ["'it\\'s'", "'x'", "'a\\''", "\"n\"", "\"q\\\"r\"", "`\"b\"`", "`\"x\\`y\"`", "''", "'\\''", "`1`"]
tdoc2 = {"n": 1, "q\"r": 2, "k": "a'", "rows": [{"k": "a'", "n": 3}, {"k": "x", "n": 4}]}
for a, b in itertools.product(toks2, toks2):
    add("twotokens", "[%s, %s]" % (a, b), tdoc2)
    add("twotokens", "%s == %s" % (a, b), tdoc2)
for a in toks2[:4] + toks2[6:9]:
    add("twotokens", "rows[?k == %s].\"n\"" % a, tdoc2)
    add("twotokens", "{\"a\": %s, b: 'x', \"c\": \"n\"}" % a, tdoc2)
    add("twotokens", "[%s, 'x', %s, \"n\"]" % (a, a), tdoc2)
# ---------------------------------------------------------------- deepeq
# equal (and unequal) values nested 65 and 90 container levels deep under == / != / contains: equality has no depth
def nest(v, n, obj=False):
    for _ in range(n):
        v = {"k": v} if obj else [v]
    return v
for n in (63, 64, 65, 66, 90):
    for obj in (False, True):
        dd = {"a": nest(1, n, obj), "b": nest(1, n, obj), "c": nest(2, n, obj)}
        # (as JSON TEXT: the interchange files cannot hold values this deep)
        for t in ["a == b", "a != b", "a == a", "a == c", "a != c", "[a == b, a != b, a == c]", "contains([a], b)", "contains([c], b)", "[a, c][?@ == b] | length(@)", "@ == @", "a.k == b.k" if obj else "a[0] == b[0]"]:
            cases.append({"e": "eval", "fam": "deepeq", "text": cps(t), "doctext": cps(json.dumps(dd, separators=(",", ":")))})

# ---------------------------------------------------------------- tonum
# to_number on strings made of the characters of numbers that are not numbers (and on a few that are): null, never a failure
tn = ["1e999", "-", "1.", "01", "+1", ".5", "1 2", " ", "2e", "1-2", "1.2.3", "--1", "1e", "e1", "-.5", "0x1", "1_0", "١", "1e+", "1e-", "00", "-0", "1.0e5", "12", "-3.5e-2", "0", "1E3", ""]
tdoc3 = {"a": tn, "rows": [{"v": "3"}, {"v": "1-2"}, {"v": "2"}]}
for i, x in enumerate(tn):
    add("tonum", "to_number(a[%d])" % i, tdoc3)
    if "'" not in x and "\\" not in x:
        add("tonum", "to_number('%s')" % x, tdoc3)
for t in ["a[*].to_number(@)", "map(&to_number(@), a)", "sort_by(rows, &to_number(v))", "max_by(rows, &to_number(v))", "rows[*].to_number(v)", "a[?to_number(@) == `null`] | length(@)",
          "rows[?to_number(v) > `1`].v", "not_null(to_number(a[0]), 'dflt')", "[to_number(a[1]), to_number(a[2])]", "to_number(a[0]) || to_number(a[23])"]:
    add("tonum", t, tdoc3)

# ---------------------------------------------------------------- zeros
# zeros of both signs (documents built with the sign bit set; JSON literals written -0.0): one number under every comparison, sort and extreme
zdoc2 = {"a": -0.0, "b": 0, "c": 0.0, "l": [-1, -0.0, 0, 1], "accounts": [{"id": "x", "balance": -0.0}, {"id": "y", "balance": -2}, {"id": "z", "balance": 3}, {"id": "w", "balance": 0}],
         "r": [{"k": 0, "n": "a"}, {"k": -0.0, "n": "b"}, {"k": 0, "n": "c"}, {"k": -0.0, "n": "d"}, {"k": -1, "n": "e"}, {"k": 2, "n": "f"}]}
for op in OPS:
    for x, y in [("a", "`0`"), ("a", "b"), ("`0`", "`-0.0`"), ("`0.0`", "a"), ("b", "a"), ("a", "c"), ("`-0.0`", "a"), ("a", "a"), ("a", "`-0`")]:
        add("zeros", "%s %s %s" % (x, op, y), zdoc2)
    add("zeros", "l[?@ %s `0`]" % op, zdoc2)
    add("zeros", "l[?@ %s `-0.0`]" % op, zdoc2)
    add("zeros", "accounts[?balance %s `0`].id" % op, zdoc2)
    add("zeros", "r[?k %s a].n" % op, zdoc2)
for t in ["sort(l)", "max(l[1:3])", "min(l[1:3])", "sort_by(r, &k)[*].n", "max_by(r[:4], &k).n", "min_by(r[:4], &k).n", "sort_by(accounts, &balance)[*].id", "contains(l, `0`)", "contains([a], b)",
          "abs(a)", "ceil(a)", "floor(a)", "to_string(b)", "sum([a, b])", "avg([a, c])", "[a, b, c] | sort(@)", "l[?@ == a]", "reverse(sort(l))", "not_null(a)", "type(a)", "a || 'x'", "!a"]:
    add("zeros", t, zdoc2)

R6X = ["bsruns"]

out = os.path.join(VERIF, "spec", "gen", "eval_pools.ndjson")
with open(out, "w") as f:
    for c in cases:
        f.write(json.dumps(c) + "\n")
def depth(t):
    return 1 + max([depth(x) for x in t.get("a", [])] + [depth(m["v"]) for m in t.get("o", [])] + [0])
assert max(depth(d) for d in docs) <= 40, "a pooled document is too deep for the interchange files"
with open(out + ".docs", "w") as f:
    f.write(json.dumps({"docs": docs}) + "\n")
from collections import Counter
print("wrote", out, Counter(c["fam"] for c in cases), len(docs), "documents")
