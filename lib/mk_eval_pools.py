#!/usr/bin/env python3
"""Writes spec/gen/eval_pools.ndjson (+ .docs): hand-shaped expression texts as code-point arrays with their documents
(TLA+ has no string -> sequence conversion).  Only data: nothing here says what a case should evaluate to -- the judge
(tv/TV_Eval.tla) lexes each text with the Lexer model, takes the Level-0 tree and compares with Eval.

Families (field fam)
  confuse : texts that coincide under a plausible normalisation (white-space runs, trimming, letter case, Unicode blanks)
            but mean different things, each evaluated twice in both orders inside ONE process -- a result must not depend
            on what was compiled or searched before (C01, C13)
  bool    : every boolean formula of depth <= 2 over seven atoms (ordering comparisons with a non-number operand among
            them) under ! && || and parentheses, also as a filter predicate (C01, C10, C11)
  inflate : nested projections whose inner subject is a temporary built per element ({k: E}.k, [E][0], to_array(E) ...),
            over records whose inner arrays cross the sizes 8, 16, 21, 64 (C01, C11)
  hash    : multi-select hashes with keys out of order / repeated / non-ASCII, at the head, after a dot, a pipe and inside projections,
            followed by every kind of continuation (C01, C04)
  nest    : by-functions and map inside the expression reference of a by-function (state carried within one evaluation) (C02, C05)
  compose : every built-in applied to what the any-typed built-ins pass through, expression references in containers included (C05, C06)
  errpair : two failing sub-expressions under every binary construct, each with a succeeding partner too: which failure is reported (C01, C06)
  deep    : every nesting constructor at depths 1..8 on a document nested to match (C01)
  keyword : field names spelled true / false / null / and / or / not / in, in every operand position (C01, C03)
  litop   : every postfix operator, comparison and call applied directly to a literal operand (C01, C03, C07)
  alias   : the same document node reached twice (both operands of a comparison, two arguments of a call) (C01, C10, C06)
"""
import itertools, json, os, sys
sys.path.insert(0, os.path.dirname(os.path.abspath(__file__)))
from common import to_tagged, cps
VERIF = os.path.dirname(os.path.dirname(os.path.abspath(__file__)))

docs, cases = [], []


def doc_index(d):
    t = to_tagged(d)
    for i, x in enumerate(docs):
        if x == t:
            return i + 1
    docs.append(t)
    return len(docs)


def add(fam, text, d):
    cases.append({"e": "eval", "fam": fam, "text": cps(text), "d": doc_index(d)})


# ---------------------------------------------------------------- confuse
keys = ["a b", "a  b", "a\tb", " a b", "a b ", "A B", "a\u00a0b", "a\u3000b", "a\nb", "ab", "a   b", "a \t b"]
cdoc = {k: i + 1 for i, k in enumerate(keys)}
cdoc["s"] = ["a b", "a  b", "A B"]
jq = lambda s: json.dumps(s, ensure_ascii=False)
ctexts = []
for k in keys:
    ctexts.append(jq(k))                                   # quoted identifier
    if "\t" not in k and "\n" not in k:
        ctexts.append("'%s'" % k)                          # raw string
        ctexts.append("length('%s')" % k)
    else:
        ctexts.append("'%s'" % k)                          # raw strings may hold raw control characters
    ctexts.append("`%s`" % jq(k))                          # JSON literal
    ctexts.append("contains(s, '%s')" % k) if "\t" not in k and "\n" not in k else None
    ctexts.append("{%s: %s}" % (jq(k), jq(k)))             # multi-select hash key and value
ctexts += ["`[1, 2]`", "`[1,2]`", "`[1,  2]`", "`{\"a b\": 1}`", "`{\"a  b\": 1}`", "`\"a b\"` == 'a b'", "`\"a b\"` == 'a  b'",
           "\"a b\" < \"a  b\"", "\"a  b\" < \"a b\"", " \"a b\"", "\"a b\" ", "\"a b\"  ||  \"a  b\"", "\"a  b\" || \"a b\"",
           "\"A B\"", "\"a B\"", "'A B'", "'a B'", "s[?@ == 'a b']", "s[?@ == 'a  b']", "s[?@ == 'A B']"]
for t in ctexts + list(reversed(ctexts)):
    add("confuse", t, cdoc)

# ---------------------------------------------------------------- bool
bdoc = {"s": "x", "n": 1, "m": 2, "t": True, "f": False, "e": "", "l": [1], "rows": [{"age": 70, "ok": True}, {"age": "n/a", "ok": True}, {"age": 30, "ok": False}, {"ok": True}]}
atoms = ["s < n", "n < m", "m < n", "t", "f", "z", "n == n", "s >= s", "z <= n", "e"]
f1 = atoms + ["!(%s)" % a for a in atoms[:7]] + ["!%s" % a for a in ("t", "f", "z")]
f2 = []
for x, y in itertools.product(f1[:14], repeat=2):
    f2.append("(%s) && (%s)" % (x, y))
    f2.append("(%s) || (%s)" % (x, y))
for f in f1 + f2:
    add("bool", f, bdoc)
for f in f2:
    add("bool", "!(%s)" % f, bdoc)
for x, y in itertools.product(atoms[:7], repeat=2):       # without the inner parentheses: precedence decides
    add("bool", "!(%s && %s)" % (x, y), bdoc)
    add("bool", "!(%s || %s)" % (x, y), bdoc)
    add("bool", "!%s && %s" % ("t" if x == "t" else "f", y), bdoc)
ratoms = ["age < `65`", "age >= `65`", "ok", "age == `70`", "!ok", "age", "age <= `70`", "age > `18`"]
for x, y in itertools.product(ratoms, repeat=2):
    for shape in ("rows[?%s && %s].age", "rows[?!(%s && %s)].age", "rows[?!(%s || %s)].age", "rows[?!(%s) || %s].age", "rows[?(%s) || !(%s)].age"):
        add("bool", shape % (x, y), bdoc)

# ---------------------------------------------------------------- inflate
def rec(i, j):
    return {"z": (i * 100 + j) if j % 5 else None if j % 10 == 0 else "s%d" % j, "y": j % 3}


def idoc(sizes):
    return {"x": [{"a": [rec(i, j) for j in range(n)], "b": i} for i, n in enumerate(sizes)] + [{"b": 99}]}


wraps = ["{k: %s}.k", "[%s][0]", "values({k: %s})[0]", "to_array(%s)", "not_null(%s)", "reverse(reverse(%s))", "%s[:]", "merge({k: %s}).k", "%s",
         "sort_by(%s, &y)", "map(&@, %s)", "[%s, %s][1]", "{k: {j: %s}}.k.j"]
outer = ["x[*].", "x[].", "x[?a].", "x[:].", "x[?b < `50`].", "map(&"]
inner = ["[*].z", "[].z", "[?z].z", "[::1].z", "[*].[z, y]", "[?y == `1`].{z: z}"]
sizes = [(8, 9, 1), (16, 17, 2), (3, 70, 21), (1, 1, 1), (9, 8, 8), (65, 64, 0)]
for sz in sizes:
    d = idoc(sz)
    for o, w, p in itertools.product(outer, wraps, inner):
        if w.startswith("[") and not o.startswith("map"):
            continue                     # `x[*].[a][0]` is the recorded finding F15 (C04); the temporary is reached through map(&...) instead
        e = w.replace("%s", "a")
        t = (o + e + p + ", x)") if o.startswith("map") else (o + e + p)
        add("inflate", t, d)

# ---------------------------------------------------------------- alias
adoc = {"s": "x", "n": 1, "l": [1, 2], "o": {"k": {"v": "w"}}, "z": None, "b": True, "rows": [{"name": "p", "n": 1}, {"name": 2, "n": 2}],
        "big": ["s%d" % (i % 7) for i in range(16)], "bign": [(i * 7) % 11 for i in range(17)]}
ops = ["==", "!=", "<", "<=", ">", ">="]
for path in ["s", "n", "l", "o", "z", "b", "o.k.v", "l[0]", "missing", "@", "rows[0]", "big", "big[3]"]:
    for op in ops:
        add("alias", "%s %s %s" % (path, op, path), adoc)
        add("alias", "[%s, %s][0] %s [%s][0]" % (path, path, op, path), adoc)
for op in ops:
    add("alias", "rows[?name %s name]" % op, adoc)
    add("alias", "rows[?@ %s @]" % op, adoc)
    add("alias", "rows[*].[n %s n, name %s name]" % (op, op), adoc)
    add("alias", "o.k.[v %s v, @ %s @]" % (op, op), adoc)
fns = ["max", "min", "sort", "sum", "avg", "length", "reverse", "to_array", "join(',', %s)", "to_string", "type", "not_null"]
call = lambda f, a: (f % a) if "%s" in f else "%s(%s)" % (f, a)
for f, g in itertools.product(fns, repeat=2):
    for a in ("big", "bign", "l"):
        add("alias", "[%s, %s]" % (call(f, a), call(g, a)), adoc)
for a in ("big", "bign"):
    add("alias", "contains(%s, %s[0])" % (a, a), adoc)
    add("alias", "[%s == %s, %s[?@ == %s[0]]]" % (a, a, a, a), adoc)

# ---------------------------------------------------------------- hash
# multi-select hashes: keys written out of order, repeated keys, non-ASCII keys -- the result is an object (members by key, the last
# repeated key wins), whatever follows it
hdoc = {"first": "Ada", "last": "Lovelace", "born": 1815, "x": {"first": 1, "last": 2, "born": 3}, "xs": [{"first": "a", "last": "b", "born": 1}, {"first": "c", "last": None, "born": 2}]}
hashes = ["{z: first, m: last, a: born}", "{a: first, a: last}", "{b: first, a: last}", "{a: first, b: last, a: born}", "{\"é\": first, e: last, z: born, Z: first}",
          "{k: first}", "{b: born, a: {d: last, c: first}}", "{z: first, a: missing}", "{c: first, b: last, c: born, a: first, b: born}"]
for h in hashes:
    for t in ["%s", "%s.*", "%s | *", "x.%s", "x.%s.*", "xs[*].%s", "xs[*].%s.*", "xs[].%s.* | [0]", "(%s).*", "%s.* | [0]", "keys(%s)", "values(%s)", "%s | keys(@)",
              "%s | values(@)", "%s.a", "%s.z", "xs[?born > `1`].%s.*", "[%s, %s]", "%s.*[0]", "length(%s)", "merge(%s, {a: `0`})", "to_array(%s)[0].*", "map(&%s.*, xs)",
              "xs[*].%s | [0].*", "!%s", "%s == %s", "sort_by(xs, &born)[*].%s.*", "not_null(%s).*", "%s || first", "%s && first"]:
        add("hash", t.replace("%s", h), hdoc)

# ---------------------------------------------------------------- nest
# a by-function (or map) inside the expression reference of a by-function: the inner call must not disturb the outer one
def groups(sizes, seed):
    return {"g": [{"id": i, "m": [{"k": ((i * 7 + j * 5 + seed) % 11), "j": j} for j in range(n)]} for i, n in enumerate(sizes)]}
byf = ["sort_by", "max_by", "min_by"]
for sizes in [(2, 2, 2, 2), (1, 3, 2, 1, 2), (3, 1), (2, 2, 2, 2, 2, 2, 2), (1,), (4, 1, 1, 1, 1, 1)]:
    d = groups(sizes, len(sizes))
    for f, g in itertools.product(byf, byf):
        inner = "%s(m, &k)" % g
        key = inner + ("[0].k" if g == "sort_by" else ".k")
        add("nest", "%s(g, &%s)" % (f, key) + ("[*].id" if f == "sort_by" else ".id"), d)
        add("nest", "%s(g, &%s)" % (f, key), d)
    add("nest", "sort_by(g, &sum(map(&k, sort_by(m, &j))))[*].id", d)
    add("nest", "map(&sort_by(m, &k)[*].j, sort_by(g, &length(m)))", d)
    add("nest", "sort_by(g, &map(&k, sort_by(m, &k))[0])[*].id", d)
    add("nest", "sort_by(g, &sort_by(sort_by(m, &j), &k)[-1].k)[*].id", d)
    add("nest", "g[*].sort_by(m, &k)[0].j", d)
    add("nest", "max_by(g, &length(sort_by(m, &k))).id", d)

# ---------------------------------------------------------------- compose
# every built-in on what the any-typed built-ins pass through, expression references inside containers among it: totality (C05) --
# and the value wherever the specification determines it
cdoc2 = {"foo": [1, 2], "s": "x", "n": -1.5, "o": {"a": 1}, "z": None}
leaves = ["foo", "s", "n", "o", "z", "&foo", "&foo[0]", "`1`", "'x'", "@"]
wrap = ["%s", "to_array(%s)", "not_null(%s)", "[%s]", "{k: %s}", "[not_null(%s), `1`]", "map(&@, to_array(%s))", "to_array(to_array(%s))", "not_null(z, %s)", "{k: [%s]}.k"]
one = ["abs", "avg", "ceil", "floor", "keys", "length", "max", "min", "not_null", "reverse", "sort", "sum", "to_array", "to_number", "to_string", "type", "values", "merge"]
two = ["contains", "ends_with", "starts_with", "join", "map", "max_by", "min_by", "sort_by", "merge", "not_null"]
args1 = [w % l if "%s" in w else w for w in wrap for l in leaves]
for f in one:
    for a in args1:
        add("compose", "%s(%s)" % (f, a), cdoc2)
small = [w % l for w in wrap[:5] for l in ("foo", "s", "&foo", "o")]
for f in two:
    for a, b in itertools.product(small, repeat=2):
        add("compose", "%s(%s, %s)" % (f, a, b), cdoc2)
for a in args1:
    add("compose", "foo[*].to_string([@, %s])" % a, cdoc2)
    add("compose", "%s == %s" % (a, a), cdoc2)

# ---------------------------------------------------------------- errpair
# two failing sub-expressions in one expression: evaluation is left to right and the FIRST failure is the one reported (short-circuit
# operators skip the right side; arguments are evaluated before the call is looked up and validated)
edoc = {"a": [1, 2], "s": "x", "n": 1, "t": True, "f": False, "z": None}
fails = ["abs(s)", "abs()", "nosuch(n)", "a[::0]", "length(n)", "keys(a)", "sum(s)", "abs(n, n)"]
oks = ["n", "z", "t", "f", "s", "a", "abs(n)"]
ctx = ["%s || %s", "%s && %s", "%s == %s", "%s | %s", "[%s, %s]", "{x: %s, y: %s}", "not_null(%s, %s)", "%s < %s", "a[?%s].x || %s", "!%s || %s",
       "nosuch(%s, %s)", "abs(%s, %s)", "contains(%s, %s)", "a[*].[%s, %s]", "map(&%s, a) || %s", "sort_by(a, &%s) || %s", "(%s).x || %s", "%s.x.y && %s"]
for c in ctx:
    for x, y in itertools.product(fails[:6], fails[:6]):
        add("errpair", c % (x, y), edoc)
    for x in fails:
        for y in oks:
            add("errpair", c % (x, y), edoc)
            add("errpair", c % (y, x), edoc)

# ---------------------------------------------------------------- deep
# every nesting constructor at depths 1..8 with a document nested to match: the value, not only termination
def deepdoc(d):
    v = 1
    for _ in range(d):
        v = {"a": [v, None], "b": v if not isinstance(v, int) else 2}
    return v
for d in range(1, 9):
    dd = deepdoc(8)
    forms = {"paren": "(" * d + "a" + ")" * d, "not": "!" * d + "a", "dot": "a" + "[0].a" * (d - 1), "index": "a" + "[0].a[0]" * (d - 1) if d < 5 else "a[0]",
             "star": "a" + "[*].a" * (d - 1) + "[*]", "flat": "a" + "[]" * d, "list": "[" * d + "a" + "]" * d, "hash": "{a: " * d + "a" + "}" * d,
             "pipe": "a" + " | [0].a" * (d - 1), "or": "z" + " || z" * (d - 1) + " || b", "and": "a" + " && a" * (d - 1) + " && b.b",
             "call": "not_null(" * d + "a[1]" + ", `%d`)" % d * 1 + ")" * (d - 1), "filter": "a" + "[?a]" * d, "vals": "@" + ".*" * d,
             "expref": "map(&" * d + "a" + ", @)" * 1 + ", to_array(@))" * (d - 1), "cmp": "a" + " == a" * d, "slice": "a" + "[:1]" * d,
             "mixed": "a" + ("[*].a[0] | [?a].b" * d)[: 17 * d]}
    for k, t in forms.items():
        add("deep", t, dd)

# ---------------------------------------------------------------- keyword
# identifiers spelled like the keywords of other languages are ordinary field names in every position
kdoc = {"true": 1, "false": 0, "null": "n", "and": [1], "or": {"not": 2}, "not": None, "x": True, "y": None, "c": 1, "in": "i", "items": [{"on": True, "true": 1}, {"on": 1, "true": True}, {"on": None}]}
for w in ("true", "false", "null", "and", "or", "not", "in"):
    for t in ["%s", "x == %s", "%s == x", "c == %s", "%s == c", "y == %s", "[%s, x]", "{k: %s}", "%s || x", "x || %s", "!%s", "%s.not", "items[?on == %s]", "items[?%s == on]",
              "items[*].%s", "%s[0]", "not_null(%s)", "%s != %s", "x && %s", "%s | [@]", "items[?on == %s].on | [0]", "(%s)", "x < %s", "%s >= c", "length(to_array(%s))",
              "items[?%s]", "items[*].[on == %s]"]:
        add("keyword", t.replace("%s", w), kdoc)

# ---------------------------------------------------------------- litop
# every postfix operator, comparison and a few calls applied directly to a literal operand (nothing may be decided at parse time
# differently from what a search decides)
lits = ["`[10, 20, 30]`", "`{\"a\": 1, \"b\": [1, 2]}`", "`\"abc\"`", "`1`", "`null`", "`true`", "`[]`", "`[[1, 2], [3, 4]]`", "'raw'", "`[null, 0, \"\"]`", "`{}`", "`-1.5`"]
posts = ["[0]", "[-1]", "[-2]", "[5]", "[-5]", "[::0]", "[1:]", "[::-1]", "[:-1]", "[-9:2]", ".a", ".b[0]", "[*]", "[]", "[?@]", "[?!@]", ".*", " | [0]", " | [-1]", " == `1`", " < `2`", " || `0`",
         " && `0`", "[0][0]", "[-1][-1]", "[*][0]", "[1:][0]", "[::0].a", "[-1] == `30`", ".a == `1`", "[0:0]", "[3:1:-1]", "[-1:]", "[:1][-1]"]
for l, q in itertools.product(lits, posts):
    add("litop", l + q, {"a": 1})
    add("litop", "(" + l + ")" + q, {"a": 1})
for l in lits:
    for t in ["length(%s)", "type(%s)", "to_string(%s)", "to_array(%s)[-1]", "not_null(%s)", "!%s", "%s == %s", "[%s][0]", "{k: %s}.k", "a || %s", "reverse(%s)", "keys(%s)", "abs(%s)",
              "foo[?@ == %s[-1]]", "max(%s)", "sort(%s)[-1]", "%s | @[-1]", "contains(%s, `1`)", "join(',', %s)"]:
        add("litop", t.replace("%s", l), {"a": 1, "foo": [30, 4, [3, 4], "c"]})

out = os.path.join(VERIF, "spec", "gen", "eval_pools.ndjson")
with open(out, "w") as f:
    for c in cases:
        f.write(json.dumps(c) + "\n")
with open(out + ".docs", "w") as f:
    f.write(json.dumps({"docs": docs}) + "\n")
from collections import Counter
print("wrote", out, Counter(c["fam"] for c in cases), len(docs), "documents")
