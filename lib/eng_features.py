"""C17 — cargo features change representation, not meaning: the same driver source built under default, sync,
specialized (nightly) and sync+specialized, run on the same case files; observations joined and judged by TLC."""
import json, os, subprocess
import common
from common import tlc, tlc_ok, tlc_must_fail, build_driver, run_driver, judge, ToolError, log
import eng_eval, eng_funcs

CONFIGS = ["default", "sync", "specialized", "sync_specialized"]


def join(obs_by_cfg, out):
    """line-wise join of the observation files: outs[i] = the out of configuration i ('absent' if that build is missing)"""
    files = {c: open(p) for c, p in obs_by_cfg.items() if p}
    first = next(iter(files.values()))
    n = 0
    with open(out, "w") as g:
        while True:
            lines = {c: f.readline() for c, f in files.items()}
            if not any(lines.values()):
                break
            recs = {c: json.loads(l) for c, l in lines.items() if l}
            base = dict(next(iter(recs.values())))
            base.pop("out", None)
            base["outs"] = [recs[c]["out"] if c in recs else {"absent": True} for c in CONFIGS]
            g.write(json.dumps(base, separators=(",", ":")) + "\n")
            n += 1
    for f in files.values():
        f.close()
    return n


def run(prop, tier, seed, work, ev):
    tlc_ok("mc/MC_Convert.tla", "MC_Convert.cfg", work, ev=ev, label="conversion as coded = JSON image of the input, for all 4 feature sets x inputs")
    tlc_must_fail("mc/MC_Convert.tla", "MC_Convert_neg.cfg", work, invariant="Inv_ConfigIndependent", ev=ev)
    tlc_must_fail("mc/MC_Convert.tla", "MC_Convert_f17.cfg", work, invariant="Inv_ConfigIndependent", ev=ev)    # the conversion as found (F17, fixed)
    drivers = {}
    missing = []
    for c in CONFIGS:
        try:
            drivers[c] = build_driver(c)
        except ToolError as e:
            if c in ("default", "sync"):
                raise
            missing.append(c)       # nightly `specialization` may stop compiling in a future toolchain: reported, not a verdict
            log("  configuration %s not explored: %s" % (c, str(e)[:200]))
    ev.extra["configurations_explored"] = sorted(drivers)
    ev.extra["configurations_not_built"] = missing
    ev.exhaustive = True
    ev.rule = ("cases: (i) every input of the 22 specially handled input types at boundary values (integer widths at min/max, isize/usize, "
               "floats, strings, bool, unit, serde_json values owned/borrowed, library values owned/borrowed/ref-counted) through to_jmespath "
               "and search; (ii) the quick case files of C01 (sentences <= 4 x 12 documents), C02 (value domains) and C06 (decision table up to "
               "2 arguments) run by each build. Non-trivial: observed under at least two feature sets.")
    ev.trusted.append("line-wise join of the four observation files by the check script (no comparison is made there)")
    rejects = []
    # case files
    files = []
    c = work.path("conv.cases")
    r = tlc("gen/Gen_Conv.tla", "Gen.cfg", work, env={"OUT": c}, workers=1, timeout=600)
    if r.rc != 0 or not os.path.exists(c):
        raise ToolError("Gen_Conv failed:\n" + r.tail())
    files.append(("input conversions", c, "conv", None))
    c = work.path("sent.cases")
    eng_eval.gen(work, "sent", c, n=4 if tier == "quick" else 5, lo=1, assign=2 if tier == "thorough" else 1, ndocs=12)
    files.append(("sentences x documents", c, "search", c + ".docs"))
    c = work.path("val.cases")
    eng_funcs.gen_call(work, "val", c, 3, 3 if tier == "quick" else 4)
    files.append(("function value domains", c, "search", None))
    c = work.path("sig.cases")
    eng_funcs.gen_call(work, "sig", c, 2 if tier == "quick" else 3, 3, via="lit")
    files.append(("signature decision table", c, "search", None))
    # JSON texts (numerals at every class boundary, strings, structures): what each build reads, prints and converts -- bit patterns included
    c = work.path("json.cases")
    r = tlc("gen/Gen_Json.tla", "Gen.cfg", work, env={"OUT": c}, workers=1, timeout=1800)
    if r.rc != 0 or not os.path.exists(c):
        raise ToolError("Gen_Json failed:\n" + r.tail())
    files.append(("JSON texts: numerals, strings, structures", c, "json", None))
    # hand-shaped families of the evaluation engine: texts that coincide under normalisation (a cache that exists under one feature
    # set only would show here), aliasing, per-element temporaries
    for fam in ("confuse", "alias", "inflate", "digitkeys", "cmpchain", "absent", "nested", "mapnull", "twoslice", "msnull", "firstnull", "bykeys", "errpair", "keyorder", "hash", "scalarties"):
        c = work.path("pool.%s.cases" % fam)
        with open(c, "w") as f:
            for line in open(eng_eval.POOLS):
                if '"fam": "%s"' % fam in line:
                    f.write(line)
                    # ... and with the document handed to search as a serde_json::Value, owned and by reference (ToJmespath is
                    # implemented differently under `specialized`)
                    r = json.loads(line)
                    for how in ("value", "ref"):
                        r["input"] = how
                        f.write(json.dumps(r) + "\n")
        files.append((eng_eval.POOL_LABEL[fam] + " (document as Rcvar, as Value, as &Value)", c, "search", eng_eval.POOLS + ".docs"))
    import eng_sync
    c = work.path("long.cases")
    eng_sync.long_pool(c)
    files.append(("long arrays (192..4000 elements): tied extremes, failures in different quarters", c, "search", None))
    for label, cases, engine, docs in files:
        obs = {}
        for cfg, drv in drivers.items():
            o = "%s.%s.obs" % (cases, cfg)
            run_driver(drv, ["run", engine], cases, o, env={"EVAL_DOCS": docs} if docs else None)
            obs[cfg] = o
        joined = cases + ".joined"
        join(obs, joined)
        for o in obs.values():
            os.remove(o)
        stats, rej = judge("tv/TV_Features.tla", None, joined, work)
        ev.add_judged(label + " under " + "/".join(sorted(drivers)), stats, rej, joined, nsamples=2)
        rejects += rej
        os.remove(joined)
    return rejects


def replay(prop, path, work):
    rec = json.load(open(path))["record"]
    rec.pop("outs", None)
    rec.pop("d", None)
    cases = work.path("c")
    with open(cases, "w") as f:
        f.write(json.dumps(rec) + "\n")
    obs = {}
    for c in CONFIGS:
        try:
            drv = build_driver(c)
        except ToolError:
            continue
        o = work.path("o." + c)
        run_driver(drv, ["run", "conv" if rec.get("kind") == "conv" else "search"], cases, o)
        obs[c] = o
    joined = work.path("j")
    join(obs, joined)
    stats, rej = judge("tv/TV_Features.tla", None, joined, work, chunks=1)
    print("observations:", open(joined).read()[:900])
    if rej:
        print("spec expected:", json.dumps(rej[0]["exp"])[:500])
        print("VIOLATION property=%s replay=%s" % (prop, path))
        return 1
    print("accepted by the specification")
    return 0
