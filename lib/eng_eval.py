"""C01 — search results conform to the specification (core expression forms)."""
import json, os, subprocess
import common
from common import tlc, tlc_ok, tlc_must_fail, build_driver, run_driver, judge, ToolError, log

TIERS = {
    "quick":    dict(mc="MC_Eval_quick.cfg", parts=[(4, 1, 2, 12), (5, 5, 1, 3)], chains=3, rand=30000, maxlen=25),
    "thorough": dict(mc="MC_Eval_thorough.cfg", parts=[(5, 1, 2, 12), (6, 6, 1, 2)], chains=4, rand=150000, maxlen=60),
}


def gen(work, mode, out, n=0, lo=1, assign=1, ndocs=1, inp=None, timeout=3000, links="all"):
    e = {"MODE": mode, "OUT": out, "N": str(n), "LO": str(lo), "ASSIGN": str(assign), "NDOCS": str(ndocs), "IN": inp or out, "LINKS": links}
    r = tlc("gen/Gen_Eval.tla", "Gen.cfg", work, env=e, workers=1, timeout=timeout)
    if r.rc != 0 or not os.path.exists(out):
        raise ToolError("Gen_Eval %s failed:\n%s" % (mode, r.tail()))
    return common.count_lines(out)


def run_and_judge(label, cases, work, ev, drv, docs=None, nsamples=2, tv="tv/TV_Eval.tla", engine="search"):
    obs = cases + ".obs"
    run_driver(drv, ["run", engine], cases, obs, env={"EVAL_DOCS": docs} if docs else None)
    stats, rej = judge(tv, None, obs, work)
    ev.add_judged(label, stats, rej, obs, nsamples=nsamples)
    os.remove(obs)
    return rej


POOLS = os.path.join(common.SPEC, "gen", "eval_pools.ndjson")
POOL_LABEL = {"confuse": "texts that coincide under white-space / case normalisation, in both orders in one process",
              "bool": "boolean formulas of depth <= 2 over ordering comparisons with non-number operands, also as filter predicates",
              "inflate": "nested projections over per-element temporaries, inner arrays crossing the sizes 8 / 16 / 21 / 64",
              "alias": "the same document node reached twice (both operands, two calls on one array of 16 / 17 elements)",
              "hash": "multi-select hashes with keys out of order / repeated / non-ASCII in every position and with every continuation",
              "nest": "by-functions and map inside the expression reference of a by-function",
              "errpair": "two failing sub-expressions (type / arity / unknown function / zero step) under every binary construct: the first failure wins",
              "deep": "every nesting constructor at depths 1..8 on a document nested to match",
              "keyword": "field names spelled like keywords (true, false, null, and, or, not, in) in every operand position",
              "litop": "every postfix operator, comparison and call applied directly to a literal operand",
              "compose": "every built-in on what the any-typed built-ins pass through (expression references inside containers included)",
              "mapnull": "expression references that ignore their input (literals, multi-selects of literals) under map / projections / by-functions over arrays with nulls at every position",
              "nested": "shallow versus deep: merge, flatten (empty nested lists too), contains, ==, values on containers of containers",
              "twins": "the same text between different delimiters ('T', `T`, \"T\") in one expression, both orders",
              "twoslice": "two or three slices in one expression with every combination of explicit / omitted parts; slices with an omitted start behind every projection kind",
              "cmpchain": "two comparators side by side without parentheses (all 36 pairs): one binding power, left-associative",
              "absent": "filter predicates `field OP literal` over arrays mixing objects with / without the key, explicit nulls and non-objects, both operand orders",
              "litpost": "a literal as the right operand of every comparator / || / && followed by every postfix operator",
              "notgroup": "a parenthesised group as the operand of every prefix / infix context followed by every step",
              "selfnest": "a call as an argument of a call of the same function (0, 1, 2 arguments) for every built-in",
              "keyorder": "two failing members of one multi-select hash whose keys are not in ascending order: the one written first is reported",
              "msidx": "a multi-select list / hash indexed at once with indexes beyond its arity in both directions; unselected members still evaluated",
              "foldlit": "&& / || with a literal on either side x operands of every truthiness, failing operands included",
              "bsruns": "runs of 0..7 backslashes before a closing / escaped delimiter in raw strings, quoted identifiers and JSON literals, alone and inside larger expressions",
              "byorder": "by-functions: an earlier element with a mistyped key and a later element whose key expression fails, in both orders and at every position",
              "bykeys": "by-functions and map with every form of key expression (negative / positive indexes, slices, nested paths, pipes, filters, calls, groups)",
              "msnull": "a multi-select list / hash followed at once by every postfix operator, on a null and on a non-null current node",
              "exprefbody": "expression references whose body starts with every kind of token that can start an expression, followed by every kind of continuation",
              "firstnull": "projections some of whose results are null, then an index / slice / pipe that depends on which results remain",
              "bignums": "integers beyond 2^53 and 2^63 next to fractions and small integers, in every order, under the sorting / extreme functions and comparisons",
              "zeropad": "number tokens written with leading zeros in every index and slice slot",
              "strclass": "every string function on strings with CR LF (both orders), combining marks (first / middle / last / alone), zero-width, bidi and astral characters",
              "scalarties": "sort_by / max_by / min_by over scalar elements with computed keys that tie (ties keep their original order)",
              "twotokens": "two delimited tokens (raw string, quoted identifier, JSON literal, with and without an escaped delimiter) in one expression, every order",
              "deepeq": "equal and unequal values nested 63..90 container levels deep under == / != / contains",
              "tonum": "to_number on strings made of the characters of numbers that are not numbers: null, never a failure",
              "bigsigns": "negative integers against integers above 2^63 - 1 (six operators, both operand orders, document and literals); numbers below -2^63 and beyond 2^64 under floor / ceil / abs and the sorting functions",
              "zeros": "zeros of both signs (documents built with the sign bit set, literals written -0.0): one number under every comparison, sort and extreme",
              "digitkeys": "member names made of digits on arrays and objects (a name never indexes an array)"}
R6 = ["mapnull", "nested", "twins", "twoslice", "cmpchain", "absent", "litpost", "notgroup", "selfnest", "keyorder", "msidx", "foldlit", "digitkeys", "bsruns", "byorder", "bykeys", "msnull", "exprefbody", "firstnull", "bignums", "zeropad", "strclass", "scalarties", "twotokens", "deepeq", "tonum", "zeros", "bigsigns"]


def pool_families(fams, work, ev, drv, nsamples=1):
    """hand-shaped families of spec/gen/eval_pools.ndjson (lib/mk_eval_pools.py), judged like every other evaluation case"""
    rejects = []
    for fam in fams:
        c = work.path("pool.%s.cases" % fam)
        with open(c, "w") as f:
            for line in open(POOLS):
                if '"fam": "%s"' % fam in line:
                    f.write(line)
        rejects += run_and_judge(POOL_LABEL[fam], c, work, ev, drv, docs=POOLS + ".docs", nsamples=nsamples)
    return rejects


def pools_matching(pattern, what, work, ev, drv, skip=()):
    """every hand-shaped case (all families of eval_pools.ndjson) whose expression text contains the construct a property is about
    (regular expression on the text), judged like every other evaluation case: the families were written for one property each, the
    constructs meet in all of them"""
    import re
    rx = re.compile(pattern)
    c = work.path("pools.match.cases")
    n = 0
    with open(c, "w") as f:
        for line in open(POOLS):
            r = json.loads(line)
            if r["fam"] in skip:
                continue
            if rx.search(common.uncps(r["text"])):
                f.write(line)
                n += 1
    return run_and_judge("all %d hand-shaped cases (every family) whose text contains %s" % (n, what), c, work, ev, drv, docs=POOLS + ".docs", nsamples=1)


def run(prop, tier, seed, work, ev):
    t = TIERS[tier]
    drv = build_driver()
    tlc_ok("mc/MC_Eval.tla", t["mc"], work, ev=ev, label="Interp(L1)=Eval(L0), laws, comparison algebra " + tier, timeout=6000)
    if tier == "thorough":
        tlc_ok("mc/MC_Eval.tla", "MC_Eval_quick.cfg", work, ev=ev, label="Interp(L1)=Eval(L0), laws, comparison algebra (documents of depth 1 over all atoms)", timeout=3000)
    tlc_must_fail("mc/MC_Eval.tla", "MC_Eval_neg.cfg", work, invariant="Inv_InterpIsEval", ev=ev)
    tlc_must_fail("mc/MC_Eval.tla", "MC_Eval_neg2.cfg", work, invariant="Inv_InterpIsEval", ev=ev)
    ev.exhaustive = True
    ev.rule = ("cases: every ABNF sentence (no '&') of the tier's token lengths with payload-carrying tokens (names a/b, numbers -2..2, "
               "ten literals of every type, six comparators) against a pool of 12 documents; seeded random sentences of up to ~%d tokens "
               "against random documents of depth <= 4 (also documents drawn for other sentences). The judge lexes the text, takes the "
               "Level-0 tree and compares the observed outcome with Eval. Non-trivial: result is neither null nor an error." % (3 * t["maxlen"]))
    ev.trusted.append("Eval.tla as the reading of the JMESPath specification; Lexer/Prec for text -> tree (checked by C03/C04)")
    rejects = []
    for (n, lo, assign, ndocs) in t["parts"]:
        c = work.path("sent%d.cases" % n)
        gen(work, "sent", c, n=n, lo=lo, assign=assign, ndocs=ndocs)
        rejects += run_and_judge("sentences of %d..%d tokens x %d payload assignment(s) x %d documents" % (lo, n, assign, ndocs),
                                 c, work, ev, drv, docs=c + ".docs")
    c = work.path("chains.cases")
    gen(work, "chains", c, n=3)
    rejects += run_and_judge("operator chains: primary + every sequence of <= 3 links (17 kinds: postfix operators, pipes, hashes, filters with projections / '!', boolean and comparison links) x 4 nested documents x both name assignments",
                             c, work, ev, drv, docs=c + ".docs")
    if t["chains"] > 3:
        gen(work, "chains", c, n=t["chains"], links="core")
        rejects += run_and_judge("operator chains: primary + every sequence of <= %d of the eight plain postfix operators x 4 nested documents x both name assignments" % t["chains"],
                                 c, work, ev, drv, docs=c + ".docs")
    c = work.path("preds.cases")
    gen(work, "preds", c)
    rejects += run_and_judge("filter predicates that are chains themselves (projection then pipe / index / field; inner predicates true for null), also under '!' and followed by one more link",
                             c, work, ev, drv, docs=c + ".docs", nsamples=1)
    rejects += pool_families(["confuse", "bool", "inflate", "alias", "hash", "nest", "errpair", "deep", "keyword", "litop"] + R6, work, ev, drv)
    rejects += varapi_phase(work, ev, drv)
    params = work.path("rand.in")
    e = dict(os.environ, GEN_MAXLEN=str(t["maxlen"]))
    subprocess.check_call([drv, "gen", "eval", str(seed), str(t["rand"]), params], env=e)
    c = work.path("rand.cases")
    gen(work, "spell", c, inp=params)
    rejects += run_and_judge("random sentences x random documents", c, work, ev, drv, nsamples=3)
    c, n = common.witness_cases(prop, work)
    if n:
        rejects += run_and_judge("witnesses of recorded findings", c, work, ev, drv, nsamples=1)
    return rejects


def varapi_phase(work, ev, drv, model=True):
    """the public accessor methods of Variable (spec/VarApi.tla): the contract stated through Eval (MC_VarApi), every method called on
    every ordered pair of a universe and judged by TV_VarApi"""
    if model:
        tlc_ok("mc/MC_VarApi.tla", "MC_VarApi.cfg", work, ev=ev, timeout=3000,
               label="accessor methods of Variable (get_field / get_index / get_negative_index / is_truthy / compare / Ord) = the evaluator's meaning of the corresponding expression form; the internal order's laws")
    c = work.path("varapi.cases")
    r = tlc("gen/Gen_VarApi.tla", "Gen.cfg", work, env={"OUT": c}, workers=1, timeout=1800)
    if r.rc != 0 or not os.path.exists(c):
        raise ToolError("Gen_VarApi failed:\n" + r.tail())
    return run_and_judge("the public accessor methods of Variable on every ordered pair of 93 values (all types, neighbouring doubles, magnitudes near f64::MAX, "
                         "strings ordered differently by code point and UTF-16 unit): get_type, is_truthy, is_X / as_X, get_field, get_index, "
                         "get_negative_index, compare, == / !=, Ord::cmp", c, work, ev, drv, nsamples=1, tv="tv/TV_VarApi.tla", engine="varapi")


def replay(prop, path, work, tv="tv/TV_Eval.tla", engine="search"):
    drv = build_driver()
    rec = json.load(open(path))["record"]
    if rec.get("e") == "varapi":
        tv, engine = "tv/TV_VarApi.tla", "varapi"
    if rec.get("e") == "restype":
        tv = "tv/TV_ResType.tla"
    rec.pop("d", None)
    cases = work.path("c")
    with open(cases, "w") as f:
        f.write(json.dumps(rec) + "\n")
    obs = work.path("o")
    run_driver(drv, ["run", engine], cases, obs)
    stats, rej = judge(tv, None, obs, work, chunks=1)
    o = json.loads(open(obs).read())
    if "text" in o:
        print("expression:", repr(common.uncps(o["text"])))
    print("observation:", json.dumps(o.get("out"))[:600])
    if rej:
        print("spec expected:", json.dumps(rej[0]["exp"])[:900])
        known = [k for k in common.load_known() if k.get("status") == "known" and prop in k.get("properties", []) and k.get("deviation") in (rej[0].get("expl") or [])]
        if known:
            print("KNOWN-FINDING: property=%s %s [%s]" % (prop, known[0].get("what", known[0]["id"])[:200], known[0].get("deviation")))
            return 0
        print("VIOLATION property=%s replay=%s" % (prop, path))
        return 1
    print("accepted by the specification")
    return 0
