"""C10 — equality and ordering operators obey their algebraic contract."""
import os
import common
from common import tlc, tlc_ok, tlc_must_fail, build_driver, ToolError
import eng_eval


def run(prop, tier, seed, work, ev):
    drv = build_driver()
    tlc_ok("mc/MC_Cmp.tla", "MC_Cmp.cfg", work, ev=ev, label="comparison contract on all pairs of U(depth 1, width 2); L1 compare = L0", timeout=3000)
    tlc_ok("mc/MC_Eval.tla", "MC_Eval_cmp.cfg", work, ev=ev, label="comparison algebra through Eval on trees x documents", timeout=3000)
    tlc_must_fail("mc/MC_Cmp.tla", "MC_Cmp_neg.cfg", work, invariant="Inv_L1", ev=ev)
    tlc_ok("mc/MC_Cmp.tla", "MC_Cmp_near.cfg", work, ev=ev, timeout=3000,
           label="universe with neighbouring doubles and large magnitudes: exact order and equality at L0; L1 = L0 up to the tolerant '==' (DEV_TOLERANT_EQ)")
    tlc_must_fail("mc/MC_Cmp.tla", "MC_Cmp_near_nonvacuous.cfg", work, invariant="Inv_NoTolerantPair", ev=ev)
    tlc_must_fail("mc/MC_Cmp.tla", "MC_Cmp_near_neg_overflow.cfg", work, invariant="Inv_L1Near", ev=ev)
    ev.exhaustive = True
    ev.rule = ("cases: every ordered pair of a pool of 44 JSON texts (all type pairings, nested and empty containers, the spellings "
               "0/-0/0.0, 1/1.0/1e0/10e-1/0.1e1, 1.5/15e-1, objects with permuted keys, escaped strings) under all six operators at once, "
               "as `a OP b` over a document given as JSON text and as comparisons of two literals; the judge checks each result against "
               "Eval and the cross-operator laws on the six observed results. Non-trivial: result array contains a boolean true.")
    ev.trusted.append("JsonParse.tla for the meaning of number spellings with one-digit exponents")
    e = {"OUT": work.path("cmp.cases")}
    r = tlc("gen/Gen_Cmp.tla", "Gen.cfg", work, env=e, workers=1, timeout=1200)
    if r.rc != 0 or not os.path.exists(e["OUT"]):
        raise ToolError("Gen_Cmp failed:\n" + r.tail())
    rejects = eng_eval.run_and_judge("all pairs x six operators (document text and literal forms)", e["OUT"], work, ev, drv, nsamples=3)
    rejects += eng_eval.pool_families(["bool", "alias", "litop", "keyword", "cmpchain", "absent", "litpost", "foldlit", "deepeq", "zeros"], work, ev, drv)
    rejects += eng_eval.pools_matching(r"==|!=|<|>", "a comparator", work, ev, drv, skip=("bool", "alias", "litop", "keyword", "cmpchain", "absent", "litpost", "foldlit", "deepeq", "zeros"))
    rejects += eng_eval.varapi_phase(work, ev, drv)
    if tier == "thorough":
        import subprocess
        params = work.path("rand.in")
        subprocess.check_call([drv, "gen", "eval", str(seed + 7), "60000", params], env=dict(os.environ, GEN_MAXLEN="12"))
        c = work.path("rand.cases")
        eng_eval.gen(work, "spell", c, inp=params)
        rejects += eng_eval.run_and_judge("random short sentences (comparators among them) x random documents", c, work, ev, drv)
    return rejects


def replay(prop, path, work):
    return eng_eval.replay(prop, path, work)
