#!/usr/bin/env python3
"""Writes spec/gen/cli_pools.ndjson: expression and input texts for the jp invocations as code-point arrays (data only;
Gen_Cli.tla assembles the invocations, TV_Cli.tla judges them)."""
import json, os
cps = lambda s: [ord(c) for c in s]
VERIF = os.path.dirname(os.path.dirname(os.path.abspath(__file__)))
exprs = ["@", "a", "a.b", "a[0]", "a[*].b", "length(a)", "keys(@)", "a || b", "`\"lit\"`", "'raw é😀'", "\"é\"", "a[?b > `1`]", "{x: a, y: b}",
         "[a, b]", "to_string(a)", "type(@)", "sort_by(a, &b)", "a[", "a..b", "a.b.", "nosuch(a)", "abs(a)", "a[::0]", "length(@)", "join(', ', a)",
         "max_by(a, &b)", "a | [0]", "!a", "a == `1`", "not_null(a, b, `null`)", "&a", "*", "b.*", "a[].b", "s", "s | length(@)", "n", "big", "neg", "f",
         # results that are not strings although they print with quotes (an expression reference), for --unquoted
         "not_null(&a)", "to_array(&a)[0]", "not_null(z, &s)", "[not_null(&a)]", "type(not_null(&a))",
         # one kind of quote inside a token delimited by another kind (odd counts of each kind: still a sentence)
         "\"it's\"", "'say \"hi'", "`\"it's\"`", "'`'", "'5\" pipe'", "\"a`b\"", "`\"'\"`", "'\"' == `\"\\\"\"`"]
inputs = ["{\"a\": [{\"b\": 2}, {\"b\": 1}], \"b\": {\"x\": \"y\"}}", "{\"a\": \"string value\", \"b\": null}", "{\"a\": -3}", "[1, 2, 3]", "\"just a string\"",
          "null", "{\"s\": \"é😀\\\"\\\\\\n\", \"n\": 1.5, \"big\": 18446744073709551615, \"neg\": -9223372036854775808, \"f\": 1e300}",
          "{\"a\": [\"x\", \"y\"], \"a\": [\"dup\", \"keys\"]}", "{\"a\": [[1, [2]], [3]]}", "  {\"a\" : { \"b\" : [ ] } }  ", "{\"a\": 1e400}",
          "{a: 1}", "", "{\"a\": ", "[1, 2,]", "nul", "{\"a\": \"\\ud800\"}", "12 34", "{\"it's\": 7, \"a`b\": 8, \"a\": {\"b\": \"x\"}}",
          # DEL and the C1 controls (U+007F..U+009F) in string values and keys, raw and as \\u escapes: JSON prints them as they are
          "{\"s\": \"a\u007fb\", \"a\": \"\u0080x\u009f\", \"b\": {\"p\u009fq\": 1, \"\u007f\": [\"\u0085\", \"\u0090\"]}}",
          "{\"a\": \"a\\u007fb\\u0080\\u009f\", \"s\": \"\\u0085\", \"b\": {\"k\\u009f\": \"\\u007f\"}}"]
# failing compiles of long one-line expressions with multi-byte characters at every alignment around the error position
exprs += ['"' + "\u2603" * k + '" ||| b' for k in range(30, 42)] + ["foo ||| '" + "\u00e9" * k + "'" for k in range(30, 42)] + \
         ["'" + "\U0001F600" * k + "' | a[" for k in (16, 17, 18, 19, 20, 40)] + ["a." * 40 + "b", "a." * 40 + ".b", "length(k)", "k"]
# expression files: line breaks of every kind inside and between tokens (a raw string may span lines; CR LF is two characters of it)
crlf = ["'x\r\ny'", "[k == 'x\r\ny', length('\r\n')]", "'x\ry'", "'x\ny'", "a\r\n.\r\nb", "`\"x\\r\\ny\"`", "'tail\r\n'", "a\r\n", "\r\na", "'\r'"]
exprs += crlf
# inputs of more than 64 KiB / 128 KiB: U+E000 stands for a run of `pad` letters (expanded by the driver), so that the multi-byte
# character after it lands on every alignment around the 65536th / 131072nd byte
biginputs = ["{\"k\":\"\ue000\u00e9 tail\"}", "{\"k\":\"\ue000\U0001F600\u20ac\"}"]
pads = list(range(65524, 65534)) + list(range(131060, 131070)) + [10, 4090, 8190]
# texts that end (or begin) with characters Unicode calls white space but neither JMESPath nor JSON does (and with the blanks both do
# accept), through every source: a file's content is the text, nothing is trimmed away
tails = ["\u00a0", "\x0c\n", "\n\u2028", "\x0b\n", "\n\u3000\n", "\u0085", "\u2003", " \t\r\n", "\ufeff", "\u200b", "\n\n\n", "\u2029", "\x1f"]
tailexprs = ["a" + t for t in tails] + [t + "a" for t in tails[:7]]
tailinputs = ['{"a":1}' + t for t in tails] + [t + '"x"' for t in tails[:7]] + ["[1]\x0c\n", '"x"\n\u2028']
# results nested deeper than any document the JSON reader accepts (127 levels): an expression adds levels, the printer must follow
deepexprs = ["[" * 140 + "@" + "]" * 140, "[[@]]", "[@]", "{a: " * 130 + "@" + "}" * 130, "[[@, @]]", "[" * 129 + "`1`" + "]" * 129, "@"]
deepinputs = ["[" * 127 + "1" + "]" * 127, "1", "[" * 126 + '{"a":[1,"s"]}' + "]" * 126]
base_e, base_i = len(exprs), len(inputs)
exprs += tailexprs + deepexprs
inputs += tailinputs + deepinputs
out = os.path.join(VERIF, "spec", "gen", "cli_pools.ndjson")
with open(out, "w") as f:
    f.write(json.dumps({"exprs": [cps(e) for e in exprs], "inputs": [cps(i) for i in inputs],
                        "biginputs": [cps(i) for i in biginputs], "pads": pads, "bigexprs": [base_e - len(crlf) - 1, base_e - len(crlf)],
                        "crlfexprs": list(range(base_e - len(crlf) + 1, base_e + 1)),
                        "tailexprs": list(range(base_e + 1, base_e + len(tailexprs) + 1)), "deepexprs": list(range(base_e + len(tailexprs) + 1, len(exprs) + 1)),
                        "tailinputs": list(range(base_i + 1, base_i + len(tailinputs) + 1)), "deepinputs": list(range(base_i + len(tailinputs) + 1, len(inputs) + 1)),
                        "nexprs": base_e, "ninputs": base_i}) + "\n")
print("wrote", out, len(exprs), len(inputs))
