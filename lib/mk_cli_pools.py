#!/usr/bin/env python3
"""Writes spec/gen/cli_pools.ndjson: expression and input texts for the jp invocations as code-point arrays (data only;
Gen_Cli.tla assembles the invocations, TV_Cli.tla judges them)."""
import json, os
cps = lambda s: [ord(c) for c in s]
VERIF = os.path.dirname(os.path.dirname(os.path.abspath(__file__)))
exprs = ["@", "a", "a.b", "a[0]", "a[*].b", "length(a)", "keys(@)", "a || b", "`\"lit\"`", "'raw é😀'", "\"é\"", "a[?b > `1`]", "{x: a, y: b}",
         "[a, b]", "to_string(a)", "type(@)", "sort_by(a, &b)", "a[", "a..b", "a.b.", "nosuch(a)", "abs(a)", "a[::0]", "length(@)", "join(', ', a)",
         "max_by(a, &b)", "a | [0]", "!a", "a == `1`", "not_null(a, b, `null`)", "&a", "*", "b.*", "a[].b", "s", "s | length(@)", "n", "big", "neg", "f"]
inputs = ["{\"a\": [{\"b\": 2}, {\"b\": 1}], \"b\": {\"x\": \"y\"}}", "{\"a\": \"string value\", \"b\": null}", "{\"a\": -3}", "[1, 2, 3]", "\"just a string\"",
          "null", "{\"s\": \"é😀\\\"\\\\\\n\", \"n\": 1.5, \"big\": 18446744073709551615, \"neg\": -9223372036854775808, \"f\": 1e300}",
          "{\"a\": [\"x\", \"y\"], \"a\": [\"dup\", \"keys\"]}", "{\"a\": [[1, [2]], [3]]}", "  {\"a\" : { \"b\" : [ ] } }  ", "{\"a\": 1e400}",
          "{a: 1}", "", "{\"a\": ", "[1, 2,]", "nul", "{\"a\": \"\\ud800\"}", "12 34"]
out = os.path.join(VERIF, "spec", "gen", "cli_pools.ndjson")
with open(out, "w") as f:
    f.write(json.dumps({"exprs": [cps(e) for e in exprs], "inputs": [cps(i) for i in inputs]}) + "\n")
print("wrote", out, len(exprs), len(inputs))
