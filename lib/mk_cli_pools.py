#!/usr/bin/env python3
"""Writes spec/gen/cli_pools.ndjson: expression and input texts for the jp invocations as code-point arrays (data only;
Gen_Cli.tla assembles the invocations, TV_Cli.tla judges them)."""
import json, os
cps = lambda s: [ord(c) for c in s]
VERIF = os.path.dirname(os.path.dirname(os.path.abspath(__file__)))
exprs = ["@", "a", "a.b", "a[0]", "a[*].b", "length(a)", "keys(@)", "a || b", "`\"lit\"`", "'raw é😀'", "\"é\"", "a[?b > `1`]", "{x: a, y: b}",
         "[a, b]", "to_string(a)", "type(@)", "sort_by(a, &b)", "a[", "a..b", "a.b.", "nosuch(a)", "abs(a)", "a[::0]", "length(@)", "join(', ', a)",
         "max_by(a, &b)", "a | [0]", "!a", "a == `1`", "not_null(a, b, `null`)", "&a", "*", "b.*", "a[].b", "s", "s | length(@)", "n", "big", "neg", "f"]
inputs = ["{\"a\": [{\"b\": 2}, {\"b\": 1}], \"b\": {\"x\": \"y\"}}", "{\"a\": \"string value\", \"b\": null}", "{\"a\": -3}", "[1, 2, 3]", "\"just a string\"",
          "null", "{\"s\": \"é😀\\\"\\\\\\n\", \"n\": 1.5, \"big\": 18446744073709551615, \"neg\": -9223372036854775808, \"f\": 1e300}",
          "{\"a\": [\"x\", \"y\"], \"a\": [\"dup\", \"keys\"]}", "{\"a\": [[1, [2]], [3]]}", "  {\"a\" : { \"b\" : [ ] } }  ", "{\"a\": 1e400}",
          "{a: 1}", "", "{\"a\": ", "[1, 2,]", "nul", "{\"a\": \"\\ud800\"}", "12 34"]
# failing compiles of long one-line expressions with multi-byte characters at every alignment around the error position
exprs += ['"' + "\u2603" * k + '" ||| b' for k in range(30, 42)] + ["foo ||| '" + "\u00e9" * k + "'" for k in range(30, 42)] + \
         ["'" + "\U0001F600" * k + "' | a[" for k in (16, 17, 18, 19, 20, 40)] + ["a." * 40 + "b", "a." * 40 + ".b", "length(k)", "k"]
# expression files: line breaks of every kind inside and between tokens (a raw string may span lines; CR LF is two characters of it)
crlf = ["'x\r\ny'", "[k == 'x\r\ny', length('\r\n')]", "'x\ry'", "'x\ny'", "a\r\n.\r\nb", "`\"x\\r\\ny\"`", "'tail\r\n'", "a\r\n", "\r\na", "'\r'"]
exprs += crlf
# inputs of more than 64 KiB / 128 KiB: U+E000 stands for a run of `pad` letters (expanded by the driver), so that the multi-byte
# character after it lands on every alignment around the 65536th / 131072nd byte
biginputs = ["{\"k\":\"\ue000\u00e9 tail\"}", "{\"k\":\"\ue000\U0001F600\u20ac\"}"]
pads = list(range(65524, 65534)) + list(range(131060, 131070)) + [10, 4090, 8190]
out = os.path.join(VERIF, "spec", "gen", "cli_pools.ndjson")
with open(out, "w") as f:
    f.write(json.dumps({"exprs": [cps(e) for e in exprs], "inputs": [cps(i) for i in inputs],
                        "biginputs": [cps(i) for i in biginputs], "pads": pads, "bigexprs": [len(exprs) - len(crlf) - 1, len(exprs) - len(crlf)],
                        "crlfexprs": list(range(len(exprs) - len(crlf) + 1, len(exprs) + 1))}) + "\n")
print("wrote", out, len(exprs), len(inputs))
