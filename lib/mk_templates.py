#!/usr/bin/env python3
"""Writes spec/gen/err_templates.ndjson: readable text fragments as code-point arrays (TLA+ has no string -> sequence
conversion).  Only data: Gen_Errors.tla assembles the expression texts and computes the expected error positions."""
import json, os
cps = lambda s: [ord(c) for c in s]
VERIF = os.path.dirname(os.path.dirname(os.path.abspath(__file__)))

# prefixes: expressions that evaluate without error to a NON-NULL value on the document {"a": [1, 2]}, followed by a pipe
prefixes = ["", "@ | ", "`\"é€\"` | ", "a\n|\n", "'\U0001F600é' |\n  ", "length(`[1]`) | ", "[@, `1`][0] |\n'é'\n| ",
            "not_null(`null`, length('éé'))\n| ", "'a\u2028b\u000bc\u0085d\u000ce\rf' | ",
            # long lines: more than 128 (and 256) characters before the error, single- and multi-byte
            "'" + "a" * 140 + "' | ", "'" + "é" * 70 + "\U0001F600" * 70 + "' |\n'x' | " + "to_array(@) | " * 10, "'" + "€" * 300 + "' | "]
# sites: name, what precedes the failing call inside the form, the call name, the text from "(" to the end of the form,
# expected kind class, where the error must point ("call": the "(" of `call`)
sites = [
  # a failing call on its own
  dict(n="type", pre="", call="abs", rest="(`\"x\"`)", kind="type"),
  dict(n="arity", pre="", call="abs", rest="(`1`, `2`)", kind="arity"),
  dict(n="arity0", pre="", call="length", rest="()", kind="arity"),
  dict(n="unknown", pre="", call="nosuch", rest="(`1`)", kind="unknown"),
  # as an argument of an outer call, first and last position
  dict(n="arg1", pre="not_null(", call="abs", rest="(`true`), `1`)", kind="type"),
  dict(n="arg2", pre="not_null(`null`, length('é'), ", call="keys", rest="(`[]`))", kind="type"),
  dict(n="nested", pre="length(to_array(", call="ceil", rest="(`\"1\"`)))", kind="type"),
  # inside containers and operators
  dict(n="mlist", pre="[`1`, ", call="floor", rest="(`null`)]", kind="type"),
  dict(n="mhash", pre="{\"é\": `1`, b: ", call="sum", rest="(`[\"a\"]`)}", kind="type"),
  dict(n="and", pre="`1` && ", call="avg", rest="(`{}`)", kind="type"),
  dict(n="filter", pre="`[1, 2]`[?", call="starts_with", rest="(@, 'a')]", kind="type"),
  dict(n="proj", pre="`[[1], [2]]`[*].", call="join", rest="(@, @)", kind="type"),
  # inside an expression reference: the inner call fails
  dict(n="expref_inner", pre="map(&", call="abs", rest="(@), `[\"x\"]`)", kind="type"),
  dict(n="sortby_inner", pre="sort_by(`[1, 2]`, &", call="nosuch", rest="(@))", kind="unknown"),
  # the by-function itself fails AFTER evaluating an expression reference that contains a (successful) call
  dict(n="sortby_outer", pre="", call="sort_by", rest="(`[{\"a\": 1}, {\"a\": \"x\"}]`, &not_null(a))", kind="type"),
  dict(n="maxby_outer", pre="", call="max_by", rest="(`[{\"a\": 1}, {\"a\": []}]`, &not_null(a))", kind="type"),
  dict(n="minby_outer_first", pre="", call="min_by", rest="(`[{\"a\": null}]`, &to_array(a)[0])", kind="type"),
  dict(n="sortby_outer_nested", pre="length(", call="sort_by", rest="(`[{\"a\": 1}, {\"a\": true}]`, &not_null(a, length('é'))))", kind="type"),
  # the by-function fails after its expression reference evaluated every other kind of node (slice, index, filter, projections,
  # multi-select, pipe, boolean operators, comparison)
  dict(n="maxby_after_slice", pre="", call="max_by", rest="(`[{\"a\": [1, 2]}, {\"a\": [\"x\", 3]}]`, &a[0:1] | [0])", kind="type"),
  dict(n="maxby_after_slice2", pre="", call="sort_by", rest="(`[{\"a\": [1, 2]}, {\"a\": [\"x\", 3]}]`, &a[::1][0])", kind="type"),
  dict(n="maxby_after_slice3", pre="", call="min_by", rest="(`[{\"a\": [1, 2]}, {\"a\": [\"x\", 3]}]`, &a[:-1][0])", kind="type"),
  dict(n="maxby_after_filter", pre="", call="max_by", rest="(`[{\"a\": [1, 2]}, {\"a\": [\"x\", 3]}]`, &a[?@][0])", kind="type"),
  dict(n="maxby_after_star", pre="", call="sort_by", rest="(`[{\"a\": [1, 2]}, {\"a\": [\"x\", 3]}]`, &a[*] | [0])", kind="type"),
  dict(n="maxby_after_flatten", pre="", call="min_by", rest="(`[{\"a\": [1, 2]}, {\"a\": [\"x\", 3]}]`, &a[] | [0])", kind="type"),
  dict(n="maxby_after_hash", pre="", call="max_by", rest="(`[{\"a\": [1, 2]}, {\"a\": [\"x\", 3]}]`, &{k: a}.k[0])", kind="type"),
  dict(n="maxby_after_or", pre="", call="sort_by", rest="(`[{\"a\": [1, 2]}, {\"a\": [\"x\", 3]}]`, &a[0] || a)", kind="type"),
  dict(n="maxby_after_and", pre="", call="min_by", rest="(`[{\"a\": [1, 2]}, {\"a\": [\"x\", 3]}]`, &a[1] && a[0])", kind="type"),
  dict(n="maxby_after_not", pre="", call="max_by", rest="(`[{\"a\": [1, 2]}, {\"a\": [\"x\", 3]}]`, &!(!a[0]) && a[0])", kind="type"),
  dict(n="maxby_after_pipe", pre="", call="sort_by", rest="(`[{\"a\": [1, 2]}, {\"a\": [\"x\", 3]}]`, &a | [0])", kind="type"),
  dict(n="maxby_after_paren", pre="", call="min_by", rest="(`[{\"a\": [1, 2]}, {\"a\": [\"x\", 3]}]`, &(a)[0])", kind="type"),
  dict(n="maxby_after_cmp", pre="", call="max_by", rest="(`[{\"a\": [1, 2]}, {\"a\": [\"x\", 3]}]`, &`1` < `2` && a[0])", kind="type"),
  dict(n="maxby_after_vals", pre="", call="sort_by", rest="(`[{\"a\": [1, 2]}, {\"a\": [\"x\", 3]}]`, &{k: a[0]}.* | [0])", kind="type"),
  # two levels of expression references: the by-function fails after its key expression ran a call that itself took an expression
  # reference whose body made a call (every level has a caller's position to give back)
  dict(n="sortby_two_levels", pre="", call="sort_by", rest="(`[[1], [2]]`, &map(&abs(@), @))", kind="type"),
  dict(n="maxby_two_levels", pre="", call="max_by", rest="(`[[3, 1], [2]]`, &sort_by(@, &abs(@)))", kind="type"),
  dict(n="minby_two_levels", pre="length(", call="min_by", rest="(`[[1], [2]]`, &map(&not_null(@, length('é')), @)))", kind="type"),
  dict(n="sortby_three_levels", pre="", call="sort_by", rest="(`[[[1]], [[2]]]`, &map(&map(&abs(@), @), @))", kind="type"),
  dict(n="after_ok_slice", pre="", call="abs", rest="(a[0:1][0], `2`)", kind="arity"),
  dict(n="after_ok_slice2", pre="not_null(a[1:], ", call="abs", rest="(`true`))", kind="type"),
  # blanks between the function name and its "(" (the lexer allows them): the error still points at the "("
  dict(n="gap_type", pre="", call="abs", gap=" ", rest="(`\"x\"`)", kind="type"),
  dict(n="gap_arity", pre="", call="length", gap="\n  ", rest="()", kind="arity"),
  dict(n="gap_unknown", pre="", call="nosuch", gap="  ", rest="(`1`)", kind="unknown"),
  dict(n="gap_sortby", pre="", call="sort_by", gap="\n\t ", rest="(`[{\"a\": 1}, {\"a\": \"x\"}]`, &a)", kind="type"),
  dict(n="gap_nested", pre="not_null (", call="abs", gap=" \n", rest="(`true`), `1`)", kind="type"),
  dict(n="gap_expref_inner", pre="map(&", call="abs", gap=" ", rest="(@), `[\"x\"]`)", kind="type"),
  # a later failure in the same outer call after an earlier argument contained a successful call
  dict(n="after_ok_call", pre="", call="abs", rest="(not_null(length('a'), `1`), `2`)", kind="arity"),
]
# slices: the error must point into the bracket pair
slices = [
  dict(n="slice0", pre="`[1, 2]`", open="[", rest="::0]"),
  dict(n="slice0b", pre="a", open="[", rest="1:2:0]"),
  dict(n="slice_in_call", pre="length(`[1]`", open="[", rest=":1:0])"),
  dict(n="slice_after_call", pre="not_null(length('é')) | @", open="[", rest="0::0]"),
  dict(n="slice_then_field", pre="a", open="[", rest="::0]", tail=".b"),
  dict(n="slice_then_index", pre="a", open="[", rest="1::0]", tail="[0].b"),
  dict(n="slice_then_star", pre="length(a", open="[", rest="::0]", tail="[*])"),
  dict(n="slice_in_expref", pre="map(&", open="[", rest="::0]", tail=".x, `[[1]]`)"),
]
out = os.path.join(VERIF, "spec", "gen", "err_templates.ndjson")
with open(out, "w") as f:
    f.write(json.dumps({"prefixes": [cps(p) for p in prefixes],
                        "sites": [{"n": s["n"], "pre": cps(s["pre"]), "call": cps(s["call"] + s.get("gap", "")), "rest": cps(s["rest"]), "kind": s["kind"]} for s in sites],
                        "slices": [{"n": s["n"], "pre": cps(s["pre"]), "open": cps(s["open"]), "rest": cps(s["rest"]), "tail": cps(s.get("tail", ""))} for s in slices]}) + "\n")
print("wrote", out)
