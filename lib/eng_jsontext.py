"""C08 — JSON data passes through unchanged: identity query and text round-trip."""
import json, os, subprocess
import common
from common import tlc, tlc_ok, tlc_must_fail, build_driver, run_driver, judge, ToolError

TIERS = {"quick": dict(mc="MC_Json_quick.cfg", rand=20000), "thorough": dict(mc="MC_Json_thorough.cfg", rand=200000)}


def run_and_judge(label, cases, work, ev, drv):
    obs = cases + ".obs"
    run_driver(drv, ["run", "json"], cases, obs)
    stats, rej = judge("tv/TV_Json.tla", None, obs, work)
    ev.add_judged(label, stats, rej, obs, nsamples=3)
    return rej


def run(prop, tier, seed, work, ev):
    t = TIERS[tier]
    drv = build_driver()
    tlc_ok("mc/MC_Json.tla", t["mc"], work, ev=ev, label="Denote(Print(v)) = v, blanks, duplicate keys, numeral classes " + tier, timeout=3000)
    ev.exhaustive = True
    ev.rule = ("cases: ~1250 numerals (integers at 2^53, 2^63, 2^64 and neighbours and 23-30 digits; 5 integer parts x 10 fractions x 12 exponents "
               "incl. 22/23, +-300, subnormal, max finite) each bare / in an array / in an object; strings over 22 characters of all planes in "
               "4 escape styles, alone and as keys; hand-written structures (nesting, order, duplicate keys, blanks); seeded random numerals "
               "(1..24 integer digits, 0..18 fraction digits, exponents to 300) and random string-keyed structures. Judge: value = what the "
               "text denotes, integer digits unchanged, IEEE bit pattern equal (exact class) or within 2 ulp, re-parse of the printed text "
               "equal, serde_json::Value bridge lossless. Non-trivial: all but trivial structures.")
    ev.trusted += ["Rust's f64::from_str as the denotation of a numeral (TLA+ has no floating point)", "serde_json::from_str::<Value> as the bridge's reference",
                   "JsonParse.tla as the meaning of strings, escapes, nesting and duplicate keys"]
    rejects = []
    c = work.path("json.cases")
    r = tlc("gen/Gen_Json.tla", "Gen.cfg", work, env={"OUT": c}, workers=1, timeout=1800)
    if r.rc != 0 or not os.path.exists(c):
        raise ToolError("Gen_Json failed:\n" + r.tail())
    rejects += run_and_judge("enumerated numerals, strings, structures", c, work, ev, drv)
    rejects += run_and_judge("hand-shaped texts: several strings in one document whose contents look like tokens (NaN, Infinity, brackets, comments) after strings ending in "
                             "escaped backslashes / quotes; texts other dialects accept and JSON does not", os.path.join(common.SPEC, "gen", "json_pools.ndjson"), work, ev, drv)
    c = work.path("rand.cases")
    subprocess.check_call([drv, "gen", "json", str(seed), str(t["rand"]), c])
    rejects += run_and_judge("random numerals and structures", c, work, ev, drv)
    return rejects


def replay(prop, path, work):
    drv = build_driver()
    rec = json.load(open(path))["record"]
    cases = work.path("c")
    with open(cases, "w") as f:
        f.write(json.dumps(rec) + "\n")
    obs = work.path("o")
    run_driver(drv, ["run", "json"], cases, obs)
    stats, rej = judge("tv/TV_Json.tla", None, obs, work, chunks=1)
    o = json.loads(open(obs).read())
    print("text:", repr(common.uncps(o["text"])))
    print("observation:", json.dumps(o.get("out"))[:700])
    if rej:
        print("spec expected:", json.dumps(rej[0]["exp"])[:600], "explained by:", rej[0]["expl"])
        print("VIOLATION property=%s replay=%s" % (prop, path))
        return 1
    print("accepted by the specification")
    return 0
