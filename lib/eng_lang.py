"""C03 (compile accepts exactly the language) and C04 (precedence / projection extent)."""
import json, os, subprocess
import common, eng_eval
from common import tlc, tlc_ok, tlc_must_fail, build_driver, run_driver, judge, ToolError, log

# (a sentence that is refused has no tree at all: that is C03's "accepts exactly the language" and C04's "the parse of every expression is the one the rules dictate")
WHY = {"C03": {"accept", "reject", "errclass", "compile"}, "C04": {"tree", "paren", "results", "reject"}, "C12": {"coords", "errclass"}}

TIERS = {
    "quick":    dict(mc_lang="MC_Lang_quick.cfg", mc_sent="MC_Sent_quick.cfg", tokN=4, nearN=4, juxtaN=3, wrapN=5, chars=[("full", 3), ("small", 4)],
                     sentN=5, chains=3, rtext=20000, rtoks=4000, maxlen=30),
    "thorough": dict(mc_lang="MC_Lang_thorough.cfg", mc_sent="MC_Sent_thorough.cfg", tokN=4, nearN=5, juxtaN=3, wrapN=5, chars=[("full", 4)],
                     sentN=6, chains=4, rtext=60000, rtoks=6000, maxlen=60),
}


def gen(work, mode, out, n, alpha="small", inp=None, timeout=2400):
    e = {"MODE": mode, "OUT": out, "N": str(n), "ALPHA": alpha, "IN": inp or out}
    r = tlc("gen/Gen_Lang.tla", "Gen.cfg", work, env=e, workers=1, timeout=timeout)
    if r.rc != 0 or not os.path.exists(out):
        raise ToolError("Gen_Lang %s failed:\n%s" % (mode, r.tail()))
    return common.count_lines(out)


def run_and_judge(label, cases, work, ev, drv, prop, docs=None, nsamples=2):
    obs = cases + ".obs"
    env = {"LANG_DOCS": docs} if docs else None
    run_driver(drv, ["run", "lang"], cases, obs, env=env)
    stats, rej = judge("tv/TV_Lang.tla", None, obs, work)
    mine = [r for r in rej if (r["exp"] or {}).get("why") in WHY[prop]]
    other = len(rej) - len(mine)
    stats2 = dict(stats)
    if other:
        stats2["rejected_for_other_property"] = other
    ev.add_judged(label, stats2, mine, obs, nsamples=nsamples)
    os.remove(obs)
    return mine


def pool_texts(work, fams):
    """the texts of the hand-shaped evaluation families (spec/gen/eval_pools.ndjson) as language cases: does the text compile, to which tree"""
    import eng_eval
    c = work.path("pooltexts.cases")
    seen = set()
    with open(c, "w") as f:
        for line in open(eng_eval.POOLS):
            r = json.loads(line)
            key = json.dumps(r["text"])
            if r["fam"] in fams and key not in seen:
                seen.add(key)
                f.write(json.dumps({"e": "lang", "text": r["text"]}) + "\n")
    return c


def run(prop, tier, seed, work, ev):
    t = TIERS[tier]
    drv = build_driver()
    rejects = []
    ev.trusted.append("Grammar.tla as the transcription of the published ABNF; Prec.tla as the reading of the binding-power order")
    if prop == "C03":
        tlc_ok("mc/MC_Lang.tla", t["mc_lang"], work, ev=ev, label="Pratt(L1)=ABNF(L0), Lex(Spell)=id " + tier, timeout=3000)
        tlc_must_fail("mc/MC_Lang.tla", "MC_Lang_neg.cfg", work, invariant="Inv_C03", ev=ev)
        ev.exhaustive = True
        ev.rule = ("cases: every token-kind string <= %d tokens (23 kinds) spelled spaced/tight/mixed; every one-token insertion into a sentence of one more token; every character string over a "
                   "29-character alphabet up to the tier's length; seeded random/mutated expression texts. The judge lexes the text "
                   "with the Lexer model and decides by ABNF membership. Non-trivial: the text lexes to >= 2 tokens." % t["tokN"])
        c = work.path("tok.cases")
        gen(work, "tokens", c, t["tokN"])
        rejects += run_and_judge("all token strings <= %d" % t["tokN"], c, work, ev, drv, prop)
        c = work.path("near.cases")
        gen(work, "near", c, t["nearN"])
        rejects += run_and_judge("one-token insertions into every sentence of %d tokens" % t["nearN"], c, work, ev, drv, prop)
        for alpha, n in t["chars"]:
            c = work.path("chars.%s.cases" % alpha)
            gen(work, "chars", c, n, alpha=alpha)
            rejects += run_and_judge("all character strings <= %d (%s alphabet)" % (n, alpha), c, work, ev, drv, prop)
        c = work.path("juxta.cases")
        gen(work, "juxta", c, t["juxtaN"])
        rejects += run_and_judge("juxtapositions S1 S2 and (S1) S2 of sentences <= %d tokens" % t["juxtaN"], c, work, ev, drv, prop)
        c = work.path("wrap.cases")
        gen(work, "wrap", c, t["wrapN"])
        rejects += run_and_judge("parentheses around every span of every sentence <= %d tokens" % t["wrapN"], c, work, ev, drv, prop)
        c = pool_texts(work, {"litop", "keyword", "hash", "bool", "errpair", "compose", "confuse", "deep", "alias", "nest"} | set(eng_eval.R6))
        rejects += run_and_judge("the texts of the hand-shaped evaluation families (literal operands, keyword-like names, hashes, formulas, compositions)", c, work, ev, drv, prop)
        c = work.path("ws.cases")
        gen(work, "ws", c, 3)
        rejects += run_and_judge("every sentence <= 3 tokens with CR / CR LF / runs of blanks between, before and after its tokens", c, work, ev, drv, prop)
        c = work.path("amp.cases")
        gen(work, "amp", c, 0)
        rejects += run_and_judge("an ampersand before every token of 30 skeleton sentences with calls", c, work, ev, drv, prop)
        c = work.path("uni.cases")
        gen(work, "uni", c, 0)
        rejects += run_and_judge("Unicode class probes (non-ASCII digits, letters, blanks, controls) after every token-starting character", c, work, ev, drv, prop)
        c = work.path("numerals.cases")
        gen(work, "numerals", c, 0)
        rejects += run_and_judge("number-token spellings: leading zeros, long digit runs, multi-digit negatives, 32-bit limits", c, work, ev, drv, prop)
        c = work.path("rtext.cases")
        e = dict(os.environ, GEN_MAXLEN=str(t["maxlen"]))
        subprocess.check_call([drv, "gen", "lang-text", str(seed), str(t["rtext"]), c], env=e)
        rejects += run_and_judge("random / mutated texts", c, work, ev, drv, prop, nsamples=3)
    else:
        tlc_ok("mc/MC_Sent.tla", t["mc_sent"], work, ev=ev, label="Pratt tree = Prec tree, paren-invariant " + tier, timeout=3000)
        tlc_must_fail("mc/MC_Sent.tla", "MC_Sent_neg.cfg", work, ev=ev)
        ev.exhaustive = True
        ev.rule = ("cases: every ABNF sentence <= %d tokens with positional payloads, with its parenthesised spelling, searched on 2 "
                   "documents; seeded random grammar-directed sentences up to ~%d tokens; random texts. The judge compares the public "
                   "AST with Prec!TreeOf(tokens), the AST of the parenthesised spelling and both search results. "
                   "Non-trivial: >= 2 tokens." % (t["sentN"], 3 * t["maxlen"]))
        c = work.path("sent.cases")
        gen(work, "sent", c, t["sentN"])
        rejects += run_and_judge("all sentences <= %d" % t["sentN"], c, work, ev, drv, prop, docs=c + ".docs")
        c = work.path("chains.cases")
        gen(work, "chains", c, t["chains"])
        rejects += run_and_judge("operator chains: primary + every sequence of <= %d postfix operators" % t["chains"], c, work, ev, drv, prop,
                                 docs=c + ".docs")
        c = work.path("wrap.cases")
        gen(work, "wrap", c, t["wrapN"])
        rejects += run_and_judge("explicit parentheses around every span of every sentence <= %d tokens: the tree is that of the grouped reading" % t["wrapN"],
                                 c, work, ev, drv, prop)
        c = pool_texts(work, {"litop", "keyword", "hash", "bool", "deep", "alias", "nest", "inflate"} | set(eng_eval.R6))
        rejects += run_and_judge("the texts of the hand-shaped evaluation families: tree of each", c, work, ev, drv, prop)
        toks = work.path("rtoks.in")
        e = dict(os.environ, GEN_MAXLEN=str(t["maxlen"]))
        subprocess.check_call([drv, "gen", "lang-toks", str(seed), str(t["rtoks"]), toks], env=e)
        c = work.path("rtoks.cases")
        gen(work, "spell", c, 0, inp=toks)
        rejects += run_and_judge("random sentences", c, work, ev, drv, prop, docs=c + ".docs", nsamples=3)
        c = work.path("rtext.cases")
        subprocess.check_call([drv, "gen", "lang-text", str(seed + 1), str(t["rtext"] // 2), c], env=e)
        rejects += run_and_judge("random / mutated texts", c, work, ev, drv, prop)
    c, n = common.witness_cases(prop, work)
    if n:
        rejects += run_and_judge("witnesses of recorded findings", c, work, ev, drv, prop, nsamples=1)
    return rejects


def replay(prop, path, work):
    drv = build_driver()
    d = json.load(open(path))
    rec = d["record"]
    cases = work.path("c")
    with open(cases, "w") as f:
        f.write(json.dumps(rec) + "\n")
    obs = work.path("o")
    run_driver(drv, ["run", "lang"], cases, obs)
    stats, rej = judge("tv/TV_Lang.tla", None, obs, work, chunks=1)
    o = json.loads(open(obs).read())
    print("expression:", repr(common.uncps(o["text"])))
    print("observation:", json.dumps(o.get("parse"))[:600])
    rej = [r for r in rej if (r["exp"] or {}).get("why") in WHY[prop]]
    if rej:
        print("spec expected:", json.dumps(rej[0]["exp"])[:900], "explained by:", rej[0]["expl"])
        print("VIOLATION property=%s replay=%s" % (prop, path))
        return 1
    print("accepted by the specification")
    return 0
