"""C05 — compile and search are total: no panic, abort or hang on any input.  Besides its own families it regenerates
case files of the language, evaluation and JSON engines and runs them in totality mode (only panic / abort / time-out
matter)."""
import json, os, subprocess
import common
from common import tlc, tlc_ok, tlc_must_fail, build_driver, run_driver, judge, ToolError
import eng_lang, eng_eval, eng_funcs

TIERS = {"quick": dict(quoteN=4, depth=64, rtext=20000, reval=12000, charsN=3), "thorough": dict(quoteN=5, depth=64, rtext=150000, reval=60000, charsN=4)}


def gen_total(work, mode, out, n=0, depth=64):
    r = tlc("gen/Gen_Total.tla", "Gen.cfg", work, env={"MODE": mode, "OUT": out, "N": str(n), "DEPTH": str(depth)}, workers=1, timeout=3000)
    if r.rc != 0 or not os.path.exists(out):
        raise ToolError("Gen_Total %s failed:\n%s" % (mode, r.tail()))


def run_and_judge(label, cases, engine, work, ev, drv, env=None, nsamples=1, per_case_timeout=30, timeout=600):
    obs = cases + ".obs"
    run_driver(drv, ["run", engine], cases, obs, env=env, per_case_timeout=per_case_timeout, timeout=timeout)
    stats, rej = judge("tv/TV_Total.tla", None, obs, work)
    ev.add_judged(label, stats, rej, obs, nsamples=nsamples)
    os.remove(obs)
    return rej


def run(prop, tier, seed, work, ev):
    t = TIERS[tier]
    drv = build_driver()
    tlc_ok("mc/MC_Slice.tla", "MC_Slice_quick.cfg" if tier == "quick" else "MC_Slice_thorough.cfg", work, ev=ev,
           label="slice loop in i32 arithmetic: no overflow, no out-of-bounds index, terminates", timeout=3000)
    tlc_must_fail("mc/MC_Slice.tla", "MC_Slice_neg.cfg", work, invariant="Inv_NoFail", ev=ev)
    tlc_ok("mc/MC_Total.tla", "MC_Total.cfg", work, ev=ev, label="recursion: stack use linear in nesting depth, within 8 MiB up to depth 64")
    tlc_must_fail("mc/MC_Total.tla", "MC_Total_neg.cfg", work, invariant="Inv_NoOverflow", ev=ev)
    ev.exhaustive = True
    ev.rule = ("families: extreme numerals (0, 1, 2^31-2 .. 2^32, 10^19, -1 .. -2^31-1) in every index / slice slot x arrays of length 0..4; every "
               "string <= %d over {' \" ` \\ a e-acute U+1F600 newline}; 17 nesting constructors at depths 1..64 (and one pure-nesting witness far "
               "beyond the bound); every character string <= %d over the 29-character alphabet; random / truncated / mutated texts; random "
               "sentences x random documents; the function value domains. Each case runs inside catch_unwind in a child process with the "
               "default 8 MiB stack and a per-case time limit; a panic, abort or time-out is the only thing that counts. Non-trivial: text of >= 3 characters."
               % (t["quoteN"], t["charsN"]))
    ev.assumptions.append("totality is guaranteed for nesting depth <= 64 (>= 6x margin on an 8 MiB stack, debug build); deeper nesting is the recorded finding F13")
    rejects = []
    for mode, n in (("nums", 0), ("quote", t["quoteN"]), ("nest", 0)):
        c = work.path("total.%s.cases" % mode)
        gen_total(work, mode, c, n=n, depth=t["depth"])
        rejects += run_and_judge({"nums": "extreme numerals in index / slice slots", "quote": "all strings over delimiters and backslash",
                                  "nest": "nesting constructors at depths 1..64"}[mode], c, "search", work, ev, drv)
    # the recorded finding: nesting far beyond the bound overflows the stack
    w = work.path("deep.cases")
    with open(w, "w") as f:
        for k in common.load_known():
            if prop in k["properties"] and "expr_repeat" in k.get("witness", {}):
                wt = k["witness"]
                text = wt["expr_repeat"][0] * wt["expr_repeat"][3] + wt["expr_repeat"][1] + wt["expr_repeat"][2] * wt["expr_repeat"][3]
                f.write(json.dumps({"e": "total", "text": common.cps(text), "doc": {"t": "null"}, "deep": True}) + "\n")
    if common.count_lines(w):
        rejects += run_and_judge("nesting far beyond the bound (recorded finding)", w, "search", work, ev, drv)
    # numeric magnitude: built-ins on documents whose numbers are at the edge of (or leave) the double range
    c = work.path("magnitude.cases")
    with open(c, "w") as f:
        for doc in ("[1e308, 1e308]", "[1.7e308, 1.7e308, 1]", "[-1e308, -1e308]", "[9e307, 9e307, 9e307]", "[5e-324, 5e-324]", "[18446744073709551615, 1]",
                    "[-9223372036854775808, -1]", "[1e308]", "[]", "[0.1, 0.2, 1e-320]", "[123456789012345678901234567890, 1e22]"):
            for text in ("sum(@)", "avg(@)", "max(@)", "min(@)", "sort(@)", "abs(@[0])", "ceil(@[0])", "floor(@[0])", "to_string(@)", "@[0] < @[1]",
                         "@[0] == @[1]", "map(&abs(@), @)", "sum(@) > avg(@)", "[sum(@), avg(@)]", "to_number(to_string(@[0]))", "length(@)", "join(',', map(&to_string(@), @))"):
                f.write(json.dumps({"e": "total", "text": common.cps(text), "doctext": common.cps(doc)}) + "\n")
        for sdoc in ("18446744073709551615", "18446744073709551616", "30000000000000000000", "99999999999999999999", "9223372036854775807", "9223372036854775808", "-9223372036854775809",
                     "100000000000000000000", "1" + "0" * 400, "0" * 25 + "7", "-" + "9" * 20, "1e400", "-1e400", "1" * 19, "1" * 21, "00", "-0", "+1", "1_0", "0x10", "1e", "Infinity", "NaN"):
            for text in ("to_number(@)", "[@, @] | [*].to_number(@)", "sort_by([@], &to_number(@))", "to_number(to_string(to_number(@)))", "to_number(@) > `0`", "sum([to_number(@) || `0`])"):
                f.write(json.dumps({"e": "total", "text": common.cps(text), "doctext": common.cps(json.dumps(sdoc))}) + "\n")
    rejects += run_and_judge("numeric magnitude at the edge of the double / 64-bit integer range; to_number on digit strings around the 64-bit limits and far beyond", c, "search", work, ev, drv)
    # results with shared sub-values: n chained doublings have 2^n paths and n containers; nothing may walk every path
    c = work.path("sharing.cases")
    with open(c, "w") as f:
        for n in (8, 24, 40, 64):
            for text in (" | ".join(["[@, @]"] * n), " | ".join(["{a: @, b: @}"] * n), " | ".join(["{a: @, b: @}"] * (n // 2) + ["[@, @]"] * (n // 2)),
                         " | ".join(["[@, @]"] * n) + " | length(@)", " | ".join(["[@, [@]]"] * n), "a" + " | [@, @]" * n + " | [0]",
                         " | ".join(["[@, @][*]"] * n), " | ".join(["not_null([@, @])"] * n), " | ".join(["[@, @] | @[::-1]"] * (n // 2)),
                         " | ".join(["merge({a: @}, {b: @})"] * n), " | ".join(["[@, @]"] * n) + " | [0]" * (n - 1)):
                f.write(json.dumps({"e": "total", "text": common.cps(text), "doc": common.to_tagged({"k": [True], "a": 1}), "share": True}) + "\n")
    # (every case that hangs costs its time limit: a short one, and room for all of them to hang)
    rejects += run_and_judge("results with shared sub-values (8..64 chained doublings): search returns without walking every path", c, "search", work, ev, drv,
                             per_case_timeout=12, timeout=1500)
    # case files of the other engines, in totality mode
    c = work.path("chars.cases")
    eng_lang.gen(work, "chars", c, t["charsN"], alpha="full")
    rejects += run_and_judge("language engine: all character strings <= %d" % t["charsN"], c, "lang", work, ev, drv)
    for mode, label in (("uni", "language engine: Unicode class probes after every token-starting character"),
                        ("numerals", "language engine: number-token spellings (leading zeros, long runs, limits)")):
        c = work.path(mode + ".cases")
        eng_lang.gen(work, mode, c, 0)
        rejects += run_and_judge(label, c, "lang", work, ev, drv)
    c = work.path("rtext.cases")
    subprocess.check_call([drv, "gen", "lang-text", str(seed + 5), str(t["rtext"]), c], env=dict(os.environ, GEN_MAXLEN="60"))
    rejects += run_and_judge("language engine: random / truncated / mutated texts", c, "lang", work, ev, drv, nsamples=2)
    params = work.path("reval.in")
    subprocess.check_call([drv, "gen", "eval", str(seed + 5), str(t["reval"]), params], env=dict(os.environ, GEN_MAXLEN="40"))
    c = work.path("reval.cases")
    eng_eval.gen(work, "spell", c, inp=params)
    rejects += run_and_judge("evaluation engine: random sentences x random documents", c, "search", work, ev, drv)
    for fam in ["compose", "nest", "hash", "alias"] + eng_eval.R6:
        c = work.path("pool.%s.cases" % fam)
        with open(c, "w") as f:
            for line in open(eng_eval.POOLS):
                if '"fam": "%s"' % fam in line:
                    f.write(line)
        rejects += run_and_judge("evaluation engine: " + eng_eval.POOL_LABEL[fam], c, "search", work, ev, drv, env={"EVAL_DOCS": eng_eval.POOLS + ".docs"})
    c = work.path("val.cases")
    eng_funcs.gen_call(work, "val", c, 3, 3)
    rejects += run_and_judge("function value domains", c, "search", work, ev, drv)
    c = work.path("json.cases")
    subprocess.check_call([drv, "gen", "json", str(seed + 5), "3000", c])
    rejects += run_and_judge("JSON documents with extreme numbers through from_json / search / to_string", c, "json", work, ev, drv)
    return rejects


def replay(prop, path, work):
    drv = build_driver()
    rec = json.load(open(path))["record"]
    engine = "lang" if "parse" in rec else ("json" if rec.get("e") == "json" else "search")
    for k in ("out", "parse", "pparse", "d"):
        rec.pop(k, None)
    cases = work.path("c")
    with open(cases, "w") as f:
        f.write(json.dumps(rec) + "\n")
    obs = work.path("o")
    run_driver(drv, ["run", engine], cases, obs)
    stats, rej = judge("tv/TV_Total.tla", None, obs, work, chunks=1)
    o = json.loads(open(obs).read())
    print("text:", repr(common.uncps(o.get("text", [])))[:300])
    print("observation:", json.dumps(o.get("out", o.get("parse")))[:500])
    if rej:
        print("VIOLATION property=%s replay=%s" % (prop, path))
        return 1
    print("returned normally")
    return 0
