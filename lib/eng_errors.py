"""C12 — errors are classified and located truthfully."""
import json, os, subprocess
import common
from common import tlc, tlc_ok, tlc_must_fail, build_driver, run_driver, judge, ToolError
import eng_lang

TIERS = {"quick": dict(mc="MC_Errors_quick.cfg", n=4, chars=4, rtext=3000),
         "thorough": dict(mc="MC_Errors_thorough.cfg", n=4, chars=5, rtext=60000)}


def gen(work, mode, out, n=0, alpha="full"):
    e = {"MODE": mode, "OUT": out, "N": str(n), "ALPHA": alpha, "TEMPLATES": os.path.join(common.SPEC, "gen", "err_templates.ndjson")}
    r = tlc("gen/Gen_Errors.tla", "Gen.cfg", work, env=e, workers=1, timeout=3000)
    if r.rc != 0 or not os.path.exists(out):
        raise ToolError("Gen_Errors failed:\n" + r.tail())


def run_and_judge(label, cases, work, ev, drv, nsamples=2):
    obs = cases + ".obs"
    run_driver(drv, ["run", "errs"], cases, obs)
    stats, rej = judge("tv/TV_Errors.tla", None, obs, work)
    ev.add_judged(label, stats, rej, obs, nsamples=nsamples)
    return rej


def run(prop, tier, seed, work, ev):
    t = TIERS[tier]
    drv = build_driver()
    tlc_ok("mc/MC_Errors.tla", t["mc"], work, ev=ev, label="coordinates as coded = line/character column; caret placement " + tier, timeout=3000)
    tlc_must_fail("mc/MC_Errors.tla", "MC_Errors_neg.cfg", work, invariant="Inv_Coord", ev=ev)
    tlc_ok("mc/MC_Offset.tla", "MC_Offset.cfg", work, ev=ev, label="error cursor protocol: an error carries the offset of the call that raised it")
    tlc_must_fail("mc/MC_Offset.tla", "MC_Offset_neg.cfg", work, invariant="Inv_ErrorPointsAtRaiser", ev=ev)
    ev.exhaustive = True
    ev.rule = ("cases: JmespathError::new + Display on every string <= %d over {a, 2-, 3-, 4-byte character, LF, CR, VT, FF, NEL, LINE SEPARATOR} at every character "
               "boundary (thorough: also <= 6 over the first five); 8 prefixes (multi-byte quoted identifiers, newlines, successful calls) x 19 failing-call sites (alone, as first/last "
               "argument, nested, in containers / filters / projections, inside expression references, by-functions failing after their "
               "expression reference ran a call) and 4 zero-step slices; non-finite results; every failing compile of the character strings "
               "<= %d over an error alphabet with multi-byte characters and newlines and of random mutated texts. "
               "Non-trivial: a multi-byte character or newline precedes the position, or a runtime error site." % (t["n"], t["chars"]))
    ev.trusted.append("Errors.tla Coord/Rendered as the reading of 'zero-based line and character column' and 'caret under that column'")
    rejects = []
    c = work.path("coord.cases")
    gen(work, "coord", c, t["n"])
    rejects += run_and_judge("public constructor + Display at every character boundary (strings <= %d over ten characters)" % t["n"], c, work, ev, drv)
    if tier == "thorough":
        c = work.path("coord6.cases")
        gen(work, "coord", c, 6, alpha="small")
        rejects += run_and_judge("public constructor + Display at every character boundary (strings <= 6 over the five characters of different UTF-8 lengths and LF)", c, work, ev, drv)
    c = work.path("site.cases")
    gen(work, "site", c)
    with open(c, "a") as f:   # non-finite results (outside the modelled number domain: judged by error class only)
        for text, doc in (("sum(@)", "[1e308, 1e308]"), ("avg(@)", "[1e308, 1e308]"), ("sum(a)", "{\"a\": [1.7e308, 1.7e308, 1]}")):
            f.write(json.dumps({"e": "err", "kind": "nonfinite", "text": common.cps(text), "doctext": common.cps(doc)}) + "\n")
    rejects += run_and_judge("runtime error sites and non-finite results", c, work, ev, drv, nsamples=3)
    # which of several failures is reported: the first one in evaluation order (written order of hash members and operands, element order
    # inside by-functions) -- judged by the kind of the reported failure
    import eng_eval
    rejects += eng_eval.pool_families(["errpair", "keyorder", "byorder", "selfnest", "tonum"], work, ev, drv)
    # compile failures: coordinates of every parse error
    c = work.path("errchars.cases")
    eng_lang.gen(work, "chars", c, t["chars"], alpha="err")
    rejects += eng_lang.run_and_judge("compile failures among all strings <= %d over the error alphabet" % t["chars"], c, work, ev, drv, "C12")
    c = work.path("uni.cases")
    eng_lang.gen(work, "uni", c, 0)
    rejects += eng_lang.run_and_judge("compile failures among the Unicode class probes (byte order mark, blanks, digits of other scripts)", c, work, ev, drv, "C12")
    c = work.path("rtext.cases")
    subprocess.check_call([drv, "gen", "lang-text", str(seed + 12), str(t["rtext"]), c], env=dict(os.environ, GEN_MAXLEN="20"))
    rejects += eng_lang.run_and_judge("compile failures among random mutated texts", c, work, ev, drv, "C12")
    return rejects


def replay(prop, path, work):
    drv = build_driver()
    rec = json.load(open(path))["record"]
    cases = work.path("c")
    with open(cases, "w") as f:
        f.write(json.dumps(rec) + "\n")
    obs = work.path("o")
    if rec.get("e") == "lang":
        return eng_lang.replay(prop, path, work)
    run_driver(drv, ["run", "errs"], cases, obs)
    stats, rej = judge("tv/TV_Errors.tla", None, obs, work, chunks=1)
    o = json.loads(open(obs).read())
    print("observation:", json.dumps(o.get("out"))[:700])
    if rej:
        print("spec expected:", json.dumps(rej[0]["exp"])[:600], "explained by:", rej[0]["expl"])
        print("VIOLATION property=%s replay=%s" % (prop, path))
        return 1
    print("accepted by the specification")
    return 0
