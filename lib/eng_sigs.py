from eng_funcs import run, replay  # C06 shares the call engine
