"""C16 — with the sync feature, compiled expressions are safely shareable across threads."""
import json, os, subprocess
import common
from common import tlc, tlc_ok, tlc_must_fail, build_driver, judge, ToolError, log, HARNESS
import eng_eval

TIERS = {"quick": dict(mc="MC_Sync.cfg", trials=40, threads=8, iters=150, lock=(16, 8, 81), crowd=(5, 128, 40), lex=(6, 12, 400), long=(3, 6, 40), mix=(4, 8, 60)),
         "thorough": dict(mc="MC_Sync_thorough.cfg", trials=600, threads=16, iters=300, lock=(120, 8, 108), crowd=(30, 160, 40), lex=(100, 16, 600), long=(20, 8, 100), mix=(30, 12, 100))}


def distinct_events(events):
    """Thread trials repeat a few (expression, document) pairs many thousand times: the judge sees each distinct
    (expression, document, outcome) once; returns (path, total, distinct)."""
    seen, total = set(), 0
    out = events + ".distinct"
    with open(out, "w") as g:
        for line in open(events):
            r = json.loads(line)
            total += r.get("mult", 1)
            key = json.dumps([r.get("text"), r.get("doc"), r.get("out")], sort_keys=True)
            if key in seen:
                continue
            seen.add(key)
            g.write(line)
    return out, total, len(seen)


def long_pool(path):
    """long arrays (beyond any size at which an implementation might split one evaluation over workers): tied extreme keys in different
    quarters with distinguishable payloads, failures in two different quarters, a first quarter that is slower than the others"""
    from common import to_tagged, cps
    cases = []
    def recs(n, hot):
        return [{"id": i, "k": (9 if i in hot else (i * 7) % 9), "w": ([((i * 13 + j * 7) % 101) for j in range(40)] if i < n // 4 else None)} for i in range(n)]
    for n, hot in ((512, (5, 500)), (300, (3, 299)), (256, (0, 255)), (192, (100, 101))):
        d = recs(n, hot)
        for f in ("max_by", "min_by"):
            cases.append(("%s(@, &k).id" % f, d))
            cases.append(("%s(@, &(length(sort(not_null(w, `[]`))) && k)).id" % f, d))
        cases.append(("sort_by(@, &k)[*].id | [:20]", d))
        cases.append(("map(&k, @) | [-3:]", d))
    for n, bad in ((800, (199, 200)), (200, (49, 150)), (192, (47, 48, 190)), (400, (350, 50))):
        nums = [(i % 17) - 8 for i in range(n)]
        for j, b in enumerate(bad):
            nums[b] = ["x", True, None, [1]][j % 4]
        cases.append(("map(&abs(@), @)", nums))
        cases.append(("max_by(@, &abs(@))", nums))
        cases.append(("sort_by(@, &abs(@))", nums))
        cases.append(("@[?abs(@) > `100`]", nums))
    with open(path, "w") as f:
        for t, d in cases:
            f.write(json.dumps({"text": cps(t), "doc": to_tagged(d)}) + "\n")


def mix_pool(path, part="all"):
    """different KINDS of work on one runtime at the same instant: every sorting / extreme function on long arrays with number keys, ASCII
    string keys and non-ASCII string keys; to_number on strings that hold JSON document text; and meanwhile compiles of JSON literals and
    re-reads of documents from text.  Results are sampled (every 61st id) so that an outcome is small; judged for schedule independence
    against a single-threaded trial of the same pool."""
    from common import to_tagged, cps
    n = 1500
    recs = [{"id": i, "n": (i * 7919) % n, "s": "\u043a\u043b\u044e\u0447-%06d" % ((i * 104729) % n), "a": "key-%06d" % ((i * 613) % n),
             "e": "cl\u00e9-%06d" % ((i * 31) % n)} for i in range(n)]
    cases = []
    for t in ("sort_by(@, &n)[*].id | [::61]", "sort_by(@, &s)[*].id | [::61]", "sort_by(@, &a)[*].id | [::61]", "sort_by(@, &e)[*].id | [::61]", "max_by(@, &s).id", "min_by(@, &n).id",
              "max_by(@, &a).id", "min_by(@, &e).id", "sort(@[*].s) | [::61]", "sort(@[*].n) | [::61]", "max(@[*].s)", "min(@[*].a)", "max(@[*].n)", "length(join(',', @[*].s))",
              "sum(map(&to_number(to_string(n)), @))", "contains(@[*].s, '\u043a\u043b\u044e\u0447-000123')", "reverse(@)[0].id", "length(to_string(@))",
              "sort_by(@, &to_string(n))[*].id | [::61]", "@[?starts_with(s, '\u043a\u043b\u044e\u0447-0001')].id | [::7]", "@[?ends_with(e, '7')].id | [::29]"):
        cases.append((t, recs))
    # failures whose report carries a position: a by-function refusing its key after a function call inside the key expression returned
    # (long arguments, so that other threads' calls fall inside)
    edoc = [{"v": list(range(1500))}, {"v": ["s%d" % i for i in range(1500)]}]
    for t in ("sort_by(@, &max(v))", "max_by(@, &min(v))", "min_by(@, &sort(v)[0])", "map(&abs(max(v)), @)", "sort_by(@, &length(v) && max(v))", "[*].sum(v)", "sort_by(@, &reverse(v)[0])"):
        cases.append((t, edoc))
    # sorting functions nested inside the key expressions of sorting functions, with the other kind of key inside (whatever a sort holds
    # while it evaluates its keys, another sort must be able to run inside it -- on this thread and on every other)
    gdoc = {"groups": [{"id": g, "items": [{"n": (g * 7 + i * 5) % 13, "s": "s%02d" % ((g * 3 + i * 11) % 17)} for i in range(12)]} for g in range(12)]}
    for t in ("sort_by(groups, &sort_by(items, &n)[0].s)[*].id", "sort_by(groups, &sort_by(items, &s)[0].n)[*].id", "max_by(groups, &min_by(items, &s).n).id",
              "min_by(groups, &max_by(items, &n).s).id", "sort_by(groups, &sort_by(items, &n)[0].n)[*].id", "sort_by(groups, &sort(items[*].s)[0])[*].id",
              "groups[*].sort_by(items, &s)[0].n", "sort_by(groups, &max(items[*].n))[*].id"):
        cases.append((t, gdoc))
    jdoc = {"j": json.dumps(list(range(2000))), "o": ' {"a":1}', "n": "12", "w": " 4", "b": "[1", "z": "-0", "arr": ["[1]", "2", "{}", "x"]}
    for t in ("to_number(j)", "to_number(o)", "to_number(n)", "to_number(w)", "[to_number(j), to_number(n)]", "to_number(b)", "to_number(z)", "map(&to_number(@), arr)",
              "to_number(to_string(`[1, 2]`))"):
        cases.append((t, jdoc))
    vdoc = {"a": [1, 2, 3], "b": {"c": [4, 5], "d": "x"}, "e": [{"f": 1}, {"f": 2}]}
    for t in ("`[1, 2, 3]`", '`{"k": [true, null], "m": {"n": 1}}`', "e[*].f", "[a[1], b.c, length(`[1, 2, 3, 4]`)]", 'to_array(`{"a": [1]}`)', '`"s"`', "@", "b", "[a, `[[1], {\"z\": []}]`]",
              "a[?@ == `2`]", "merge(b, `{\"c\": {\"x\": [1]}}`)", "keys(@)", "values(b)"):
        cases.append((t, vdoc))
    if part == "sorting":          # only the long-array cases: two threads are inside the same function with different kinds of keys most of the time
        cases = [c for c in cases if c[1] is recs or c[1] is edoc or c[1] is gdoc]
    elif part == "modes":          # only the short ones: to_number on document text against literal compiles and re-read documents
        cases = [c for c in cases if c[1] is not recs and c[1] is not edoc and c[1] is not gdoc]
    with open(path, "w") as f:
        for t, d in cases:
            f.write(json.dumps({"text": cps(t), "doc": to_tagged(d)}) + "\n")


def schedule_dependent(events, work, ev, label):
    """all outcomes observed for one (expression, document) pair, joined into one record for TV_Determ"""
    groups = {}
    for line in open(events):
        r = json.loads(line)
        if r.get("thr", 0) < 0:
            continue
        key = json.dumps([r.get("text"), r.get("doc")], sort_keys=True)
        g = groups.setdefault(key, {"e": "determ", "text": r.get("text"), "doc": r.get("doc") if len(json.dumps(r.get("doc"))) < 4000 else {"t": "str", "s": common.cps("(long document)")}, "outs": []})
        if r.get("out") not in g["outs"]:
            g["outs"].append(r.get("out"))
    path = events + ".determ"
    with open(path, "w") as f:
        for g in groups.values():
            f.write(json.dumps(g) + "\n")
    stats, rej = judge("tv/TV_Determ.tla", None, path, work)
    ev.add_judged(label + ": one outcome per (expression, document) whatever the schedule", stats, rej, path, nsamples=1)
    return rej


def crowd_pool(path):
    """expressions that nest many function calls, on nested arrays: many threads are inside many calls at the same instant"""
    import itertools
    from common import to_tagged, cps
    def cube(dims, k=0):
        return [cube(dims[1:], k * 7 + i) for i in range(dims[0])] if dims else ((k % 9) - 4) / 2.0
    cases = [("map(&map(&map(&map(&abs(ceil(floor(abs(@)))), @), @), @), @)", cube([5, 5, 5, 5])),
             ("map(&map(&map(&map(&abs(ceil(floor(abs(@)))), @), @), @), @)", cube([4, 4, 4, 4])),
             ("map(&map(&map(&sum(map(&abs(ceil(floor(abs(@)))), @)), @), @), @)", cube([5, 5, 5, 4])),
             ("map(&map(&sum(map(&abs(@), @)), @), @)", cube([5, 5, 5])),
             ("sort_by(@, &sum(map(&abs(floor(@)), @)))", cube([8, 8])),
             ("max_by(@, &avg(map(&ceil(abs(@)), @)))", cube([8, 6])),
             ("length(to_array(not_null(abs(ceil(floor(abs(@[0][0][0])))))))", cube([3, 3, 3])),
             ("map(&length(to_string(to_array(not_null(abs(@))))), @[0][0])", cube([2, 2, 30]))]
    with open(path, "w") as f:
        for t, d in cases:
            f.write(json.dumps({"text": cps(t), "doc": to_tagged(d)}) + "\n")


def obligations(work):
    """(library builds with sync) and not (obligations build) => the Send/Sync guarantee is gone.
    Returns (library_builds, obligations_hold, diagnostics)."""
    tdir = os.path.join(HARNESS, "target-sync")
    env = dict(os.environ, CARGO_NET_OFFLINE="true")
    base = ["cargo", "build", "--offline", "-q", "-p", "obligations", "--target-dir", tdir]
    p0 = subprocess.run(base, cwd=HARNESS, stdout=subprocess.PIPE, stderr=subprocess.STDOUT, env=env)
    if p0.returncode != 0:
        return False, False, p0.stdout.decode("utf-8", "replace")
    p = subprocess.run(base + ["--features", "obligations"], cwd=HARNESS, stdout=subprocess.PIPE, stderr=subprocess.STDOUT, env=env)
    return True, p.returncode == 0, p.stdout.decode("utf-8", "replace")


def run(prop, tier, seed, work, ev):
    t = TIERS[tier]
    tlc_ok("mc/MC_Sync.tla", t["mc"], work, ev=ev, label="once-initialised default runtime: one initialiser, no partial registry, sequential results, all threads finish (liveness) " + tier)
    tlc_must_fail("mc/MC_Sync.tla", "MC_Sync_neg.cfg", work, invariant="Inv_NoPartialRegistry", ev=ev)
    rejects = []
    lib_ok, ok, diag = obligations(work)
    if not lib_ok:
        raise ToolError("the library does not build with --features sync:\n" + diag[-3000:])
    ev.extra["send_sync_obligations"] = {"types": ["Expression", "Runtime", "Variable", "Rcvar", "Ast", "JmespathError", "Signature", "Box<dyn Function>", "&'static DEFAULT_RUNTIME"],
                                        "discharged_by_rustc": ok}
    if not ok:
        rejects.append({"index": -1, "rec": {"e": "obligations", "diagnostics": diag[-6000:]}, "exp": {"why": "the library builds with --features sync but a public type is not Send + Sync"}, "expl": []})
    ev.exhaustive = False
    ev.rule = ("(a) compile-time: Send + Sync obligations for 9 public types under --features sync; (b) %d fresh processes (first use of the default "
               "runtime happens once per process), each with %d threads released from a barrier that all compile through the default runtime and "
               "then run %d searches each on shared compiled expressions and shared Arc documents (pool: every sentence <= 3 tokens x 12 documents); "
               "each event's outcome is judged against the sequential meaning Eval. Non-trivial: non-null results." % (t["trials"], t["threads"], t["iters"]))
    ev.assumptions.append("The memory model is outside TLA+: absence of data races rests on the Send/Sync obligations discharged by rustc and on the absence "
                          "of unsafe code / interior mutability in the library; schedules are sampled by running real threads, not enumerated.")
    if not ok:
        return rejects       # the thread harness itself shares expressions across threads: it cannot be built without the guarantee
    drv = build_driver("sync")
    # case pool
    c = work.path("pool.cases")
    eng_eval.gen(work, "sent", c, n=3, lo=1, assign=1, ndocs=12)
    docs = json.loads(open(c + ".docs").readline())["docs"]
    pool = work.path("pool.inline")
    with open(pool, "w") as g:
        for line in open(c):
            r = json.loads(line)
            g.write(json.dumps({"text": r["text"], "doc": docs[r["d"] - 1]}) + "\n")
    events = work.path("sync.obs")
    open(events, "w").close()
    for k in range(t["trials"]):
        try:
            p = subprocess.run([drv, "sync-trial", str(seed * 100000 + k), str(t["threads"]), str(t["iters"]), events, pool],
                               stdout=subprocess.PIPE, stderr=subprocess.PIPE, timeout=300)
        except subprocess.TimeoutExpired:
            with open(events, "a") as f:     # threads that never come back: that is data
                f.write(json.dumps({"e": "sync", "thr": -1, "seq": 0, "text": common.cps("@"), "doc": {"t": "null"}, "out": {"timeout": True, "trial": k}}) + "\n")
            continue
        if p.returncode != 0:
            if b"DRIVER-ERROR" in p.stderr:
                raise ToolError("sync trial failed: " + p.stderr.decode()[-500:])
            with open(events, "a") as f:     # the process died: that is data
                f.write(json.dumps({"e": "sync", "thr": -1, "seq": 0, "text": common.cps("@"), "doc": {"t": "null"},
                                    "out": {"abort": p.returncode, "trial": k}}) + "\n")
    dpath, total, distinct = distinct_events(events)
    stats, rej = judge("tv/TV_Eval.tla", None, dpath, work)
    ev.add_judged("%d trials x %d threads: %d search events, %d distinct (expression, document, outcome) judged" % (t["trials"], t["threads"], total, distinct),
                  stats, rej, dpath, nsamples=3)
    ev.extra["thread_events_total"] = ev.extra.get("thread_events_total", 0) + total
    rejects += rej

    def trials(mode, n, threads, iters, poolfile, evfile, tmo=600):
        open(evfile, "w").close()
        hung = 0
        for k in range(n):
            try:
                p = subprocess.run([drv, mode, str(seed * 100000 + 7000 + k), str(threads), str(iters), evfile, poolfile],
                                   stdout=subprocess.PIPE, stderr=subprocess.PIPE, timeout=tmo)
            except subprocess.TimeoutExpired:
                # threads that never come back (a deadlock, a livelock) are an outcome, not a tool failure
                with open(evfile, "a") as f:
                    f.write(json.dumps({"e": "sync", "thr": -1, "seq": 0, "text": common.cps("@"), "doc": {"t": "null"},
                                        "out": {"timeout": True, "trial": k, "mode": mode}}) + "\n")
                hung += 1
                if hung >= 2:
                    break
                continue
            if p.returncode != 0:
                if b"DRIVER-ERROR" in p.stderr:
                    raise ToolError("%s failed: %s" % (mode, p.stderr.decode()[-500:]))
                with open(evfile, "a") as f:
                    f.write(json.dumps({"e": "sync", "thr": -1, "seq": 0, "text": common.cps("@"), "doc": {"t": "null"},
                                        "out": {"abort": p.returncode, "trial": k}}) + "\n")
    # lock-step rounds on fresh runtimes: whatever a runtime or a function object sets up lazily is set up again under contention;
    # the pool is the signature decision table (ill-typed calls must fail under every schedule)
    import eng_funcs
    sig = work.path("sig.cases")
    eng_funcs.gen_call(work, "sig", sig, 1, 3, via="doc")
    # ... and the value domains of the string / array functions (separators, empty and repeated elements, code points)
    val = work.path("val.cases")
    eng_funcs.gen_call(work, "val", val, 3, 3)
    with open(sig, "a") as f:
        for line in open(val):
            r = json.loads(line)
            name = common.uncps(r["text"]).split("(")[0]
            if "doc" in r and name in ("join", "contains", "starts_with", "ends_with", "reverse", "keys", "values", "merge", "not_null", "to_string", "to_number"):
                f.write(line)
    # ... and long arguments for the string functions (the longer a call works on its arguments, the more the threads overlap inside it)
    with open(sig, "a") as f:
        long_s = ["s%02d-abcdefghijklmnop" % i for i in range(40)]
        for glue in (",", "--", "p"):
            for tail in ([""], ["", ""], ["x" + glue], ["last"], [glue], []):
                f.write(json.dumps({"e": "val", "text": common.cps("join(a, b)"), "doc": common.to_tagged({"a": glue, "b": long_s + tail})}) + "\n")
        for fn in ("reverse(b)", "sort(b)", "max(b)", "min(b)", "length(b)", "to_string(b)", "contains(b, a)", "keys(o)", "values(o)", "merge(o, o)", "not_null(z, b)"):
            f.write(json.dumps({"e": "val", "text": common.cps(fn), "doc": common.to_tagged({"a": "s07-abcdefghijklmnop", "b": long_s, "z": None,
                                                                                               "o": {k: i for i, k in enumerate(long_s)}})}) + "\n")
    n, th, rounds = t["lock"]
    levents = work.path("lock.obs")
    trials("sync-lockstep", n, th, rounds, sig, levents)
    dpath, total, distinct = distinct_events(levents)
    ev.extra["thread_events_total"] = ev.extra.get("thread_events_total", 0) + total
    stats, rej = judge("tv/TV_Eval.tla", None, dpath, work)
    ev.add_judged("lock-step: %d trials x %d threads x %d rounds on fresh runtimes, one function per round, every case entered by all threads together and "
                  "repeated 60 times; signature decision table and string / array value domains (%d events, %d distinct judged)" % (n, th, rounds, total, distinct),
                  stats, rej, dpath, nsamples=1)
    rejects += rej
    # concurrent COMPILES of texts whose tokens need unescaping (escaped delimiters inside raw strings, literals and quoted identifiers):
    # each thread compiles its own texts while the others compile theirs
    lp = work.path("lex.cases")
    with open(lp, "w") as f:
        ldoc = common.to_tagged({"a": 1, "k`x": 2, "q'r": 3})
        for i in range(24):
            for txt in ("'a\\'b%d'" % i, "`\"x\\`y%d\"`" % i, "'%d\\'' == `\"%d'\"`" % (i, i), "`[\"\\`\", %d]`[1]" % i, "\"k`x\" || '\\'%d'" % i,
                      "length('\\'\\'%d')" % i, "`{\"\\`%d\": %d}`" % (i, i), "'plain%d'" % i):
                f.write(json.dumps({"text": common.cps(txt), "doc": ldoc}) + "\n")
        # ... and of texts full of integer tokens, in and out of the 32-bit range (whatever the conversion of one lexeme notes down, it is its own)
        idoc = common.to_tagged({"a": [[[[1]]]], "foo": list(range(20))})
        for i in range(12):
            for txt in ("a[0][0][0][0]", "foo[1][2]", "foo[%d:%d:%d]" % (i, i + 5, 1 + i % 3), "foo[4294967299]", "foo[2147483648]", "foo[-2147483649]", "foo[1:99999999999]",
                        "foo[2147483647]", "foo[-2147483648]", "[foo[%d], foo[-%d], foo[1%d]]" % (i, i + 1, i), "foo[::%d9999999999]" % (i + 1), "a[0][0] | [0][0]"):
                f.write(json.dumps({"text": common.cps(txt), "doc": idoc}) + "\n")
    n, th, iters = t["lex"]
    xevents = work.path("lex.obs")
    trials("sync-trial", n, th, iters, lp, xevents)
    dpath, total, distinct = distinct_events(xevents)
    ev.extra["thread_events_total"] = ev.extra.get("thread_events_total", 0) + total
    stats, rej = judge("tv/TV_Eval.tla", None, dpath, work)
    ev.add_judged("concurrent compiles of texts with escaped delimiters and with integer tokens in and out of range: %d trials x %d threads (%d events, %d distinct judged)" % (n, th, total, distinct),
                  stats, rej, dpath, nsamples=1)
    rejects += rej
    lseq = work.path("lexseq.obs")
    trials("sync-trial", 1, 1, 4 * common.count_lines(lp), lp, lseq)
    with open(xevents, "a") as f:
        for line in open(lseq):
            f.write(line)
    rejects += schedule_dependent(xevents, work, ev, "concurrent compiles (threaded trials and one single-threaded trial)")
    # long arrays: whatever an implementation does with them internally, every thread of every trial sees the sequential result
    lgp = work.path("long.cases")
    long_pool(lgp)
    n, th, iters = t["long"]
    gevents = work.path("long.obs")
    trials("sync-trial", n, th, iters, lgp, gevents)
    dpath, total, distinct = distinct_events(gevents)
    ev.extra["thread_events_total"] = ev.extra.get("thread_events_total", 0) + total
    stats, rej = judge("tv/TV_Eval.tla", None, dpath, work, timeout=3000)
    ev.add_judged("long arrays (192..4000 elements; tied extremes and failures in different quarters): %d trials x %d threads (%d events, %d distinct judged)"
                  % (n, th, total, distinct), stats, rej, dpath, nsamples=1)
    rejects += rej
    rejects += schedule_dependent(gevents, work, ev, "long arrays")
    # different kinds of work on one runtime at once (per-call state kept on a shared object, a mode switched on for the duration of a call):
    # number keys / ASCII keys / non-ASCII keys in the sorting functions, to_number on document text, compiles of JSON literals, documents
    # re-read from text -- one single-threaded trial gives the sequential outcomes, every threaded trial must give the same
    for part, scale in (("sorting", 1), ("modes", 3)):
        mp = work.path("mix.%s.cases" % part)
        mix_pool(mp, part)
        n, th, iters = t["mix"]
        mevents = work.path("mix.%s.obs" % part)
        trials("sync-trial", n, th, iters * scale, mp, mevents, tmo=300)
        seqev = work.path("mixseq.%s.obs" % part)
        trials("sync-trial", 1, 1, 6 * common.count_lines(mp), mp, seqev)
        with open(mevents, "a") as f:
            for line in open(seqev):
                f.write(line)
        dpath, total, distinct = distinct_events(mevents)
        ev.extra["thread_events_total"] = ev.extra.get("thread_events_total", 0) + total
        small = work.path("mix.%s.small" % part)
        with open(small, "w") as f:
            for line in open(dpath):
                if len(line) < 20000:
                    f.write(line)
        if common.count_lines(small):
            stats, rej = judge("tv/TV_Eval.tla", None, small, work, timeout=3000)
            ev.add_judged("mixed kinds of work at once, %s (sorting functions on number / ASCII / non-ASCII keys; to_number on document text, literal compiles, re-read "
                          "documents): %d trials x %d threads (%d events, %d distinct; those on small documents judged by value)" % (part, n, th, total, distinct),
                          stats, rej, small, nsamples=1)
            rejects += rej
        rejects += schedule_dependent(mevents, work, ev, "mixed kinds of work, %s (threaded trials and one single-threaded trial)" % part)
    # a crowd: far more threads than cores, each inside many nested calls at once (anything accounted per runtime / per process
    # instead of per search shows as a divergent result)
    cp = work.path("crowd.cases")
    crowd_pool(cp)
    n, th, iters = t["crowd"]
    cevents = work.path("crowd.obs")
    trials("sync-trial", n, th, iters, cp, cevents)
    dpath, total, distinct = distinct_events(cevents)
    ev.extra["thread_events_total"] = ev.extra.get("thread_events_total", 0) + total
    stats, rej = judge("tv/TV_Eval.tla", None, dpath, work)
    ev.add_judged("crowd: %d trials x %d threads on deeply nested calls (%d events, %d distinct outcomes judged)" % (n, th, total, distinct),
                  stats, rej, dpath, nsamples=1)
    rejects += rej
    return rejects


def replay(prop, path, work):
    rec = json.load(open(path))["record"]
    if rec.get("e") == "obligations":
        lib_ok, ok, diag = obligations(work)
        print(diag[-3000:])
        if not ok:
            print("VIOLATION property=%s replay=%s" % (prop, path))
            return 1
        print("obligations discharged")
        return 0
    print("a thread trial cannot be replayed deterministically; the recorded event is:")
    print(json.dumps(rec)[:1500])
    print("re-run: ./check C16 thorough")
    return 0
