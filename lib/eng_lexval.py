"""C09 — raw strings, JSON literals and quoted identifiers denote exactly their value."""
import json, os, subprocess
import common
from common import tlc, tlc_ok, tlc_must_fail, build_driver, run_driver, judge, ToolError

TIERS = {"quick": dict(mc="MC_LexVal_quick.cfg", n=3, rand=1500, maxlen=24),
         "thorough": dict(mc="MC_LexVal_thorough.cfg", n=4, rand=40000, maxlen=40)}


def gen(work, mode, out, n=0, inp=None):
    r = tlc("gen/Gen_LexVal.tla", "Gen.cfg", work, env={"MODE": mode, "OUT": out, "N": str(n), "IN": inp or out}, workers=1, timeout=3000)
    if r.rc != 0 or not os.path.exists(out):
        raise ToolError("Gen_LexVal failed:\n" + r.tail())


def run_and_judge(label, cases, work, ev, drv):
    obs = cases + ".obs"
    run_driver(drv, ["run", "search"], cases, obs)
    stats, rej = judge("tv/TV_LexVal.tla", None, obs, work)
    model = [r for r in rej if (r["exp"] or {}).get("why") == "model"]
    if model:
        raise ToolError("the lexer model disagrees with the spelling rule on %d case(s), e.g. %s"
                        % (len(model), common.describe(model[0]["rec"])))
    ev.add_judged(label, stats, rej, obs, nsamples=3)
    return rej


def run(prop, tier, seed, work, ev):
    t = TIERS[tier]
    drv = build_driver()
    tlc_ok("mc/MC_LexVal.tla", t["mc"], work, ev=ev, label="spelling denotes its value on the lexer model " + tier, timeout=3000)
    tlc_must_fail("mc/MC_LexVal.tla", "MC_LexVal_neg.cfg", work, invariant="Inv_Raw", ev=ev)
    ev.exhaustive = True
    ev.rule = ("cases: for every string of 0..%d characters over {a ' ` \" \\ space newline e-acute U+1F600 /}: its raw-string spelling "
               "(when it has one), the JSON literals holding it / [it, null] / {it: it}, three spellings of the quoted identifier "
               "(minimal, all \\uXXXX with surrogate pairs, with \\/) against an object with near-miss keys, and five malformed forms; "
               "runs of 0..7 backslashes before a closing / escaped delimiter in all three forms (judged by the lexer model); unquoted identifiers, also followed by characters of other planes whose low byte is an ASCII letter / digit; the same text between different delimiters in one expression; seeded random strings over all planes up to %d characters. Non-trivial: a good spelling of >= 4 characters."
               % (t["n"], t["maxlen"]))
    ev.trusted.append("LexVal.tla spelling rules as the reading of C09; JText.tla JSON printer")
    rejects = []
    c = work.path("enum.cases")
    gen(work, "enum", c, n=t["n"])
    rejects += run_and_judge("all strings <= %d over the delimiter alphabet" % t["n"], c, work, ev, drv)
    params = work.path("rand.in")
    subprocess.check_call([drv, "gen", "strings", str(seed), str(t["rand"]), params], env=dict(os.environ, GEN_MAXLEN=str(t["maxlen"])))
    c = work.path("rand.cases")
    gen(work, "spell", c, inp=params)
    rejects += run_and_judge("random strings over all planes", c, work, ev, drv)
    import eng_eval
    rejects += eng_eval.pool_families(["twins", "twotokens", "keyword", "bsruns"], work, ev, drv)
    return rejects


def replay(prop, path, work):
    drv = build_driver()
    rec = json.load(open(path))["record"]
    cases = work.path("c")
    with open(cases, "w") as f:
        f.write(json.dumps(rec) + "\n")
    obs = work.path("o")
    run_driver(drv, ["run", "search"], cases, obs)
    stats, rej = judge("tv/TV_LexVal.tla", None, obs, work, chunks=1)
    o = json.loads(open(obs).read())
    print("text:", repr(common.uncps(o["text"])), "kind:", o["kind"])
    print("observation:", json.dumps(o.get("out"))[:500])
    if rej:
        print("spec expected:", json.dumps(rej[0]["exp"])[:600])
        print("VIOLATION property=%s replay=%s" % (prop, path))
        return 1
    print("accepted by the specification")
    return 0
