#!/usr/bin/env python3
"""Regenerates /verif/MANIFEST.json from the table below (one entry per property that has a working check)."""
import json, os
VERIF = os.path.dirname(os.path.dirname(os.path.abspath(__file__)))
props = [json.loads(l) for l in open(os.path.join(VERIF, "properties.jsonl"))]

MC = "model_checking"
CHECKS = {
 "C07": dict(engine="slice", design="4/C07",
   technique="TLC model checking of a TLA+ transcription of the slice loop (Level 1) against the slice rule as a comprehension (Level 0); TLC-enumerated and random cases replayed into the real library, observations judged by TLC",
   text="TLC shows that the 32-bit slice loop as specified (MC_Slice: Adjust/LoopStep/LoopExit) never overflows, never indexes out of bounds and yields exactly the comprehension on every (len,start,stop,step) of a boundary-heavy domain incl. the i32 edges; every such tuple, and seeded random tuples over the whole i32 range with arrays up to 60, is then run through `@[a:b:c]`, `@[n]` and Variable::slice of the real library and TLC judges each observation against the Level-0 rule. A negative-control configuration (unchecked `i += step`) must fail.",
   note="Trusted: TLC; Slice.tla Level 0 as the reading of the JMESPath slice rule; the driver's value abstraction. Bounded: enumerated lengths <= 4 (quick) / 6 (thorough); random tail is sampled, not exhaustive."),
}

def main():
    checks = []
    for p in props:
        pid = p["id"]
        if pid not in CHECKS:
            continue
        c = CHECKS[pid]
        checks.append({
            "property_id": pid,
            "quick_cmd": "./check %s quick" % pid,
            "thorough_cmd": "./check %s thorough" % pid,
            "evidence_file": "/verif/evidence/%s.json" % pid,
            "replay_cmd_template": "./check %s --replay {path}" % pid,
            "engine": c["engine"],
            "level_claimed": {"category": MC, "text": c["text"], "design_ref": "DESIGN.md section " + c["design"]},
            "level_note": c["note"],
            "technique": c["technique"],
        })
    engines = {}
    for pid, c in CHECKS.items():
        engines.setdefault(c["engine"], []).append(pid)
    m = {
        "version": 1,
        "setup_cmd": "cd /verif && ./check --setup",
        "hooks": {"guard": "jmespath_verif",
                  "enable": "no source hooks exist: every observation is taken at the public API (DESIGN.md section 6); the guard name is reserved",
                  "baseline_off_cmd": "cd /repo/jmespath && cargo test --workspace --no-fail-fast --offline",
                  "source_commits": [], "add_only": True},
        "engines": [{"name": e, "path": "/verif/lib/eng_%s.py" % e, "serves_properties": sorted(ps),
                     "kind_free_text": "TLA+ spec modules under /verif/spec checked by TLC + Rust conformance driver (harness/driver) + TLC judge"}
                    for e, ps in sorted(engines.items())],
        "checks": checks,
        "notes": "All checks: ./check <ID> quick|thorough. Exit 0 held / 1 VIOLATION / 2 tool error. known_findings.json lists genuine defects (fixed and known).",
        "not_applicable": [{"property_id": p["id"], "reason": "check not built yet (construction in progress; DESIGN.md section 9 gives the order)"}
                           for p in props if p["id"] not in CHECKS],
    }
    json.dump(m, open(os.path.join(VERIF, "MANIFEST.json"), "w"), indent=1)

if __name__ == "__main__":
    main()
