#!/usr/bin/env python3
"""Regenerates /verif/MANIFEST.json from the table below (one entry per property that has a working check)."""
import json, os
VERIF = os.path.dirname(os.path.dirname(os.path.abspath(__file__)))
props = [json.loads(l) for l in open(os.path.join(VERIF, "properties.jsonl"))]

MC = "model_checking"
CHECKS = {
 "C07": dict(engine="slice", design="4/C07",
   technique="TLC model checking of a TLA+ transcription of the slice loop (Level 1) against the slice rule as a comprehension (Level 0); TLC-enumerated and random cases replayed into the real library, observations judged by TLC",
   text="TLC shows that the 32-bit slice loop as specified (MC_Slice: Adjust/LoopStep/LoopExit) never overflows, never indexes out of bounds and yields exactly the comprehension on every (len,start,stop,step) of a boundary-heavy domain incl. the i32 edges; every such tuple, and seeded random tuples over the whole i32 range with arrays up to 60, is then run through `@[a:b:c]`, `@[n]` and Variable::slice of the real library and TLC judges each observation against the Level-0 rule. A negative-control configuration (unchecked `i += step`) must fail.",
   note="Trusted: TLC; Slice.tla Level 0 as the reading of the JMESPath slice rule; the driver's value abstraction. Bounded: enumerated lengths <= 4 (quick) / 6 (thorough); random tail is sampled, not exhaustive."),
 "C03": dict(engine="lang", design="4/C03",
   technique="TLC model checking of a TLA+ transcription of the Pratt parser (Level 1) against the published ABNF as sentence sets and a CYK recogniser (Level 0); exhaustive small-scope token and character strings and random texts replayed into the real parser, observations lexed and judged by TLC",
   text="TLC explores the prefix tree of all token-kind strings up to 4 (quick) / 5 (thorough) tokens and shows that the parser model with every deviation switch off accepts exactly the strings the ABNF derives, that the CYK recogniser equals the bottom-up sentence sets, and that lexing the spelling of a token string returns it; the configuration with the deviations of the code as found must fail. Every such token string (spelled three ways), every character string over a 29-character alphabet up to length 3-4 and seeded random/mutated texts are compiled by the real library; TLC lexes each text with the Lexer model and accepts the observation iff parse success coincides with ABNF membership and failures are parse errors.",
   note="Trusted: TLC; Grammar.tla as the transcription of the ABNF; Lexer.tla/JsonParse.tla as the reading of the lexical rules (numbers with exponents or >9 digits inside literals are outside the modelled domain and not judged). Strings longer than 14 tokens are decided by the deviation-free parser model, which is model-checked equal to the ABNF only up to the bound."),
 "C04": dict(engine="lang", design="4/C04",
   technique="TLC model checking: Pratt parser model vs. an operator-precedence shift-reduce machine driven by the binding-power table as data (Prec.tla) and a parser-independent parenthesisation (Paren.tla); real ASTs and search results of enumerated and random sentences judged by TLC",
   text="On every ABNF sentence up to 5 (quick) / 6 (thorough) tokens, with positional payloads, TLC shows that the parser model builds exactly the tree the documented binding-power order dictates (Prec!TreeOf: explicit stack of open operators, left associativity, projections extending until a looser token), that wrapping the operands implied by the rules in parentheses leaves the tree unchanged, and that chains of one operator group left; a negative control with one binding power changed must fail. The real parser's public AST (parse() and Expression::as_ast()) for every such sentence, for its parenthesised spelling, and for random sentences of up to ~90 tokens is compared by TLC with Prec!TreeOf of the lexed tokens, and the search results of both spellings on two documents must agree.",
   note="Trusted: TLC; Prec.tla (table: pipe 1 < or 2 < and 3 < comparison 5 < flatten 9 < wildcard 20 < filter 21 < dot 40 < not 45 < bracket 55 < call 60; equal level closes = left associativity). One recorded finding (multi-select list after a dot ends a projection's right-hand side) is reported as KNOWN-FINDING."),
 "C01": dict(engine="eval", design="4/C01",
   technique="TLC model checking of a TLA+ transcription of the tree-walking evaluator (Interp, Level 1) against a denotational Eval written from the JMESPath specification (Level 0) on a bounded universe of trees x documents; exhaustive short sentences x documents and random long sentences x random documents searched by the real library and judged by TLC against Eval",
   text="TLC checks on every (tree, document) pair of a bounded universe (all trees of depth <= 1 over 17 leaves under every node kind; every JSON value of depth <= 1 (quick) / 2 (thorough), width 2 over 8 atoms) that the evaluator as coded computes the meaning the specification assigns (nulls dropped from every projection, one-level flatten, short-circuit and/or, 0 truthy, wrong-typed subject null, ascending key order), with two negative controls. Every ABNF sentence without '&' of up to 5 (quick) / 6 (thorough) payload-carrying tokens against a pool of 12 documents, and seeded random sentences of up to ~75/180 tokens against random documents of depth <= 4, are compiled and searched by the real library; TLC lexes the text, builds the Level-0 tree and accepts the observation iff it equals Eval(tree, document).",
   note="Trusted: TLC; Eval.tla as the reading of the specification; the driver's value abstraction (numbers as rationals with denominator <= 1000). Outcomes that depend on a choice the specification leaves open (expression reference to an `any` parameter, ties in max_by/min_by, to_string of numbers) are counted but not judged. The known finding F15 (C04) changes results of expressions containing `.[..]` inside a projection and is reported as KNOWN-FINDING."),
 "C02": dict(engine="funcs", design="4/C02",
   technique="TLC model checking of the built-in functions' contract (permutation+ordered+stable, extreme key, right bias, code points, ...) on the TLA+ function semantics; enumerated value domains and random large calls evaluated by the real library and judged by TLC against Eval!Apply",
   text="TLC checks on every cell of per-function value domains that the Level-0 function semantics used by all judges satisfies the clauses of the property stated independently (sort/sort_by: same multiset, ascending, ties in original order; max_by/min_by: an input element with extreme key; merge right-biased; keys/values pairwise and ascending; length/reverse on code points; to_number a number or null; avg([]) null; map keeps length; sum([]) 0; abs/ceil/floor), with a vacuity guard showing that tied keys are exercised. The same domains (arrays of length 0..4/5 over small pools, strings with 2-, 3- and 4-byte code points, stability families of length 16..64 in six arrangements -- an unstable sort first shows at length 33) and seeded random calls with arrays up to 200 elements, nested in projections, map and other calls, are evaluated by the real library and each result is compared by TLC with the specification's value.",
   note="Trusted: TLC; Eval.tla Apply as the reading of the function specification. Numbers are exact small rationals (no floating-point summation-order effects). Ties in max_by/min_by are judged by the relation (any extreme element); to_string of computed numbers is not judged (1 vs 1.0)."),
 "C06": dict(engine="funcs", design="4/C06",
   technique="TLC model checking of the signature decision table (Level-1 table transcribed from functions.rs vs. Level-0 table of the function specification); the full table replayed into the real library and judged by TLC",
   text="TLC explores every cell (function x argument count 0..3 (quick) / 4 (thorough) x 10 argument type classes per position) and shows: wrong count => arity error before any type check; right count with an argument outside its parameter type => type error; valid call => result of the declared type; and the table as coded (defn!/arg! cells, Signature::validate) equals the table of the function specification except where an expression reference meets an `any` parameter (left open by the specification). A loosened cell as negative control must fail. All ~29k (quick) cells, with arguments as literals and via the document, plus an unregistered name, are run on the real library and TLC compares error class / value with Eval.",
   note="Trusted: TLC; Eval.tla Sig/Validate/ResultTypes (DESIGN.md Appendix A). Unspecified cells (expression reference to `any`) are counted, not judged."),
 "C09": dict(engine="lexval", design="4/C09",
   technique="TLC model checking of spelling rules against the lexer model over the prefix tree of all short strings; spellings of enumerated and random strings evaluated by the real library and judged by TLC against the value they were spelled from",
   text="For every string of up to 4 (quick) / 5 (thorough) characters over delimiters, backslash, blanks and 1-/2-/4-byte characters TLC shows on the lexer model that the raw-string spelling denotes the string exactly when the string is spellable, that JSON literals holding it denote it, that three spellings of it as a quoted identifier lex to it, and that malformed forms are rejected. The same spellings for every string up to 3/4 characters and for seeded random strings over all planes up to 24/40 characters are compiled and searched by the real library (literals against null, identifiers against an object with near-miss keys); TLC accepts iff the observed value is the value the text was spelled from, and malformed forms must fail to compile with a parse error.",
   note="Trusted: TLC; LexVal.tla (spelling rules) and JText.tla (JSON printer). A disagreement between the lexer model and the spelling rule is reported as a tool error, not a verdict."),
 "C10": dict(engine="cmp", design="4/C10",
   technique="TLC model checking of the comparison contract on all pairs of a bounded value universe (Level-1 compare vs Level-0 Cmp); all pairs of a 44-text pool x six operators run on the real library and judged by TLC, incl. cross-operator laws on the observed results",
   text="TLC checks on all 58k ordered pairs of the universe of depth 1 / width 2 over 10 atoms (and on trees x documents through Eval) that == is deep equality, type-separating, reflexive and symmetric, != its negation, ordering defined exactly for two numbers with exactly one of <, ==, > and <=, >= consistent, and that the comparison as coded (type-gated PartialEq, the internal total order, the number gate) equals it; leaking the internal total order into == must fail. Every ordered pair of 44 JSON texts (all type pairings, nested/empty containers, several spellings of equal numbers incl. exponents and -0, permuted object keys, escaped strings) is compared with all six operators by the real library, both over a document given as JSON text and as literals; TLC checks each result against Eval and the operator laws on the six observed results themselves.",
   note="Trusted: TLC; JsonParse.tla for number spellings. Numbers are well separated small rationals (no float-tolerance edge cases)."),
 "C11": dict(engine="laws", design="4/C11",
   technique="TLC model checking of the compositional laws as theorems of Eval; laws checked by TLC on values that were all observed from the real library (whole from text, whole from parts' public ASTs, parts, parts per element)",
   text="TLC shows on the bounded universe of trees x documents that pipe, every projection kind (map-then-drop-nulls), filter (select), multi-select list/hash and ! && || obey the laws in Eval (and Interp = Eval). For 23 left parts x 16 right parts / 10 projection continuations / 8 predicates x 9 documents (33k cases) the driver evaluates with the real library only: the compound compiled from text, the compound built from the parts' public ASTs through Expression::new, each part, and the right-hand side / predicate on every element of the projected subject; TLC applies just the law's combination rule to those observed values and requires equality (errors: the first failing part's error kind).",
   note="Trusted: TLC; the combination rules in TV_Laws.tla. The projected subject of flatten / value / slice projections is observable only after null-dropping, so those laws use right-hand sides that map null to null."),
 "C12": dict(engine="errors", design="4/C12",
   technique="TLC model checking of the coordinate computation (Level 1 as coded vs Level 0) over the prefix tree of multi-byte strings and of the error-cursor protocol as a TLA+ state machine; constructor/Display, runtime error sites and compile failures observed on the real library and judged by TLC",
   text="TLC shows for every string up to 5 (quick) / 7 (thorough) characters over 1-4-byte characters and newline and every character boundary that the line/column computed from the byte offset are the zero-based line and character column, and that the caret line is placed under that column of that line; the byte-counting variant must fail. A TLA+ state machine of the evaluation context's error cursor (EvalArg / Enter / Body / Return over every tree of up to 3 calls with argument and expression-reference children failing early, late or never) shows that an error always carries the offset of the call that raised it and that each search starts fresh; the variant without restore must fail. On the real library TLC judges: JmespathError::new + Display at every boundary of every string <= 4/6; 184 failing (expression, document) pairs (8 prefixes with multi-byte identifiers, newlines and successful calls x 23 failure sites) for class, kind, carried text, offset inside the failing call's parenthesis / the slice brackets and coordinates; and every compile failure among ~14k/70k+ short and random texts for parse class, carried text, boundary offset and coordinates.",
   note="Trusted: TLC; Errors.tla Coord/Rendered. Known finding F08 (non-finite results reported as parse-class errors with empty expression) is reported as KNOWN-FINDING. Parse-error offsets are only required to be a character boundary inside the text with consistent coordinates (the property does not say which token)."),
 "C13": dict(engine="session", design="4/C13",
   technique="TLC model checking of a TLA+ session machine (Register/Deregister/RegisterBuiltins/Compile/Clone/Drop/Search) with history-derived invariants; trace validation: TLC-generated behaviours replayed on real runtimes and random recorded API histories, each event matched against the specification's action",
   text="TLC explores every history of up to 3 (quick) / 4-5 (thorough) API calls over 2 runtimes + the default runtime, 3 names, 4 custom bindings, 5 expression texts and 3 documents, keeping the full history, and shows that the last search result always equals Eval(tree(text), document, registry at compile time) re-derived from the history alone, that documents never change, that a live expression's registry is the one it was compiled with, and that a clone equals its original; a text-keyed result cache as negative control must fail, and a second state machine shows the per-search error cursor starts at 0 and is restored. Then ~1200 12-call behaviours generated by TLC in simulation mode are replayed on real Runtimes, and seeded random histories of 50-100 calls (recording closures, CustomFunctions, clones, failing searches, default and custom runtimes interleaved, shared Rc documents) are recorded; TLC validates every event against the corresponding Session action (compile ok + tree, search outcome, inputs unchanged).",
   note="Trusted: TLC; Session.tla/Eval.tla; the harness enforces the borrow rule (no registry mutation while an expression borrows the runtime) as the borrow checker does. A rejected event does not stop validation: it resumes at the next history."),
 "C15": dict(engine="session", design="4/C15",
   technique="same TLA+ session machine and trace validation as C13; the registry projection after every registry call, deregister's return value, and the log of callbacks into recording custom functions are checked event by event",
   text="The model-checked invariant Inv_Registry states that after any history the registry of every runtime answers, for every name, with the most recently registered binding still registered (re-derived from the history), a fresh runtime having none. In the validated traces every register / deregister / register-builtins / new-runtime event carries the set of pool names for which Runtime::get_function answers, which must equal the specification's registry; deregister's boolean must say whether the name was present; every search carries the ordered log of calls into recording custom functions with their evaluated arguments, which must equal the specification's call log (arguments left to right against the current node, expression references unevaluated, signature-carrying custom functions invoked only when validation passes, per-element evaluation inside map/sort_by/max_by/min_by), and its outcome must be the one the registry dictates (custom functions shadow built-ins; unknown-function otherwise).",
   note="Trusted: as C13. Custom function behaviours are distinguishable constants (id 101..), so which registration answered is visible in results."),
}

def main():
    checks = []
    for p in props:
        pid = p["id"]
        if pid not in CHECKS:
            continue
        c = CHECKS[pid]
        checks.append({
            "property_id": pid,
            "quick_cmd": "./check %s quick" % pid,
            "thorough_cmd": "./check %s thorough" % pid,
            "evidence_file": "/verif/evidence/%s.json" % pid,
            "replay_cmd_template": "./check %s --replay {path}" % pid,
            "engine": c["engine"],
            "level_claimed": {"category": MC, "text": c["text"], "design_ref": "DESIGN.md section " + c["design"]},
            "level_note": c["note"],
            "technique": c["technique"],
        })
    engines = {}
    for pid, c in CHECKS.items():
        engines.setdefault(c["engine"], []).append(pid)
    m = {
        "version": 1,
        "setup_cmd": "cd /verif && ./check --setup",
        "hooks": {"guard": "jmespath_verif",
                  "enable": "no source hooks exist: every observation is taken at the public API (DESIGN.md section 6); the guard name is reserved",
                  "baseline_off_cmd": "cd /repo/jmespath && cargo test --workspace --no-fail-fast --offline",
                  "source_commits": [], "add_only": True},
        "engines": [{"name": e, "path": "/verif/lib/eng_%s.py" % e, "serves_properties": sorted(ps),
                     "kind_free_text": "TLA+ spec modules under /verif/spec checked by TLC + Rust conformance driver (harness/driver) + TLC judge"}
                    for e, ps in sorted(engines.items())],
        "checks": checks,
        "notes": "All checks: ./check <ID> quick|thorough. Exit 0 held / 1 VIOLATION / 2 tool error. known_findings.json lists genuine defects (fixed and known).",
        "not_applicable": [{"property_id": p["id"], "reason": "check not built yet (construction in progress; DESIGN.md section 9 gives the order)"}
                           for p in props if p["id"] not in CHECKS],
    }
    json.dump(m, open(os.path.join(VERIF, "MANIFEST.json"), "w"), indent=1)

if __name__ == "__main__":
    main()
