#!/usr/bin/env python3
"""Regenerates /verif/MANIFEST.json from the table below (one entry per property that has a working check)."""
import json, os
VERIF = os.path.dirname(os.path.dirname(os.path.abspath(__file__)))
props = [json.loads(l) for l in open(os.path.join(VERIF, "properties.jsonl"))]

MC = "model_checking"
CHECKS = {
 "C07": dict(engine="slice", design="4/C07",
   technique="TLC model checking of a TLA+ transcription of the slice loop (Level 1) against the slice rule as a comprehension (Level 0); TLC-enumerated and random cases replayed into the real library, observations judged by TLC",
   text="TLC shows that the 32-bit slice loop as specified (MC_Slice: Adjust/LoopStep/LoopExit) never overflows, never indexes out of bounds and yields exactly the comprehension on every (len,start,stop,step) of a boundary-heavy domain incl. the i32 edges; every such tuple, and seeded random tuples over the whole i32 range with arrays up to 60, is then run through `@[a:b:c]`, `@[n]` and Variable::slice of the real library and TLC judges each observation against the Level-0 rule. A negative-control configuration (unchecked `i += step`) must fail.",
   note="Trusted: TLC; Slice.tla Level 0 as the reading of the JMESPath slice rule; the driver's value abstraction. Bounded: enumerated lengths <= 4 (quick) / 6 (thorough); random tail is sampled, not exhaustive."),
 "C03": dict(engine="lang", design="4/C03",
   technique="TLC model checking of a TLA+ transcription of the Pratt parser (Level 1) against the published ABNF as sentence sets and a CYK recogniser (Level 0); exhaustive small-scope token and character strings and random texts replayed into the real parser, observations lexed and judged by TLC",
   text="TLC explores the prefix tree of all token-kind strings up to 4 (quick) / 5 (thorough) tokens and shows that the parser model with every deviation switch off accepts exactly the strings the ABNF derives, that the CYK recogniser equals the bottom-up sentence sets, and that lexing the spelling of a token string returns it; the configuration with the deviations of the code as found must fail. Every such token string (spelled three ways), every character string over a 29-character alphabet up to length 3-4 and seeded random/mutated texts are compiled by the real library; TLC lexes each text with the Lexer model and accepts the observation iff parse success coincides with ABNF membership and failures are parse errors.",
   note="Trusted: TLC; Grammar.tla as the transcription of the ABNF; Lexer.tla/JsonParse.tla as the reading of the lexical rules (numbers with exponents or >9 digits inside literals are outside the modelled domain and not judged). Strings longer than 14 tokens are decided by the deviation-free parser model, which is model-checked equal to the ABNF only up to the bound."),
 "C04": dict(engine="lang", design="4/C04",
   technique="TLC model checking: Pratt parser model vs. an operator-precedence shift-reduce machine driven by the binding-power table as data (Prec.tla) and a parser-independent parenthesisation (Paren.tla); real ASTs and search results of enumerated and random sentences judged by TLC",
   text="On every ABNF sentence up to 5 (quick) / 6 (thorough) tokens, with positional payloads, TLC shows that the parser model builds exactly the tree the documented binding-power order dictates (Prec!TreeOf: explicit stack of open operators, left associativity, projections extending until a looser token), that wrapping the operands implied by the rules in parentheses leaves the tree unchanged, and that chains of one operator group left; a negative control with one binding power changed must fail. The real parser's public AST (parse() and Expression::as_ast()) for every such sentence, for its parenthesised spelling, and for random sentences of up to ~90 tokens is compared by TLC with Prec!TreeOf of the lexed tokens, and the search results of both spellings on two documents must agree.",
   note="Trusted: TLC; Prec.tla (table: pipe 1 < or 2 < and 3 < comparison 5 < flatten 9 < wildcard 20 < filter 21 < dot 40 < not 45 < bracket 55 < call 60; equal level closes = left associativity). One recorded finding (multi-select list after a dot ends a projection's right-hand side) is reported as KNOWN-FINDING."),
 "C01": dict(engine="eval", design="4/C01",
   technique="TLC model checking of a TLA+ transcription of the tree-walking evaluator (Interp, Level 1) against a denotational Eval written from the JMESPath specification (Level 0) on a bounded universe of trees x documents; exhaustive short sentences x documents and random long sentences x random documents searched by the real library and judged by TLC against Eval",
   text="TLC checks on every (tree, document) pair of a bounded universe (all trees of depth <= 1 over 17 leaves under every node kind; every JSON value of depth <= 1 (quick) / 2 (thorough), width 2 over 8 atoms) that the evaluator as coded computes the meaning the specification assigns (nulls dropped from every projection, one-level flatten, short-circuit and/or, 0 truthy, wrong-typed subject null, ascending key order), with two negative controls. Every ABNF sentence without '&' of up to 5 (quick) / 6 (thorough) payload-carrying tokens against a pool of 12 documents, and seeded random sentences of up to ~75/180 tokens against random documents of depth <= 4, are compiled and searched by the real library; TLC lexes the text, builds the Level-0 tree and accepts the observation iff it equals Eval(tree, document).",
   note="Trusted: TLC; Eval.tla as the reading of the specification; the driver's value abstraction (numbers as rationals with denominator <= 1000). Outcomes that depend on a choice the specification leaves open (expression reference to an `any` parameter, ties in max_by/min_by, to_string of numbers) are counted but not judged. The known finding F15 (C04) changes results of expressions containing `.[..]` inside a projection and is reported as KNOWN-FINDING."),
}

def main():
    checks = []
    for p in props:
        pid = p["id"]
        if pid not in CHECKS:
            continue
        c = CHECKS[pid]
        checks.append({
            "property_id": pid,
            "quick_cmd": "./check %s quick" % pid,
            "thorough_cmd": "./check %s thorough" % pid,
            "evidence_file": "/verif/evidence/%s.json" % pid,
            "replay_cmd_template": "./check %s --replay {path}" % pid,
            "engine": c["engine"],
            "level_claimed": {"category": MC, "text": c["text"], "design_ref": "DESIGN.md section " + c["design"]},
            "level_note": c["note"],
            "technique": c["technique"],
        })
    engines = {}
    for pid, c in CHECKS.items():
        engines.setdefault(c["engine"], []).append(pid)
    m = {
        "version": 1,
        "setup_cmd": "cd /verif && ./check --setup",
        "hooks": {"guard": "jmespath_verif",
                  "enable": "no source hooks exist: every observation is taken at the public API (DESIGN.md section 6); the guard name is reserved",
                  "baseline_off_cmd": "cd /repo/jmespath && cargo test --workspace --no-fail-fast --offline",
                  "source_commits": [], "add_only": True},
        "engines": [{"name": e, "path": "/verif/lib/eng_%s.py" % e, "serves_properties": sorted(ps),
                     "kind_free_text": "TLA+ spec modules under /verif/spec checked by TLC + Rust conformance driver (harness/driver) + TLC judge"}
                    for e, ps in sorted(engines.items())],
        "checks": checks,
        "notes": "All checks: ./check <ID> quick|thorough. Exit 0 held / 1 VIOLATION / 2 tool error. known_findings.json lists genuine defects (fixed and known).",
        "not_applicable": [{"property_id": p["id"], "reason": "check not built yet (construction in progress; DESIGN.md section 9 gives the order)"}
                           for p in props if p["id"] not in CHECKS],
    }
    json.dump(m, open(os.path.join(VERIF, "MANIFEST.json"), "w"), indent=1)

if __name__ == "__main__":
    main()
