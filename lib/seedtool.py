#!/usr/bin/env python3
"""Seeded-change tooling (sensitivity experiments; not part of any registered check).

  seedtool.py confirm <worktree> <seeddir>   confirm a sub-agent's change in its scratch worktree: patch applies, the
                                            library builds, the 927 tests pass, the demo fails with it and passes without
  seedtool.py detect <seeddir> <PROP> [tier] apply the patch to /repo, run ./check PROP tier, undo the patch; print verdict
  seedtool.py detect-scratch <seeddir> <PROP> [tier]   the same without touching /repo or /verif/evidence (scratch worktree + harness copy)
"""
import json, os, shutil, subprocess, sys, time

def sh(cmd, cwd=None, timeout=1800):
    p = subprocess.run(cmd, shell=True, cwd=cwd, stdout=subprocess.PIPE, stderr=subprocess.STDOUT, timeout=timeout)
    return p.returncode, p.stdout.decode("utf-8", "replace")

def confirm(wt, sd):
    res = {"worktree": wt}
    sh("git checkout -- . && rm -f jmespath/tests/seed_demo.rs", cwd=wt)
    rc, out = sh("git apply --check %s/patch.diff && git apply %s/patch.diff" % (sd, sd), cwd=wt)
    res["applies"] = rc == 0
    rc, out = sh("cargo test --workspace --no-fail-fast --offline 2>&1 | grep -E '^test result'", cwd=wt + "/jmespath")
    res["suite_with_patch"] = out.strip().splitlines()
    res["suite_passes"] = all(" 0 failed" in l for l in res["suite_with_patch"]) and len(res["suite_with_patch"]) >= 3
    shutil.copy(sd + "/seed_demo.rs", wt + "/jmespath/tests/seed_demo.rs")
    rc, out = sh("cargo test --offline --test seed_demo 2>&1 | grep -E '^test result|error'", cwd=wt + "/jmespath")
    res["demo_with_patch"] = out.strip()
    res["demo_fails_with_patch"] = rc == 0 and "FAILED" in out
    sh("git checkout -- .", cwd=wt)
    rc, out = sh("cargo test --offline --test seed_demo 2>&1 | grep -E '^test result|error'", cwd=wt + "/jmespath")
    res["demo_without_patch"] = out.strip()
    res["demo_passes_without_patch"] = "test result: ok" in out
    os.remove(wt + "/jmespath/tests/seed_demo.rs")
    res["confirmed"] = all(res[k] for k in ("applies", "suite_passes", "demo_fails_with_patch", "demo_passes_without_patch"))
    print(json.dumps(res, indent=1))
    return res

def detect_scratch(sd, prop, tier="quick", base=os.environ.get("MUTLAB", "/tmp/mutlab")):
    """Like detect, but leaves /repo and /verif's evidence alone: a scratch worktree of /repo carries the patch, a scratch copy of the
    harness points its path dependencies at it, and evidence / replays go to a scratch directory.  Can run while other checks use /repo."""
    wt, hz, out = base + "/repo", base + "/harness", base + "/out"
    os.makedirs(base, exist_ok=True)
    if not os.path.isdir(wt):
        rc, o = sh("git -C /repo worktree add -q --detach %s HEAD" % wt)
        if rc != 0:
            print("cannot create worktree:", o); return None
    sh("git reset -q --hard; git checkout -q --detach $(git -C /repo rev-parse HEAD) && git checkout -q -- . && git clean -fdq -e target", cwd=wt)
    sd = os.path.abspath(sd)
    rc, o = sh("git apply %s/patch.diff" % sd, cwd=wt)
    if rc != 0:          # the archived patch was cut against an earlier HEAD (later fix: commits moved its context): merge it
        rc, o = sh("git apply -3 %s/patch.diff && git reset -q" % sd, cwd=wt)
    if rc != 0:
        sh("git reset -q --hard", cwd=wt)
        print("patch does not apply:", o); return None
    vz = base + "/verif"          # optional frozen copy of /verif (seedtool.py snapshot), so that /verif can be edited meanwhile
    src = vz if os.path.isdir(vz) else "/verif"
    sh("mkdir -p %s && rsync -a --exclude 'target*' %s/harness/ %s/" % (hz, src, hz))
    sh("grep -rl '/repo/' --include=Cargo.toml --include=Cargo.lock . | xargs sed -i 's#/repo/#%s/#g'" % wt, cwd=hz)
    t0 = time.time()
    try:
        rc, out_txt = sh("VERIF_SCRATCH_HARNESS=%s VERIF_SCRATCH_OUT=%s ./check %s %s" % (hz, out, prop, tier), cwd=src, timeout=7200)
    finally:
        sh("git checkout -q -- .", cwd=wt)
    viol = [l for l in out_txt.splitlines() if l.startswith("VIOLATION")]
    with open(base + "/last.out", "w") as f:
        f.write(out_txt)
    res = {"property": prop, "tier": tier, "exit": rc, "violations": len(viol), "first": viol[:3], "wall_s": round(time.time() - t0),
           "tail": out_txt.splitlines()[-3:], "mode": "scratch worktree + scratch harness"}
    print(json.dumps(res, indent=1))
    return res

def snapshot(base="/tmp/mutlab"):
    os.makedirs(base, exist_ok=True)
    rc, o = sh("rsync -a --delete --exclude 'target*' --exclude .git --exclude evidence /verif/ %s/verif/ && mkdir -p %s/verif/evidence" % (base, base))
    print("snapshot", rc, o[-300:])

def detect(sd, prop, tier="quick"):
    rc, out = sh("git -C /repo status --porcelain --untracked-files=no")
    if out.strip():
        print("refusing: /repo has local modifications"); return None
    rc, out = sh("git -C /repo apply %s/patch.diff" % sd)
    if rc != 0:
        print("patch does not apply to /repo:", out); return None
    t0 = time.time()
    try:
        rc, out = sh("./check %s %s" % (prop, tier), cwd="/verif", timeout=7200)
    finally:
        sh("git -C /repo checkout -- .")
    viol = [l for l in out.splitlines() if l.startswith("VIOLATION")]
    res = {"property": prop, "tier": tier, "exit": rc, "violations": len(viol), "first": viol[:3], "wall_s": round(time.time() - t0),
           "tail": out.splitlines()[-3:]}
    print(json.dumps(res, indent=1))
    return res

if __name__ == "__main__":
    if sys.argv[1] == "snapshot":
        snapshot()
    elif sys.argv[1] == "confirm":
        confirm(sys.argv[2], sys.argv[3])
    elif sys.argv[1] == "detect-scratch":
        detect_scratch(sys.argv[2], sys.argv[3], sys.argv[4] if len(sys.argv) > 4 else "quick")
    else:
        detect(sys.argv[2], sys.argv[3], sys.argv[4] if len(sys.argv) > 4 else "quick")
