-------------------------------- MODULE Lexer --------------------------------
(***************************************************************************)
(* The lexical layer: code points -> tokens (property C03's lexical rules, *)
(* C09's denotation of raw strings, literals and quoted identifiers).      *)
(*                                                                         *)
(* Written from the JMESPath lexical rules with this implementation's      *)
(* documented restrictions (numbers fit i32, "-" is followed by 1-9,       *)
(* literals are valid JSON); one action per token, mirroring the dispatch  *)
(* of jmespath/src/lexer.rs:103-156 so that a rejected observation points  *)
(* at code.  Result: [ok, toks, offs, errpos, dom] where offs are the      *)
(* 0-based character offsets of the tokens and dom = FALSE marks a text    *)
(* with a JSON number outside the modelled domain.                         *)
(*                                                                         *)
(* DEV_I32_MIN_REJECTED: the magnitude of a negative number is parsed      *)
(* before the sign is applied, so -2147483648 is refused (lexer.rs:204-228)*)
(***************************************************************************)
EXTENDS Tokens, JsonParse

IsAlpha(c) == (c >= 97 /\ c <= 122) \/ (c >= 65 /\ c <= 90) \/ c = 95
IsAlnum(c) == IsAlpha(c) \/ IsDigit(c)
Blank == {32, 10, 9, 13}

RECURSIVE RunEnd(_, _, _)
(* end (exclusive) of the maximal run of characters satisfying the class starting at i *)
RunEnd(s, i, cls) ==
  IF (cls = "alnum" /\ IsAlnum(At(s, i))) \/ (cls = "digit" /\ IsDigit(At(s, i)))
  THEN RunEnd(s, i + 1, cls) ELSE i

(* decimal value of the digit run s[i..j-1] if it is at most limit, else -1 (never computes beyond 32 bits) *)
RECURSIVE BoundedVal(_, _, _, _, _)
BoundedVal(s, i, j, acc, limit) ==
  IF i >= j THEN acc
  ELSE LET d == s[i] - 48 IN
       IF acc > (limit - d) \div 10 THEN -1
       ELSE BoundedVal(s, i + 1, j, acc * 10 + d, limit)

MAXI32 == 2147483647

(* lexer.rs:233-264 consume_inside: from i (after the opening delimiter) to the first unescaped delimiter;
   a backslash always takes the next character with it.  Returns [closed, body, next]. *)
RECURSIVE Inside(_, _, _, _)
Inside(s, i, delim, acc) ==
  LET c == At(s, i) IN
  IF c = -1 THEN [closed |-> FALSE, body |-> acc, next |-> i]
  ELSE IF c = delim THEN [closed |-> TRUE, body |-> acc, next |-> i + 1]
  ELSE IF c = 92 THEN IF At(s, i + 1) = -1 THEN [closed |-> FALSE, body |-> Append(acc, c), next |-> i + 1]
                      ELSE Inside(s, i + 2, delim, acc \o <<c, s[i + 1]>>)
  ELSE Inside(s, i + 1, delim, Append(acc, c))

(* replace every backslash-delimiter pair by the delimiter (str::replace on a body made of pairs and singles) *)
RECURSIVE Unescape(_, _)
Unescape(body, delim) ==
  IF body = <<>> THEN <<>>
  ELSE IF Len(body) >= 2 /\ body[1] = 92 /\ body[2] = delim THEN <<delim>> \o Unescape(SubSeq(body, 3, Len(body)), delim)
  ELSE IF Len(body) >= 2 /\ body[1] = 92 THEN <<92, body[2]>> \o Unescape(SubSeq(body, 3, Len(body)), delim)
  ELSE <<body[1]>> \o Unescape(Tail(body), delim)

LexFail(i, toks, offs) == [ok |-> FALSE, toks |-> toks, offs |-> offs, errpos |-> i - 1, dom |-> TRUE]

RECURSIVE LexFrom(_, _, _, _, _, _)
LexFrom(s, i, toks, offs, dom, D) ==
  LET c == At(s, i)
      c2 == At(s, i + 1)
      one(tok)  == LexFrom(s, i + 1, Append(toks, tok), Append(offs, i - 1), dom, D)
      two(tok)  == LexFrom(s, i + 2, Append(toks, tok), Append(offs, i - 1), dom, D)
      upto(j, tok) == LexFrom(s, j, Append(toks, tok), Append(offs, i - 1), dom, D)
  IN
  IF c = -1 THEN [ok |-> TRUE, toks |-> toks, offs |-> offs, errpos |-> -1, dom |-> dom]
  ELSE IF c \in Blank THEN LexFrom(s, i + 1, toks, offs, dom, D)
  ELSE IF IsAlpha(c) THEN LET j == RunEnd(s, i + 1, "alnum") IN upto(j, TIdent(SubSeq(s, i, j - 1)))
  ELSE IF c = 46 THEN one(TPlain("Dot"))
  ELSE IF c = 91 THEN (IF c2 = 93 THEN two(TPlain("Flatten")) ELSE IF c2 = 63 THEN two(TPlain("Filter")) ELSE one(TPlain("Lbracket")))
  ELSE IF c = 42 THEN one(TPlain("Star"))
  ELSE IF c = 124 THEN (IF c2 = 124 THEN two(TPlain("Or")) ELSE one(TPlain("Pipe")))
  ELSE IF c = 64 THEN one(TPlain("At"))
  ELSE IF c = 93 THEN one(TPlain("Rbracket"))
  ELSE IF c = 123 THEN one(TPlain("Lbrace"))
  ELSE IF c = 125 THEN one(TPlain("Rbrace"))
  ELSE IF c = 38 THEN (IF c2 = 38 THEN two(TPlain("And")) ELSE one(TPlain("Amp")))
  ELSE IF c = 40 THEN one(TPlain("Lparen"))
  ELSE IF c = 41 THEN one(TPlain("Rparen"))
  ELSE IF c = 44 THEN one(TPlain("Comma"))
  ELSE IF c = 58 THEN one(TPlain("Colon"))
  ELSE IF c = 61 THEN (IF c2 = 61 THEN two(TCmpTok("eq")) ELSE LexFail(i, toks, offs))
  ELSE IF c = 62 THEN (IF c2 = 61 THEN two(TCmpTok("ge")) ELSE one(TCmpTok("gt")))
  ELSE IF c = 60 THEN (IF c2 = 61 THEN two(TCmpTok("le")) ELSE one(TCmpTok("lt")))
  ELSE IF c = 33 THEN (IF c2 = 61 THEN two(TCmpTok("ne")) ELSE one(TPlain("Not")))
  ELSE IF IsDigit(c) THEN                                   \* consume_number, lexer.rs:204-215
       LET j == RunEnd(s, i + 1, "digit")
           v == BoundedVal(s, i, j, 0, MAXI32)
       IN IF v < 0 THEN LexFail(i, toks, offs) ELSE upto(j, TNum(v))
  ELSE IF c = 45 THEN                                       \* consume_negative_number, lexer.rs:219-228
       IF c2 >= 49 /\ c2 <= 57
       THEN LET j == RunEnd(s, i + 2, "digit")
                v == BoundedVal(s, i + 1, j, 0, MAXI32)
                isMin == v < 0 /\ "DEV_I32_MIN_REJECTED" \notin D /\ j - (i + 1) = 10
                         /\ SubSeq(s, i + 1, j - 1) = <<50, 49, 52, 55, 52, 56, 51, 54, 52, 56>>
            IN IF v >= 0 THEN upto(j, TNum(-v))
               ELSE IF isMin THEN upto(j, TNum(-MAXI32 - 1))
               ELSE LexFail(i, toks, offs)
       ELSE LexFail(i, toks, offs)
  ELSE IF c = 34 THEN                                       \* quoted identifier, lexer.rs:268-279
       LET r == Inside(s, i + 1, 34, <<>>) IN
       IF ~r.closed THEN LexFail(i, toks, offs)
       ELSE LET j == ParseStrBody(r.body \o <<34>>, 1, <<>>) IN
            IF j.ok /\ j.pos = Len(r.body) + 2 THEN upto(r.next, TQIdent(j.v.s)) ELSE LexFail(i, toks, offs)
  ELSE IF c = 39 THEN                                       \* raw string, lexer.rs:282-287
       LET r == Inside(s, i + 1, 39, <<>>) IN
       IF ~r.closed THEN LexFail(i, toks, offs)
       ELSE upto(r.next, TLit(JStr(Unescape(r.body, 39))))
  ELSE IF c = 96 THEN                                       \* JSON literal, lexer.rs:291-299
       LET r == Inside(s, i + 1, 96, <<>>) IN
       IF ~r.closed THEN LexFail(i, toks, offs)
       ELSE LET j == JsonParse(Unescape(r.body, 96)) IN
            IF j.ok THEN LexFrom(s, r.next, Append(toks, TLit(j.v)), Append(offs, i - 1), dom /\ j.dom, D)
            ELSE LexFail(i, toks, offs)
  ELSE LexFail(i, toks, offs)

Lex(s, D) == LexFrom(s, 1, <<>>, <<>>, TRUE, D)
=============================================================================
