----------------------------- MODULE JsonParse -----------------------------
(***************************************************************************)
(* JSON texts (sequences of code points) -> tagged values: RFC 8259 as     *)
(* serde_json implements it with default features.  Used to give meaning   *)
(* to backtick literals, quoted identifiers, to_number arguments and the   *)
(* JSON documents of C08.                                                  *)
(*                                                                         *)
(* Result: [ok, pos, v, dom].  dom = FALSE marks a text whose meaning is   *)
(* outside the modelled number domain (exponents, more than 9 integer      *)
(* digits, more than 3 fraction digits): a judge must not decide on it.    *)
(***************************************************************************)
EXTENDS JValue

JWs == {32, 9, 10, 13}
IsDigit(c) == c >= 48 /\ c <= 57
HexVal(c) == IF c >= 48 /\ c <= 57 THEN c - 48
             ELSE IF c >= 97 /\ c <= 102 THEN c - 87
             ELSE IF c >= 65 /\ c <= 70 THEN c - 55 ELSE -1

At(s, i) == IF i >= 1 /\ i <= Len(s) THEN s[i] ELSE -1      \* -1 = end of input

JFail(i)        == [ok |-> FALSE, pos |-> i, v |-> JNull, dom |-> TRUE]
JOk(i, v)       == [ok |-> TRUE, pos |-> i, v |-> v, dom |-> TRUE]
JOkD(i, v, d)   == [ok |-> TRUE, pos |-> i, v |-> v, dom |-> d]

RECURSIVE SkipWs(_, _)
SkipWs(s, i) == IF At(s, i) \in JWs THEN SkipWs(s, i + 1) ELSE i

RECURSIVE DigitsEnd(_, _)
DigitsEnd(s, i) == IF IsDigit(At(s, i)) THEN DigitsEnd(s, i + 1) ELSE i

RECURSIVE DigitsVal(_, _, _, _)
DigitsVal(s, i, j, acc) == IF i >= j THEN acc ELSE DigitsVal(s, i + 1, j, acc * 10 + (s[i] - 48))

Pow10(k) == CASE k = 0 -> 1 [] k = 1 -> 10 [] k = 2 -> 100 [] k = 3 -> 1000 [] k = 4 -> 10000 [] k = 5 -> 100000
RECURSIVE LastNonZero(_, _, _), TrailingZeros(_)
LastNonZero(s, lo, i) == IF i <= lo \/ s[i] # 48 THEN i ELSE LastNonZero(s, lo, i - 1)     \* index of the last digit that is not 0 (lo if none)
TrailingZeros(n) == IF n % 10 # 0 THEN 0 ELSE 1 + TrailingZeros(n \div 10)               \* n > 0

(* number = [ "-" ] int [ frac ] [ exp ]   starting at i *)
ParseNumber(s, i) ==
  LET neg == At(s, i) = 45
      i1  == IF neg THEN i + 1 ELSE i
      c   == At(s, i1)
  IN IF ~IsDigit(c) THEN JFail(i1)
     ELSE
     LET i2 == IF c = 48 THEN i1 + 1 ELSE DigitsEnd(s, i1)      \* a leading 0 stands alone
         hasFrac == At(s, i2) = 46
         f1 == i2 + 1
         f2 == IF hasFrac THEN DigitsEnd(s, f1) ELSE i2
         hasExp == At(s, f2) \in {101, 69}
         e1 == IF At(s, f2 + 1) \in {43, 45} THEN f2 + 2 ELSE f2 + 1
         e2 == IF hasExp THEN DigitsEnd(s, e1) ELSE f2
         eneg == At(s, f2 + 1) = 45
     IN IF hasFrac /\ f2 = f1 THEN JFail(f1)                    \* "1." : digit required
        ELSE IF hasExp /\ e2 = e1 THEN JFail(e1)                \* "1e" : digit required
        ELSE IF ~hasFrac /\ ~hasExp /\ (i2 - i1) >= 11 /\ (i2 - i1) <= 19
             THEN \* an integer of 11..19 digits: inside the model when it is at most 9 significant digits followed by zeros
                  LET nz == LastNonZero(s, i1, i2 - 1) IN
                  IF nz - i1 + 1 > 9 THEN JOkD(e2, JInt(0), FALSE)
                  ELSE LET m == DigitsVal(s, i1, nz + 1, 0) IN JOk(e2, IF neg THEN JBig(-m, i2 - 1 - nz) ELSE JBig(m, i2 - 1 - nz))
        ELSE IF hasExp /\ ~eneg /\ (e2 - e1) <= 2 /\ (i2 - i1) <= 3 /\ (f2 - f1) <= 2 /\ DigitsVal(s, e1, e2, 0) >= 4 /\ DigitsVal(s, e1, e2, 0) <= 22
             THEN \* mantissa of at most 5 digits, exponent 4..22 (the exactly-converted range of the JSON parser, C08)
                  LET ip == DigitsVal(s, i1, i2, 0)
                      fd == IF hasFrac THEN f2 - f1 ELSE 0
                      fp == IF hasFrac THEN DigitsVal(s, f1, f2, 0) ELSE 0
                      num == ip * Pow10(fd) + fp
                      ev == DigitsVal(s, e1, e2, 0) - fd
                  IN IF num = 0 THEN JOk(e2, JInt(0))
                     ELSE LET z == TrailingZeros(num)  m == num \div Pow10(z)  E == ev + z IN
                          IF Digits(m) + E >= 11 THEN JOk(e2, IF neg THEN JBig(-m, E) ELSE JBig(m, E))
                          ELSE JOkD(e2, JInt(0), FALSE)
        ELSE IF (i2 - i1) > 9 \/ (f2 - f1) > 3 \/ (i2 - i1) + (f2 - f1) > 9 \/ (hasExp /\ ((e2 - e1) > 1 \/ (i2 - i1) > 3 \/ (f2 - f1) > 2 \/ s[e1] - 48 > 3))
             THEN JOkD(e2, JInt(0), FALSE)                      \* valid JSON, value outside the modelled domain
        ELSE LET ip == DigitsVal(s, i1, i2, 0)
                 fd == IF hasFrac THEN f2 - f1 ELSE 0
                 fp == IF hasFrac THEN DigitsVal(s, f1, f2, 0) ELSE 0
                 ev == IF hasExp THEN s[e1] - 48 ELSE 0         \* one exponent digit, 0..3
                 num == ip * Pow10(fd) + fp
                 mag == IF eneg THEN Rat(num, Pow10(fd) * Pow10(ev)) ELSE Rat(num * Pow10(ev), Pow10(fd))
             IN JOk(e2, IF neg THEN NumNeg(mag) ELSE mag)

(* the body of a JSON string starting after the opening quote; returns pos after the closing quote *)
RECURSIVE ParseStrBody(_, _, _)
ParseStrBody(s, i, acc) ==
  LET c == At(s, i) IN
  IF c = -1 THEN JFail(i)
  ELSE IF c = 34 THEN JOk(i + 1, JStr(acc))
  ELSE IF c < 32 THEN JFail(i)                                  \* raw control character
  ELSE IF c # 92 THEN ParseStrBody(s, i + 1, Append(acc, c))
  ELSE LET e == At(s, i + 1) IN
       CASE e = 34  -> ParseStrBody(s, i + 2, Append(acc, 34))
         [] e = 92  -> ParseStrBody(s, i + 2, Append(acc, 92))
         [] e = 47  -> ParseStrBody(s, i + 2, Append(acc, 47))
         [] e = 98  -> ParseStrBody(s, i + 2, Append(acc, 8))
         [] e = 102 -> ParseStrBody(s, i + 2, Append(acc, 12))
         [] e = 110 -> ParseStrBody(s, i + 2, Append(acc, 10))
         [] e = 114 -> ParseStrBody(s, i + 2, Append(acc, 13))
         [] e = 116 -> ParseStrBody(s, i + 2, Append(acc, 9))
         [] e = 117 ->
              LET h(k) == HexVal(At(s, i + 1 + k))
                  okh(b) == \A k \in 1..4 : HexVal(At(s, b + k)) >= 0
                  val(b) == HexVal(At(s, b + 1)) * 4096 + HexVal(At(s, b + 2)) * 256
                            + HexVal(At(s, b + 3)) * 16 + HexVal(At(s, b + 4))
              IN IF ~okh(i + 1) THEN JFail(i)
                 ELSE LET u == val(i + 1) IN
                      IF u >= 56320 /\ u <= 57343 THEN JFail(i)            \* lone trailing surrogate
                      ELSE IF u >= 55296 /\ u <= 56319
                      THEN \* leading surrogate: must be followed by \uDC00..\uDFFF
                           IF At(s, i + 6) = 92 /\ At(s, i + 7) = 117 /\ okh(i + 7)
                              /\ val(i + 7) >= 56320 /\ val(i + 7) <= 57343
                           THEN ParseStrBody(s, i + 12, Append(acc, 65536 + (u - 55296) * 1024 + (val(i + 7) - 56320)))
                           ELSE JFail(i)
                      ELSE ParseStrBody(s, i + 6, Append(acc, u))
         [] OTHER -> JFail(i)

Lit(s, i, word) == \A k \in 1..Len(word) : At(s, i + k - 1) = word[k]

RECURSIVE ParseValue(_, _), ParseElems(_, _, _, _), ParseMembers(_, _, _, _)
ParseValue(s, i0) ==
  LET i == SkipWs(s, i0)
      c == At(s, i)
  IN CASE c = 110 -> IF Lit(s, i, <<110, 117, 108, 108>>) THEN JOk(i + 4, JNull) ELSE JFail(i)
       [] c = 116 -> IF Lit(s, i, <<116, 114, 117, 101>>) THEN JOk(i + 4, JTrue) ELSE JFail(i)
       [] c = 102 -> IF Lit(s, i, <<102, 97, 108, 115, 101>>) THEN JOk(i + 5, JFalse) ELSE JFail(i)
       [] c = 34  -> ParseStrBody(s, i + 1, <<>>)
       [] c = 91  -> LET j == SkipWs(s, i + 1)
                     IN IF At(s, j) = 93 THEN JOk(j + 1, JArr(<<>>)) ELSE ParseElems(s, j, <<>>, TRUE)
       [] c = 123 -> LET j == SkipWs(s, i + 1)
                     IN IF At(s, j) = 125 THEN JOk(j + 1, JObj(<<>>)) ELSE ParseMembers(s, j, <<>>, TRUE)
       [] c = 45 \/ IsDigit(c) -> ParseNumber(s, i)
       [] OTHER -> JFail(i)

ParseElems(s, i, acc, dom) ==
  LET v == ParseValue(s, i) IN
  IF ~v.ok THEN v
  ELSE LET j == SkipWs(s, v.pos)
           acc2 == Append(acc, v.v)
           d == dom /\ v.dom
       IN IF At(s, j) = 44 THEN ParseElems(s, j + 1, acc2, d)
          ELSE IF At(s, j) = 93 THEN JOkD(j + 1, JArr(acc2), d)
          ELSE JFail(j)

ParseMembers(s, i0, acc, dom) ==
  LET i == SkipWs(s, i0) IN
  IF At(s, i) # 34 THEN JFail(i)
  ELSE LET key == ParseStrBody(s, i + 1, <<>>) IN
       IF ~key.ok THEN key
       ELSE LET j == SkipWs(s, key.pos) IN
            IF At(s, j) # 58 THEN JFail(j)
            ELSE LET v == ParseValue(s, j + 1) IN
                 IF ~v.ok THEN v
                 ELSE LET m == SkipWs(s, v.pos)
                          acc2 == Append(acc, JMem(key.v.s, v.v))
                          d == dom /\ v.dom
                      IN IF At(s, m) = 44 THEN ParseMembers(s, m + 1, acc2, d)
                         ELSE IF At(s, m) = 125 THEN JOkD(m + 1, MkObj(acc2), d)
                         ELSE JFail(m)

(* the deepest nesting of [ and { in a text, strings skipped (for attributing refusals to the depth limit of the JSON layer) *)
RECURSIVE NestScan(_, _, _, _, _)
NestScan(s, i, cur, best, instr) ==
  IF i > Len(s) THEN best
  ELSE LET c == s[i] IN
       IF instr THEN (IF c = 92 THEN NestScan(s, i + 2, cur, best, TRUE) ELSE NestScan(s, i + 1, cur, best, c # 34))
       ELSE IF c = 34 THEN NestScan(s, i + 1, cur, best, TRUE)
       ELSE IF c \in {91, 123} THEN NestScan(s, i + 1, cur + 1, IF cur + 1 > best THEN cur + 1 ELSE best, FALSE)
       ELSE IF c \in {93, 125} THEN NestScan(s, i + 1, cur - 1, best, FALSE)
       ELSE NestScan(s, i + 1, cur, best, FALSE)
NestDepth(s) == NestScan(s, 1, 0, 0, FALSE)

(* a complete JSON text: one value, optional blanks around it, nothing else *)
JsonParse(s) ==
  LET v == ParseValue(s, 1) IN
  IF ~v.ok THEN v
  ELSE LET j == SkipWs(s, v.pos) IN IF j = Len(s) + 1 THEN v ELSE JFail(j)
=============================================================================
