-------------------------------- MODULE Serde --------------------------------
(***************************************************************************)
(* C14, Level 0: the serde data model and its JSON image (the mapping      *)
(* serde_json documents), written from the serde / serde_json              *)
(* documentation and not from jmespath/src/variable.rs:946-1302.           *)
(*                                                                         *)
(* A data-model tree is a record [k |-> kind, ...]:                        *)
(*   bool b | i8..i64, u8..u64 v (decimal STRING: no arithmetic is done    *)
(*   on it) | f32, f64 (p, q) or special "nan"/"inf"/"ninf" | char c |     *)
(*   str s | bytes b | none | some x | unit | unit_struct |                *)
(*   unit_variant name | newtype_struct x | newtype_variant name x |       *)
(*   seq xs | tuple xs | tuple_struct xs | tuple_variant name xs |         *)
(*   map es (entries [key, v], key a str or char node) | struct fs         *)
(*   (fields [f, v]) | struct_variant name fs                              *)
(* Integers in the image are [t |-> "num", int |-> decimal string].        *)
(***************************************************************************)
EXTENDS JValue

VariantName(i) == <<65 + (i % 3)>>          \* "A", "B", "C"
FieldName(i) == <<102, 48 + (i % 3)>>       \* "f0", "f1", "f2"
JIntS(str) == [t |-> "num", int |-> str]
Single(name, v) == JObj(<<JMem(name, v)>>)

IntKinds == {"i8", "i16", "i32", "i64", "u8", "u16", "u32", "u64"}

RECURSIVE Image(_)
Image(n) ==
  LET k == n.k
      seqImg(xs) == JArr([i \in DOMAIN xs |-> Image(xs[i])])
      KeyOf(kn) == IF kn.k = "char" THEN <<kn.c>> ELSE kn.s
  IN
  CASE k = "bool" -> JBool(n.b)
    [] k \in IntKinds -> JIntS(n.v)
    [] k \in {"f32", "f64"} -> IF "special" \notin DOMAIN n THEN Rat(n.p, n.q)
                               ELSE IF n.special = "negzero" THEN [t |-> "num", p |-> 0, q |-> 1, z |-> TRUE]   \* -0.0 keeps its sign (serde_json prints -0.0)
                               ELSE IF n.special \in {"tiny", "tiny64"} THEN [t |-> "num", tiny |-> TRUE]       \* subnormal floats are numbers (the image says no more than that)
                               ELSE JNull                                                          \* non-finite floats become null
    [] k = "char" -> JStr(<<n.c>>)
    [] k = "str" -> JStr(n.s)
    [] k = "bytes" -> JArr([i \in DOMAIN n.b |-> JIntS(ToString(n.b[i]))])
    [] k \in {"none", "unit", "unit_struct"} -> JNull
    [] k = "some" -> Image(n.x)
    [] k = "unit_variant" -> JStr(VariantName(n.name))
    [] k = "newtype_struct" -> Image(n.x)
    [] k = "newtype_variant" -> Single(VariantName(n.name), Image(n.x))
    [] k \in {"seq", "tuple", "tuple_struct"} -> seqImg(n.xs)
    [] k = "tuple_variant" -> Single(VariantName(n.name), seqImg(n.xs))
    [] k = "map" -> MkObj([i \in DOMAIN n.es |-> JMem(KeyOf(n.es[i].key), Image(n.es[i].v))])
    [] k = "struct" -> MkObj([i \in DOMAIN n.fs |-> JMem(FieldName(n.fs[i].f), Image(n.fs[i].v))])
    [] k = "struct_variant" -> Single(VariantName(n.name), MkObj([i \in DOMAIN n.fs |-> JMem(FieldName(n.fs[i].f), Image(n.fs[i].v))]))

(* ---- bounded universes of trees ---- *)
I(kind, str) == [k |-> kind, v |-> str]
IntLeaves == {I("i8", "-128"), I("i8", "127"), I("i8", "0"), I("i16", "-32768"), I("i16", "32767"), I("i32", "-2147483648"), I("i32", "2147483647"),
              I("i64", "-9223372036854775808"), I("i64", "9223372036854775807"), I("i64", "-1"),
              I("u8", "255"), I("u8", "0"), I("u16", "65535"), I("u32", "4294967295"), I("u64", "18446744073709551615"),
              I("u64", "9223372036854775808"), I("u64", "0")}
F(kind, p, q) == [k |-> kind, p |-> p, q |-> q]
FloatLeaves == {F("f64", 1, 2), F("f64", -3, 2), F("f64", 5, 1), F("f32", 1, 4), F("f32", -2, 1),
                [k |-> "f64", special |-> "nan"], [k |-> "f64", special |-> "inf"], [k |-> "f64", special |-> "ninf"], [k |-> "f32", special |-> "nan"],
                [k |-> "f64", special |-> "negzero"], [k |-> "f32", special |-> "negzero"], F("f64", 0, 1),
                [k |-> "f32", special |-> "tiny"], [k |-> "f64", special |-> "tiny64"], [k |-> "f64", special |-> "tiny"]}
OtherLeaves == {[k |-> "bool", b |-> TRUE], [k |-> "bool", b |-> FALSE], [k |-> "char", c |-> 97], [k |-> "char", c |-> 233], [k |-> "char", c |-> 128512],
                [k |-> "str", s |-> <<>>], [k |-> "str", s |-> <<97, 233>>], [k |-> "bytes", b |-> <<>>], [k |-> "bytes", b |-> <<0, 255, 7>>],
                [k |-> "none"], [k |-> "unit"], [k |-> "unit_struct"], [k |-> "unit_variant", name |-> 0], [k |-> "unit_variant", name |-> 2]}
Leaves == IntLeaves \cup FloatLeaves \cup OtherLeaves
SmallLeaves == {I("i32", "7"), I("u64", "18446744073709551615"), F("f64", 1, 2), [k |-> "f64", special |-> "nan"], [k |-> "bool", b |-> TRUE],
                [k |-> "char", c |-> 233], [k |-> "str", s |-> <<98>>], [k |-> "none"], [k |-> "unit_variant", name |-> 1], [k |-> "bytes", b |-> <<1>>]}
StrKeys == {[k |-> "str", s |-> <<98>>], [k |-> "str", s |-> <<97>>], [k |-> "char", c |-> 97], [k |-> "str", s |-> <<>>], [k |-> "char", c |-> 128512]}

Composites(S) ==
  {[k |-> "some", x |-> x] : x \in S} \cup {[k |-> "newtype_struct", x |-> x] : x \in S}
  \cup {[k |-> "newtype_variant", name |-> 1, x |-> x] : x \in S}
  \cup {[k |-> kk, xs |-> xs] : kk \in {"seq", "tuple", "tuple_struct"}, xs \in {<<>>} \cup {<<x>> : x \in S}}
  \cup {[k |-> "seq", xs |-> <<x, y>>] : x \in S, y \in {I("i32", "7"), [k |-> "none"]}}
  \cup {[k |-> "tuple_variant", name |-> 2, xs |-> <<x, I("u8", "1")>>] : x \in S}
  \cup {[k |-> "map", es |-> <<[key |-> ky, v |-> x]>>] : ky \in StrKeys, x \in S}
  \cup {[k |-> "map", es |-> <<[key |-> [k |-> "str", s |-> <<98>>], v |-> x], [key |-> ky, v |-> I("i8", "0")]>>] : ky \in StrKeys, x \in S}
  \cup {[k |-> "map", es |-> <<>>]}
  \cup {[k |-> "struct", fs |-> <<[f |-> 1, v |-> x], [f |-> 0, v |-> I("i16", "-1")]>>] : x \in S}
  \cup {[k |-> "struct", fs |-> <<>>]}
  \cup {[k |-> "struct_variant", name |-> 0, fs |-> <<[f |-> 2, v |-> x]>>] : x \in S}
Depth1 == Composites(Leaves)
Depth2 == Composites(Composites(SmallLeaves))
=============================================================================
