-------------------------------- MODULE Sync --------------------------------
(***************************************************************************)
(* C16: threads sharing compiled expressions and the lazily created        *)
(* default runtime (lib.rs:124-130: lazy_static!, i.e. a Once cell).       *)
(*                                                                         *)
(* Each thread performs OPS operations, each "compile through the default  *)
(* runtime, then search".  The first dereference of DEFAULT_RUNTIME runs   *)
(* the initialiser exactly once: Runtime::new() followed by 26             *)
(* register_function calls (abstracted to NSTEPS steps), during which the  *)
(* registry is PARTIAL; every other thread that arrives meanwhile waits.   *)
(*   OnceEnter(t)   t finds the cell uninitialised and becomes the         *)
(*                  initialiser                                            *)
(*   InitStep(t)    one more built-in registered                           *)
(*   OnceFinish(t)  the cell is published                                  *)
(*   Proceed(t)     t finds the cell published and goes on                 *)
(*   Use(t)         compile + search: reads the registry                   *)
(* (a thread that finds the cell "running" has no enabled step: it waits)  *)
(* UNGUARDED = TRUE models a check-then-initialise without the Once (the   *)
(* negative control): several initialisers, readers of partial registries. *)
(***************************************************************************)
EXTENDS Integers, FiniteSets, TLC
CONSTANTS Threads, OPS, NSTEPS, UNGUARDED

VARIABLES once, owner, built, pc, left, seen
vars == <<once, owner, built, pc, left, seen>>

Init == /\ once = "uninit" /\ owner = {} /\ built = 0
        /\ pc = [t \in Threads |-> "deref"] /\ left = [t \in Threads |-> OPS]
        /\ seen = [t \in Threads |-> {}]           \* the registry sizes t has observed while using the runtime

OnceEnter(t) == /\ pc[t] = "deref" /\ once = "uninit"
                /\ once' = IF UNGUARDED THEN once ELSE "running"
                /\ owner' = owner \cup {t} /\ pc' = [pc EXCEPT ![t] = "init"]
                /\ UNCHANGED <<built, left, seen>>
InitStep(t) == /\ pc[t] = "init" /\ built < NSTEPS
               /\ built' = built + 1 /\ UNCHANGED <<once, owner, pc, left, seen>>
OnceFinish(t) == /\ pc[t] = "init" /\ built >= NSTEPS
                 /\ once' = "done" /\ pc' = [pc EXCEPT ![t] = "use"] /\ UNCHANGED <<owner, built, left, seen>>
Proceed(t) == /\ pc[t] = "deref" /\ (once = "done" \/ (UNGUARDED /\ built > 0))     \* unguarded: "somebody already created it"
              /\ pc' = [pc EXCEPT ![t] = "use"] /\ UNCHANGED <<once, owner, built, left, seen>>
Use(t) == /\ pc[t] = "use"
          /\ seen' = [seen EXCEPT ![t] = @ \cup {built}]
          /\ left' = [left EXCEPT ![t] = @ - 1]
          /\ pc' = [pc EXCEPT ![t] = IF left[t] = 1 THEN "finished" ELSE "deref"]
          /\ UNCHANGED <<once, owner, built>>

Step(t) == OnceEnter(t) \/ InitStep(t) \/ OnceFinish(t) \/ Proceed(t) \/ Use(t)
Next == \E t \in Threads : Step(t)
Spec == Init /\ [][Next]_vars /\ \A t \in Threads : WF_vars(Step(t))

Inv_OneInitialiser == Cardinality(owner) <= 1
Inv_NoPartialRegistry == \A t \in Threads : seen[t] \subseteq {NSTEPS}          \* whoever uses the runtime sees all built-ins
Inv_UseOnlyWhenDone == \A t \in Threads : pc[t] = "use" => (once = "done" /\ built = NSTEPS)
(* every thread's observations equal a sequential execution's: the full registry, every time *)
Inv_SequentialResults == \A t \in Threads : pc[t] = "finished" => seen[t] = {NSTEPS}
Live_AllFinish == <>(\A t \in Threads : pc[t] = "finished")
=============================================================================
