-------------------------------- MODULE Paren --------------------------------
(***************************************************************************)
(* "Adding the parentheses implied by these rules never changes the parse  *)
(* tree or any search result" (C04).  Works on token sequences, by the     *)
(* textbook reading of a precedence order and independently of any parser: *)
(* the left operand of a binary operator of level p reaches back to the    *)
(* nearest operator at the same bracket depth that binds looser than p     *)
(* (or a comma, colon, "&", opening bracket, the start); its right operand *)
(* reaches forward to the nearest operator at the same depth that binds    *)
(* looser or equal (left associativity), a comma, a closing bracket or the *)
(* end.  Parenthesise wraps both operands of every "|", "||", "&&" and     *)
(* comparator, and every filter predicate.                                 *)
(***************************************************************************)
EXTENDS Prec

Opener(k) == k \in {"Lparen", "Lbracket", "Lbrace", "Filter"}
Closer(k) == k \in {"Rparen", "Rbracket", "Rbrace"}
BinOp(k)  == k \in {"Pipe", "Or", "And", "Cmp"}

(* dep[i] = bracket depth of token i; an opener and its closer carry the outer depth *)
RECURSIVE DepthFrom(_, _, _, _)
DepthFrom(ts, i, d, acc) ==
  IF i > Len(ts) THEN acc
  ELSE IF Opener(ts[i].k) THEN DepthFrom(ts, i + 1, d + 1, Append(acc, d))
  ELSE IF Closer(ts[i].k) THEN DepthFrom(ts, i + 1, d - 1, Append(acc, d - 1))
  ELSE DepthFrom(ts, i + 1, d, Append(acc, d))
Depths(ts) == DepthFrom(ts, 1, 0, <<>>)

StopLeft(ts, dep, D, p, j) ==      \* token j ends a leftward scan at depth D for an operator of level p
  \/ dep[j] < D
  \/ (dep[j] = D /\ Opener(ts[j].k) /\ FALSE)
  \/ (dep[j] = D /\ (ts[j].k \in {"Comma", "Colon", "Amp"} \/ (BinOp(ts[j].k) /\ BindLevel(ts[j].k) < p)))
StopRight(ts, dep, D, p, j) ==
  \/ dep[j] < D
  \/ (dep[j] = D /\ (ts[j].k \in {"Comma", "Colon"} \/ (BinOp(ts[j].k) /\ BindLevel(ts[j].k) <= p)))

RECURSIVE LeftStart(_, _, _, _, _), RightEnd(_, _, _, _, _)
LeftStart(ts, dep, D, p, j) ==     \* first token of the operand that ends at j
  IF j - 1 >= 1 /\ ~StopLeft(ts, dep, D, p, j - 1) THEN LeftStart(ts, dep, D, p, j - 1) ELSE j
RightEnd(ts, dep, D, p, j) ==
  IF j + 1 <= Len(ts) /\ ~StopRight(ts, dep, D, p, j + 1) THEN RightEnd(ts, dep, D, p, j + 1) ELSE j

(* index of the "]" that closes the filter opened at i *)
RECURSIVE MatchFrom(_, _, _, _)
MatchFrom(ts, dep, D, j) == IF Closer(ts[j].k) /\ dep[j] = D THEN j ELSE MatchFrom(ts, dep, D, j + 1)

(* the spans <<from, to>> to wrap *)
Spans(ts) ==
  LET dep == Depths(ts) IN
  UNION {
    IF BinOp(ts[i].k)
    THEN LET p == BindLevel(ts[i].k) IN
         {<<LeftStart(ts, dep, dep[i], p, i - 1), i - 1>>, <<i + 1, RightEnd(ts, dep, dep[i], p, i + 1)>>}
    ELSE IF ts[i].k = "Filter"
    THEN {<<i + 1, MatchFrom(ts, dep, dep[i], i + 1) - 1>>}
    ELSE {} : i \in 1..Len(ts)}

Times(n, tok) == [j \in 1..n |-> tok]
RECURSIVE EmitFrom(_, _, _)
EmitFrom(ts, sp, i) ==
  IF i > Len(ts) THEN <<>>
  ELSE Times(Cardinality({x \in sp : x[1] = i}), TPlain("Lparen")) \o <<ts[i]>>
       \o Times(Cardinality({x \in sp : x[2] = i}), TPlain("Rparen")) \o EmitFrom(ts, sp, i + 1)

Parenthesise(ts) == EmitFrom(ts, Spans(ts), 1)
=============================================================================
