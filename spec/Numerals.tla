------------------------------ MODULE Numerals ------------------------------
(***************************************************************************)
(* JSON numerals as digit sequences (C08).  Nothing here converts a long   *)
(* numeral to a TLA+ integer: classification compares digit strings.       *)
(*   numeral  [neg, ip, fp, ex]: sign, integer digits, fraction digits     *)
(*            (empty = no fraction), exponent [has, neg, d]                *)
(*   Class    "int"    an integer spelling inside the i64 / u64 range:     *)
(*                     keeps its exact value and spelling                  *)
(*            "negzero" the integer spelling -0                            *)
(*            "exact"  at most 15 significant digits (as written, trailing *)
(*                     zeros included) and decimal exponent of the digit   *)
(*                     string within +-22: keeps exactly the double it     *)
(*                     denotes                                             *)
(*            "near"   any other numeral: within 2 units in the last place *)
(***************************************************************************)
EXTENDS Integers, Sequences, FiniteSets, TLC

Digits(str) == str
DText(ds) == [i \in DOMAIN ds |-> 48 + ds[i]]
NoExp == [has |-> FALSE, neg |-> FALSE, d |-> <<>>]
Numeral(neg, ip, fp, ex) == [neg |-> neg, ip |-> ip, fp |-> fp, ex |-> ex]

NumeralText(n) ==
  (IF n.neg THEN <<45>> ELSE <<>>) \o DText(n.ip)
  \o (IF n.fp = <<>> THEN <<>> ELSE <<46>> \o DText(n.fp))
  \o (IF n.ex.has THEN <<101>> \o (IF n.ex.neg THEN <<45>> ELSE <<>>) \o DText(n.ex.d) ELSE <<>>)

RECURSIVE LexLeq(_, _)
LexLeq(a, b) == IF a = <<>> THEN TRUE ELSE IF a[1] < b[1] THEN TRUE ELSE IF a[1] > b[1] THEN FALSE ELSE LexLeq(Tail(a), Tail(b))
(* digit strings without leading zeros, compared as numbers *)
DLeq(a, b) == Len(a) < Len(b) \/ (Len(a) = Len(b) /\ LexLeq(a, b))

I64MAX  == <<9,2,2,3,3,7,2,0,3,6,8,5,4,7,7,5,8,0,7>>
I64MINM == <<9,2,2,3,3,7,2,0,3,6,8,5,4,7,7,5,8,0,8>>
U64MAX  == <<1,8,4,4,6,7,4,4,0,7,3,7,0,9,5,5,1,6,1,5>>

RECURSIVE StripLead(_), StripTrail(_)
StripLead(ds) == IF ds # <<>> /\ ds[1] = 0 THEN StripLead(Tail(ds)) ELSE ds
StripTrail(ds) == IF ds # <<>> /\ ds[Len(ds)] = 0 THEN StripTrail(SubSeq(ds, 1, Len(ds) - 1)) ELSE ds

RECURSIVE SmallVal(_, _)
SmallVal(ds, acc) == IF ds = <<>> THEN acc ELSE SmallVal(Tail(ds), acc * 10 + ds[1])   \* at most 4 digits here

IsIntSpelling(n) == n.fp = <<>> /\ ~n.ex.has
Class(n) ==
  IF IsIntSpelling(n) /\ n.ip = <<0>> /\ n.neg THEN "negzero"
  ELSE IF IsIntSpelling(n) /\ ((~n.neg /\ DLeq(n.ip, U64MAX)) \/ (n.neg /\ DLeq(n.ip, I64MINM))) THEN "int"
  ELSE LET m == StripLead(n.ip \o n.fp)
           sig == Len(m)           \* digits as written (trailing zeros count: "1.50" has three significant digits)
           ev == IF n.ex.has THEN (IF n.ex.neg THEN -SmallVal(n.ex.d, 0) ELSE SmallVal(n.ex.d, 0)) ELSE 0
           adj == ev - Len(n.fp)   \* decimal exponent of the digit string read as an integer
       IN IF m = <<>> THEN "exact"                                  \* zero in any spelling
          ELSE IF sig <= 15 /\ adj >= -22 /\ adj <= 22 THEN "exact" ELSE "near"

(* a numeral text (code points) -> descriptor; the text is a valid JSON number *)
RECURSIVE DigitRun(_, _)
DigitRun(t, i) == IF i <= Len(t) /\ t[i] >= 48 /\ t[i] <= 57 THEN DigitRun(t, i + 1) ELSE i
ToDigits(t, i, j) == [k \in 1..(j - i) |-> t[i + k - 1] - 48]
ParseNumeral(t) ==
  LET neg == t[1] = 45
      i1 == IF neg THEN 2 ELSE 1
      i2 == DigitRun(t, i1)
      hasF == i2 <= Len(t) /\ t[i2] = 46
      f2 == IF hasF THEN DigitRun(t, i2 + 1) ELSE i2
      hasE == f2 <= Len(t) /\ t[f2] \in {101, 69}
      sgn == hasE /\ t[f2 + 1] \in {43, 45}
      e1 == IF sgn THEN f2 + 2 ELSE f2 + 1
  IN Numeral(neg, ToDigits(t, i1, i2), IF hasF THEN ToDigits(t, i2 + 1, f2) ELSE <<>>,
             IF hasE THEN [has |-> TRUE, neg |-> sgn /\ t[f2 + 1] = 45, d |-> StripLead(ToDigits(t, e1, Len(t) + 1))] ELSE NoExp)
(* exponents of more than 4 digits are far outside the double range *)
ClassOfText(t) == LET n == ParseNumeral(t) IN IF n.ex.has /\ Len(n.ex.d) > 4 THEN "near" ELSE Class(n)

(* 64-bit patterns as four 16-bit limbs, most significant first *)
RECURSIVE AddLimbs(_, _, _)
AddLimbs(ls, i, carry) ==      \* add carry (0..2) to the number, from the least significant limb
  IF carry = 0 \/ i = 0 THEN ls
  ELSE LET v == ls[i] + carry IN
       IF v >= 65536 THEN AddLimbs([ls EXCEPT ![i] = v - 65536], i - 1, 1) ELSE [ls EXCEPT ![i] = v]
WithinUlps(a, b, k) == \E j \in 0..k : AddLimbs(a, 4, j) = b \/ AddLimbs(b, 4, j) = a
=============================================================================
