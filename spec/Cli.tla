--------------------------------- MODULE Cli ---------------------------------
(***************************************************************************)
(* C18: the jp command-line tool (jmespath-cli/src/main.rs) as a machine   *)
(* with three output channels.                                             *)
(*                                                                         *)
(* An invocation: where the expression comes from (argument, or -e file    *)
(* that exists or not), where the input comes from (stdin, or -f file that *)
(* exists or not), the flags -u and --ast.  What the stages would do is    *)
(* abstracted to what the LIBRARY does on the same expression and input:   *)
(* lib.stage in "compile" (expression does not compile), "json" (input is  *)
(* not JSON), "search" (runtime error), "ok" (with the pretty-printed      *)
(* result, and whether it is a string and its raw text).                   *)
(*                                                                         *)
(* Arguments are byte strings: an expression argument that is not UTF-8    *)
(* text (exprsrc = "notext") is a bad expression; a path that is not text  *)
(* (inv.bytespath) still names its file.  TEXT_ONLY_ARGS is the tool       *)
(* before fix 4c47b9b (finding F20): clap's value_of panics on any         *)
(* argument that is not text (exit 101, the panic report on stderr).       *)
(*                                                                         *)
(* Steps: ReadExprFile -> Compile -> (PrintAst) -> ReadInput -> ParseJson  *)
(* -> Search -> Print, any of which may Die (message to stderr, exit 1).   *)
(***************************************************************************)
EXTENDS CliOutcome
CONSTANT TEXT_ONLY_ARGS

VARIABLES phase, stdout, stderr, exit
cvars == <<phase, stdout, stderr, exit>>

(* the run of one invocation inv with library behaviour lib, as a state machine *)
CInit == phase = "start" /\ stdout = "none" /\ stderr = "empty" /\ exit = -1
Die == phase' = "dead" /\ stderr' = "message" /\ exit' = 1 /\ UNCHANGED stdout
Step(inv, lib) ==
  CASE phase = "start" -> IF TEXT_ONLY_ARGS /\ (inv.exprsrc = "notext" \/ inv.bytespath)
                          THEN phase' = "dead" /\ stderr' = "panic" /\ exit' = 101 /\ UNCHANGED stdout
                          ELSE IF inv.exprsrc \in {"missingfile", "notext"} THEN Die ELSE phase' = "compile" /\ UNCHANGED <<stdout, stderr, exit>>
    [] phase = "compile" -> IF lib.stage = "compile" THEN Die
                            ELSE IF inv.ast THEN phase' = "done" /\ stdout' = "ast" /\ exit' = 0 /\ UNCHANGED stderr
                            ELSE phase' = "readinput" /\ UNCHANGED <<stdout, stderr, exit>>
    [] phase = "readinput" -> IF inv.inputsrc = "missingfile" THEN Die ELSE phase' = "parsejson" /\ UNCHANGED <<stdout, stderr, exit>>
    [] phase = "parsejson" -> IF lib.stage = "json" THEN Die ELSE phase' = "search" /\ UNCHANGED <<stdout, stderr, exit>>
    [] phase = "search" -> IF lib.stage = "search" THEN Die
                           ELSE /\ phase' = "done" /\ exit' = 0 /\ UNCHANGED stderr
                                /\ stdout' = IF inv.unquoted /\ lib.is_string THEN "raw" ELSE "pretty"
    [] OTHER -> FALSE

=============================================================================
