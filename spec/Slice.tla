-------------------------------- MODULE Slice --------------------------------
(***************************************************************************)
(* Slices and indexes (property C07; the arithmetic part of C05).          *)
(*                                                                         *)
(* Level 0  SliceL0 / IndexL0 : the JMESPath slice rule as a comprehension *)
(*          (= Python's list[start:stop:step]); written from the           *)
(*          specification, not from the code.                              *)
(* Level 1  a state machine that mirrors jmespath/src/variable.rs:453-502  *)
(*          (slice, adjust_slice_endpoint) in 32-bit arithmetic with       *)
(*          explicit failure flags, and interpreter.rs:25-31 +             *)
(*          variable.rs:361-383 for indexes.                               *)
(*                                                                         *)
(* An optional integer is a record [has, v].                                *)
(***************************************************************************)
EXTENDS Integers, Sequences, FiniteSets, TLC

MAXI == 2147483647
MINI == -2147483647 - 1
(* optional integers: [has |-> TRUE, v |-> n] or None *)
Some(n) == [has |-> TRUE, v |-> n]
None    == [has |-> FALSE, v |-> 0]
NOIDX   == -1                 \* "no such element" for index lookups

(***************************************************************************)
(* Level 0                                                                 *)
(***************************************************************************)
Norm(x, len) == IF x < 0 THEN x + len ELSE x          \* x >= MINI+1, len >= 0: no overflow
Clamp(x, lo, hi) == IF x < lo THEN lo ELSE IF x > hi THEN hi ELSE x

(* The set of selected indexes; ascending for step > 0, descending for     *)
(* step < 0.  Result: the sequence of selected *indexes* of an array of    *)
(* length len (0-based).                                                   *)
SelUp(len, start, stop, step) ==
  LET lo == IF ~start.has THEN 0   ELSE Clamp(Norm(start.v, len), 0, len)
      hi == IF ~stop.has  THEN len ELSE Clamp(Norm(stop.v,  len), 0, len)
  IN {j \in 0..(len - 1) : j >= lo /\ j < hi /\ (j - lo) % step = 0}

SelDown(len, start, stop, step) ==
  LET hi == IF ~start.has THEN len - 1 ELSE Clamp(Norm(start.v, len), -1, len - 1)
      lo == IF ~stop.has  THEN -1      ELSE Clamp(Norm(stop.v,  len), -1, len - 1)
  IN {j \in 0..(len - 1) : j <= hi /\ j > lo /\ (hi - j) % (-step) = 0}

RECURSIVE AscSeq(_)
AscSeq(S) == IF S = {} THEN <<>>
             ELSE LET m == CHOOSE x \in S : \A y \in S : x <= y IN <<m>> \o AscSeq(S \ {m})
RECURSIVE DescSeq(_)
DescSeq(S) == IF S = {} THEN <<>>
              ELSE LET m == CHOOSE x \in S : \A y \in S : x >= y IN <<m>> \o DescSeq(S \ {m})

(* step # 0 in the language (step 0 is an invalid-value error there, Eval / Interp decide that before they come here); the public method
   Variable::slice can be given step 0 directly and then selects nothing (the stepping rule has no element to offer: C05 demands that
   the call returns at all, finding F19) *)
SliceL0(len, start, stop, step) ==
  IF step = 0 THEN <<>> ELSE
  IF step > 0 THEN AscSeq(SelUp(len, start, stop, step))
              ELSE DescSeq(SelDown(len, start, stop, step))

(* xs[n]: element n, or len+n for negative n; NOIDX when out of range *)
IndexL0(len, n) ==
  LET j == IF n < 0 THEN n + len ELSE n
  IN IF j >= 0 /\ j < len THEN j ELSE NOIDX

(***************************************************************************)
(* Level 1 as operators (used by judges for known-finding triage and by    *)
(* the model checker).  Result record:                                     *)
(*   [out |-> sequence of indexes, ovf |-> i32 overflow happened,          *)
(*    oob |-> an index outside 0..len-1 was used]                          *)
(* DEV_SLICE_STEP_OVERFLOW: `i += step` without overflow check             *)
(*   (variable.rs:473/478 before the repair); with the deviation off the   *)
(*   loop ends when the addition would leave the i32 range.                *)
(* NC_METHOD_STEP0_LOOPS: the function as it stood before fix 50269e0      *)
(*   (finding F19): no guard for step = 0, which takes the `else` branch   *)
(*   (`while i > b`) and never advances; the model cuts the run after      *)
(*   len + 1 pushes and reports it as [loops |-> TRUE].                    *)
(***************************************************************************)
AdjustEndpoint(len, e, step) ==                       \* variable.rs:485-502
  IF e < 0
  THEN LET e2 == e + len
       IN IF e2 >= 0 THEN e2 ELSE IF step < 0 THEN -1 ELSE 0
  ELSE IF e < len THEN e ELSE IF step < 0 THEN len - 1 ELSE len

StartL1(len, start, step) ==
  IF start.has THEN AdjustEndpoint(len, start.v, step)
  ELSE IF step < 0 THEN len - 1 ELSE 0
StopL1(len, stop, step) ==
  IF stop.has THEN AdjustEndpoint(len, stop.v, step)
  ELSE IF step < 0 THEN -1 ELSE len

AddOverflows(i, step) == IF step > 0 THEN i > MAXI - step ELSE IF step < 0 THEN i < MINI - step ELSE FALSE
Loops(r) == "loops" \in DOMAIN r /\ r.loops

RECURSIVE LoopL1(_, _, _, _, _, _)
LoopL1(len, i, b, step, out, devs) ==
  IF step = 0 /\ i > b /\ Len(out) > len THEN [out |-> out, ovf |-> FALSE, oob |-> FALSE, loops |-> TRUE]
  ELSE
  IF (step > 0 /\ i < b) \/ (step <= 0 /\ i > b)
  THEN IF i < 0 \/ i >= len THEN [out |-> out, ovf |-> FALSE, oob |-> TRUE]
       ELSE IF AddOverflows(i, step)
            THEN IF "DEV_SLICE_STEP_OVERFLOW" \in devs
                 THEN [out |-> Append(out, i), ovf |-> TRUE, oob |-> FALSE]
                 ELSE [out |-> Append(out, i), ovf |-> FALSE, oob |-> FALSE]
            ELSE LoopL1(len, i + step, b, step, Append(out, i), devs)
  ELSE [out |-> out, ovf |-> FALSE, oob |-> FALSE]

SliceL1(len, start, stop, step, devs) ==
  IF len = 0 \/ (step = 0 /\ "NC_METHOD_STEP0_LOOPS" \notin devs) THEN [out |-> <<>>, ovf |-> FALSE, oob |-> FALSE]
  ELSE LoopL1(len, StartL1(len, start, step), StopL1(len, stop, step), step, <<>>, devs)

(* interpreter.rs:25-31 and variable.rs:361-383 *)
IndexL1(len, n) ==
  IF n >= 0 THEN (IF n < len THEN n ELSE NOIDX)
  ELSE LET neg == -n                       \* n > MINI because the lexer cannot produce MINI
           adj == IF neg < 1 THEN 1 ELSE neg
       IN IF len >= adj THEN len - adj ELSE NOIDX

=============================================================================
