----------------------------- MODULE JudgeLoop -----------------------------
(***************************************************************************)
(* The conformance judge as a (tiny) TLA+ state machine, so that TLC's     *)
(* workers evaluate the specification on different chunks of an            *)
(* observation file concurrently inside one JVM.                           *)
(*                                                                         *)
(*   Pick : choose a chunk            Work : judge it and write verdicts   *)
(*                                                                         *)
(* The instantiating module supplies                                       *)
(*   Allowed(rec)     the Level-0 relation: is this observation a behaviour *)
(*                    the specification allows?                            *)
(*   Expected(rec)    what the specification expected (for the report)     *)
(*   Explains(rec)    the sequence of named deviation switches under which *)
(*                    the Level-1 model reproduces the observation exactly *)
(*   NonTrivial(rec)  the per-engine non-triviality rule for the evidence  *)
(*   Unjudged(rec)    the observation lies where the specification leaves  *)
(*                    the outcome open or outside the modelled domain: it  *)
(*                    is accepted without being decided, and counted       *)
(* Environment: OBS (path prefix of chunk files OBS.1 .. OBS.K), OUT (path *)
(* prefix of verdict files), CHUNKS (K).                                   *)
(***************************************************************************)
EXTENDS Integers, Sequences, FiniteSets, TLC, Json, IOUtils

CONSTANTS Allowed(_), Expected(_), Explains(_), NonTrivial(_), Unjudged(_)
VARIABLES chunk, phase

K == CHOOSE n \in 1..512 : ToString(n) = IOEnv.CHUNKS

CountIf(recs, P(_)) == Cardinality({i \in DOMAIN recs : P(recs[i])})

Verdicts(recs) ==
  LET idx  == [i \in 1..Len(recs) |-> i]
      bad  == SelectSeq(idx, LAMBDA i : ~Allowed(recs[i]))
      rej  == [j \in 1..Len(bad) |->
                 [i |-> bad[j], exp |-> Expected(recs[bad[j]]), expl |-> Explains(recs[bad[j]])]]
      stat == [stats |-> [n |-> Len(recs), nontrivial |-> CountIf(recs, NonTrivial), unjudged |-> CountIf(recs, Unjudged)]]
  IN <<stat>> \o rej

Init == chunk = 0 /\ phase = 0
Pick == phase = 0 /\ chunk' \in 1..K /\ phase' = 1
Work == /\ phase = 1
        /\ LET recs == ndJsonDeserialize(IOEnv.OBS \o "." \o ToString(chunk))
           IN ndJsonSerialize(IOEnv.OUT \o "." \o ToString(chunk), Verdicts(recs))
        /\ phase' = 2 /\ chunk' = chunk
Next == Pick \/ Work
Spec == Init /\ [][Next]_<<chunk, phase>>
=============================================================================
