-------------------------------- MODULE Pratt --------------------------------
(***************************************************************************)
(* Level 1: the Pratt parser of jmespath/src/parser.rs, transcribed        *)
(* function by function.  Every operator is named after the Rust function  *)
(* it mirrors and takes                                                    *)
(*    ts  the token sequence,  pos  the index of the next token,           *)
(*    D   the set of enabled deviation switches.                           *)
(* A result is [ok, pos, t, p]: success flag, next position, tree, and     *)
(* whether the tree was written as a parenthesised primary.                *)
(*                                                                         *)
(* With D = {} this is the parser the properties describe; each switch     *)
(* re-enables one divergence of the code as found (DESIGN.md, App. C):     *)
(*   DEV_LIST_COMMA_OPTIONAL  parse_list never requires the comma          *)
(*   DEV_EMPTY_MULTISELECT    parse_multi_list accepts `[ ]`               *)
(*   DEV_EXPREF_ANYWHERE      `&e` accepted outside a function argument    *)
(*   DEV_PAREN_FUNCNAME       `(foo)(x)` accepted as a call                *)
(*   DEV_PROJ_MULTISELECT     `[*][a]`: multi-select directly after a      *)
(*                            projection (projection_rhs -> nud Lbracket)  *)
(*   DEV_DOT_MULTILIST_NO_LED after `.[a, b]` the right-hand side of the   *)
(*                            dot / projection ends (parse_dot returns the *)
(*                            multi-select list without the led loop)      *)
(*   NC_NOT_39                not a finding: a negative-control switch     *)
(*                            ("!" binds looser than "."), used to show    *)
(*                            that the C04 invariants are not vacuous      *)
(***************************************************************************)
EXTENDS Tokens

(* lexer.rs:58-79 *)
Lbp(k) ==
  CASE k = "Pipe" -> 1 [] k = "Or" -> 2 [] k = "And" -> 3 [] k = "Cmp" -> 5
    [] k = "Flatten" -> 9 [] k = "Star" -> 20 [] k = "Filter" -> 21 [] k = "Dot" -> 40
    [] k = "Not" -> 45 [] k = "Lbrace" -> 50 [] k = "Lbracket" -> 55 [] k = "Lparen" -> 60
    [] OTHER -> 0

PROJECTION_STOP == 10        \* parser.rs:23

Fail(pos)     == [ok |-> FALSE, pos |-> pos, t |-> AErr, p |-> FALSE]
Ok(pos, t)    == [ok |-> TRUE, pos |-> pos, t |-> t, p |-> FALSE]
OkP(pos, t)   == [ok |-> TRUE, pos |-> pos, t |-> t, p |-> TRUE]

RECURSIVE Expr(_, _, _, _, _), Loop(_, _, _, _), Nud(_, _, _, _), Led(_, _, _, _),
          HashLoop(_, _, _, _), ParseFilter(_, _, _, _), ParseFlatten(_, _, _, _),
          ParseDot(_, _, _, _), ProjectionRhs(_, _, _, _), ParseWildcardIndex(_, _, _, _),
          ParseWildcardValues(_, _, _, _), ParseIndex(_, _, _, _, _), ParseMultiList(_, _, _),
          ParseList(_, _, _, _, _)

(* parser.rs:95-101.  A: an `&` may start this expression (function argument). *)
Expr(ts, pos, rbp, A, D) ==
  LET l == Nud(ts, pos, A, D) IN IF l.ok THEN Loop(ts, l, rbp, D) ELSE l

Loop(ts, left, rbp, D) ==
  IF rbp < Lbp(K(ts, left.pos))
  THEN LET n == Led(ts, left.pos, left, D) IN IF n.ok THEN Loop(ts, n, rbp, D) ELSE n
  ELSE left

(* parser.rs:103-171 *)
Nud(ts, pos, A, D) ==
  LET k == K(ts, pos) IN
  CASE k = "At"     -> Ok(pos + 1, AIdentity)
    [] k = "Ident"  -> Ok(pos + 1, AField(ts[pos].name))
    [] k = "QIdent" -> IF K(ts, pos + 1) = "Lparen" THEN Fail(pos + 1)
                       ELSE Ok(pos + 1, AField(ts[pos].name))
    [] k = "Star"   -> ParseWildcardValues(ts, pos + 1, AIdentity, D)
    [] k = "Lit"    -> Ok(pos + 1, ALiteral(ts[pos].val))
    [] k = "Lbracket" ->
         IF K(ts, pos + 1) \in {"Num", "Colon"} THEN ParseIndex(ts, pos + 1, <<OptNone, OptNone, OptNone>>, 1, D)
         ELSE IF K(ts, pos + 1) = "Star" /\ K(ts, pos + 2) = "Rbracket"
              THEN ParseWildcardIndex(ts, pos + 2, AIdentity, D)
         ELSE ParseMultiList(ts, pos + 1, D)
    [] k = "Flatten" -> ParseFlatten(ts, pos + 1, AIdentity, D)
    [] k = "Lbrace"  -> HashLoop(ts, pos + 1, <<>>, D)
    [] k = "Amp"     -> IF A \/ "DEV_EXPREF_ANYWHERE" \in D
                        THEN LET r == Expr(ts, pos + 1, 0, FALSE, D)
                             IN IF r.ok THEN Ok(r.pos, A1("Expref", r.t)) ELSE r
                        ELSE Fail(pos)
    [] k = "Not"     -> LET r == Expr(ts, pos + 1, IF "NC_NOT_39" \in D THEN 39 ELSE 45, FALSE, D)
                        IN IF r.ok THEN Ok(r.pos, A1("Not", r.t)) ELSE r
    [] k = "Filter"  -> ParseFilter(ts, pos + 1, AIdentity, D)
    [] k = "Lparen"  -> LET r == Expr(ts, pos + 1, 0, FALSE, D)
                        IN IF ~r.ok THEN r
                           ELSE IF K(ts, r.pos) = "Rparen" THEN OkP(r.pos + 1, r.t) ELSE Fail(r.pos)
    [] OTHER -> Fail(pos)

(* parser.rs:173-252; `left` is the whole result record of the left operand *)
Led(ts, pos, left, D) ==
  LET k == K(ts, pos) IN
  CASE k = "Dot" ->
         IF K(ts, pos + 1) = "Star" THEN ParseWildcardValues(ts, pos + 2, left.t, D)
         ELSE LET r == ParseDot(ts, pos + 1, 40, D)
              IN IF r.ok THEN Ok(r.pos, A2("Subexpr", left.t, r.t)) ELSE r
    [] k = "Lbracket" ->
         IF K(ts, pos + 1) \in {"Num", "Colon"}
         THEN LET r == ParseIndex(ts, pos + 1, <<OptNone, OptNone, OptNone>>, 1, D)
              IN IF r.ok THEN Ok(r.pos, A2("Subexpr", left.t, r.t)) ELSE r
         ELSE IF K(ts, pos + 1) = "Star" THEN ParseWildcardIndex(ts, pos + 2, left.t, D)
         ELSE Fail(pos + 1)
    [] k = "Or"   -> LET r == Expr(ts, pos + 1, 2, FALSE, D)
                     IN IF r.ok THEN Ok(r.pos, A2("Or", left.t, r.t)) ELSE r
    [] k = "And"  -> LET r == Expr(ts, pos + 1, 3, FALSE, D)
                     IN IF r.ok THEN Ok(r.pos, A2("And", left.t, r.t)) ELSE r
    [] k = "Pipe" -> LET r == Expr(ts, pos + 1, 1, FALSE, D)
                     IN IF r.ok THEN Ok(r.pos, A2("Subexpr", left.t, r.t)) ELSE r
    [] k = "Lparen" ->
         IF left.t.n = "Field" /\ (~left.p \/ "DEV_PAREN_FUNCNAME" \in D)
         THEN LET r == ParseList(ts, pos + 1, "Rparen", <<>>, D)
              IN IF r.ok THEN Ok(r.pos, AFunction(left.t.name, r.t)) ELSE r
         ELSE Fail(pos + 1)
    [] k = "Flatten" -> ParseFlatten(ts, pos + 1, left.t, D)
    [] k = "Filter"  -> ParseFilter(ts, pos + 1, left.t, D)
    [] k = "Cmp" -> LET r == Expr(ts, pos + 1, 5, FALSE, D)      \* parse_comparator, parser.rs:308-316
                    IN IF r.ok THEN Ok(r.pos, ACmp(ts[pos].op, left.t, r.t)) ELSE r
    [] OTHER -> Fail(pos)

(* parser.rs:132-149 with parse_kvp :254-269 *)
HashLoop(ts, pos, acc, D) ==
  IF K(ts, pos) \in {"Ident", "QIdent"} /\ K(ts, pos + 1) = "Colon"
  THEN LET v == Expr(ts, pos + 2, 0, FALSE, D)
       IN IF ~v.ok THEN v
          ELSE LET acc2 == Append(acc, [k |-> ts[pos].name, v |-> v.t])
               IN IF K(ts, v.pos) = "Rbrace" THEN Ok(v.pos + 1, AMultiHash(acc2))
                  ELSE IF K(ts, v.pos) = "Comma" THEN HashLoop(ts, v.pos + 1, acc2, D)
                  ELSE Fail(v.pos)
  ELSE Fail(pos)

(* parser.rs:274-293 *)
ParseFilter(ts, pos, lhs, D) ==
  LET c == Expr(ts, pos, 0, FALSE, D)
  IN IF ~c.ok THEN c
     ELSE IF K(ts, c.pos) # "Rbracket" THEN Fail(c.pos)
     ELSE LET r == ProjectionRhs(ts, c.pos + 1, 21, D)
          IN IF r.ok THEN Ok(r.pos, A2("Projection", lhs, A2("Condition", c.t, r.t))) ELSE r

(* parser.rs:295-305 *)
ParseFlatten(ts, pos, lhs, D) ==
  LET r == ProjectionRhs(ts, pos, 9, D)
  IN IF r.ok THEN Ok(r.pos, A2("Projection", A1("Flatten", lhs), r.t)) ELSE r

(* parser.rs:319-334 *)
ParseDot(ts, pos, lbp, D) ==
  LET k == K(ts, pos) IN
  IF k = "Lbracket"
  THEN LET m == ParseMultiList(ts, pos + 1, D)
       IN IF "DEV_DOT_MULTILIST_NO_LED" \in D \/ ~m.ok THEN m ELSE Loop(ts, m, lbp, D)
  ELSE IF k \in {"Ident", "QIdent", "Star", "Lbrace"} THEN Expr(ts, pos, lbp, FALSE, D)
  ELSE IF k = "Amp" /\ "DEV_EXPREF_ANYWHERE" \in D THEN Expr(ts, pos, lbp, FALSE, D)
  ELSE Fail(pos)

(* parser.rs:338-356 *)
ProjectionRhs(ts, pos, lbp, D) ==
  LET k == K(ts, pos) IN
  IF k = "Dot" THEN ParseDot(ts, pos + 1, lbp, D)
  ELSE IF k = "Filter" THEN Expr(ts, pos, lbp, FALSE, D)
  ELSE IF k = "Lbracket"
       THEN IF "DEV_PROJ_MULTISELECT" \in D
               \/ K(ts, pos + 1) \in {"Num", "Colon"}
               \/ (K(ts, pos + 1) = "Star" /\ K(ts, pos + 2) = "Rbracket")
            THEN Expr(ts, pos, lbp, FALSE, D)
            ELSE Fail(pos + 1)
  ELSE IF Lbp(k) < PROJECTION_STOP THEN Ok(pos, AIdentity)
  ELSE Fail(pos)

(* parser.rs:359-371 *)
ParseWildcardIndex(ts, pos, lhs, D) ==
  IF K(ts, pos) # "Rbracket" THEN Fail(pos)
  ELSE LET r == ProjectionRhs(ts, pos + 1, 20, D)
       IN IF r.ok THEN Ok(r.pos, A2("Projection", lhs, r.t)) ELSE r

(* parser.rs:374-384 *)
ParseWildcardValues(ts, pos, lhs, D) ==
  LET r == ProjectionRhs(ts, pos, 20, D)
  IN IF r.ok THEN Ok(r.pos, A2("Projection", A1("ObjectValues", lhs), r.t)) ELSE r

(* parser.rs:387-441.  parts: <<start, stop, step>> optionals; cnt: 1 + number of colons seen *)
ParseIndex(ts, pos, parts, cnt, D) ==
  LET k == K(ts, pos) IN
  IF k = "Num"
  THEN IF K(ts, pos + 1) \in {"Colon", "Rbracket"}
       THEN ParseIndex(ts, pos + 1, [parts EXCEPT ![cnt] = OptSome(ts[pos].num)], cnt, D)
       ELSE Fail(pos + 1)
  ELSE IF k = "Rbracket"
  THEN IF cnt = 1
       THEN IF parts[1].has THEN Ok(pos + 1, AIndex(parts[1].v)) ELSE Fail(pos)
       ELSE LET r == ProjectionRhs(ts, pos + 1, 20, D)
                step == IF parts[3].has THEN parts[3].v ELSE 1
            IN IF r.ok THEN Ok(r.pos, A2("Projection", ASlice(parts[1], parts[2], step), r.t)) ELSE r
  ELSE IF k = "Colon"
  THEN IF cnt >= 3 THEN Fail(pos)
       ELSE IF K(ts, pos + 1) \in {"Num", "Colon", "Rbracket"}
            THEN ParseIndex(ts, pos + 1, parts, cnt + 1, D)
            ELSE Fail(pos + 1)
  ELSE Fail(pos)

(* parser.rs:444-449 *)
ParseMultiList(ts, pos, D) ==
  LET r == ParseList(ts, pos, "Rbracket", <<>>, D)
  IN IF ~r.ok THEN r
     ELSE IF r.t = <<>> /\ "DEV_EMPTY_MULTISELECT" \notin D THEN Fail(pos)
     ELSE Ok(r.pos, AMultiList(r.t))

(* parser.rs:458-472.  Returns the list of element trees in field t. *)
ParseList(ts, pos, closing, acc, D) ==
  IF K(ts, pos) = closing THEN Ok(pos + 1, acc)
  ELSE LET e == Expr(ts, pos, 0, closing = "Rparen", D)
       IN IF ~e.ok THEN e
          ELSE IF K(ts, e.pos) = "Comma"
               THEN IF K(ts, e.pos + 1) = closing THEN Fail(e.pos + 1)
                    ELSE ParseList(ts, e.pos + 1, closing, Append(acc, e.t), D)
               ELSE IF K(ts, e.pos) = closing \/ "DEV_LIST_COMMA_OPTIONAL" \in D
                    THEN ParseList(ts, e.pos, closing, Append(acc, e.t), D)
                    ELSE Fail(e.pos)

(* parser.rs:47-55 *)
Parse(ts, D) ==
  LET r == Expr(ts, 1, 0, FALSE, D)
  IN IF r.ok /\ r.pos = Len(ts) + 1 THEN r ELSE [r EXCEPT !.ok = FALSE]

Accepts(ts, D) == Parse(ts, D).ok

LangDevs == {"DEV_LIST_COMMA_OPTIONAL", "DEV_EMPTY_MULTISELECT", "DEV_EXPREF_ANYWHERE",
             "DEV_PAREN_FUNCNAME", "DEV_PROJ_MULTISELECT", "DEV_DOT_MULTILIST_NO_LED"}
=============================================================================
