----------------------------- MODULE CliOutcome -----------------------------
(* The outcome of a jp invocation as a function of the invocation shape and of what the library does on the same
   expression and input (see Cli.tla for the step machine; MC_Cli shows the machine ends in this outcome). *)
EXTENDS Integers, Sequences, TLC

(* the final outcome, as a function (what the judge compares observations with) *)
Outcome(inv, lib) ==
  IF inv.exprsrc \in {"missingfile", "notext"} \/ lib.stage = "compile" THEN [exit |-> 1, stdout |-> "none"]
  ELSE IF inv.ast THEN [exit |-> 0, stdout |-> "ast"]
  ELSE IF inv.inputsrc = "missingfile" \/ lib.stage \in {"json", "search"} THEN [exit |-> 1, stdout |-> "none"]
  ELSE [exit |-> 0, stdout |-> IF inv.unquoted /\ lib.is_string THEN "raw" ELSE "pretty"]
=============================================================================
