----------------------------- MODULE Gen_Errors -----------------------------
(***************************************************************************)
(* spec -> impl cases for C12.                                             *)
(*  MODE "coord" : every string of 0..N characters over {a, e-acute (2     *)
(*                 bytes), euro (3), U+1F600 (4), newline} x every         *)
(*                 character boundary k: JmespathError::new + Display      *)
(*  MODE "site"  : failing (expression, document) pairs assembled from the *)
(*                 fragments of err_templates.ndjson: every prefix x every *)
(*                 failing-call site / zero-step slice.  The case carries  *)
(*                 where the error must point (character offsets lo..hi:   *)
(*                 the "(" of the failing call, or the bracket pair of the *)
(*                 slice) -- computed here from the fragment lengths --     *)
(*                 and the kind class.                                     *)
(***************************************************************************)
EXTENDS Errors, JValue, Json, IOUtils, SequencesExt

N == CHOOSE n \in 0..16 : ToString(n) = IOEnv.N
(* only LF starts a new line: CR, VT, FF, NEL, LINE SEPARATOR are characters of the line.  ALPHA = "small": the five characters that differ
   in their UTF-8 length and the newline (longer strings stay enumerable) *)
Alpha == IF "ALPHA" \in DOMAIN IOEnv /\ IOEnv.ALPHA = "small" THEN {97, 233, 8364, 128512, NL} ELSE {97, 233, 8364, 128512, NL, 13, 11, 12, 133, 8232}

CoordCases(zzdummy) ==
  LET all == SetToSeq(UNION {[1..n -> Alpha] : n \in 0..N})
      pairs == SetToSeq(UNION {{<<i, k>> : k \in 0..Len(all[i])} : i \in DOMAIN all})
      \* long lines: positions around the 128th, 256th and 4096th column, single- and multi-byte, also on a later line
      long == << [i \in 1..300 |-> 97], [i \in 1..300 |-> IF i % 3 = 0 THEN 233 ELSE IF i % 7 = 0 THEN 128512 ELSE 97],
                 [i \in 1..300 |-> IF i = 20 THEN NL ELSE 8364], [i \in 1..4200 |-> IF i % 2 = 0 THEN 233 ELSE 97] >>
      lp == SetToSeq({<<i, k>> : i \in 1..3, k \in {0, 19, 20, 21, 126, 127, 128, 129, 130, 148, 149, 150, 255, 256, 257, 299, 300}}
                     \cup {<<4, k>> : k \in {4095, 4096, 4097, 4200}})
  IN [x \in DOMAIN pairs |-> [e |-> "err", kind |-> "coord", chars |-> all[pairs[x][1]], k |-> pairs[x][2]]]
     \o [x \in DOMAIN lp |-> [e |-> "err", kind |-> "coord", chars |-> long[lp[x][1]], k |-> lp[x][2]]]

T == ndJsonDeserialize(IOEnv.TEMPLATES)[1]
DocA == [t |-> "obj", o |-> <<[k |-> <<97>>, v |-> JArr(<<JInt(1), JInt(2)>>)]>>]

SiteCases(zzdummy) ==
  LET t == T
      calls == {<<p, s>> : p \in DOMAIN t.prefixes, s \in DOMAIN t.sites}
      cs == SetToSeq(calls)
      sl == SetToSeq({<<p, s>> : p \in DOMAIN t.prefixes, s \in DOMAIN t.slices})
  IN [x \in DOMAIN cs |->
        LET pre == t.prefixes[cs[x][1]] st == t.sites[cs[x][2]]
            before == pre \o st.pre \o st.call
        IN [e |-> "err", kind |-> "site", site |-> st.n, text |-> before \o st.rest, doc |-> DocA,
            lo |-> Len(before), hi |-> Len(before), class |-> st.kind]]
     \o [x \in DOMAIN sl |->
        LET pre == t.prefixes[sl[x][1]] st == t.slices[sl[x][2]]
            before == pre \o st.pre
            \* the bracket pair ends at the "]" of rest (a ")" closing an outer call may follow it inside rest)
            closeAt == CHOOSE i \in DOMAIN st.rest : st.rest[i] = 93 /\ \A j \in DOMAIN st.rest : st.rest[j] = 93 => j <= i
        IN [e |-> "err", kind |-> "site", site |-> st.n, text |-> before \o st.open \o st.rest \o st.tail, doc |-> DocA,
            lo |-> Len(before), hi |-> Len(before) + Len(st.open) + closeAt - 1,
            class |-> "slice"]]

ASSUME ndJsonSerialize(IOEnv.OUT, IF IOEnv.MODE = "coord" THEN CoordCases(0) ELSE SiteCases(0))
=============================================================================
