------------------------------- MODULE Gen_Cli -------------------------------
(***************************************************************************)
(* spec -> impl cases for C18: invocations of jp.  Expression and input    *)
(* texts come from cli_pools.ndjson (data); the invocation shapes are all  *)
(* of MC_Cli's: expression as argument / in an -e file / in a missing      *)
(* file, input on stdin / in an -f file / in a missing file, -u, --ast,    *)
(* with short and long option spellings.                                   *)
(***************************************************************************)
EXTENDS Integers, Sequences, FiniteSets, TLC, Json, IOUtils, SequencesExt

P == ndJsonDeserialize(IOEnv.POOLS)[1]
A(str) == str
EF == <<101, 120, 112, 114, 46, 116, 120, 116>>           \* expr.txt
IFN == <<105, 110, 46, 106, 115, 111, 110>>               \* in.json
MISSING == <<110, 111, 112, 101, 46, 116, 120, 116>>      \* nope.txt
DEVSTDIN == <<47, 100, 101, 118, 47, 115, 116, 100, 105, 110>>   \* /dev/stdin: a "file" that is a pipe (no size to be had from its metadata)
OptF(long) == IF long THEN <<45, 45, 102, 105, 108, 101, 110, 97, 109, 101>> ELSE <<45, 102>>
OptE(long) == IF long THEN <<45, 45, 101, 120, 112, 114, 45, 102, 105, 108, 101>> ELSE <<45, 101>>
OptU(long) == IF long THEN <<45, 45, 117, 110, 113, 117, 111, 116, 101, 100>> ELSE <<45, 117>>
OptAst == <<45, 45, 97, 115, 116>>

CaseOf(e, i, exprsrc, inputsrc, unq, ast, long, pad) ==
  LET argv == (IF unq THEN <<OptU(long)>> ELSE <<>>) \o (IF ast THEN <<OptAst>> ELSE <<>>)
              \o (IF inputsrc = "file" THEN <<OptF(long), IFN>> ELSE IF inputsrc = "missingfile" THEN <<OptF(long), MISSING>>
                  ELSE IF inputsrc = "devstdin" THEN <<OptF(long), DEVSTDIN>> ELSE <<>>)
              \o (IF exprsrc = "arg" THEN <<e>> ELSE IF exprsrc = "file" THEN <<OptE(long), EF>> ELSE <<OptE(long), MISSING>>)
      files == (IF exprsrc = "file" THEN <<[name |-> EF, content |-> e]>> ELSE <<>>)
               \o (IF inputsrc = "file" THEN <<[name |-> IFN, content |-> i]>> ELSE <<>>)
  IN [e |-> "cli", argv |-> argv, files |-> files, stdin |-> IF inputsrc \in {"stdin", "devstdin"} THEN i ELSE <<>>,
      expr |-> e, input |-> i, exprsrc |-> exprsrc, inputsrc |-> inputsrc, unquoted |-> unq, ast |-> ast, pad |-> pad]

Case(ei, ii, exprsrc, inputsrc, unq, ast, long) == CaseOf(P.exprs[ei], P.inputs[ii], exprsrc, inputsrc, unq, ast, long, 0)

(* arguments and file names that are not valid UTF-8 (the numbers are raw bytes): a file whose NAME is not text is still a file; an
   expression argument that is not text is a bad expression *)
IFNB == <<105, 110, 255, 46, 106, 115, 111, 110>>        \* in\xff.json
EFB == <<101, 120, 254, 46, 116, 120, 116>>              \* ex\xfe.txt
MISSB == <<110, 111, 255, 112, 101>>                     \* no\xffpe
ByteCases(zzdummy) ==
  LET e == P.exprs[2]  i == P.inputs[1]                  \* `a` on the first document
      mk(argv, files, stdin, exprsrc, inputsrc, unq, ast, bad) ==
        [e |-> "cli", bytes |-> TRUE, argv |-> argv, files |-> files, stdin |-> stdin, expr |-> e, input |-> i, exprsrc |-> exprsrc, inputsrc |-> inputsrc,
         unquoted |-> unq, ast |-> ast, pad |-> 0, expr_not_utf8 |-> bad]
  IN << mk(<<OptF(FALSE), IFNB, e>>, <<[name |-> IFNB, content |-> i]>>, <<>>, "arg", "file", FALSE, FALSE, FALSE),
        mk(<<OptU(FALSE), OptF(TRUE), IFNB, e>>, <<[name |-> IFNB, content |-> i]>>, <<>>, "arg", "file", TRUE, FALSE, FALSE),
        mk(<<OptE(FALSE), EFB>>, <<[name |-> EFB, content |-> e]>>, i, "file", "stdin", FALSE, FALSE, FALSE),
        mk(<<OptE(TRUE), EFB, OptF(FALSE), IFNB>>, <<[name |-> EFB, content |-> e], [name |-> IFNB, content |-> i]>>, <<>>, "file", "file", FALSE, FALSE, FALSE),
        mk(<<OptF(FALSE), MISSB, e>>, <<>>, <<>>, "arg", "missingfile", FALSE, FALSE, FALSE),
        mk(<<OptE(FALSE), MISSB>>, <<>>, i, "missingfile", "stdin", FALSE, FALSE, FALSE),
        mk(<<<<97, 255>>>>, <<>>, i, "arg", "stdin", FALSE, FALSE, TRUE),
        \* bytes that are not text INSIDE a quoted token of the expression argument (nothing is replaced to make it text)
        mk(<<<<39, 255, 39>>>>, <<>>, i, "arg", "stdin", FALSE, FALSE, TRUE),
        mk(<<<<34, 99, 97, 102, 195, 34>>>>, <<>>, i, "arg", "stdin", FALSE, FALSE, TRUE),
        mk(<<<<96, 34, 120, 128, 121, 34, 96>>>>, <<>>, i, "arg", "stdin", FALSE, FALSE, TRUE),
        mk(<<OptU(FALSE), <<39, 97, 255, 98, 39>>>>, <<>>, i, "arg", "stdin", TRUE, FALSE, TRUE),
        mk(<<OptAst, <<39, 192, 39>>>>, <<>>, <<>>, "arg", "stdin", FALSE, TRUE, TRUE),
        mk(<<OptAst, <<195, 40>>>>, <<>>, <<>>, "arg", "stdin", FALSE, TRUE, TRUE),
        mk(<<OptAst, OptE(FALSE), EFB>>, <<[name |-> EFB, content |-> e]>>, <<>>, "file", "stdin", FALSE, TRUE, FALSE),
        mk(<<OptU(FALSE), <<255>>>>, <<>>, i, "arg", "stdin", TRUE, FALSE, TRUE) >>

(* a file whose name is "-" is a file like any other: missing, it is a failure (standard input is not a substitute); present, it is read *)
DASH == <<45>>
DashCases(zzdummy) ==
  LET e == P.exprs[2]  i == P.inputs[1]  i2 == P.inputs[3]  e2 == P.exprs[1]
      mk(argv, files, stdin, expr, input, exprsrc, inputsrc, unq) ==
        [e |-> "cli", argv |-> argv, files |-> files, stdin |-> stdin, expr |-> expr, input |-> input, exprsrc |-> exprsrc, inputsrc |-> inputsrc,
         unquoted |-> unq, ast |-> FALSE, pad |-> 0]
  IN << mk(<<OptF(FALSE), DASH, e>>, <<>>, i, e, i, "arg", "missingfile", FALSE),
        mk(<<OptF(TRUE), DASH, e>>, <<>>, i, e, i, "arg", "missingfile", FALSE),
        mk(<<OptF(FALSE), DASH, e>>, <<[name |-> DASH, content |-> i2]>>, i, e, i2, "arg", "file", FALSE),
        mk(<<OptU(FALSE), OptF(FALSE), DASH, e>>, <<[name |-> DASH, content |-> i2]>>, i, e, i2, "arg", "file", TRUE),
        mk(<<OptF(FALSE), DASH, e>>, <<[name |-> DASH, content |-> <<123>>]>>, i, e, <<123>>, "arg", "file", FALSE),
        mk(<<OptE(FALSE), DASH>>, <<>>, i, e, i, "missingfile", "stdin", FALSE),
        mk(<<OptE(FALSE), DASH>>, <<[name |-> DASH, content |-> e2]>>, i, e2, i, "file", "stdin", FALSE),
        mk(<<OptE(TRUE), DASH, OptF(FALSE), DASH>>, <<[name |-> DASH, content |-> e2]>>, <<>>, e2, e2, "file", "file", FALSE) >>

Full == IOEnv.FULL = "1"
Cases(zzdummy) ==
  LET main == {<<ei, ii, "arg", "stdin", u, FALSE, FALSE>> : ei \in 1..P.nexprs, ii \in 1..P.ninputs, u \in BOOLEAN}
      shapes == {<<ei, ii, es, is, u, a, l>> : ei \in (IF Full THEN 1..P.nexprs ELSE {1, 2, 9, 10, 18, 22, 35}),
                                             ii \in (IF Full THEN 1..P.ninputs ELSE {1, 2, 7, 12, 13}),
                                             es \in {"arg", "file", "missingfile"}, is \in {"stdin", "file", "missingfile"},
                                             u \in BOOLEAN, a \in BOOLEAN, l \in BOOLEAN}
      all == SetToSeq(main \cup shapes)
      \* inputs longer than 64 KiB / 128 KiB on stdin and in a file (the character U+E000 of the input stands for `pad` letters)
      big == SetToSeq({<<ei, bi, p, is>> : ei \in {P.bigexprs[1], P.bigexprs[2]}, bi \in DOMAIN P.biginputs, p \in {P.pads[k] : k \in DOMAIN P.pads},
                                         is \in {"stdin", "file"}})
      \* expression texts with line breaks through every expression source; input through /dev/stdin
      crlf == SetToSeq({<<ei, ii, es, u>> : ei \in {P.crlfexprs[k] : k \in DOMAIN P.crlfexprs}, ii \in {1, 2, 7}, es \in {"arg", "file"}, u \in BOOLEAN})
      \* texts with trailing / leading characters that only Unicode calls white space, through every source (nothing is trimmed away)
      Ix(s) == {s[k] : k \in DOMAIN s}
      tail == SetToSeq({<<ei, 3, es, is, u, a>> : ei \in Ix(P.tailexprs), es \in {"arg", "file"}, is \in {"stdin", "file"}, u \in {FALSE}, a \in BOOLEAN}
                       \cup {<<2, ii, es, is, u, FALSE>> : ii \in Ix(P.tailinputs), es \in {"arg", "file"}, is \in {"stdin", "file", "devstdin"}, u \in BOOLEAN})
      \* results nested deeper than the deepest readable document
      deep == SetToSeq({<<ei, ii, "arg", is, u, FALSE>> : ei \in Ix(P.deepexprs), ii \in Ix(P.deepinputs), is \in {"stdin", "file"}, u \in BOOLEAN})
      dev == SetToSeq({<<ei, ii, es, u>> : ei \in {1, 2, 9, 10, 18, 22, 35}, ii \in {1, 2, 7, 12, 13, 4}, es \in {"arg", "file"}, u \in BOOLEAN})
  IN [x \in DOMAIN all |-> Case(all[x][1], all[x][2], all[x][3], all[x][4], all[x][5], all[x][6], all[x][7])]
     \o ByteCases(0) \o DashCases(0)
     \o [x \in DOMAIN tail |-> Case(tail[x][1], tail[x][2], tail[x][3], tail[x][4], tail[x][5], tail[x][6], FALSE)]
     \o [x \in DOMAIN deep |-> Case(deep[x][1], deep[x][2], deep[x][3], deep[x][4], deep[x][5], deep[x][6], FALSE)]
     \o [x \in DOMAIN crlf |-> Case(crlf[x][1], crlf[x][2], crlf[x][3], "stdin", crlf[x][4], FALSE, FALSE)]
     \o [x \in DOMAIN dev |-> Case(dev[x][1], dev[x][2], dev[x][3], "devstdin", dev[x][4], FALSE, FALSE)]
     \o [x \in DOMAIN big |-> CaseOf(P.exprs[big[x][1]], P.biginputs[big[x][2]], "arg", big[x][4], FALSE, FALSE, FALSE, big[x][3])]
ASSUME ndJsonSerialize(IOEnv.OUT, Cases(0))
=============================================================================
