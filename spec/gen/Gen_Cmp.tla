------------------------------- MODULE Gen_Cmp -------------------------------
(***************************************************************************)
(* spec -> impl cases for C10: every ordered pair of a pool of JSON values *)
(* (every type pairing, nested and empty containers, several spellings of  *)
(* the same number) under the six comparison operators, written both as    *)
(* `a OP b` against a document {a: l, b: r} given as JSON *text* (so that  *)
(* number spellings reach the parser of the library) and as a comparison   *)
(* of two literals.  One case per pair: the text is a multi-select list of *)
(* the six comparisons, so the six results of a pair are observed together *)
(* (the cross-operator laws are then checked on the observation itself).   *)
(***************************************************************************)
EXTENDS Eval, Spell, Json, IOUtils, TLC

T(str) == str   \* readability only
Sp(cs) == cs
(* value spellings: a JSON text (code points) for each pool entry *)
Pool == <<
  <<110,117,108,108>>,                 \* null
  <<116,114,117,101>>, <<102,97,108,115,101>>,      \* true false
  <<48>>, <<45,48>>, <<48,46,48>>,     \* 0  -0  0.0
  <<49>>, <<49,46,48>>, <<49,101,48>>, <<49,48,101,45,49>>, <<48,46,49,101,49>>,   \* 1 1.0 1e0 10e-1 0.1e1
  <<45,49>>, <<50>>, <<49,46,53>>, <<49,53,101,45,49>>, <<48,46,53>>, <<53,101,45,49>>,   \* -1 2 1.5 15e-1 0.5 5e-1
  <<49,48,48>>, <<49,101,50>>,         \* 100 1e2
  <<34,34>>, <<34,97,34>>, <<34,49,34>>, <<34,98,34>>, <<34,97,98,34>>, <<34,92,117,48,48,54,49,34>>,   \* "" "a" "1" "b" "ab" "a"
  <<91,93>>, <<91,49,93>>, <<91,49,46,48,93>>, <<91,49,44,50,93>>, <<91,50,44,49,93>>, <<91,91,93,93>>, <<91,110,117,108,108,93>>,
  <<91,34,97,34,93>>, <<91,91,49,93,93>>,
  <<49,101,49,57>>, <<49,69,49,57>>, <<49,48,101,49,56>>, <<49,101,50,48>>, <<49,46,49,101,49,57>>, <<45,49,101,49,57>>, <<57,101,49,56>>, <<49,101,49,48>>, <<49,48,48,48,48,48,48,48,48,48,48>>, <<50,48,48,48,48,48,48,48,48,48,48>>, <<50,101,49,48>>, <<49,101,50,50>>, <<49,50,51,101,49,55>>, <<49,48,48,48,48,48,48,48,48,48,48,48,48,48,48,48,48,48,48>>, <<49,101,49,56>>, <<91,49,101,49,57,93>>, <<91,49,101,50,48,93>>, <<123,34,97,34,58,49,101,49,57,125>>,   \* large magnitudes: 1e19 1E19 10e18 1e20 1.1e19 -1e19 9e18 1e10 10000000000 20000000000 2e10 1e22 ...
  <<123,125>>, <<123,34,97,34,58,49,125>>, <<123,34,97,34,58,49,46,48,125>>, <<123,34,97,34,58,50,125>>, <<123,34,98,34,58,49,125>>,
  <<123,34,97,34,58,49,44,34,98,34,58,50,125>>, <<123,34,98,34,58,50,44,34,97,34,58,49,125>>, <<123,34,97,34,58,110,117,108,108,125>>,
  <<123,34,97,34,58,91,49,93,125>>, <<123,34,97,34,58,123,125,125>>,
  \* negative fractions next to negative integers; containers that hold an EMPTY container after (and before) a differing member
  <<45,49,46,53>>, <<45,48,46,53>>, <<45,55>>, <<45,55,46,50,53>>, <<45,50>>, <<91,49,44,91,93,93>>, <<91,50,44,91,93,93>>, <<91,91,93,44,49,93>>, <<91,91,93,44,50,93>>, <<123,34,97,34,58,49,44,34,122,34,58,123,125,125>>, <<123,34,97,34,58,50,44,34,122,34,58,123,125,125>>, <<91,91,34,97,34,44,91,93,93,44,53,93>>, <<91,91,34,98,34,44,91,93,93,44,53,93>>, <<91,49,44,123,125,93>>, <<91,34,49,34,44,123,125,93>> >>

Ops == <<<<61,61>>, <<33,61>>, <<60>>, <<60,61>>, <<62>>, <<62,61>>>>
SixOf(l, r) == <<cLBRACKET>> \o JoinWith([i \in 1..6 |-> l \o <<cSPACE>> \o Ops[i] \o <<cSPACE>> \o r], <<cCOMMA, cSPACE>>) \o <<cRBRACKET>>
Tick(j) == <<cBTICK>> \o j \o <<cBTICK>>

DocText(l, r) == <<123, 34, 97, 34, 58>> \o l \o <<44, 34, 98, 34, 58>> \o r \o <<125>>

(* neighbouring doubles (JValue.tla), alone and inside containers, as tagged documents (their 17-digit spellings are not
   inside the JSON text model): '==' is left open on a pair that differs only there, the ordering is that of the reals *)
NearVals == <<JInt(1), JNear(1, 1, 1), JNear(1, 1, 2), JNear(1, 1, -1), JNum(3, 10), JNear(3, 10, 1), JNear(3, 10, -2), JNear(-3, 10, 1),
              JNear(-1, 1, 1), JNum(3, 2), JNear(3, 2, 1),
              JArr(<<JInt(1)>>), JArr(<<JNear(1, 1, 1)>>), JArr(<<JNear(1, 1, 1), JInt(2)>>), JArr(<<JInt(1), JInt(2)>>),
              \* magnitudes near the top of the double range: well separated (factors of 1.7 .. 10^16 apart), same sign and opposite signs
              JBig(1, 308), JBig(17, 307), JBig(179, 306), JBig(1, 300), JBig(1, 292), JBig(-1, 308), JBig(-17, 307), JArr(<<JBig(1, 308)>>), JArr(<<JBig(17, 307)>>),
              MkObj(<<JMem(<<97>>, JNear(3, 10, 1))>>), MkObj(<<JMem(<<97>>, JNum(3, 10))>>), JStr(<<49>>), JNull>>
(* both operands are the same node of the document: `a OP a`, `@ OP @` below a field *)
SameText == <<cLBRACKET>> \o JoinWith([i \in 1..6 |-> <<97, cSPACE>> \o Ops[i] \o <<cSPACE, 97>>], <<cCOMMA, cSPACE>>) \o <<cRBRACKET>>
AtText == <<97, cDOT, cLBRACKET>> \o JoinWith([i \in 1..6 |-> <<cAT, cSPACE>> \o Ops[i] \o <<cSPACE, cAT>>], <<cCOMMA, cSPACE>>) \o <<cRBRACKET>>

Cases(zzdummy) ==
  LET pairs == SetToSeq({<<i, j>> : i \in DOMAIN Pool, j \in DOMAIN Pool})
      near == SetToSeq({<<i, j>> : i \in DOMAIN NearVals, j \in DOMAIN NearVals})
  IN [x \in DOMAIN near |-> [e |-> "cmp", text |-> SixOf(<<97>>, <<98>>),
                              doc |-> MkObj(<<JMem(<<97>>, NearVals[near[x][1]]), JMem(<<98>>, NearVals[near[x][2]])>>)]]
     \o [x \in DOMAIN Pool |-> [e |-> "cmp", text |-> SameText, doctext |-> DocText(Pool[x], Pool[x])]]
     \o [x \in 1..(Len(Pool) - 1) |-> [e |-> "cmp", text |-> AtText, doctext |-> DocText(Pool[x + 1], Pool[x + 1])]]   \* not null: a multi-select on null is null
     \o [x \in DOMAIN NearVals |-> [e |-> "cmp", text |-> SameText, doc |-> MkObj(<<JMem(<<97>>, NearVals[x])>>)]]
     \o [x \in DOMAIN pairs |-> [e |-> "cmp", text |-> SixOf(<<97>>, <<98>>), doctext |-> DocText(Pool[pairs[x][1]], Pool[pairs[x][2]])]]
     \o [x \in DOMAIN pairs |-> [e |-> "cmp", text |-> SixOf(Tick(Pool[pairs[x][1]]), Tick(Pool[pairs[x][2]])), doctext |-> <<48>>]]   \* any non-null document
     \* mixed forms: a literal on one side, a field on the other (each operand order)
     \o [x \in DOMAIN pairs |-> [e |-> "cmp", text |-> SixOf(Tick(Pool[pairs[x][1]]), <<98>>), doctext |-> DocText(Pool[pairs[x][1]], Pool[pairs[x][2]])]]
     \o [x \in DOMAIN pairs |-> [e |-> "cmp", text |-> SixOf(<<97>>, Tick(Pool[pairs[x][2]])), doctext |-> DocText(Pool[pairs[x][1]], Pool[pairs[x][2]])]]

ASSUME ndJsonSerialize(IOEnv.OUT, Cases(0))
=============================================================================
