------------------------------- MODULE Gen_Cmp -------------------------------
(***************************************************************************)
(* spec -> impl cases for C10: every ordered pair of a pool of JSON values *)
(* (every type pairing, nested and empty containers, several spellings of  *)
(* the same number) under the six comparison operators, written both as    *)
(* `a OP b` against a document {a: l, b: r} given as JSON *text* (so that  *)
(* number spellings reach the parser of the library) and as a comparison   *)
(* of two literals.  One case per pair: the text is a multi-select list of *)
(* the six comparisons, so the six results of a pair are observed together *)
(* (the cross-operator laws are then checked on the observation itself).   *)
(***************************************************************************)
EXTENDS Eval, Spell, Json, IOUtils, TLC

T(str) == str   \* readability only
Sp(cs) == cs
(* value spellings: a JSON text (code points) for each pool entry *)
Pool == <<
  <<110,117,108,108>>,                 \* null
  <<116,114,117,101>>, <<102,97,108,115,101>>,      \* true false
  <<48>>, <<45,48>>, <<48,46,48>>,     \* 0  -0  0.0
  <<49>>, <<49,46,48>>, <<49,101,48>>, <<49,48,101,45,49>>, <<48,46,49,101,49>>,   \* 1 1.0 1e0 10e-1 0.1e1
  <<45,49>>, <<50>>, <<49,46,53>>, <<49,53,101,45,49>>, <<48,46,53>>, <<53,101,45,49>>,   \* -1 2 1.5 15e-1 0.5 5e-1
  <<49,48,48>>, <<49,101,50>>,         \* 100 1e2
  <<34,34>>, <<34,97,34>>, <<34,49,34>>, <<34,98,34>>, <<34,97,98,34>>, <<34,92,117,48,48,54,49,34>>,   \* "" "a" "1" "b" "ab" "a"
  <<91,93>>, <<91,49,93>>, <<91,49,46,48,93>>, <<91,49,44,50,93>>, <<91,50,44,49,93>>, <<91,91,93,93>>, <<91,110,117,108,108,93>>,
  <<91,34,97,34,93>>, <<91,91,49,93,93>>,
  <<123,125>>, <<123,34,97,34,58,49,125>>, <<123,34,97,34,58,49,46,48,125>>, <<123,34,97,34,58,50,125>>, <<123,34,98,34,58,49,125>>,
  <<123,34,97,34,58,49,44,34,98,34,58,50,125>>, <<123,34,98,34,58,50,44,34,97,34,58,49,125>>, <<123,34,97,34,58,110,117,108,108,125>>,
  <<123,34,97,34,58,91,49,93,125>>, <<123,34,97,34,58,123,125,125>> >>

Ops == <<<<61,61>>, <<33,61>>, <<60>>, <<60,61>>, <<62>>, <<62,61>>>>
SixOf(l, r) == <<cLBRACKET>> \o JoinWith([i \in 1..6 |-> l \o <<cSPACE>> \o Ops[i] \o <<cSPACE>> \o r], <<cCOMMA, cSPACE>>) \o <<cRBRACKET>>
Tick(j) == <<cBTICK>> \o j \o <<cBTICK>>

DocText(l, r) == <<123, 34, 97, 34, 58>> \o l \o <<44, 34, 98, 34, 58>> \o r \o <<125>>

Cases(zzdummy) ==
  LET pairs == SetToSeq({<<i, j>> : i \in DOMAIN Pool, j \in DOMAIN Pool})
  IN [x \in DOMAIN pairs |-> [e |-> "cmp", text |-> SixOf(<<97>>, <<98>>), doctext |-> DocText(Pool[pairs[x][1]], Pool[pairs[x][2]])]]
     \o [x \in DOMAIN pairs |-> [e |-> "cmp", text |-> SixOf(Tick(Pool[pairs[x][1]]), Tick(Pool[pairs[x][2]])), doctext |-> <<48>>]]   \* any non-null document

ASSUME ndJsonSerialize(IOEnv.OUT, Cases(0))
=============================================================================
