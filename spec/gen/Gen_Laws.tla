------------------------------ MODULE Gen_Laws ------------------------------
(***************************************************************************)
(* spec -> impl cases for C11 (compositionality).  A case names a law and  *)
(* carries the texts of the whole (W), of the expression that yields the   *)
(* projected subject (S), of the parts (L, R, predicate P) and a document. *)
(* All(0) texts are spelled here; the driver only compiles and searches them, *)
(* and additionally builds the compound from the parts' public ASTs.       *)
(***************************************************************************)
EXTENDS Spell, Json, IOUtils, TLC, SequencesExt

I(c)  == TIdent(<<c>>)
P(k)  == TPlain(k)
Nm(n) == TNum(n)
LitT(v) == TLit(v)
Fn(name) == TIdent(name)

LPool == <<
  <<I(97)>>, <<I(98)>>, <<P("At")>>, <<I(97), P("Dot"), I(98)>>, <<I(97), P("Lbracket"), Nm(0), P("Rbracket")>>,
  <<I(97), P("Lbracket"), P("Star"), P("Rbracket")>>, <<I(97), P("Lbracket"), P("Star"), P("Rbracket"), P("Dot"), I(98)>>,
  <<I(97), P("Flatten")>>, <<P("Star")>>, <<I(97), P("Dot"), P("Star")>>, <<I(97), P("Filter"), I(98), P("Rbracket")>>,
  <<LitT(JInt(1))>>, <<LitT(JNull)>>, <<I(97), P("Or"), I(98)>>, <<P("Lbracket"), I(97), P("Comma"), I(98), P("Rbracket")>>,
  <<P("Lbrace"), I(120), P("Colon"), I(97), P("Rbrace")>>, <<I(97), P("Lbracket"), Nm(1), P("Colon"), P("Rbracket")>>,
  <<P("Not"), I(97)>>, <<I(97), TCmpTok("eq"), I(98)>>, <<I(122)>>, <<I(98), P("Lbracket"), Nm(-1), P("Rbracket")>>,
  <<I(97), P("Flatten"), P("Flatten")>>, <<P("Flatten")>> >>

(* right-hand sides as complete expressions *)
RPool == <<
  <<I(97)>>, <<I(98)>>, <<P("At")>>, <<I(97), P("Dot"), I(98)>>, <<P("Lbracket"), Nm(0), P("Rbracket")>>,
  <<P("Lbracket"), P("Star"), P("Rbracket")>>, <<P("Star")>>, <<P("Not"), P("At")>>, <<P("At"), TCmpTok("eq"), LitT(JNull)>>,
  <<LitT(JInt(1))>>, <<I(97), P("Or"), I(98)>>, <<P("Lbracket"), I(97), P("Rbracket")>>,
  <<P("Lbrace"), I(120), P("Colon"), I(97), P("Rbrace")>>,
  <<Fn(<<116,121,112,101>>), P("Lparen"), P("At"), P("Rparen")>>, <<P("Flatten")>>, <<I(97), P("And"), I(98)>> >>

(* right-hand sides that can continue a projection: [as written after the projection, as an expression of its own] *)
PRhs == <<
  [w |-> <<>>, x |-> <<P("At")>>],
  [w |-> <<P("Dot"), I(97)>>, x |-> <<I(97)>>],
  [w |-> <<P("Dot"), I(98)>>, x |-> <<I(98)>>],
  [w |-> <<P("Dot"), I(97), P("Dot"), I(98)>>, x |-> <<I(97), P("Dot"), I(98)>>],
  [w |-> <<P("Lbracket"), Nm(0), P("Rbracket")>>, x |-> <<P("Lbracket"), Nm(0), P("Rbracket")>>],
  [w |-> <<P("Lbracket"), P("Star"), P("Rbracket")>>, x |-> <<P("Lbracket"), P("Star"), P("Rbracket")>>],
  [w |-> <<P("Dot"), P("Star")>>, x |-> <<P("Star")>>],
  [w |-> <<P("Dot"), P("Lbrace"), I(120), P("Colon"), I(97), P("Rbrace")>>, x |-> <<P("Lbrace"), I(120), P("Colon"), I(97), P("Rbrace")>>],
  [w |-> <<P("Filter"), I(97), P("Rbracket")>>, x |-> <<P("Filter"), I(97), P("Rbracket")>>],
  [w |-> <<P("Dot"), Fn(<<116,121,112,101>>), P("Lparen"), P("At"), P("Rparen")>>, x |-> <<Fn(<<116,121,112,101>>), P("Lparen"), P("At"), P("Rparen")>>] >>

Preds == << <<I(97)>>, <<I(98)>>, <<P("At")>>, <<I(97), TCmpTok("eq"), LitT(JInt(1))>>, <<P("Not"), I(97)>>, <<I(97), P("And"), I(98)>>,
            <<LitT(JFalse)>>, <<I(97), TCmpTok("gt"), LitT(JInt(1))>> >>

Par(ts) == <<P("Lparen")>> \o ts \o <<P("Rparen")>>
Sp(ts) == Spell(ts, "spaced", 0)

M(k, v) == JMem(<<k>>, v)
ObjAB == MkObj(<<M(97, JInt(1)), M(98, JInt(2))>>)
ObjABC == MkObj(<<M(97, JStr(<<97>>)), M(98, JNull), M(99, JTrue)>>)
Arr012 == JArr(<<JInt(0), JInt(1), JInt(2)>>)
DocPool == <<
  MkObj(<<M(97, ObjAB), M(98, Arr012)>>),
  MkObj(<<M(97, JArr(<<ObjAB, ObjABC, JNull, JInt(3)>>)), M(98, ObjABC)>>),
  JArr(<<ObjAB, ObjABC, Arr012, JNull, JInt(1), JStr(<<97>>)>>),
  MkObj(<<M(97, JArr(<<JArr(<<JInt(1), JInt(2)>>), JArr(<<JInt(3)>>), JInt(4), JArr(<<JArr(<<JInt(5)>>)>>)>>)), M(98, JInt(0))>>),
  JNull,
  MkObj(<<M(97, JFalse), M(98, JArr(<<>>))>>),
  MkObj(<<M(97, MkObj(<<M(97, ObjAB), M(98, Arr012)>>)), M(98, MkObj(<<M(98, JInt(1)), M(97, JInt(2))>>))>>),
  JArr(<<JArr(<<ObjAB, ObjABC>>), JArr(<<ObjABC>>), JArr(<<>>)>>),
  MkObj(<<M(97, JArr(<<MkObj(<<M(97, JInt(1)), M(98, JInt(1))>>), MkObj(<<M(97, JInt(2)), M(98, JInt(1))>>), MkObj(<<M(98, JInt(3))>>)>>)), M(98, JTrue)>>) >>

NoT == <<>>
Case(law, w, s, l, r, p, d) ==
  [e |-> "law", law |-> law, W |-> Sp(w), S |-> Sp(s), L |-> Sp(l), R |-> Sp(r), P |-> Sp(p), d |-> d]

Binary(law, op) == {Case(law, Par(LPool[i]) \o <<op>> \o Par(RPool[j]), <<P("At")>>, LPool[i], RPool[j], <<P("At")>>, d)
                      : i \in DOMAIN LPool, j \in DOMAIN RPool, d \in DOMAIN DocPool}
(* The projected subject of a flatten / value / slice projection is only observable through the projection
   itself, which has already dropped nulls; so those laws are stated for right-hand sides that map null to null
   (all of PRhs except the last).  A list wildcard projects the value of L itself. *)
ProjCases(law, mid) ==
  {Case(law, Par(LPool[i]) \o mid \o PRhs[j].w, Par(LPool[i]) \o mid, LPool[i], PRhs[j].x, <<P("At")>>, d)
     : i \in DOMAIN LPool, j \in 1..(Len(PRhs) - 1), d \in DOMAIN DocPool}
ListProjCases(zzdummy) ==
  {Case("listproj", Par(LPool[i]) \o <<P("Lbracket"), P("Star"), P("Rbracket")>> \o PRhs[j].w, Par(LPool[i]), LPool[i], PRhs[j].x, <<P("At")>>, d)
     : i \in DOMAIN LPool, j \in DOMAIN PRhs, d \in DOMAIN DocPool}

All(zzdummy) ==
  Binary("pipe", P("Pipe")) \cup Binary("and", P("And")) \cup Binary("or", P("Or"))
  \cup {Case("not", <<P("Not")>> \o Par(LPool[i]), <<P("At")>>, LPool[i], <<P("At")>>, <<P("At")>>, d) : i \in DOMAIN LPool, d \in DOMAIN DocPool}
  \cup {Case("mlist", <<P("Lbracket")>> \o LPool[i] \o <<P("Comma")>> \o RPool[j] \o <<P("Rbracket")>>, <<P("At")>>, LPool[i], RPool[j], <<P("At")>>, d)
          : i \in DOMAIN LPool, j \in DOMAIN RPool, d \in DOMAIN DocPool}
  \cup {Case("mhash", <<P("Lbrace"), I(120), P("Colon")>> \o LPool[i] \o <<P("Comma"), I(121), P("Colon")>> \o RPool[j] \o <<P("Rbrace")>>, <<P("At")>>, LPool[i], RPool[j], <<P("At")>>, d)
          : i \in DOMAIN LPool, j \in DOMAIN RPool, d \in DOMAIN DocPool}
  \cup ListProjCases(0)
  \cup ProjCases("flatten", <<P("Flatten")>>)
  \cup ProjCases("valproj", <<P("Dot"), P("Star")>>)
  \cup ProjCases("slice", <<P("Lbracket"), Nm(1), P("Colon"), P("Rbracket")>>)
  \cup ProjCases("slice", <<P("Lbracket"), P("Colon"), P("Colon"), Nm(-1), P("Rbracket")>>)
  \cup {Case("filter", Par(LPool[i]) \o <<P("Filter")>> \o Preds[k] \o <<P("Rbracket")>> \o PRhs[j].w, Par(LPool[i]), LPool[i], PRhs[j].x, Preds[k], d)
          : i \in DOMAIN LPool, j \in {1, 2, 5, 7}, k \in DOMAIN Preds, d \in DOMAIN DocPool}

ASSUME ndJsonSerialize(IOEnv.OUT, SetToSeq(All(0)))
ASSUME ndJsonSerialize(IOEnv.OUT \o ".docs", <<[docs |-> DocPool]>>)
=============================================================================
