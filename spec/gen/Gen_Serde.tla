------------------------------ MODULE Gen_Serde ------------------------------
(***************************************************************************)
(* spec -> impl cases for C14.                                             *)
(*  "ser": every data-model tree of Serde!Leaves, Depth1 (and Depth2 when  *)
(*         DEEP = "2")                                                     *)
(*  "de" : every JSON value of a pool (right and wrong shapes for each     *)
(*         type of the driver's zoo), decoded into every type of the zoo   *)
(***************************************************************************)
EXTENDS Serde, Json, IOUtils, SequencesExt

Trees == Leaves \cup Depth1 \cup (IF IOEnv.DEEP = "2" THEN Depth2 ELSE {})
SerCases(zzdummy) == LET ts == SetToSeq(Trees) IN [i \in DOMAIN ts |-> [e |-> "serde", kind |-> "ser", tree |-> ts[i]]]

S(cps) == JStr(cps)
N(str) == JIntS(str)
O(ms) == MkObj(ms)
JsonPool == {
  JNull, JTrue, JFalse, N("0"), N("1"), N("-1"), N("127"), N("128"), N("255"), N("256"), N("-129"), N("65"), N("2147483647"), N("2147483648"),
  N("9223372036854775807"), N("9223372036854775808"), N("18446744073709551615"), N("-9223372036854775808"), JNum(3, 2), JNum(-1, 2),
  S(<<>>), S(<<97>>), S(<<97, 98>>), S(<<233>>), S(<<85, 110, 105, 116>>), S(<<78, 101, 119>>), S(<<88>>),
  JNum(3, 1), JNum(0, 1), JNum(-1, 1), JNum(255, 1), JNum(256, 1), JNum(65, 1), JArr(<<JNum(1, 1), JNum(2, 1)>>), JArr(<<JNum(1, 1), S(<<97>>)>>),   \* whole-valued FLOATS (3.0 ...)
  O(<<JMem(<<120>>, JNum(1, 1)), JMem(<<121>>, JNum(2, 1))>>), S(<<49, 48, 46, 49, 46, 50, 46, 51>>),
  JArr(<<>>), JArr(<<N("1"), N("2")>>), JArr(<<N("1"), S(<<97>>)>>), JArr(<<N("1"), S(<<97>>), N("3")>>), JArr(<<S(<<97>>)>>), JArr(<<N("300")>>),
  JArr(<<JTrue, JNull>>), JArr(<<O(<<JMem(<<120>>, N("1")), JMem(<<121>>, N("2"))>>)>>),
  JObj(<<>>), O(<<JMem(<<120>>, N("1")), JMem(<<121>>, N("2"))>>), O(<<JMem(<<120>>, N("1"))>>), O(<<JMem(<<120>>, N("1")), JMem(<<121>>, N("2")), JMem(<<122>>, N("3"))>>),
  O(<<JMem(<<120>>, S(<<97>>)), JMem(<<121>>, N("2"))>>),
  O(<<JMem(<<78, 101, 119>>, N("1"))>>), O(<<JMem(<<84, 117, 112>>, JArr(<<N("1"), S(<<97>>)>>))>>), O(<<JMem(<<83, 116, 114>>, O(<<JMem(<<97>>, JTrue)>>))>>),
  O(<<JMem(<<84, 117, 112>>, JArr(<<N("1"), S(<<97>>), JTrue>>))>>), O(<<JMem(<<84, 117, 112>>, JArr(<<N("1")>>))>>), O(<<JMem(<<84, 117, 112>>, JArr(<<>>))>>),
  JArr(<<N("1")>>), JArr(<<O(<<JMem(<<120>>, N("1")), JMem(<<121>>, N("2"))>>), N("1")>>),
  O(<<JMem(<<79, 112, 116>>, JNull)>>), O(<<JMem(<<79, 112, 116>>, N("1"))>>), O(<<JMem(<<78, 105, 108>>, JNull)>>), S(<<79, 112, 116>>), S(<<78, 105, 108>>),
  O(<<JMem(<<78, 101, 119>>, JNull)>>), O(<<JMem(<<83, 116, 114>>, JNull)>>), O(<<JMem(<<84, 117, 112>>, JNull)>>),
  JArr(<<O(<<JMem(<<79, 112, 116>>, JNull)>>), S(<<85, 110, 105, 116>>)>>),
  O(<<JMem(<<85, 110, 105, 116>>, JNull)>>), O(<<JMem(<<78, 101, 119>>, N("1")), JMem(<<85, 110, 105, 116>>, JNull)>>), O(<<JMem(<<78, 111>>, N("1"))>>),
  O(<<JMem(<<97>>, N("1")), JMem(<<98>>, N("2"))>>),
  \* tags of internally / adjacently tagged enums: names, numbers, other values; a tuple in adjacent form
  O(<<JMem(<<116>>, S(<<66>>))>>), O(<<JMem(<<116>>, N("1"))>>), O(<<JMem(<<116>>, N("0")), JMem(<<120>>, N("5"))>>), O(<<JMem(<<116>>, S(<<65>>)), JMem(<<120>>, N("5"))>>),
  O(<<JMem(<<116>>, JTrue)>>), O(<<JMem(<<116>>, JNull)>>), JArr(<<N("1")>>), JArr(<<N("2"), JArr(<<N("1"), N("2")>>)>>), JArr(<<S(<<67>>), JArr(<<N("1"), N("2")>>)>>),
  O(<<JMem(<<99>>, JArr(<<N("1"), N("2")>>)), JMem(<<116>>, S(<<67>>))>>), O(<<JMem(<<99>>, JArr(<<N("1"), N("2")>>)), JMem(<<116>>, N("2"))>>),
  JArr(<<O(<<JMem(<<116>>, N("1"))>>), O(<<JMem(<<116>>, S(<<66>>))>>)>>), O(<<JMem(<<120>>, N("5"))>>),
  \* maps with keys that are not plain strings on the Rust side (newtype, char, unit variant, integer), flattened structs
  O(<<JMem(<<97, 110, 110>>, JArr(<<N("1"), N("2")>>)), JMem(<<98>>, JArr(<<>>))>>), O(<<JMem(<<49>>, S(<<120>>)), JMem(<<45, 55>>, S(<<121>>))>>),
  O(<<JMem(<<49>>, JTrue)>>), O(<<JMem(<<82, 101, 100>>, N("1")), JMem(<<66, 108, 117, 101>>, N("2"))>>), O(<<JMem(<<105, 100>>, N("1")), JMem(<<107>>, N("2")), JMem(<<106>>, N("3"))>>),
  O(<<JMem(<<105, 100>>, N("1"))>>), JArr(<<S(<<97, 110, 110>>), S(<<98>>)>>), JArr(<<S(<<97, 110, 110>>), N("2")>>),
  O(<<JMem(<<97>>, JNull), JMem(<<98>>, O(<<JMem(<<120>>, N("1")), JMem(<<121>>, N("2"))>>))>>), O(<<JMem(<<48, 49>>, S(<<120>>))>>), O(<<JMem(<<32, 49>>, JTrue)>>),
  O(<<JMem(<<112>>, O(<<JMem(<<120>>, N("1")), JMem(<<121>>, N("2"))>>)), JMem(<<101>>, S(<<85, 110, 105, 116>>)), JMem(<<111>>, JArr(<<N("1")>>))>>),
  O(<<JMem(<<112>>, O(<<JMem(<<120>>, N("1")), JMem(<<121>>, N("2"))>>)), JMem(<<101>>, O(<<JMem(<<78, 101, 119>>, N("5"))>>)), JMem(<<111>>, JNull), JMem(<<100>>, N("9"))>>) }
DeCases(zzdummy) == LET js == SetToSeq(JsonPool) IN [i \in DOMAIN js |-> [e |-> "serde", kind |-> "de", json |-> js[i]]]

Reals == <<"IpAddr4", "IpAddr6", "Ipv4Addr", "Ipv6Addr", "SocketAddr4", "SocketAddr6", "Duration", "PathBuf", "NonZeroU8", "Wrapping",
    "Reverse", "BTreeSet", "VecDeque", "Range", "BoundIn", "BoundUn", "SomeUnit", "ResultOk", "ResultErr", "BoxStr", "CowStr", "Arr3", "Nested", "Phantom",
    "Host", "NetAddr", "NetPair", "NetNamed", "MapIp", "OptIp">>
RealCases(zzdummy) == [i \in DOMAIN Reals |-> [e |-> "serde", kind |-> "real", name |-> Reals[i]]]
ASSUME ndJsonSerialize(IOEnv.OUT, SerCases(0) \o DeCases(0) \o RealCases(0))
=============================================================================
