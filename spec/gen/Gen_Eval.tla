------------------------------ MODULE Gen_Eval ------------------------------
(***************************************************************************)
(* spec -> impl cases for evaluation (C01, C11, C05): expression text x    *)
(* document.  Documents are written once to OUT.docs; a case refers to a   *)
(* document by index (field d) and the driver puts the document itself     *)
(* into the observation.                                                   *)
(*  MODE "sent"  : every ABNF sentence of LO..N tokens x payload           *)
(*                 assignments 0..(ASSIGN-1) x the first NDOCS documents   *)
(*  MODE "chains": a primary followed by every sequence of 1..N postfix    *)
(*                 operators (.x [n] [*] [] [?p] [n:] .* .{k:v}), also     *)
(*                 under "!", against three nested documents               *)
(*  MODE "spell" : token sequences with their own documents from IOEnv.IN  *)
(***************************************************************************)
EXTENDS Grammar, Spell, Json, IOUtils, TLC

Num(name) == CHOOSE n \in 0..64 : ToString(n) = name
N == Num(IOEnv.N)
LO == Num(IOEnv.LO)
ASSIGN == Num(IOEnv.ASSIGN)
NDOCS == Num(IOEnv.NDOCS)

OpAt(i) == <<"eq", "ne", "lt", "le", "gt", "ge">>[(i % 6) + 1]
LitPool == <<JNull, JTrue, JFalse, JInt(0), JInt(1), JStr(<<>>), JStr(<<97>>), JArr(<<>>), JArr(<<JInt(1), JInt(2)>>),
             MkObj(<<JMem(<<97>>, JInt(1))>>)>>
NumPool == <<0, 1, -1, 2, -2>>
(* payloads: names a / b, small numbers, ten literals of every type; assignment j shifts the choice *)
Def(k, i, j) == CASE k = "Ident"  -> TIdent(<<97 + ((i + j) % 2)>>)
                  [] k = "QIdent" -> TQIdent(<<97 + ((i + j + 1) % 2)>>)
                  [] k = "Num" -> TNum(NumPool[((i + 2 * j) % 5) + 1])
                  [] k = "Lit" -> TLit(LitPool[((i + 3 * j) % 10) + 1])
                  [] k = "Cmp" -> TCmpTok(OpAt(i + j)) [] OTHER -> TPlain(k)
Toks(ks, j) == [i \in DOMAIN ks |-> Def(ks[i], i, j)]

M(k, v) == JMem(<<k>>, v)
ObjAB == MkObj(<<M(97, JInt(1)), M(98, JInt(2))>>)
ObjABC == MkObj(<<M(97, JStr(<<97>>)), M(98, JNull), M(99, JTrue)>>)
Arr012 == JArr(<<JInt(0), JInt(1), JInt(2)>>)
DocPool == <<
  MkObj(<<M(97, ObjAB), M(98, Arr012)>>),
  MkObj(<<M(97, JArr(<<ObjAB, ObjABC, JNull, JInt(3)>>)), M(98, ObjABC)>>),
  JArr(<<ObjAB, ObjABC, Arr012, JNull, JInt(1), JStr(<<97>>)>>),
  MkObj(<<M(97, JArr(<<JArr(<<JInt(1), JInt(2)>>), JArr(<<JInt(3)>>), JInt(4), JArr(<<JArr(<<JInt(5)>>)>>)>>)), M(98, JInt(0))>>),
  JNull,
  MkObj(<<M(97, JInt(0)), M(98, JStr(<<>>))>>),
  MkObj(<<M(97, JFalse), M(98, JArr(<<>>))>>),
  MkObj(<<M(97, MkObj(<<M(97, ObjAB), M(98, Arr012)>>)), M(98, MkObj(<<M(98, JInt(1)), M(97, JInt(2))>>))>>),
  JArr(<<JArr(<<ObjAB, ObjABC>>), JArr(<<ObjABC>>), JArr(<<>>)>>),
  JStr(<<97, 98>>),
  MkObj(<<M(97, JArr(<<MkObj(<<M(97, JInt(1)), M(98, JInt(1))>>), MkObj(<<M(97, JInt(2)), M(98, JInt(1))>>), MkObj(<<M(98, JInt(3))>>)>>)), M(98, JTrue)>>),
  JInt(5),
  \* 13, 14: nested documents with keys a / b at every level (operator chains need depth to tell groupings apart)
  MkObj(<<M(97, JArr(<<MkObj(<<M(97, JArr(<<MkObj(<<M(97, JInt(1)), M(98, JTrue)>>), MkObj(<<M(97, JInt(2)), M(98, JFalse)>>)>>)), M(98, JTrue)>>),
                      MkObj(<<M(97, JArr(<<MkObj(<<M(97, JInt(3)), M(98, JTrue)>>)>>)), M(98, JFalse)>>),
                      MkObj(<<M(97, MkObj(<<M(97, JInt(5)), M(98, JArr(<<JInt(1)>>))>>)), M(98, JArr(<<MkObj(<<M(97, JInt(1)), M(98, JInt(1))>>)>>))>>)>>)),
          M(98, MkObj(<<M(97, JArr(<<MkObj(<<M(98, JInt(1)), M(97, MkObj(<<M(98, JInt(2))>>))>>)>>)), M(98, JArr(<<JArr(<<JInt(1), MkObj(<<M(97, JInt(2))>>)>>), JArr(<<JInt(3)>>)>>))>>))>>),
  JArr(<<MkObj(<<M(97, JArr(<<JArr(<<MkObj(<<M(97, JTrue), M(98, JArr(<<JInt(1), JInt(2)>>))>>), JInt(7)>>), JArr(<<>>)>>)), M(98, JArr(<<JTrue, JNull>>))>>),
         JArr(<<MkObj(<<M(97, JInt(1)), M(98, MkObj(<<M(97, JArr(<<JInt(1), JInt(2)>>))>>))>>), MkObj(<<M(98, JTrue)>>)>>),
         MkObj(<<M(98, MkObj(<<M(97, MkObj(<<M(98, JArr(<<MkObj(<<M(97, JInt(1))>>)>>))>>)), M(98, JInt(0))>>))>>)>>),
  \* 15: the first element that satisfies a predicate lacks the field asked for next; null elements; a false-like member first
  MkObj(<<M(97, JArr(<<MkObj(<<M(98, JTrue)>>), MkObj(<<M(97, JInt(0)), M(98, JFalse)>>), MkObj(<<M(97, MkObj(<<M(97, JInt(1)), M(98, JArr(<<JInt(2)>>))>>)), M(98, JInt(1))>>),
                      JNull, MkObj(<<M(97, JArr(<<JInt(7), JNull, JInt(8)>>)), M(98, JArr(<<JInt(1)>>))>>)>>)),
          M(98, JArr(<<JNull, MkObj(<<M(97, JNull), M(98, JInt(3))>>), MkObj(<<M(97, JInt(4))>>)>>))>>) >>

(* operator chains: a primary followed by up to N postfix operators, every sequence of them, optionally under "!" *)
Postfix == {<<"Dot", "Ident">>, <<"Lbracket", "Num", "Rbracket">>, <<"Lbracket", "Star", "Rbracket">>, <<"Flatten">>,
            <<"Filter", "Ident", "Rbracket">>, <<"Lbracket", "Num", "Colon", "Rbracket">>, <<"Dot", "Star">>,
            <<"Dot", "Lbrace", "Ident", "Colon", "Ident", "Rbrace">>,
            \* a pipe as one more link (the projection ends there), a hash with two keys, a predicate that holds a projection
            <<"Pipe", "Lbracket", "Num", "Rbracket">>, <<"Pipe", "At">>, <<"Pipe", "Ident">>,
            <<"Dot", "Lbrace", "QIdent", "Colon", "Ident", "Comma", "Ident", "Colon", "Ident", "Rbrace">>,
            <<"Filter", "Ident", "Lbracket", "Star", "Rbracket", "Rbracket">>, <<"Filter", "Not", "Ident", "Rbracket">>,
            <<"Or", "Ident">>, <<"And", "Ident">>, <<"Cmp", "Ident">>}
CorePostfix == {<<"Dot", "Ident">>, <<"Lbracket", "Num", "Rbracket">>, <<"Lbracket", "Star", "Rbracket">>, <<"Flatten">>,
                <<"Filter", "Ident", "Rbracket">>, <<"Lbracket", "Num", "Colon", "Rbracket">>, <<"Dot", "Star">>,
                <<"Dot", "Lbrace", "Ident", "Colon", "Ident", "Rbrace">>}
(* IOEnv.LINKS = "core": the eight plain postfix operators only (so that one more level stays enumerable) *)
Links == IF "LINKS" \in DOMAIN IOEnv /\ IOEnv.LINKS = "core" THEN CorePostfix ELSE Postfix
RECURSIVE ChainsOf(_)
ChainsOf(n) == IF n = 0 THEN {<<>>} ELSE LET c == ChainsOf(n - 1) IN c \cup {x \o p : x \in {y \in c : TRUE}, p \in Links}
ChainKinds(zzdummy) == LET cs == ChainsOf(N) \ {<<>>}
              IN {<<"Ident">> \o c : c \in cs} \cup {<<"At">> \o c : c \in cs} \cup {<<"Not", "Ident">> \o c : c \in cs}
                 \cup {<<"Lbracket", "Num", "Rbracket">> \o c : c \in ChainsOf(N - 1) \ {<<>>}}        \* a bare index first
ChainCases(zzdummy) ==
  LET all == SetToSeq(ChainKinds(0))
      pairs == SetToSeq({<<i, d, j>> : i \in DOMAIN all, d \in {2, 13, 14, 15}, j \in {0, 1}})   \* both assignments of the names a / b
  IN [x \in DOMAIN pairs |-> [e |-> "eval", text |-> Spell(Toks(all[pairs[x][1]], pairs[x][3]), "tight", 0), d |-> pairs[x][2]]]

(* filter predicates that are themselves chains (a projection, then a pipe / index / field / call that looks past its first result),
   nested filters whose inner predicate holds for null, each also under "!" and followed by one more link *)
PredLinks == {<<"Dot", "Ident">>, <<"Lbracket", "Num", "Rbracket">>, <<"Lbracket", "Star", "Rbracket">>, <<"Flatten">>, <<"Pipe", "Lbracket", "Num", "Rbracket">>,
              <<"Pipe", "At">>, <<"Lbracket", "Num", "Colon", "Rbracket">>, <<"Filter", "Not", "At", "Rbracket">>, <<"Filter", "At", "Cmp", "Lit", "Rbracket">>,
              <<"Filter", "Ident", "Rbracket">>, <<"Dot", "Star">>}
PredChains == LET one == {<<"Ident">> \o p : p \in PredLinks} \cup {<<"At">> \o p : p \in PredLinks}
              IN one \cup {x \o p : x \in one, p \in PredLinks}
PredTails == {<<>>, <<"Dot", "Ident">>, <<"Lbracket", "Num", "Rbracket">>, <<"Pipe", "Lbracket", "Num", "Rbracket">>, <<"Lbracket", "Star", "Rbracket">>}
PredKinds(zzdummy) ==
  {st \o <<"Filter">> \o neg \o p \o <<"Rbracket">> \o tl : st \in {<<"Ident">>, <<"At">>}, neg \in {<<>>, <<"Not">>}, p \in PredChains, tl \in PredTails}
  \cup {<<"Not", "Lparen", "Ident", "Filter">> \o p \o <<"Rbracket", "Rparen">> : p \in PredChains}
PredCases(zzdummy) ==
  LET all == SetToSeq(PredKinds(0))
      pairs == SetToSeq({<<i, d, j>> : i \in DOMAIN all, d \in {13, 15}, j \in {0, 1}})        \* both assignments of the names a / b
  IN [x \in DOMAIN pairs |-> [e |-> "eval", text |-> Spell(Toks(all[pairs[x][1]], pairs[x][3]), "tight", 0), d |-> pairs[x][2]]]

NoAmp(s) == \A i \in DOMAIN s : s[i] # "Amp"

SentCases(zzdummy) ==
  LET G == Sets(N)
      all == SetToSeq({s \in UNION {G.E[n] : n \in LO..N} : NoAmp(s)})
      trip == SetToSeq({<<i, j, d>> : i \in DOMAIN all, j \in 0..(ASSIGN - 1), d \in 1..NDOCS})
  IN [x \in DOMAIN trip |-> [e |-> "eval", text |-> Spell(Toks(all[trip[x][1]], trip[x][2]), "spaced", trip[x][2] % 2),
                             d |-> trip[x][3]]]

SpellCases(zzdummy) ==
  LET ps == ndJsonDeserialize(IOEnv.IN)
  IN [i \in DOMAIN ps |-> [e |-> "eval", text |-> Spell(ps[i].toks, "spaced", 0), doc |-> ps[i].doc]]

Cases(zzdummy) == IF IOEnv.MODE = "sent" THEN SentCases(0) ELSE IF IOEnv.MODE = "chains" THEN ChainCases(0)
                  ELSE IF IOEnv.MODE = "preds" THEN PredCases(0) ELSE SpellCases(0)
ASSUME ndJsonSerialize(IOEnv.OUT, Cases(0))
ASSUME ndJsonSerialize(IOEnv.OUT \o ".docs", <<[docs |-> DocPool]>>)
=============================================================================
