----------------------------- MODULE Gen_LexVal -----------------------------
(***************************************************************************)
(* spec -> impl cases for C09: spellings of raw strings, JSON literals,    *)
(* quoted and unquoted identifiers, and malformed forms.  Each case says   *)
(* what the spelling must denote (want) -- by the spelling rule of         *)
(* LexVal.tla, not by lexing -- or that it must be rejected (kind "bad").  *)
(*  MODE "enum"  : every string of 0..N characters over the alphabet       *)
(*  MODE "spell" : strings read from IOEnv.IN (random, all planes)         *)
(***************************************************************************)
EXTENDS LexVal, Json, IOUtils, TLC, SequencesExt

N == CHOOSE n \in 0..16 : ToString(n) = IOEnv.N
Alpha == {97, cSQUOTE, cBTICK, cDQUOTE, cBSLASH, cSPACE, cNL, 233, 128512, 47, 13, 117}      \* (13: CR next to LF; 117: a "u" behind a backslash)

Marker == JInt(1)
Other  == JInt(2)
(* an object with the member named k and near-misses: k with a letter appended, the undecoded JSON spelling of k *)
KeyDoc(k) == MkObj(<<JMem(k, Marker), JMem(k \o <<97>>, Other), JMem(JsonStrBody(k) \o <<98>>, Other), JMem(<<122>> \o k, Other)>>)

PadLit(v, pre, post) == <<cBTICK>> \o pre \o EscDelim(JsonText(v), cBTICK) \o post \o <<cBTICK>>
CasesOf(s) ==
  (IF Spellable(s) THEN <<[e |-> "lexval", kind |-> "raw", text |-> SpellRaw(s), doc |-> JNull, want |-> JStr(s)]>> ELSE <<>>)
  \o <<[e |-> "lexval", kind |-> "lit", text |-> SpellLit(JStr(s)), doc |-> JNull, want |-> JStr(s)],
       [e |-> "lexval", kind |-> "lit", text |-> SpellLit(JArr(<<JStr(s), JNull>>)), doc |-> JNull, want |-> JArr(<<JStr(s), JNull>>)],
       [e |-> "lexval", kind |-> "lit", text |-> SpellLit(MkObj(<<JMem(s, JStr(s))>>)), doc |-> JNull, want |-> MkObj(<<JMem(s, JStr(s))>>)],
       \* JSON blanks (space, tab, LF, CR) around the value inside the backticks, with and without an escaped backtick in the value
       [e |-> "lexval", kind |-> "lit", text |-> PadLit(JStr(s), <<cSPACE>>, <<>>), doc |-> JNull, want |-> JStr(s)],
       [e |-> "lexval", kind |-> "lit", text |-> PadLit(JStr(s), <<cNL, 9>>, <<13, cSPACE>>), doc |-> JNull, want |-> JStr(s)],
       [e |-> "lexval", kind |-> "lit", text |-> PadLit(JArr(<<JStr(<<120>>), JStr(s)>>), <<9>>, <<cNL>>), doc |-> JNull, want |-> JArr(<<JStr(<<120>>), JStr(s)>>)],
       [e |-> "lexval", kind |-> "lit", text |-> PadLit(MkObj(<<JMem(s, JNull)>>), <<13, cNL>>, <<>>), doc |-> JNull, want |-> MkObj(<<JMem(s, JNull)>>)],
       [e |-> "lexval", kind |-> "lit", text |-> PadLit(JStr(s), <<>>, <<cSPACE, cSPACE>>), doc |-> JNull, want |-> JStr(s)],
       [e |-> "lexval", kind |-> "qid", text |-> SpellQ(s, 0), doc |-> KeyDoc(s), want |-> Marker],
       [e |-> "lexval", kind |-> "qid", text |-> SpellQ(s, 1), doc |-> KeyDoc(s), want |-> Marker],
       [e |-> "lexval", kind |-> "qid", text |-> SpellQ(s, 2), doc |-> KeyDoc(s), want |-> Marker],
       [e |-> "lexval", kind |-> "bad", text |-> <<cDQUOTE>> \o JsonStrBody(s), doc |-> JNull, want |-> JNull],
       [e |-> "lexval", kind |-> "bad", text |-> <<cBTICK>> \o EscDelim(JsonText(JStr(s)), cBTICK), doc |-> JNull, want |-> JNull],
       [e |-> "lexval", kind |-> "bad", text |-> <<cDQUOTE>> \o JsonStrBody(s) \o <<cBSLASH, 117, 100, 56, 48, 48, cDQUOTE>>, doc |-> JNull, want |-> JNull],
       [e |-> "lexval", kind |-> "bad", text |-> <<cDQUOTE>> \o JsonStrBody(s) \o <<cBSLASH, 120, cDQUOTE>>, doc |-> JNull, want |-> JNull]>>
  \o (IF Spellable(s) THEN <<[e |-> "lexval", kind |-> "bad", text |-> <<cSQUOTE>> \o EscDelim(s, cSQUOTE), doc |-> JNull, want |-> JNull]>> ELSE <<>>)

Idents == {<<97>>, <<65>>, <<95>>, <<97, 49>>, <<95, 97>>, <<97, 98>>, <<97, 66>>, <<97, 95, 49>>, <<90, 122, 48, 57>>}
UidCases(zzdummy) == LET ids == SetToSeq(Idents)
            IN [i \in DOMAIN ids |-> [e |-> "lexval", kind |-> "uid", text |-> ids[i], doc |-> KeyDoc(ids[i]), want |-> Marker]]

RECURSIVE Flat(_)
Flat(ss) == IF ss = <<>> THEN <<>> ELSE Head(ss) \o Flat(Tail(ss))

(* JSON literals that are numbers or keywords: a text the JSON reader of the specification accepts denotes its value, every other text
   is rejected (signs, leading zeros, blanks that are not JSON blanks) *)
ScalarTexts == << <<49>>, <<43, 49>>, <<48, 48, 55>>, <<45, 48, 49>>, <<48, 48>>, <<45, 48>>, <<48>>, <<49, 46>>, <<46, 53>>, <<49, 101>>, <<49, 69, 50>>, <<49, 46, 53>>,
                 <<45, 49, 46, 50, 53>>, <<49, 95, 48>>, <<48, 120, 49>>, <<49, 32>>, <<32, 49>>, <<12, 49>>, <<49, 12>>, <<11, 116, 114, 117, 101>>, <<160, 49>>, <<116, 114, 117, 101>>,
                 <<84, 114, 117, 101>>, <<110, 117, 108, 108>>, <<110, 117, 108>>, <<102, 97, 108, 115, 101, 32>>, <<133, 110, 117, 108, 108>>, <<8232, 49>>, <<49, 50, 51, 52, 53>>,
                 <<45>>, <<43>>, <<49, 43, 49>>, <<78, 97, 78>>, <<73, 110, 102, 105, 110, 105, 116, 121>>, <<9, 10, 13, 32, 55, 32, 13, 10, 9>> >>
ScalarCases(zzdummy) ==
  [i \in DOMAIN ScalarTexts |->
     LET p == JsonParse(ScalarTexts[i]) IN
     IF p.ok /\ p.dom THEN [e |-> "lexval", kind |-> "lit", text |-> <<cBTICK>> \o ScalarTexts[i] \o <<cBTICK>>, doc |-> JNull, want |-> p.v]
     ELSE [e |-> "lexval", kind |-> "bad", text |-> <<cBTICK>> \o ScalarTexts[i] \o <<cBTICK>>, doc |-> JNull, want |-> JNull]]
(* quoted identifiers with malformed \\u escapes: surrogates that do not pair up, too few hex digits *)
BadEscapes == << <<cBSLASH, 117, 100, 56, 51, 100, cBSLASH, 117, 101, 48, 48, 48>>, <<cBSLASH, 117, 100, 56, 51, 100, cBSLASH, 117, 102, 102, 102, 102>>,
                <<cBSLASH, 117, 100, 56, 51, 100, cBSLASH, 117, 100, 56, 51, 100>>, <<cBSLASH, 117, 100, 56, 51, 100, cBSLASH, 117, 48, 48, 52, 49>>,
                <<cBSLASH, 117, 100, 99, 48, 48>>, <<cBSLASH, 117, 100, 56, 51, 100>>, <<cBSLASH, 117, 48, 48, 52>>, <<cBSLASH, 117, 48, 48, 103, 49>>,
                <<cBSLASH, 117, 100, 56, 51, 100, 97>>, <<cBSLASH, 117, 100, 56, 51, 100, cBSLASH, 110>>, <<cBSLASH, 85, 48, 48, 52, 49>> >>
RECURSIVE RepSeq(_, _), NestArr(_)
RepSeq(s, n) == IF n = 0 THEN <<>> ELSE s \o RepSeq(s, n - 1)
NestArr(n) == IF n = 0 THEN JArr(<<>>) ELSE JArr(<<NestArr(n - 1)>>)
DeepLitCases(zzdummy) ==
  [i \in 1..3 |-> LET d == <<64, 127, 128>>[i] IN
     \* observed through length(..) so that no deeply nested value has to travel through the interchange files
     [e |-> "lexval", kind |-> "lit", text |-> <<108, 101, 110, 103, 116, 104, 40, cBTICK>> \o RepSeq(<<91>>, d) \o RepSeq(<<93>>, d) \o <<cBTICK, 41>>, doc |-> JNull, want |-> JInt(1)]]
BadEscapeCases(zzdummy) ==
  [i \in DOMAIN BadEscapes |-> [e |-> "lexval", kind |-> "bad", text |-> <<cDQUOTE, 97>> \o BadEscapes[i] \o <<cDQUOTE>>, doc |-> JNull, want |-> JNull]]
  \o [i \in DOMAIN BadEscapes |-> [e |-> "lexval", kind |-> "bad", text |-> <<cBTICK, cDQUOTE>> \o BadEscapes[i] \o <<cDQUOTE, cBTICK>>, doc |-> JNull, want |-> JNull]]

(* runs of 0..7 backslashes directly before a closing (or an escaped) delimiter in all three quoted forms: a backslash takes the NEXT
   character with it, so even runs leave the delimiter alone and odd runs escape it.  What each text denotes is what the lexer model
   says (kind "lex"): the value, or a parse error. *)
RunDoc == MkObj([k \in 1..6 |-> JMem(<<97>> \o RepSeq(<<cBSLASH>>, k - 1), JInt(k - 1))] \o <<JMem(<<97, cDQUOTE, 98>>, JInt(10)), JMem(<<97, cBSLASH, cDQUOTE, 98>>, JInt(11)),
                                                                                            JMem(<<97, cBSLASH, cBSLASH, cDQUOTE, 98>>, JInt(12))>>)
RunTexts(n) == LET bs == RepSeq(<<cBSLASH>>, n) IN
  << <<cSQUOTE, 97>> \o bs \o <<cSQUOTE>>, <<cSQUOTE, 97>> \o bs \o <<cSQUOTE, 98, cSQUOTE>>, <<cSQUOTE>> \o bs \o <<cSQUOTE>>,
     <<cDQUOTE, 97>> \o bs \o <<cDQUOTE>>, <<cDQUOTE, 97>> \o bs \o <<cDQUOTE, 98, cDQUOTE>>,
     <<cBTICK, cDQUOTE, 97>> \o bs \o <<cDQUOTE, cBTICK>>, <<cBTICK, cDQUOTE, 97>> \o bs \o <<cBTICK, 98, cDQUOTE, cBTICK>>,
     <<cBTICK, cDQUOTE, 97>> \o bs \o <<cDQUOTE, 98, cDQUOTE, cBTICK>>,
     <<91, cSQUOTE, 97>> \o bs \o <<cSQUOTE, 44, 32, cSQUOTE, 122, cSQUOTE, 93>>,                       \* ['a\..\', 'z']
     <<97, 32, 61, 61, 32, cSQUOTE, 97>> \o bs \o <<cSQUOTE>> >>                                          \* a == 'a\..\'
RunCases(zzdummy) == Flat([n \in 1..8 |-> [i \in DOMAIN RunTexts(n - 1) |-> [e |-> "lexval", kind |-> "lex", text |-> RunTexts(n - 1)[i], doc |-> RunDoc, want |-> JNull]]])
(* an unquoted identifier is ASCII letters, digits and underscores: a character of another plane whose LOW BYTE is one of those is not *)
UidTails == {256 * k + low : k \in {1, 2, 78, 255, 256, 500}, low \in {48, 57, 65, 90, 95, 97, 122}} \cup {353, 321, 20016, 128097, 170, 181, 186, 8490, 65313, 65345}
UidBadCases(zzdummy) == LET ts == SetToSeq(UidTails) IN
  Flat([i \in DOMAIN ts |-> << [e |-> "lexval", kind |-> "bad", text |-> <<97, ts[i]>>, doc |-> JNull, want |-> JNull],
                                [e |-> "lexval", kind |-> "bad", text |-> <<102, 111, 111, 95, 49, ts[i], 98>>, doc |-> JNull, want |-> JNull],
                                [e |-> "lexval", kind |-> "bad", text |-> <<ts[i], 97>>, doc |-> JNull, want |-> JNull],
                                [e |-> "lexval", kind |-> "bad", text |-> <<64, 46, 97, ts[i]>>, doc |-> JNull, want |-> JNull] >>])

EnumCases(zzdummy) == LET all == SetToSeq(UNION {[1..n -> Alpha] : n \in 0..N}) IN Flat([i \in DOMAIN all |-> CasesOf(all[i])]) \o UidCases(0) \o ScalarCases(0) \o BadEscapeCases(0) \o DeepLitCases(0) \o RunCases(0) \o UidBadCases(0)
SpellCases(zzdummy) == LET ps == ndJsonDeserialize(IOEnv.IN) IN Flat([i \in DOMAIN ps |-> CasesOf(ps[i].s)])

ASSUME ndJsonSerialize(IOEnv.OUT, IF IOEnv.MODE = "enum" THEN EnumCases(0) ELSE SpellCases(0))
=============================================================================
