------------------------------ MODULE Gen_Call ------------------------------
(***************************************************************************)
(* spec -> impl cases for built-in function calls (C02, C06).              *)
(*  MODE "sig"  : the signature decision table: every function x argument  *)
(*                count 0..declared+2 (capped at MAXAR) x every            *)
(*                combination of the 10 argument type classes, arguments   *)
(*                written as literals (VIA = "lit") or taken from the      *)
(*                document (VIA = "doc"); plus an unregistered name        *)
(*  MODE "val"  : per-function value domains (arrays of length 0..LEN over *)
(*                small pools, strings over code points of 1..4 bytes,     *)
(*                objects, stability families of length 16..64)            *)
(* A case is [e, text, doc]; the judge lexes the text, so nothing here is  *)
(* trusted by it.                                                          *)
(***************************************************************************)
EXTENDS Eval, Spell, Json, IOUtils, TLC

NumOf(name) == CHOOSE n \in 0..99 : ToString(n) = name
MAXAR == NumOf(IOEnv.MAXAR)
LEN == NumOf(IOEnv.LEN)

(* ---------- spelling ---------- *)
Letter(i) == <<96 + i>>                      \* a, b, c, d
ArgText(arg, i, via) ==
  IF arg.t = "expref" THEN <<cAMP, cAT>>
  ELSE IF via = "doc" THEN Letter(i)
  ELSE LitText(arg, 1)
CallText(fname, args, via) ==
  fname \o <<cLPAREN>> \o JoinWith([i \in DOMAIN args |-> ArgText(args[i], i, via)], <<cCOMMA, cSPACE>>) \o <<cRPAREN>>
DocOf(args, via) ==
  IF via = "doc" THEN MkObj([i \in DOMAIN args |-> JMem(Letter(i), IF args[i].t = "expref" THEN JNull ELSE args[i])])
  ELSE MkObj(<<JMem(Letter(1), JInt(7))>>)
Case(tag, fname, args, via) == [e |-> tag, text |-> CallText(fname, args, via), doc |-> DocOf(args, via)]

(* ---------- MODE sig ---------- *)
ObjA == MkObj(<<JMem(<<97>>, JInt(1))>>)
Classes == <<JNull, JTrue, JInt(1), JStr(<<97>>), JArr(<<>>), JArr(<<JInt(1), JInt(2)>>), JArr(<<JStr(<<97>>), JStr(<<98>>)>>),
             JArr(<<JInt(1), JStr(<<97>>)>>), ObjA, JExpref(AIdentity)>>
ClassSet == {Classes[i] : i \in DOMAIN Classes}
(* two calls on the same array node (arrays of 16 and 17 elements among them): the second call must decide on its own *)
Long(x(_), n) == JArr([i \in 1..n |-> x(i)])
PairArrs == <<Long(LAMBDA i : JStr(<<96 + (i % 5) + 1>>), 16), Long(LAMBDA i : JInt((i * 7) % 5), 16), Long(LAMBDA i : JStr(<<97>>), 17),
              Long(LAMBDA i : IF i = 17 THEN JStr(<<97>>) ELSE JInt(i), 17), Long(LAMBDA i : JInt(i), 3), Long(LAMBDA i : JStr(<<96 + i>>), 2)>>
PairFns == <<"max", "min", "sort", "sum", "avg", "length", "reverse", "to_array">>
PairText(f, g) == <<cLBRACKET>> \o NameCps(f) \o <<cLPAREN, 97, cRPAREN, cCOMMA>> \o NameCps(g) \o <<cLPAREN, 97, cRPAREN, cRBRACKET>>
PairCases(tag) ==
  LET cells == SetToSeq({<<f, g, x>> : f \in DOMAIN PairFns, g \in DOMAIN PairFns, x \in DOMAIN PairArrs})
  IN [i \in DOMAIN cells |-> [e |-> tag, text |-> PairText(PairFns[cells[i][1]], PairFns[cells[i][2]]),
                               doc |-> MkObj(<<JMem(<<97>>, PairArrs[cells[i][3]])>>)]]

(* a call as the right-hand side of a projection or as a filter predicate: it is applied to EVERY element, null elements included *)
ProjShapes == << <<<<97, cLBRACKET, cSTAR, cRBRACKET, cDOT>>, <<>>>>, <<<<97, cLBRACKET, cRBRACKET, cDOT>>, <<>>>>, <<<<97, cLBRACKET, cCOLON, cRBRACKET, cDOT>>, <<>>>>,
                <<<<97, cLBRACKET, cQMARK>>, <<cRBRACKET>>>>, <<<<98, cDOT, cSTAR, cDOT>>, <<>>>>, <<<<97, cLBRACKET, cQMARK, cBANG>>, <<cRBRACKET>>>>,
                <<<<109, 97, 112, cLPAREN, cAMP>>, <<cCOMMA, 97, cRPAREN>>>> >>
ProjElems == <<JInt(3), JNull, JInt(-4), JStr(<<120>>), JArr(<<JInt(1)>>), JTrue>>
ProjArrs == <<JArr(<<JInt(3), JNull, JInt(-4)>>), JArr(<<JNull, JNull>>), JArr(<<JNull>>), JArr(<<JStr(<<120>>), JNull>>), JArr(<<JNull, JArr(<<JInt(1)>>)>>),
              JArr(<<JInt(3), JInt(-4)>>), JArr(<<>>), JArr(<<JNull, JInt(1), JNull, JStr(<<120>>)>>)>>
ProjCalls == <<"abs", "length", "keys", "to_array", "type", "not_null", "to_string", "ceil", "reverse", "sum", "nosuch">>
ProjCallText(g, nargs) == (IF g = "nosuch" THEN <<110, 111, 115, 117, 99, 104>> ELSE NameCps(g)) \o <<cLPAREN>>
                          \o (CASE nargs = 0 -> <<>> [] nargs = 1 -> <<cAT>> [] nargs = 2 -> <<cAT, cCOMMA, cAT>>) \o <<cRPAREN>>
ProjCallCases(zzdummy) ==
  LET cells == SetToSeq({<<sh, g, n, x>> : sh \in DOMAIN ProjShapes, g \in DOMAIN ProjCalls, n \in 0..2, x \in DOMAIN ProjArrs})
  IN [i \in DOMAIN cells |-> [e |-> "sig", text |-> ProjShapes[cells[i][1]][1] \o ProjCallText(ProjCalls[cells[i][2]], cells[i][3]) \o ProjShapes[cells[i][1]][2],
                               doc |-> MkObj(<<JMem(<<97>>, ProjArrs[cells[i][4]]), JMem(<<98>>, MkObj(<<JMem(<<120>>, ProjArrs[cells[i][4]]), JMem(<<121>>, JNull)>>))>>)]]
(* by-functions and map whose expression reference contains a call: it must fail for whichever element it fails on (first, later, last) *)
ByCallFns == <<"sort_by", "max_by", "min_by", "map">>
ByCallRefs == << <<cAMP>> \o NameCps("abs") \o <<cLPAREN, cAT, cRPAREN>>, <<cAMP>> \o NameCps("length") \o <<cLPAREN, cAT, cRPAREN>>,
                 <<cAMP, 110, 111, 115, 117, 99, 104, cLPAREN, cAT, cRPAREN>>, <<cAMP>> \o NameCps("abs") \o <<cLPAREN, cRPAREN>>,
                 <<cAMP>> \o NameCps("to_number") \o <<cLPAREN, cAT, cRPAREN>> >>
ByCallElems == {JInt(-7), JInt(2), JStr(<<97, 98>>), JNull, JArr(<<JInt(1)>>)}
ByCallCases(zzdummy) ==
  LET arrs == SetToSeq({JArr(xs) : xs \in UNION {[1..n -> ByCallElems] : n \in 1..3}})
      cells == SetToSeq({<<g, rf, x>> : g \in DOMAIN ByCallFns, rf \in DOMAIN ByCallRefs, x \in DOMAIN arrs})
  IN [i \in DOMAIN cells |->
        LET g == ByCallFns[cells[i][1]] rf == ByCallRefs[cells[i][2]] IN
        [e |-> "sig", doc |-> MkObj(<<JMem(<<97>>, arrs[cells[i][3]])>>),
         text |-> NameCps(g) \o <<cLPAREN>> \o (IF g = "map" THEN rf \o <<cCOMMA, 97>> ELSE <<97, cCOMMA>> \o rf) \o <<cRPAREN>>]]

(* names that differ from a built-in's only in letter case, separators or a prefix / suffix are unknown functions *)
Upper(c) == IF c >= 97 /\ c <= 122 THEN c - 32 ELSE c
RECURSIVE Camel(_, _)
Camel(s, up) == IF s = <<>> THEN <<>> ELSE IF Head(s) = 95 THEN Camel(Tail(s), TRUE) ELSE <<IF up THEN Upper(Head(s)) ELSE Head(s)>> \o Camel(Tail(s), FALSE)
NoUnderscore(s) == SelectSeq(s, LAMBDA c : c # 95)
Misspellings(nm) == {Camel(nm, FALSE), Camel(nm, TRUE), [i \in DOMAIN nm |-> Upper(nm[i])], <<Upper(nm[1])>> \o Tail(nm), NoUnderscore(nm), nm \o <<95>>, <<95>> \o nm, nm \o <<115>>} \ {nm}
MisspeltCases(zzdummy) ==
  LET cells == SetToSeq(UNION {{<<m, FnNames[i]>> : m \in Misspellings(NameCps(FnNames[i]))} : i \in DOMAIN FnNames})
      known == {NameCps(FnNames[i]) : i \in DOMAIN FnNames}
      sel == SelectSeq(cells, LAMBDA c : c[1] \notin known)
      arg(f) == IF Len(Sig(f).ps) = 1 THEN <<cAT>> ELSE <<cAT, cCOMMA, cAMP, cAT>>
  IN [i \in DOMAIN sel |-> [e |-> "sig", text |-> sel[i][1] \o <<cLPAREN>> \o arg(sel[i][2]) \o <<cRPAREN>>, doc |-> JArr(<<JInt(1), JInt(2)>>)]]

Unknown == <<110, 111, 115, 117, 99, 104>>          \* "nosuch"
Arities(f) == 0..(IF Len(Sig(f).ps) + 2 > MAXAR THEN MAXAR ELSE Len(Sig(f).ps) + 2)
SigCases(zzdummy) ==
  LET cells == {<<f, args>> : f \in {FnNames[i] : i \in DOMAIN FnNames}, args \in UNION {[1..n -> ClassSet] : n \in 0..MAXAR}}
      ok == SetToSeq({c \in cells : Len(c[2]) \in Arities(c[1])})
      unk == SetToSeq(UNION {[1..n -> ClassSet] : n \in 0..2})
      \* by-functions: the expression reference's result type per element, uniform and mixed, arrays of 1 and 2 elements
      elems == {JNull, JTrue, JInt(1), JStr(<<97>>), JArr(<<>>), ObjA}
      byArrs == SetToSeq({JArr(xs) : xs \in UNION {[1..n -> elems] : n \in 1..2}})
      byFns == <<"sort_by", "max_by", "min_by">>
      \* runtimes of the caller's own: with nothing registered every built-in name is unknown; with the built-ins registered
      \* a fresh runtime decides like the default one
      oneArg == <<JInt(1), JStr(<<97>>), JArr(<<JInt(1), JInt(2)>>), ObjA>>
      own == [x \in 1..(Len(FnNames) * 4) |-> [f |-> FnNames[((x - 1) \div 4) + 1], a |-> oneArg[((x - 1) % 4) + 1]]]
  IN [i \in DOMAIN ok |-> Case("sig", NameCps(ok[i][1]), ok[i][2], IOEnv.VIA)]
     \o [i \in DOMAIN own |-> [e |-> "sig", text |-> CallText(NameCps(own[i].f), <<own[i].a>>, IOEnv.VIA), doc |-> DocOf(<<own[i].a>>, IOEnv.VIA), rt |-> "empty"]]
     \o [i \in DOMAIN own |-> [e |-> "sig", text |-> CallText(NameCps(own[i].f), <<own[i].a>>, IOEnv.VIA), doc |-> DocOf(<<own[i].a>>, IOEnv.VIA), rt |-> "fresh"]]
     \o [i \in DOMAIN FnNames |-> [e |-> "sig", text |-> CallText(NameCps(FnNames[i]), <<>>, IOEnv.VIA), doc |-> DocOf(<<>>, IOEnv.VIA), rt |-> "empty"]]
     \o PairCases("sig") \o ProjCallCases(0) \o ByCallCases(0) \o MisspeltCases(0)
     \o [i \in DOMAIN unk |-> Case("sig", Unknown, unk[i], IOEnv.VIA)]
     \o [x \in 1..(Len(byArrs) * 3) |-> Case("sig", NameCps(byFns[((x - 1) % 3) + 1]), <<byArrs[((x - 1) \div 3) + 1], JExpref(AIdentity)>>, IOEnv.VIA)]
     \o [x \in 1..Len(byArrs) |-> Case("sig", NameCps("map"), <<JExpref(AIdentity), byArrs[x]>>, IOEnv.VIA)]

(* ---------- MODE val ---------- *)
Seqs(S, n) == UNION {[1..m -> S] : m \in 0..n}
Nums == {JInt(-1), JInt(0), JInt(1), JNum(3, 2), JInt(2)}
MoreNums == Nums \cup {JNum(-1, 2), JNum(-3, 2), JNum(5, 2), JInt(-2), JNum(1, 2)}
EAC == 233  UF == 65535  GRIN == 128512
Strs == {JStr(<<>>), JStr(<<97>>), JStr(<<98>>), JStr(<<97, 98>>), JStr(<<EAC>>), JStr(<<UF>>), JStr(<<GRIN>>),
         JStr(<<97, EAC>>), JStr(<<GRIN, 97>>), JStr(<<98, 97>>)}
Chars == {97, 98, EAC, GRIN}
ShortStrs == {JStr(s) : s \in Seqs(Chars, 3)}
NumArrs == {JArr(s) : s \in Seqs(Nums, LEN)}
StrArrs == {JArr(s) : s \in Seqs({JStr(<<>>), JStr(<<97>>), JStr(<<98>>), JStr(<<EAC>>), JStr(<<UF>>), JStr(<<GRIN>>)}, 3)}
Mixed == {JNull, JTrue, JFalse, JInt(0), JInt(1), JStr(<<>>), JStr(<<97>>), JArr(<<>>), JArr(<<JInt(1)>>), ObjA, JObj(<<>>)}
MixArrs == {JArr(s) : s \in Seqs(Mixed, 2)}
KeyK == <<107>>   KeyI == <<105>>
Objs == {JObj(<<>>), ObjA, MkObj(<<JMem(<<97>>, JInt(2)), JMem(<<98>>, JNull)>>), MkObj(<<JMem(<<98>>, JStr(<<120>>))>>),
         MkObj(<<JMem(<<EAC>>, JInt(1)), JMem(<<UF>>, JInt(2)), JMem(<<GRIN>>, JInt(3)), JMem(<<97>>, JInt(4))>>)}
(* arrays of records {k: key, i: index} : distinguishable payloads, keys with ties *)
Rec(key, i) == MkObj(<<JMem(KeyK, key), JMem(KeyI, JInt(i))>>)
KeyPool == {JInt(0), JInt(1), JInt(2)}
RecArrs == {JArr([i \in DOMAIN ks |-> Rec(ks[i], i)]) : ks \in Seqs(KeyPool, LEN)}
        \cup {JArr([i \in DOMAIN ks |-> Rec(ks[i], i)]) : ks \in Seqs({JStr(<<97>>), JStr(<<EAC>>), JStr(<<UF>>), JStr(<<GRIN>>)}, 3)}
        \cup {JArr(<<Rec(JInt(1), 1), Rec(JStr(<<97>>), 2)>>), JArr(<<Rec(JNull, 1)>>), JArr(<<Rec(JInt(1), 1), MkObj(<<JMem(KeyI, JInt(2))>>)>>)}
(* stability families: length n, d distinct keys, arrangement a *)
Fam(n, d, a) ==
  LET key(i) == CASE a = 1 -> i % d                         \* interleaved
                  [] a = 2 -> IF i <= n \div 2 THEN 1 ELSE 0 \* two runs, descending
                  [] a = 3 -> (d - 1) - ((i * d) \div (n + 1)) \* descending blocks
                  [] a = 4 -> (i * i + 3 * i) % d            \* pseudo-random
                  [] a = 5 -> 0                              \* all equal
                  [] a = 6 -> IF i % 7 = 0 THEN 0 ELSE 1
  IN JArr([i \in 1..n |-> Rec(JInt(key(i)), i)])
Families == {Fam(n, d, a) : n \in {16, 33, 34, 40, 64}, d \in {2, 3}, a \in 1..6}
            \cup {Fam(n, 3, a) : n \in {191, 192, 257, 300}, a \in {1, 4, 6}}        \* beyond the sizes at which an implementation might split the work

ExprefK == JExpref(AField(KeyK))
ValText(fname, args) ==   \* like CallText via doc, but an expression reference is spelled &k
  fname \o <<cLPAREN>> \o JoinWith([i \in DOMAIN args |-> IF args[i].t = "expref" THEN <<cAMP, 107>> ELSE Letter(i)], <<cCOMMA>>) \o <<cRPAREN>>
VCase(f, args) == [e |-> "val", text |-> ValText(NameCps(f), args), doc |-> DocOf(args, "doc")]

ToNumStrs == {JStr(<<49>>), JStr(<<49, 46, 53>>), JStr(<<45, 50>>), JStr(<<32, 49>>), JStr(<<49, 32>>), JStr(<<97, 98, 99>>),
              JStr(<<34, 97, 34>>), JStr(<<91, 49, 93>>), JStr(<<116, 114, 117, 101>>), JStr(<<110, 117, 108, 108>>), JStr(<<>>),
              JStr(<<48, 49>>), JStr(<<49, 46>>), JStr(<<46, 53>>), JStr(<<123, 125>>), JStr(<<45>>), JStr(<<48>>), JStr(<<45, 48>>),
              \* every optional part of the JSON number grammar: 1e2 1E2 1e+2 1e-2 -2.5E+3 1.5e1 +1 1e+ 1e 1.e2 12e+2 0e0 0.0 -0.5 1E+0
              JStr(<<49, 101, 50>>), JStr(<<49, 69, 50>>), JStr(<<49, 101, 43, 50>>), JStr(<<49, 101, 45, 50>>), JStr(<<45, 50, 46, 53, 69, 43, 51>>),
              JStr(<<49, 46, 53, 101, 49>>), JStr(<<43, 49>>), JStr(<<49, 101, 43>>), JStr(<<49, 101>>), JStr(<<49, 46, 101, 50>>), JStr(<<49, 50, 101, 43, 50>>),
              \* JSON values that are not numbers behind JSON blanks (and numbers behind / before blanks): " true" "\t[1, 2]" " {}" " \"a\"" " null" "true " " 12" "12 " "\n1.5\n"
              JStr(<<32, 116, 114, 117, 101>>), JStr(<<9, 91, 49, 44, 32, 50, 93>>), JStr(<<32, 123, 125>>), JStr(<<32, 34, 97, 34>>), JStr(<<32, 110, 117, 108, 108>>),
              JStr(<<116, 114, 117, 101, 32>>), JStr(<<32, 49, 50>>), JStr(<<49, 50, 32>>), JStr(<<10, 49, 46, 53, 10>>), JStr(<<13, 102, 97, 108, 115, 101>>),
              JStr(<<48, 101, 48>>), JStr(<<48, 46, 48>>), JStr(<<45, 48, 46, 53>>), JStr(<<49, 69, 43, 48>>), JStr(<<49, 48, 48>>), JStr(<<49, 46, 50, 53>>)}
AnyVals == Mixed \cup {JNum(3, 2), JInt(-1), JArr(<<JInt(1), JStr(<<97>>), JNull>>)}

(* neighbouring doubles (JValue.tla): distinct numbers that the tolerant '==' identifies; ordering tells them apart *)
NearNums == {JInt(1), JNear(1, 1, 1), JNear(1, 1, 2), JNear(1, 1, 3), JNear(1, 1, -1), JNum(3, 10), JNear(3, 10, 1), JNear(3, 10, 2),
             JNear(-3, 10, 1), JNear(-3, 10, -1), JNear(-1, 1, 1), JNear(-1, 1, -1), JNear(2, 1, -1)}
Cluster == <<JInt(1), JNear(1, 1, 1), JNear(1, 1, 2), JNear(1, 1, 3), JNear(3, 10, 1)>>
ClusterSet == {Cluster[i] : i \in DOMAIN Cluster}
NearArrs == {JArr(s) : s \in Seqs(ClusterSet, 3)}
NearRecArrs == {JArr([i \in DOMAIN ks |-> Rec(ks[i], i)]) : ks \in Seqs(ClusterSet \ {JNear(3, 10, 1)}, 3)}
(* long arrays over a cluster of four neighbours (the sizes at which the standard sort changes algorithm) *)
NearFam(n, a) ==
  LET key(i) == CASE a = 1 -> Cluster[(i % 4) + 1] [] a = 2 -> Cluster[((i * i + 3 * i) % 4) + 1] [] a = 3 -> Cluster[4 - ((i * 7) % 4)]
                  [] a = 4 -> Cluster[(((i * 5) \div 3) % 4) + 1]
  IN [i \in 1..n |-> key(i)]
NearFamNums == {JArr(NearFam(n, a)) : n \in {20, 21, 24, 33, 64, 65}, a \in 1..4}
NearFamRecs == {JArr([i \in 1..n |-> Rec(NearFam(n, a)[i], i)]) : n \in {21, 33, 64}, a \in 1..4}

(* merge: three and four objects; a key held only by the earlier ones while a later one is the largest *)
KeyC3 == <<99>>  KeyD == <<100>>
Objs6 == {JObj(<<>>), ObjA, MkObj(<<JMem(<<97>>, JInt(2)), JMem(<<98>>, JNull)>>), MkObj(<<JMem(<<98>>, JStr(<<120>>))>>),
          MkObj(<<JMem(<<98>>, JInt(7)), JMem(KeyC3, JInt(8)), JMem(KeyD, JInt(9))>>),
          MkObj(<<JMem(<<97>>, JInt(5)), JMem(KeyC3, JInt(6)), JMem(KeyD, JNull), JMem(KeyK, JInt(0))>>)}

ValCells(zzdummy) ==
  {<<f, <<x>>>> : f \in {"abs", "ceil", "floor"}, x \in MoreNums}
  \cup {<<f, <<x>>>> : f \in {"avg", "sum", "max", "min", "sort", "reverse", "length", "to_array", "to_string"}, x \in NumArrs}
  \cup {<<f, <<x>>>> : f \in {"max", "min", "sort", "reverse", "length"}, x \in StrArrs}
  \cup {<<f, <<x>>>> : f \in {"reverse", "length", "to_string", "to_number", "type", "to_array"}, x \in ShortStrs}
  \cup {<<"contains", <<x, y>>>> : x \in MixArrs, y \in Mixed}
  \cup {<<f, <<x, y>>>> : f \in {"contains", "starts_with", "ends_with"}, x \in {JStr(s) : s \in Seqs({97, 98, EAC}, 3)}, y \in {JStr(s) : s \in Seqs({97, 98, EAC}, 2)}}
  \cup {<<"join", <<g, x>>>> : g \in {JStr(<<>>), JStr(<<44>>), JStr(<<EAC, 32>>)}, x \in StrArrs}
  \cup {<<f, <<x>>>> : f \in {"keys", "values", "length", "to_string", "to_array", "type"}, x \in Objs}
  \cup {<<"merge", <<x>>>> : x \in Objs} \cup {<<"merge", <<x, y>>>> : x \in Objs, y \in Objs}
  \cup {<<"merge", <<x, y, z>>>> : x \in {ObjA}, y \in Objs, z \in Objs}
  \cup {<<"merge", <<x, y, z>>>> : x \in Objs6, y \in Objs6, z \in Objs6}
  \cup {<<"merge", <<x, y, z, w>>>> : x \in {ObjA, JObj(<<>>)}, y \in Objs6, z \in {ObjA, MkObj(<<JMem(<<98>>, JStr(<<120>>))>>)}, w \in Objs6}
  \cup {<<f, <<x>>>> : f \in {"abs", "ceil", "floor", "to_number", "to_string", "type"}, x \in NearNums}
  \cup {<<f, <<x>>>> : f \in {"avg", "sum", "max", "min", "sort", "reverse", "length"}, x \in NearArrs \cup NearFamNums}
  \cup {<<"contains", <<x, y>>>> : x \in NearArrs, y \in ClusterSet}
  \cup {<<f, <<x, ExprefK>>>> : f \in {"sort_by", "max_by", "min_by"}, x \in NearRecArrs \cup NearFamRecs}
  \cup {<<"not_null", s>> : s \in Seqs({JNull, JFalse, JInt(0), JStr(<<>>), JArr(<<>>)}, 3) \ {<<>>}}
  \cup {<<f, <<x>>>> : f \in {"to_number"}, x \in ToNumStrs \cup AnyVals}
  \cup {<<f, <<x>>>> : f \in {"to_string", "type", "to_array"}, x \in AnyVals}
  \cup {<<f, <<x, ExprefK>>>> : f \in {"sort_by", "max_by", "min_by"}, x \in RecArrs \cup Families}
  \cup {<<"map", <<ExprefK, x>>>> : x \in RecArrs \cup {JArr(<<JInt(1), JNull, ObjA>>)}}

(* signed zeros: 0, -0, -0.0 and 0.0 are the same number (tied keys, stable order); documents as JSON text *)
ZeroTexts == << <<48>>, <<45, 48, 46, 48>>, <<45, 48>>, <<48, 46, 48>>, <<45, 49>>, <<49>> >>
ZeroRecs(ks) == <<cLBRACKET>> \o JoinWith([i \in DOMAIN ks |-> <<cLBRACE, 34, 107, 34, cCOLON>> \o ZeroTexts[ks[i]] \o <<cCOMMA, 34, 105, 34, cCOLON, 48 + i, cRBRACE>>], <<cCOMMA>>) \o <<cRBRACKET>>
ZeroNums(ks) == <<cLBRACKET>> \o JoinWith([i \in DOMAIN ks |-> ZeroTexts[ks[i]]], <<cCOMMA>>) \o <<cRBRACKET>>
ZeroCases(zzdummy) ==
  LET seqs == SetToSeq(UNION {[1..n -> 1..6] : n \in 2..4})
      byf == <<"sort_by", "max_by", "min_by">>
      plain == <<"sort", "max", "min", "reverse">>
      c1 == SetToSeq({<<g, q>> : g \in 1..3, q \in DOMAIN seqs})
      c2 == SetToSeq({<<g, q>> : g \in 1..4, q \in DOMAIN seqs})
  IN [i \in DOMAIN c1 |-> [e |-> "val", text |-> NameCps(byf[c1[i][1]]) \o <<cLPAREN, cAT, cCOMMA, cAMP, 107, cRPAREN>>, doctext |-> ZeroRecs(seqs[c1[i][2]])]]
     \o [i \in DOMAIN c2 |-> [e |-> "val", text |-> NameCps(plain[c2[i][1]]) \o <<cLPAREN, cAT, cRPAREN>>, doctext |-> ZeroNums(seqs[c2[i][2]])]]

ValCases(zzdummy) == LET cs == SetToSeq(ValCells(0)) IN [i \in DOMAIN cs |-> VCase(cs[i][1], cs[i][2])] \o PairCases("val") \o ZeroCases(0)

(* to_number's declared result (number | null) over every string shape, alone and fed to a function that refuses everything but containers and strings *)
ToNumSigCases(zzdummy) ==
  LET tn == SetToSeq(ToNumStrs)
  IN [i \in DOMAIN tn |-> [e |-> "sig", text |-> NameCps("to_number") \o <<cLPAREN, 97, cRPAREN>>, doc |-> MkObj(<<JMem(<<97>>, tn[i])>>)]]
     \o [i \in DOMAIN tn |-> [e |-> "sig", text |-> NameCps("length") \o <<cLPAREN>> \o NameCps("to_number") \o <<cLPAREN, 97, cRPAREN, cRPAREN>>,
                               doc |-> MkObj(<<JMem(<<97>>, tn[i])>>)]]
Cases(zzdummy) == IF IOEnv.MODE = "sig" THEN SigCases(0) \o ToNumSigCases(0) ELSE ValCases(0)
ASSUME ndJsonSerialize(IOEnv.OUT, Cases(0))
=============================================================================
