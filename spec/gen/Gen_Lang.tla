------------------------------ MODULE Gen_Lang ------------------------------
(***************************************************************************)
(* spec -> impl case export for the language engine (C03, C04, C05, C12).  *)
(*  MODE = "tokens" : every token-kind string of 1..N tokens, with         *)
(*                    positional payloads, spelled spaced / tight / mixed  *)
(*  MODE = "near"   : every one-token insertion into a sentence of exactly  *)
(*                    N tokens (near-misses one token beyond "tokens")     *)
(*  MODE = "chars"  : every character string of 1..N characters over the   *)
(*                    alphabet ALPHA ("full" or "small")                   *)
(*  MODE = "sent"   : every ABNF sentence of 1..N tokens with its          *)
(*                    parenthesised spelling and three documents           *)
(*  MODE = "spell"  : token sequences read from IOEnv.IN (random, drawn by *)
(*                    the driver), spelled here, with parenthesised form   *)
(***************************************************************************)
EXTENDS Grammar, Paren, Spell, Json, IOUtils, TLC

N == CHOOSE n \in 0..16 : ToString(n) = IOEnv.N

OpAt(i) == <<"eq", "ne", "lt", "le", "gt", "ge">>[(i % 6) + 1]
Def(k, i) == CASE k = "Ident" -> TIdent(<<96 + i>>) [] k = "QIdent" -> TQIdent(<<64 + i>>)
               [] k = "Num" -> TNum(IF i % 2 = 0 THEN i ELSE -i)
               [] k = "Lit" -> TLit(IF i % 2 = 0 THEN JInt(i) ELSE JStr(<<48 + i>>))
               [] k = "Cmp" -> TCmpTok(OpAt(i)) [] OTHER -> TPlain(k)
Toks(ks) == [i \in DOMAIN ks |-> Def(ks[i], i)]

ModeAt(i) == <<"spaced", "tight", "mixed">>[(i % 3) + 1]

TokenCases(zzdummy) ==
  LET all == SetToSeq(UNION {[1..n -> Kinds] : n \in 1..N})
  IN [i \in DOMAIN all |-> [e |-> "lang", text |-> Spell(Toks(all[i]), ModeAt(i), i % 2)]]

(* near-misses: every string obtained from a sentence of exactly N tokens by inserting one token (N+1 tokens:
   beyond the exhaustive token enumeration), spelled like the token cases *)
InsTok(ks, i, k) == SubSeq(ks, 1, i - 1) \o <<k>> \o SubSeq(ks, i, Len(ks))
NearCases(zzdummy) ==
  LET G == Sets(N)
      S == SetToSeq(G.E[N])
      np == N + 1
      nk == Len(KindSeq)
      total == Len(S) * np * nk
      \* x - 1 = ((si - 1) * np + (pi - 1)) * nk + (ki - 1): no big set is built (duplicates are harmless)
      si(x) == ((x - 1) \div (np * nk)) + 1
      pi(x) == (((x - 1) \div nk) % np) + 1
      ki(x) == ((x - 1) % nk) + 1
  IN [x \in 1..total |-> [e |-> "lang", text |-> Spell(Toks(InsTok(S[si(x)], pi(x), KindSeq[ki(x)])), ModeAt(x), x % 2)]]

Full  == <<97, 98, 48, 49, 45, 46, 42, 91, 93, 63, 124, 38, 64, 123, 125, 40, 41, 44, 58, 61, 60, 62, 33,
           39, 34, 96, 92, 32, 233>>
Small == <<97, 49, 45, 46, 91, 93, 42, 124, 38, 61, 33, 39, 34, 96, 92, 32, 40, 41, 44, 58>>
(* for error coordinates (C12): failing texts with multi-byte characters and newlines before the error position *)
ErrAlpha == <<97, 46, 91, 61, 233, 128512, 10, 34, 39, 32>>
Alpha == IF IOEnv.ALPHA = "full" THEN Full ELSE IF IOEnv.ALPHA = "err" THEN ErrAlpha ELSE Small
CharCases(zzdummy) ==
  LET A == {Alpha[i] : i \in DOMAIN Alpha}
      all == SetToSeq(UNION {[1..n -> A] : n \in 1..N})
  IN [i \in DOMAIN all |-> [e |-> "lang", text |-> all[i]]]

(* documents against which an expression and its parenthesised spelling are compared *)
M(k, v) == JMem(<<k>>, v)
Leaf == MkObj(<<M(97, JInt(1)), M(98, JInt(2)), M(99, JStr(<<120>>)), M(101, JNull), M(102, JInt(0))>>)
Doc1 == MkObj(<<M(97, JArr(<<Leaf, JInt(3), JArr(<<Leaf, JInt(4)>>)>>)), M(98, Leaf), M(99, JArr(<<JInt(1), JInt(2), JInt(3)>>)),
                M(100, JFalse), M(101, JStr(<<>>)), M(102, JArr(<<>>)),
                M(65, Leaf), M(66, JArr(<<Leaf, JTrue>>)), M(67, JInt(5))>>)
Doc2 == JArr(<<Leaf, JArr(<<JInt(1), Leaf>>), JNull, JInt(7),
               MkObj(<<M(97, JArr(<<JArr(<<JInt(1)>>), JArr(<<JInt(2), JInt(3)>>)>>)), M(98, JInt(1)), M(65, JInt(1))>>)>>)
Docs == <<Doc1, Doc2>>

(* the documents are written once, to OUT.docs; the driver searches every case with a ptext against them *)
SentCase(ts, docs) == [e |-> "lang", text |-> Spell(ts, "spaced", 0),
                       ptext |-> Spell(Parenthesise(ts), "spaced", 0)]
SentCases(zzdummy) ==
  LET G == Sets(N)
      all == SetToSeq(UNION {G.E[n] : n \in 1..N})
      docs == Docs
  IN [i \in DOMAIN all |-> SentCase(Toks(all[i]), docs)]

(* operator chains: a primary followed by every sequence of 1..N postfix operators, also under "!" and as the
   right operand of a comparison (every pair and chain of postfix operators is juxtaposed) *)
Postfix == {<<"Dot", "Ident">>, <<"Lbracket", "Num", "Rbracket">>, <<"Lbracket", "Star", "Rbracket">>, <<"Flatten">>,
            <<"Filter", "Ident", "Rbracket">>, <<"Lbracket", "Num", "Colon", "Rbracket">>, <<"Dot", "Star">>,
            <<"Dot", "Lbrace", "Ident", "Colon", "Ident", "Rbrace">>, <<"Dot", "Lbracket", "Ident", "Rbracket">>}
RECURSIVE ChainsOf(_)
ChainsOf(n) == IF n = 0 THEN {<<>>} ELSE LET c == ChainsOf(n - 1) IN c \cup {x \o p : x \in c, p \in Postfix}
ChainKinds(zzdummy) == LET cs == ChainsOf(N) \ {<<>>}
              IN {<<"Ident">> \o c : c \in cs} \cup {<<"Not", "Ident">> \o c : c \in cs}
                 \cup {<<"At", "Cmp", "Ident">> \o c : c \in ChainsOf(N - 1) \ {<<>>}}
ChainCases(zzdummy) ==
  LET all == SetToSeq(ChainKinds(0)) docs == Docs
  IN [i \in DOMAIN all |-> SentCase(Toks(all[i]), docs)]

SpellCases(zzdummy) ==
  LET ps == ndJsonDeserialize(IOEnv.IN)
      docs == Docs
  IN [i \in DOMAIN ps |-> SentCase(ps[i].toks, docs)]

Cases(zzdummy) == CASE IOEnv.MODE = "tokens" -> TokenCases(0) [] IOEnv.MODE = "chars" -> CharCases(0) [] IOEnv.MODE = "near" -> NearCases(0)
           [] IOEnv.MODE = "sent" -> SentCases(0) [] IOEnv.MODE = "spell" -> SpellCases(0)
           [] IOEnv.MODE = "chains" -> ChainCases(0)

ASSUME ndJsonSerialize(IOEnv.OUT, Cases(0))
ASSUME ndJsonSerialize(IOEnv.OUT \o ".docs", <<[docs |-> Docs]>>)
=============================================================================
