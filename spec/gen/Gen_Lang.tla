------------------------------ MODULE Gen_Lang ------------------------------
(***************************************************************************)
(* spec -> impl case export for the language engine (C03, C04, C05, C12).  *)
(*  MODE = "tokens" : every token-kind string of 1..N tokens, with         *)
(*                    positional payloads, spelled spaced / tight / mixed  *)
(*  MODE = "near"   : every one-token insertion into a sentence of exactly  *)
(*                    N tokens (near-misses one token beyond "tokens")     *)
(*  MODE = "chars"  : every character string of 1..N characters over the   *)
(*                    alphabet ALPHA ("full" or "small")                   *)
(*  MODE = "sent"   : every ABNF sentence of 1..N tokens with its          *)
(*                    parenthesised spelling and three documents           *)
(*  MODE = "uni"    : Unicode class probes after token-starting characters  *)
(*  MODE = "numerals": number-token spellings (leading zeros, long digit  *)
(*                    runs, multi-digit negatives, 32-bit limits)         *)
(*  MODE = "spell"  : token sequences read from IOEnv.IN (random, drawn by *)
(*                    the driver), spelled here, with parenthesised form   *)
(***************************************************************************)
EXTENDS Grammar, Paren, Spell, Json, IOUtils, TLC

N == CHOOSE n \in 0..16 : ToString(n) = IOEnv.N

OpAt(i) == <<"eq", "ne", "lt", "le", "gt", "ge">>[(i % 6) + 1]
Def(k, i) == CASE k = "Ident" -> TIdent(<<96 + i>>) [] k = "QIdent" -> TQIdent(<<64 + i>>)
               [] k = "Num" -> TNum(IF i % 2 = 0 THEN i ELSE -i)
               [] k = "Lit" -> TLit(IF i % 2 = 0 THEN JInt(i) ELSE JStr(<<48 + i>>))
               [] k = "Cmp" -> TCmpTok(OpAt(i)) [] OTHER -> TPlain(k)
Toks(ks) == [i \in DOMAIN ks |-> Def(ks[i], i)]

ModeAt(i) == <<"spaced", "tight", "mixed">>[(i % 3) + 1]

TokenCases(zzdummy) ==
  LET all == SetToSeq(UNION {[1..n -> Kinds] : n \in 1..N})
  IN [i \in DOMAIN all |-> [e |-> "lang", text |-> Spell(Toks(all[i]), ModeAt(i), i % 2)]]

(* near-misses: every string obtained from a sentence of exactly N tokens by inserting one token (N+1 tokens:
   beyond the exhaustive token enumeration), spelled like the token cases *)
InsTok(ks, i, k) == SubSeq(ks, 1, i - 1) \o <<k>> \o SubSeq(ks, i, Len(ks))
NearCases(zzdummy) ==
  LET G == Sets(N)
      S == SetToSeq(G.E[N])
      np == N + 1
      nk == Len(KindSeq)
      total == Len(S) * np * nk
      \* x - 1 = ((si - 1) * np + (pi - 1)) * nk + (ki - 1): no big set is built (duplicates are harmless)
      si(x) == ((x - 1) \div (np * nk)) + 1
      pi(x) == (((x - 1) \div nk) % np) + 1
      ki(x) == ((x - 1) % nk) + 1
  IN [x \in 1..total |-> [e |-> "lang", text |-> Spell(Toks(InsTok(S[si(x)], pi(x), KindSeq[ki(x)])), ModeAt(x), x % 2)]]

Full  == <<97, 98, 48, 49, 45, 46, 42, 91, 93, 63, 124, 38, 64, 123, 125, 40, 41, 44, 58, 61, 60, 62, 33,
           39, 34, 96, 92, 32, 233>>
Small == <<97, 49, 45, 46, 91, 93, 42, 124, 38, 61, 33, 39, 34, 96, 92, 32, 40, 41, 44, 58>>
(* for error coordinates (C12): failing texts with multi-byte characters and newlines before the error position *)
ErrAlpha == <<97, 46, 91, 61, 233, 128512, 10, 34, 39, 32>>
Alpha == IF IOEnv.ALPHA = "full" THEN Full ELSE IF IOEnv.ALPHA = "err" THEN ErrAlpha ELSE Small
CharCases(zzdummy) ==
  LET A == {Alpha[i] : i \in DOMAIN Alpha}
      all == SetToSeq(UNION {[1..n -> A] : n \in 1..N})
  IN [i \in DOMAIN all |-> [e |-> "lang", text |-> all[i]]]

(* documents against which an expression and its parenthesised spelling are compared *)
M(k, v) == JMem(<<k>>, v)
Leaf == MkObj(<<M(97, JInt(1)), M(98, JInt(2)), M(99, JStr(<<120>>)), M(101, JNull), M(102, JInt(0))>>)
Doc1 == MkObj(<<M(97, JArr(<<Leaf, JInt(3), JArr(<<Leaf, JInt(4)>>)>>)), M(98, Leaf), M(99, JArr(<<JInt(1), JInt(2), JInt(3)>>)),
                M(100, JFalse), M(101, JStr(<<>>)), M(102, JArr(<<>>)),
                M(65, Leaf), M(66, JArr(<<Leaf, JTrue>>)), M(67, JInt(5))>>)
Doc2 == JArr(<<Leaf, JArr(<<JInt(1), Leaf>>), JNull, JInt(7),
               MkObj(<<M(97, JArr(<<JArr(<<JInt(1)>>), JArr(<<JInt(2), JInt(3)>>)>>)), M(98, JInt(1)), M(65, JInt(1))>>)>>)
Docs == <<Doc1, Doc2>>

(* the documents are written once, to OUT.docs; the driver searches every case with a ptext against them *)
SentCase(ts, docs) == [e |-> "lang", text |-> Spell(ts, "spaced", 0),
                       ptext |-> Spell(Parenthesise(ts), "spaced", 0)]
SentCases(zzdummy) ==
  LET G == Sets(N)
      all == SetToSeq(UNION {G.E[n] : n \in 1..N})
      docs == Docs
  IN [i \in DOMAIN all |-> SentCase(Toks(all[i]), docs)]

(* operator chains: a primary followed by every sequence of 1..N postfix operators, also under "!" and as the
   right operand of a comparison (every pair and chain of postfix operators is juxtaposed) *)
Postfix == {<<"Dot", "Ident">>, <<"Dot", "QIdent">>, <<"Lbracket", "Num", "Rbracket">>, <<"Lbracket", "Star", "Rbracket">>, <<"Flatten">>,
            <<"Filter", "Ident", "Rbracket">>, <<"Lbracket", "Num", "Colon", "Rbracket">>, <<"Dot", "Star">>,
            <<"Dot", "Lbrace", "Ident", "Colon", "Ident", "Rbrace">>, <<"Dot", "Lbracket", "Ident", "Rbracket">>}
RECURSIVE ChainsOf(_)
ChainsOf(n) == IF n = 0 THEN {<<>>} ELSE LET c == ChainsOf(n - 1) IN c \cup {x \o p : x \in c, p \in Postfix}
ChainKinds(zzdummy) == LET cs == ChainsOf(N) \ {<<>>}
              IN {<<"Ident">> \o c : c \in cs} \cup {<<"Not", "Ident">> \o c : c \in cs}
                 \cup {<<"At", "Cmp", "Ident">> \o c : c \in ChainsOf(N - 1) \ {<<>>}}
ChainCases(zzdummy) ==
  LET all == SetToSeq(ChainKinds(0)) docs == Docs
  IN [i \in DOMAIN all |-> SentCase(Toks(all[i]), docs)]

(* juxtapositions: two sentences of at most N tokens written one after the other, the first also inside parentheses -- mostly
   non-sentences (two operands without an operator, a call applied to a group), a few sentences (`a` `[0]`) *)
JuxtaCases(zzdummy) ==
  LET G == Sets(N)
      S == SetToSeq(UNION {G.E[n] : n \in 1..N})
      n == Len(S)
      si(x) == ((x - 1) \div n) + 1
      sj(x) == ((x - 1) % n) + 1
  IN [x \in 1..(n * n) |-> [e |-> "lang", text |-> Spell(Toks(S[si(x)] \o S[sj(x)]), ModeAt(x), x % 2)]]
     \o [x \in 1..(n * n) |-> [e |-> "lang", text |-> Spell(Toks(<<"Lparen">> \o S[si(x)] \o <<"Rparen">> \o S[sj(x)]), ModeAt(x), x % 2)]]

(* Unicode class probes: a character of a class that Unicode-aware predicates (is_numeric, is_alphabetic, is_whitespace) accept
   but the grammar does not, right after a character that starts a token; alone, continued, and inside the usual frames *)
Probe == <<1635, 178, 189, 9312, 65297, 120783, 3047, 65313, 233, 1072, 160, 12288, 8232, 133, 8203, 65279, 127, 128, 769, 8255>>
Entry == <<45, 49, 48, 97, 95, 34, 39, 96, 38, 124, 60, 61, 33, 91, 46, 64, 32, 42, 58, 44>>
Frames == << <<<<>>, <<>>>>, <<<<64, 91>>, <<93>>>>, <<<<97, 91>>, <<58, 93>>>>, <<<<97, 91, 58>>, <<93>>>>,
             <<<<97, 91, 63, 98, 32, 61, 61, 32>>, <<93>>>>, <<<<97, 46>>, <<>>>> >>
UniCases(zzdummy) ==
  LET cells == SetToSeq({<<c, u, f, k>> : c \in DOMAIN Entry, u \in DOMAIN Probe, f \in DOMAIN Frames, k \in 1..3})
      tail(c, k) == CASE k = 1 -> <<>> [] k = 2 -> <<53>> [] k = 3 -> <<Entry[c]>>
  IN [x \in DOMAIN cells |-> [e |-> "lang", text |-> Frames[cells[x][3]][1] \o <<Entry[cells[x][1]], Probe[cells[x][2]]>>
                                                     \o tail(cells[x][1], cells[x][4]) \o Frames[cells[x][3]][2]]]

(* number tokens: leading zeros, digit runs longer than the ten digits of 2^31, multi-digit negatives, the 32-bit limits *)
DigStrs == <<"0", "00", "01", "007", "0000000000", "00000000001", "00000000000", "00000000000000000003", "02147483647", "002147483647",
             "02147483648", "10", "11", "12", "13", "15", "19", "20", "21", "99", "100", "101", "110", "123", "1234567890",
             "2147483647", "2147483648", "999999999", "1000000000", "4294967296", "4294967297", "99999999999">>
DigCp(str) == CASE str = "0" -> <<48>> [] str = "00" -> <<48, 48>> [] str = "01" -> <<48, 49>> [] str = "007" -> <<48, 48, 55>>
  [] str = "0000000000" -> [i \in 1..10 |-> 48] [] str = "00000000001" -> [i \in 1..11 |-> IF i = 11 THEN 49 ELSE 48]
  [] str = "00000000000" -> [i \in 1..11 |-> 48] [] str = "00000000000000000003" -> [i \in 1..20 |-> IF i = 20 THEN 51 ELSE 48]
  [] str = "02147483647" -> <<48, 50, 49, 52, 55, 52, 56, 51, 54, 52, 55>> [] str = "002147483647" -> <<48, 48, 50, 49, 52, 55, 52, 56, 51, 54, 52, 55>>
  [] str = "02147483648" -> <<48, 50, 49, 52, 55, 52, 56, 51, 54, 52, 56>>
  [] str = "10" -> <<49, 48>> [] str = "11" -> <<49, 49>> [] str = "12" -> <<49, 50>> [] str = "13" -> <<49, 51>> [] str = "15" -> <<49, 53>>
  [] str = "19" -> <<49, 57>> [] str = "20" -> <<50, 48>> [] str = "21" -> <<50, 49>> [] str = "99" -> <<57, 57>> [] str = "100" -> <<49, 48, 48>>
  [] str = "101" -> <<49, 48, 49>> [] str = "110" -> <<49, 49, 48>> [] str = "123" -> <<49, 50, 51>>
  [] str = "1234567890" -> <<49, 50, 51, 52, 53, 54, 55, 56, 57, 48>> [] str = "2147483647" -> <<50, 49, 52, 55, 52, 56, 51, 54, 52, 55>>
  [] str = "2147483648" -> <<50, 49, 52, 55, 52, 56, 51, 54, 52, 56>> [] str = "999999999" -> [i \in 1..9 |-> 57]
  [] str = "1000000000" -> [i \in 1..10 |-> IF i = 1 THEN 49 ELSE 48] [] str = "4294967296" -> <<52, 50, 57, 52, 57, 54, 55, 50, 57, 54>>
  [] str = "4294967297" -> <<52, 50, 57, 52, 57, 54, 55, 50, 57, 55>> [] str = "99999999999" -> [i \in 1..11 |-> 57]
NumFrames == << <<<<64, 91>>, <<93>>>>, <<<<64, 91>>, <<58, 93>>>>, <<<<64, 91, 58>>, <<93>>>>, <<<<64, 91, 58, 58>>, <<93>>>>,
                <<<<97, 91>>, <<93, 46, 98>>>>, <<<<97, 91, 49, 58>>, <<58, 50, 93>>>>, <<<<>>, <<>>>>, <<<<97, 91, 63, 98, 60>>, <<93>>>> >>
NumeralCases(zzdummy) ==
  LET cells == SetToSeq({<<d, f, sg>> : d \in DOMAIN DigStrs, f \in DOMAIN NumFrames, sg \in 0..1})
  IN [x \in DOMAIN cells |-> [e |-> "lang", text |-> NumFrames[cells[x][2]][1] \o (IF cells[x][3] = 1 THEN <<45>> ELSE <<>>)
                                                     \o DigCp(DigStrs[cells[x][1]]) \o NumFrames[cells[x][2]][2]]]

SpellCases(zzdummy) ==
  LET ps == ndJsonDeserialize(IOEnv.IN)
      docs == Docs
  IN [i \in DOMAIN ps |-> SentCase(ps[i].toks, docs)]

Cases(zzdummy) == CASE IOEnv.MODE = "tokens" -> TokenCases(0) [] IOEnv.MODE = "chars" -> CharCases(0) [] IOEnv.MODE = "near" -> NearCases(0)
           [] IOEnv.MODE = "sent" -> SentCases(0) [] IOEnv.MODE = "spell" -> SpellCases(0)
           [] IOEnv.MODE = "chains" -> ChainCases(0) [] IOEnv.MODE = "juxta" -> JuxtaCases(0) [] IOEnv.MODE = "uni" -> UniCases(0) [] IOEnv.MODE = "numerals" -> NumeralCases(0)

ASSUME ndJsonSerialize(IOEnv.OUT, Cases(0))
ASSUME ndJsonSerialize(IOEnv.OUT \o ".docs", <<[docs |-> Docs]>>)
=============================================================================
