------------------------------ MODULE Gen_Lang ------------------------------
(***************************************************************************)
(* spec -> impl case export for the language engine (C03, C04, C05, C12).  *)
(*  MODE = "tokens" : every token-kind string of 1..N tokens, with         *)
(*                    positional payloads, spelled spaced / tight / mixed  *)
(*  MODE = "near"   : every one-token insertion into a sentence of exactly  *)
(*                    N tokens (near-misses one token beyond "tokens")     *)
(*  MODE = "chars"  : every character string of 1..N characters over the   *)
(*                    alphabet ALPHA ("full" or "small")                   *)
(*  MODE = "sent"   : every ABNF sentence of 1..N tokens with its          *)
(*                    parenthesised spelling and three documents           *)
(*  MODE = "uni"    : Unicode class probes after token-starting characters  *)
(*  MODE = "numerals": number-token spellings (leading zeros, long digit  *)
(*                    runs, multi-digit negatives, 32-bit limits)         *)
(*  MODE = "spell"  : token sequences read from IOEnv.IN (random, drawn by *)
(*                    the driver), spelled here, with parenthesised form   *)
(***************************************************************************)
EXTENDS Grammar, Paren, Spell, Json, IOUtils, TLC

N == CHOOSE n \in 0..16 : ToString(n) = IOEnv.N

OpAt(i) == <<"eq", "ne", "lt", "le", "gt", "ge">>[(i % 6) + 1]
Def(k, i) == CASE k = "Ident" -> TIdent(<<96 + i>>) [] k = "QIdent" -> TQIdent(<<64 + i>>)
               [] k = "Num" -> TNum(IF i % 2 = 0 THEN i ELSE -i)
               [] k = "Lit" -> TLit(IF i % 2 = 0 THEN JInt(i) ELSE JStr(<<48 + i>>))
               [] k = "Cmp" -> TCmpTok(OpAt(i)) [] OTHER -> TPlain(k)
Toks(ks) == [i \in DOMAIN ks |-> Def(ks[i], i)]

ModeAt(i) == <<"spaced", "tight", "mixed">>[(i % 3) + 1]

TokenCases(zzdummy) ==
  LET all == SetToSeq(UNION {[1..n -> Kinds] : n \in 1..N})
  IN [i \in DOMAIN all |-> [e |-> "lang", text |-> Spell(Toks(all[i]), ModeAt(i), i % 2)]]

(* near-misses: every string obtained from a sentence of exactly N tokens by inserting one token (N+1 tokens:
   beyond the exhaustive token enumeration), spelled like the token cases *)
InsTok(ks, i, k) == SubSeq(ks, 1, i - 1) \o <<k>> \o SubSeq(ks, i, Len(ks))
NearCases(zzdummy) ==
  LET G == Sets(N)
      S == SetToSeq(G.E[N])
      np == N + 1
      nk == Len(KindSeq)
      total == Len(S) * np * nk
      \* x - 1 = ((si - 1) * np + (pi - 1)) * nk + (ki - 1): no big set is built (duplicates are harmless)
      si(x) == ((x - 1) \div (np * nk)) + 1
      pi(x) == (((x - 1) \div nk) % np) + 1
      ki(x) == ((x - 1) % nk) + 1
  IN [x \in 1..total |-> [e |-> "lang", text |-> Spell(Toks(InsTok(S[si(x)], pi(x), KindSeq[ki(x)])), ModeAt(x), x % 2)]]

Full  == <<97, 98, 48, 49, 45, 46, 42, 91, 93, 63, 124, 38, 64, 123, 125, 40, 41, 44, 58, 61, 60, 62, 33,
           39, 34, 96, 92, 32, 233>>
Small == <<97, 49, 45, 46, 91, 93, 42, 124, 38, 61, 33, 39, 34, 96, 92, 32, 40, 41, 44, 58>>
(* for error coordinates (C12): failing texts with multi-byte characters and newlines before the error position *)
ErrAlpha == <<97, 46, 91, 61, 233, 128512, 10, 34, 39, 32>>
Alpha == IF IOEnv.ALPHA = "full" THEN Full ELSE IF IOEnv.ALPHA = "err" THEN ErrAlpha ELSE Small
CharCases(zzdummy) ==
  LET A == {Alpha[i] : i \in DOMAIN Alpha}
      all == SetToSeq(UNION {[1..n -> A] : n \in 1..N})
  IN [i \in DOMAIN all |-> [e |-> "lang", text |-> all[i]]]

(* documents against which an expression and its parenthesised spelling are compared *)
M(k, v) == JMem(<<k>>, v)
Leaf == MkObj(<<M(97, JInt(1)), M(98, JInt(2)), M(99, JStr(<<120>>)), M(101, JNull), M(102, JInt(0))>>)
Doc1 == MkObj(<<M(97, JArr(<<Leaf, JInt(3), JArr(<<Leaf, JInt(4)>>)>>)), M(98, Leaf), M(99, JArr(<<JInt(1), JInt(2), JInt(3)>>)),
                M(100, JFalse), M(101, JStr(<<>>)), M(102, JArr(<<>>)),
                M(65, Leaf), M(66, JArr(<<Leaf, JTrue>>)), M(67, JInt(5))>>)
Doc2 == JArr(<<Leaf, JArr(<<JInt(1), Leaf>>), JNull, JInt(7),
               MkObj(<<M(97, JArr(<<JArr(<<JInt(1)>>), JArr(<<JInt(2), JInt(3)>>)>>)), M(98, JInt(1)), M(65, JInt(1))>>)>>)
Docs == <<Doc1, Doc2>>

(* the documents are written once, to OUT.docs; the driver searches every case with a ptext against them *)
SentCase(ts, docs) == [e |-> "lang", text |-> Spell(ts, "spaced", 0),
                       ptext |-> Spell(Parenthesise(ts), "spaced", 0)]
SentCases(zzdummy) ==
  LET G == Sets(N)
      all == SetToSeq(UNION {G.E[n] : n \in 1..N})
      docs == Docs
  IN [i \in DOMAIN all |-> SentCase(Toks(all[i]), docs)]

(* operator chains: a primary followed by every sequence of 1..N postfix operators, also under "!" and as the
   right operand of a comparison (every pair and chain of postfix operators is juxtaposed) *)
Postfix == {<<"Dot", "Ident">>, <<"Dot", "QIdent">>, <<"Filter", "Ident", "Lbracket", "Star", "Rbracket", "Rbracket">>, <<"Filter", "Ident", "Flatten", "Rbracket">>,
            <<"Dot", "Ident", "Lparen", "At", "Rparen">>, <<"Lbracket", "Num", "Rbracket">>, <<"Lbracket", "Star", "Rbracket">>, <<"Flatten">>,
            <<"Filter", "Ident", "Rbracket">>, <<"Lbracket", "Num", "Colon", "Rbracket">>, <<"Dot", "Star">>,
            <<"Dot", "Lbrace", "Ident", "Colon", "Ident", "Rbrace">>, <<"Dot", "Lbracket", "Ident", "Rbracket">>}
RECURSIVE ChainsOf(_)
ChainsOf(n) == IF n = 0 THEN {<<>>} ELSE LET c == ChainsOf(n - 1) IN c \cup {x \o p : x \in c, p \in Postfix}
ChainKinds(zzdummy) == LET cs == ChainsOf(N) \ {<<>>}
              IN {<<"Ident">> \o c : c \in cs} \cup {<<"Not", "Ident">> \o c : c \in cs}
                 \cup {<<"Lbracket", "Num", "Rbracket">> \o c : c \in cs} \cup {<<"Star">> \o c : c \in cs}     \* a bare index / wildcard first
                 \cup {<<"Ident", "Lparen", "Ident", "Rparen">> \o c : c \in ChainsOf(N - 1) \ {<<>>}}          \* a call as the primary
                 \cup {<<"Not", "Ident", "Lparen", "Ident", "Rparen">> \o c : c \in ChainsOf(N - 1) \ {<<>>}}   \* ... under "!"
                 \cup {<<"At", "Cmp", "Ident">> \o c : c \in ChainsOf(N - 1) \ {<<>>}}
ChainCases(zzdummy) ==
  LET all == SetToSeq(ChainKinds(0)) docs == Docs
  IN [i \in DOMAIN all |-> SentCase(Toks(all[i]), docs)]

(* juxtapositions: two sentences of at most N tokens written one after the other, the first also inside parentheses -- mostly
   non-sentences (two operands without an operator, a call applied to a group), a few sentences (`a` `[0]`) *)
JuxtaCases(zzdummy) ==
  LET G == Sets(N)
      S == SetToSeq(UNION {G.E[n] : n \in 1..N})
      n == Len(S)
      si(x) == ((x - 1) \div n) + 1
      sj(x) == ((x - 1) % n) + 1
  IN [x \in 1..(n * n) |-> [e |-> "lang", text |-> Spell(Toks(S[si(x)] \o S[sj(x)]), ModeAt(x), x % 2)]]
     \o [x \in 1..(n * n) |-> [e |-> "lang", text |-> Spell(Toks(<<"Lparen">> \o S[si(x)] \o <<"Rparen">> \o S[sj(x)]), ModeAt(x), x % 2)]]

(* parenthesis wrapping: every sentence of at most N tokens with a pair of parentheses around every contiguous span of its tokens:
   a sentence where the span is an expression in an operand position, a non-sentence elsewhere (a parenthesised key, name, bracket ...) *)
WrapSpan(ks, i, j) == SubSeq(ks, 1, i - 1) \o <<"Lparen">> \o SubSeq(ks, i, j) \o <<"Rparen">> \o SubSeq(ks, j + 1, Len(ks))
WrapCases(zzdummy) ==
  LET G == Sets(N)
      S == SetToSeq(UNION {G.E[n] : n \in 1..N})
      spans == SetToSeq({<<q, i, j>> : q \in DOMAIN S, i \in 1..N, j \in 1..N})
      ok(x) == spans[x][2] <= spans[x][3] /\ spans[x][3] <= Len(S[spans[x][1]])
      sel == SelectSeq([x \in DOMAIN spans |-> x], ok)
  IN [y \in DOMAIN sel |-> [e |-> "lang", text |-> Spell(Toks(WrapSpan(S[spans[sel[y]][1]], spans[sel[y]][2], spans[sel[y]][3])), ModeAt(y), y % 2)]]

(* an ampersand before every token of skeleton sentences that contain a call: an expression reference is a sentence only as a
   whole function argument *)
AmpSkeletons == <<
  <<"Ident", "Lparen", "Ident", "Rparen">>, <<"Ident", "Lparen", "Ident", "Comma", "Ident", "Rparen">>,
  <<"Ident", "Lparen", "Ident", "Dot", "Lbracket", "Ident", "Rbracket", "Rparen">>,
  <<"Ident", "Lparen", "Ident", "Dot", "Lbracket", "Ident", "Comma", "Ident", "Rbracket", "Rparen">>,
  <<"Ident", "Lparen", "Lbracket", "Ident", "Rbracket", "Rparen">>, <<"Ident", "Lparen", "Lparen", "Ident", "Rparen", "Rparen">>,
  <<"Ident", "Lparen", "Lbrace", "Ident", "Colon", "Ident", "Rbrace", "Rparen">>,
  <<"Ident", "Lparen", "Ident", "Rparen", "Dot", "Lbracket", "Ident", "Rbracket">>,
  <<"Ident", "Lparen", "Ident", "Lbracket", "Star", "Rbracket", "Dot", "Lbracket", "Ident", "Rbracket", "Rparen">>,
  <<"Ident", "Lparen", "Ident", "Flatten", "Dot", "Lbracket", "Ident", "Rbracket", "Rparen">>,
  <<"Ident", "Lparen", "Ident", "Filter", "Ident", "Rbracket", "Dot", "Lbracket", "Ident", "Rbracket", "Rparen">>,
  <<"Ident", "Lparen", "Ident", "Dot", "Star", "Dot", "Lbracket", "Ident", "Rbracket", "Rparen">>,
  <<"Ident", "Lparen", "Lbrace", "Ident", "Colon", "Ident", "Dot", "Lbracket", "Ident", "Rbracket", "Rbrace", "Rparen">>,
  <<"Ident", "Lparen", "Ident", "Pipe", "Lbracket", "Ident", "Rbracket", "Rparen">>, <<"Ident", "Lparen", "Ident", "Or", "Ident", "Rparen">>,
  <<"Ident", "Lparen", "Not", "Ident", "Rparen">>, <<"Ident", "Lparen", "Ident", "Cmp", "Ident", "Rparen">>,
  <<"Ident", "Lparen", "Ident", "Lparen", "Ident", "Rparen", "Rparen">>, <<"Ident", "Lparen", "Ident", "Dot", "Ident", "Lparen", "Ident", "Rparen", "Rparen">>,
  <<"Ident", "Lparen", "Ident", "Filter", "Ident", "Rbracket", "Rparen">>, <<"Ident", "Lparen", "Ident", "Lbracket", "Num", "Rbracket", "Rparen">>,
  <<"Ident", "Lparen", "At", "Rparen">>, <<"Ident", "Lparen", "Ident", "Comma", "Amp", "Ident", "Dot", "Lbracket", "Ident", "Rbracket", "Rparen">>,
  <<"Ident", "Lparen", "Amp", "At", "Dot", "Lbracket", "Ident", "Comma", "Ident", "Rbracket", "Comma", "Ident", "Rparen">>,
  <<"Ident", "Lparen", "Ident", "Comma", "Ident", "Lparen", "Ident", "Rparen", "Dot", "Lbracket", "Ident", "Rbracket", "Rparen">>,
  <<"Lbracket", "Ident", "Lparen", "Ident", "Rparen", "Comma", "Ident", "Rbracket">>, <<"Ident", "Dot", "Lbracket", "Ident", "Rbracket">>,
  <<"Lbracket", "Ident", "Rbracket">>, <<"Ident">>, <<"Ident", "Dot", "Ident">> >>
AmpCases(zzdummy) ==
  LET cells == SetToSeq({<<q, i>> : q \in DOMAIN AmpSkeletons, i \in 1..14})
      ok(x) == cells[x][2] <= Len(AmpSkeletons[cells[x][1]]) + 1
      sel == SelectSeq([x \in DOMAIN cells |-> x], ok)
  IN [y \in DOMAIN sel |-> [e |-> "lang", text |-> Spell(Toks(InsTok(AmpSkeletons[cells[sel[y]][1]], cells[sel[y]][2], "Amp")), ModeAt(y), y % 2)]]
     \o [q \in DOMAIN AmpSkeletons |-> [e |-> "lang", text |-> Spell(Toks(AmpSkeletons[q]), "spaced", 0)]]

(* blanks: every sentence of at most N tokens with each kind of blank (CR, CR LF, runs of blanks) between its tokens, before the
   first and after the last one *)
WsCases(zzdummy) ==
  LET G == Sets(N)
      S == SetToSeq(UNION {G.E[n] : n \in 1..N})
      modes == <<"cr", "crlf", "wide", "mixed">>
      pads == << <<<<>>, <<>>>>, <<<<13>>, <<>>>>, <<<<>>, <<13, cNL>>>>, <<<<9, cNL>>, <<cSPACE, 13>>>> >>
      cells == SetToSeq({<<q, m, p>> : q \in DOMAIN S, m \in DOMAIN modes, p \in DOMAIN pads})
  IN [x \in DOMAIN cells |-> [e |-> "lang", text |-> pads[cells[x][3]][1] \o Spell(Toks(S[cells[x][1]]), modes[cells[x][2]], x % 2) \o pads[cells[x][3]][2]]]

(* Unicode class probes: a character of a class that Unicode-aware predicates (is_numeric, is_alphabetic, is_whitespace) accept
   but the grammar does not, right after a character that starts a token; alone, continued, and inside the usual frames *)
Probe == <<0, 1, 8, 11, 12, 27, 31, 1635, 178, 189, 9312, 65297, 120783, 3047, 65313, 233, 1072, 160, 12288, 8232, 133, 8203, 65279, 127, 128, 769, 8255>>
Entry == <<45, 49, 48, 97, 95, 34, 39, 96, 38, 124, 60, 61, 33, 91, 46, 64, 32, 42, 58, 44>>
Frames == << <<<<>>, <<>>>>, <<<<64, 91>>, <<93>>>>, <<<<97, 91>>, <<58, 93>>>>, <<<<97, 91, 58>>, <<93>>>>,
             <<<<97, 91, 63, 98, 32, 61, 61, 32>>, <<93>>>>, <<<<97, 46>>, <<>>>>,
             \* inside a JSON literal, right after the opening and right before the closing backtick (only the four JSON blanks may pad a literal),
             \* and inside a raw string and a quoted identifier
             <<<<>>, <<96>>>>, <<<<96>>, <<96>>>>, <<<<97, 32, 61, 61, 32, 96>>, <<96>>>>, <<<<39>>, <<39>>>>, <<<<34>>, <<34>>>> >>
UniCases(zzdummy) ==
  LET cells == SetToSeq({<<c, u, f, k>> : c \in DOMAIN Entry, u \in DOMAIN Probe, f \in DOMAIN Frames, k \in 1..3})
      tail(c, k) == CASE k = 1 -> <<>> [] k = 2 -> <<53>> [] k = 3 -> <<Entry[c]>>
      \* the probe before, after and between the tokens of a few whole sentences (a leading byte order mark, a trailing NBSP ...)
      sents == << <<97>>, <<97, 98, 115, 40, 97, 41>>, <<97, 46, 98>>, <<97, 91, 48, 93>>, <<39, 120, 39>>, <<96, 49, 96>>,
                  <<97, 46>>, <<97, 91>>, <<97, 98, 115, 40>>, <<97, 32, 98>> >>          \* ... and of a few texts that fail to compile by themselves
      around == SetToSeq({<<u, q, w>> : u \in DOMAIN Probe, q \in DOMAIN sents, w \in 1..3})
  IN [x \in DOMAIN cells |-> [e |-> "lang", text |-> Frames[cells[x][3]][1] \o <<Entry[cells[x][1]], Probe[cells[x][2]]>>
                                                     \o tail(cells[x][1], cells[x][4]) \o Frames[cells[x][3]][2]]]
     \o [x \in DOMAIN around |-> [e |-> "lang", text |-> LET u == <<Probe[around[x][1]]>> t == sents[around[x][2]] w == around[x][3]
                                                        IN IF w = 1 THEN u \o t ELSE IF w = 2 THEN t \o u ELSE u \o t \o u]]

(* number tokens: leading zeros, digit runs longer than the ten digits of 2^31, multi-digit negatives, the 32-bit limits *)
DigStrs == <<"0", "00", "01", "007", "0000000000", "00000000001", "00000000000", "00000000000000000003", "02147483647", "002147483647",
             "02147483648", "10", "11", "12", "13", "15", "19", "20", "21", "99", "100", "101", "110", "123", "1234567890",
             "2147483647", "2147483648", "999999999", "1000000000", "4294967296", "4294967297", "99999999999">>
DigCp(str) == CASE str = "0" -> <<48>> [] str = "00" -> <<48, 48>> [] str = "01" -> <<48, 49>> [] str = "007" -> <<48, 48, 55>>
  [] str = "0000000000" -> [i \in 1..10 |-> 48] [] str = "00000000001" -> [i \in 1..11 |-> IF i = 11 THEN 49 ELSE 48]
  [] str = "00000000000" -> [i \in 1..11 |-> 48] [] str = "00000000000000000003" -> [i \in 1..20 |-> IF i = 20 THEN 51 ELSE 48]
  [] str = "02147483647" -> <<48, 50, 49, 52, 55, 52, 56, 51, 54, 52, 55>> [] str = "002147483647" -> <<48, 48, 50, 49, 52, 55, 52, 56, 51, 54, 52, 55>>
  [] str = "02147483648" -> <<48, 50, 49, 52, 55, 52, 56, 51, 54, 52, 56>>
  [] str = "10" -> <<49, 48>> [] str = "11" -> <<49, 49>> [] str = "12" -> <<49, 50>> [] str = "13" -> <<49, 51>> [] str = "15" -> <<49, 53>>
  [] str = "19" -> <<49, 57>> [] str = "20" -> <<50, 48>> [] str = "21" -> <<50, 49>> [] str = "99" -> <<57, 57>> [] str = "100" -> <<49, 48, 48>>
  [] str = "101" -> <<49, 48, 49>> [] str = "110" -> <<49, 49, 48>> [] str = "123" -> <<49, 50, 51>>
  [] str = "1234567890" -> <<49, 50, 51, 52, 53, 54, 55, 56, 57, 48>> [] str = "2147483647" -> <<50, 49, 52, 55, 52, 56, 51, 54, 52, 55>>
  [] str = "2147483648" -> <<50, 49, 52, 55, 52, 56, 51, 54, 52, 56>> [] str = "999999999" -> [i \in 1..9 |-> 57]
  [] str = "1000000000" -> [i \in 1..10 |-> IF i = 1 THEN 49 ELSE 48] [] str = "4294967296" -> <<52, 50, 57, 52, 57, 54, 55, 50, 57, 54>>
  [] str = "4294967297" -> <<52, 50, 57, 52, 57, 54, 55, 50, 57, 55>> [] str = "99999999999" -> [i \in 1..11 |-> 57]
NumFrames == << <<<<64, 91>>, <<93>>>>, <<<<64, 91>>, <<58, 93>>>>, <<<<64, 91, 58>>, <<93>>>>, <<<<64, 91, 58, 58>>, <<93>>>>,
                <<<<97, 91>>, <<93, 46, 98>>>>, <<<<97, 91, 49, 58>>, <<58, 50, 93>>>>, <<<<>>, <<>>>>, <<<<97, 91, 63, 98, 60>>, <<93>>>> >>
NumeralCases(zzdummy) ==
  LET cells == SetToSeq({<<d, f, sg>> : d \in DOMAIN DigStrs, f \in DOMAIN NumFrames, sg \in 0..1})
  IN [x \in DOMAIN cells |-> [e |-> "lang", text |-> NumFrames[cells[x][2]][1] \o (IF cells[x][3] = 1 THEN <<45>> ELSE <<>>)
                                                     \o DigCp(DigStrs[cells[x][1]]) \o NumFrames[cells[x][2]][2]]]

SpellCases(zzdummy) ==
  LET ps == ndJsonDeserialize(IOEnv.IN)
      docs == Docs
  IN [i \in DOMAIN ps |-> SentCase(ps[i].toks, docs)]

Cases(zzdummy) == CASE IOEnv.MODE = "tokens" -> TokenCases(0) [] IOEnv.MODE = "chars" -> CharCases(0) [] IOEnv.MODE = "near" -> NearCases(0)
           [] IOEnv.MODE = "sent" -> SentCases(0) [] IOEnv.MODE = "spell" -> SpellCases(0)
           [] IOEnv.MODE = "chains" -> ChainCases(0) [] IOEnv.MODE = "juxta" -> JuxtaCases(0) [] IOEnv.MODE = "wrap" -> WrapCases(0) [] IOEnv.MODE = "ws" -> WsCases(0) [] IOEnv.MODE = "amp" -> AmpCases(0) [] IOEnv.MODE = "uni" -> UniCases(0) [] IOEnv.MODE = "numerals" -> NumeralCases(0)

ASSUME ndJsonSerialize(IOEnv.OUT, Cases(0))
ASSUME ndJsonSerialize(IOEnv.OUT \o ".docs", <<[docs |-> Docs]>>)
=============================================================================
