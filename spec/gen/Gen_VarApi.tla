----------------------------- MODULE Gen_VarApi -----------------------------
(***************************************************************************)
(* Cases for the accessor methods of Variable: every ordered pair (v, w)   *)
(* of a universe (atoms of every type, neighbouring doubles, magnitudes    *)
(* next to f64::MAX, strings that order differently by code point and by   *)
(* UTF-16 unit, containers of depth 1) with a third value x for the order  *)
(* laws.                                                                   *)
(***************************************************************************)
EXTENDS VarApi, Json, IOUtils
A == Atoms \cup {JNum(1, 2), JStr(<<98>>), JStr(<<97, 98>>), JStr(<<233>>), JStr(<<65535>>), JStr(<<128512>>), JNear(1, 1, 1), JNear(1, 1, 2),
                 JBig(1, 308), JBig(9, 307), JInt(2)}
Small == {JNull, JTrue, JInt(1), JStr(<<97>>)}
U == A \cup {JArr(<<>>), JObj(<<>>)} \cup {JArr(<<x>>) : x \in A} \cup {JArr(<<x, y>>) : x \in Small, y \in Small}
       \cup {JArr(<<JInt(0), JInt(1), JInt(2), JInt(3)>>)}
       \cup {MkObj(<<JMem(<<97>>, x)>>) : x \in A} \cup {MkObj(<<JMem(<<97>>, x), JMem(<<98>>, y)>>) : x \in Small, y \in Small}
       \cup {MkObj(<<JMem(<<>>, JInt(1)), JMem(<<233>>, JInt(2))>>)}
Us == SetToSeq(U)
Keys == <<<<>>, <<97>>, <<98>>, <<233>>, <<99>>>>
Cases(zzdummy) ==
  LET n == Len(Us)
      ps == SetToSeq({<<i, j>> : i \in 1..n, j \in 1..n})
  IN [k \in DOMAIN ps |-> [e |-> "varapi", v |-> Us[ps[k][1]], w |-> Us[ps[k][2]], x |-> Us[((ps[k][1] + 7 * ps[k][2]) % n) + 1], keys |-> Keys, n |-> 5]]
ASSUME ndJsonSerialize(IOEnv.OUT, Cases(0))
=============================================================================
