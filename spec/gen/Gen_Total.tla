------------------------------ MODULE Gen_Total ------------------------------
(***************************************************************************)
(* spec -> impl cases dedicated to C05 (totality): only "did the call      *)
(* return" matters.                                                        *)
(*  "nums"  : index and slice numerals from {0, 1, 2^31-2, 2^31-1, 2^31,   *)
(*            2^32, 10^19, -1, -(2^31-1), -2^31, -2^31-1} in every slot,   *)
(*            against arrays of length 0..4                                *)
(*  "quote" : every string of 1..N characters over the three delimiters,   *)
(*            backslash, a letter, a 2-byte and a 4-byte character and a   *)
(*            newline (unterminated and malformed quoted forms)            *)
(*  "nest"  : every nesting constructor at depths 1..DEPTH                 *)
(***************************************************************************)
EXTENDS JText, Json, IOUtils, SequencesExt

N == CHOOSE n \in 0..16 : ToString(n) = IOEnv.N
DEPTH == CHOOSE n \in 0..99 : ToString(n) = IOEnv.DEPTH

D(s) == [i \in DOMAIN s |-> 48 + s[i]]
Numerals == {<<48>>, <<49>>, D(<<2,1,4,7,4,8,3,6,4,6>>), D(<<2,1,4,7,4,8,3,6,4,7>>), D(<<2,1,4,7,4,8,3,6,4,8>>), D(<<4,2,9,4,9,6,7,2,9,6>>),
             D(<<1,0,0,0,0,0,0,0,0,0,0,0,0,0,0,0,0,0,0,0>>), <<45, 49>>, <<45>> \o D(<<2,1,4,7,4,8,3,6,4,7>>), <<45>> \o D(<<2,1,4,7,4,8,3,6,4,8>>),
             <<45>> \o D(<<2,1,4,7,4,8,3,6,4,9>>)}
Opt == Numerals \cup {<<>>}
Iota(n) == JArr([i \in 1..n |-> JInt(i - 1)])
NumTexts == {<<cAT, cLBRACKET>> \o n \o <<cRBRACKET>> : n \in Numerals}
            \cup {<<cAT, cLBRACKET>> \o a \o <<cCOLON>> \o b \o <<cCOLON>> \o c \o <<cRBRACKET>> : a \in Opt, b \in Opt, c \in Opt}
            \* ... and with something projected through the slice (a second walk over the selected positions)
            \cup {<<cAT, cLBRACKET>> \o a \o <<cCOLON>> \o b \o <<cCOLON>> \o c \o <<cRBRACKET, cDOT, 97>> : a \in Opt, b \in Opt, c \in Opt}
            \cup {<<cAT, cLBRACKET>> \o a \o <<cCOLON>> \o b \o <<cCOLON>> \o c \o <<cRBRACKET, cLBRACKET, 48, cRBRACKET>> : a \in {<<>>, <<49>>, <<45, 49>>}, b \in Opt, c \in Opt}
NumCases(zzdummy) == LET ts == SetToSeq(NumTexts) ps == SetToSeq({<<i, n>> : i \in DOMAIN ts, n \in {0, 1, 3, 4}})
                     IN [x \in DOMAIN ps |-> [e |-> "total", text |-> ts[ps[x][1]], doc |-> Iota(ps[x][2])]]

QAlpha == {cSQUOTE, cDQUOTE, cBTICK, cBSLASH, 97, 233, 128512, cNL}
QuoteCases(zzdummy) == LET all == SetToSeq(UNION {[1..n -> QAlpha] : n \in 1..N})
                       IN [i \in DOMAIN all |-> [e |-> "total", text |-> all[i], doc |-> JNull]]

RECURSIVE Rep(_, _)
Rep(s, n) == IF n = 0 THEN <<>> ELSE s \o Rep(s, n - 1)
A1 == <<97>>
NestText(kind, d) ==
  CASE kind = "paren"  -> Rep(<<cLPAREN>>, d) \o A1 \o Rep(<<cRPAREN>>, d)
    [] kind = "not"    -> Rep(<<cBANG>>, d) \o A1
    [] kind = "dot"    -> A1 \o Rep(<<cDOT, 97>>, d)
    [] kind = "index"  -> A1 \o Rep(<<cLBRACKET, 48, cRBRACKET>>, d)
    [] kind = "star"   -> A1 \o Rep(<<cLBRACKET, cSTAR, cRBRACKET>>, d)
    [] kind = "flat"   -> A1 \o Rep(<<cLBRACKET, cRBRACKET>>, d)
    [] kind = "list"   -> Rep(<<cLBRACKET>>, d) \o A1 \o Rep(<<cRBRACKET>>, d)
    [] kind = "hash"   -> Rep(<<cLBRACE, 97, cCOLON>>, d) \o A1 \o Rep(<<cRBRACE>>, d)
    [] kind = "pipe"   -> A1 \o Rep(<<cPIPE, 97>>, d)
    [] kind = "or"     -> A1 \o Rep(<<cPIPE, cPIPE, 97>>, d)
    [] kind = "and"    -> A1 \o Rep(<<cAMP, cAMP, 97>>, d)
    [] kind = "cmp"    -> A1 \o Rep(<<cEQ, cEQ, 97>>, d)
    [] kind = "call"   -> Rep(<<110, 111, 116, 95, 110, 117, 108, 108, cLPAREN>>, d) \o A1 \o Rep(<<cRPAREN>>, d)
    [] kind = "filter" -> A1 \o Rep(<<cLBRACKET, cQMARK, 97>>, d) \o Rep(<<cRBRACKET>>, d)
    [] kind = "slice"  -> A1 \o Rep(<<cLBRACKET, cCOLON, cRBRACKET>>, d)
    [] kind = "vals"   -> A1 \o Rep(<<cDOT, cSTAR>>, d)
    [] kind = "expref" -> Rep(<<109, 97, 112, cLPAREN, cAMP>>, d) \o A1 \o Rep(<<cCOMMA, 64, cRPAREN>>, d)
NestKinds == {"paren", "not", "dot", "index", "star", "flat", "list", "hash", "pipe", "or", "and", "cmp", "call", "filter", "slice", "vals", "expref"}
RECURSIVE DeepDoc(_)
DeepDoc(d) == IF d = 0 THEN JInt(1) ELSE MkObj(<<JMem(<<97>>, JArr(<<DeepDoc(d - 1)>>))>>)
NestCases(zzdummy) == LET ps == SetToSeq({<<k, d>> : k \in NestKinds, d \in {1, 2, 3, 8, 16, 32, 48, DEPTH}}) doc == DeepDoc(6)
                      IN [x \in DOMAIN ps |-> [e |-> "total", text |-> NestText(ps[x][1], ps[x][2]), doc |-> doc]]

Cases(zzdummy) == CASE IOEnv.MODE = "nums" -> NumCases(0) [] IOEnv.MODE = "quote" -> QuoteCases(0) [] IOEnv.MODE = "nest" -> NestCases(0)
ASSUME ndJsonSerialize(IOEnv.OUT, Cases(0))
=============================================================================
