
