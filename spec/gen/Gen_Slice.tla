------------------------------ MODULE Gen_Slice ------------------------------
(***************************************************************************)
(* spec -> impl case export for slices and indexes (C07, C05 arithmetic).  *)
(* MODE = "enum": every tuple of the boundary-heavy domain below.          *)
(* MODE = "spell": read abstract parameter records from IOEnv.IN (random   *)
(*         tuples drawn by the driver) and spell them; the judge decides.  *)
(* Each case: [e, kind, len, start, stop, step, stepomit, text, doc]       *)
(*   kind "slice"  : text = @[a:b:c] searched against doc = [0,..,len-1]   *)
(*   kind "method" : the public Variable::slice(start, stop, step)         *)
(*   kind "index"  : text = @[n]   (n in field step)                       *)
(*   kind "other"/"otheridx" : slice / index of a non-array doc (null)     *)
(***************************************************************************)
EXTENDS Slice, JText, Json, IOUtils, SequencesExt

IotaDoc(len) == JArr([i \in 1..len |-> JInt(i - 1)])

OptText(o) == IF o.has THEN IntText(o.v) ELSE <<>>
SliceText(start, stop, step, stepomit) ==
  <<cAT, cLBRACKET>> \o OptText(start) \o <<cCOLON>> \o OptText(stop)
     \o (IF stepomit THEN <<>> ELSE <<cCOLON>> \o IntText(step)) \o <<cRBRACKET>>
IndexText(n) == <<cAT, cLBRACKET>> \o IntText(n) \o <<cRBRACKET>>

Case(kind, len, start, stop, step, stepomit, doc) ==
  [e |-> "slice", kind |-> kind, len |-> len, start |-> start, stop |-> stop, step |-> step,
   stepomit |-> stepomit,
   text |-> IF kind \in {"index", "otheridx"} THEN IndexText(step) ELSE SliceText(start, stop, step, stepomit),
   doc |-> doc]

NullDoc(len) == JArr([i \in 1..len |-> IF i % 2 = 1 THEN JNull ELSE JInt(i - 1)])
Small == CHOOSE n \in 0..64 : ToString(n) = IOEnv.SMALL
MaxLen == CHOOSE n \in 0..64 : ToString(n) = IOEnv.MAXLEN
Edge == {MAXI, MAXI - 1, -MAXI, -(MAXI - 1)}
Ints == (-Small..Small) \cup Edge
Ends == {None} \cup {Some(n) : n \in Ints}

OtherDocs == {JNull, JTrue, JInt(3), JStr(<<97, 98, 99>>), MkObj(<<JMem(<<97>>, JInt(1))>>)}

EnumCases(zzdummy) ==
  {Case(k, len, a, b, c, FALSE, IotaDoc(len)) :
      k \in {"slice", "method"}, len \in 0..MaxLen, a \in Ends, b \in Ends, c \in Ints \ {0}}
  \cup {Case("slice", len, a, b, 1, TRUE, IotaDoc(len)) : len \in 0..MaxLen, a \in Ends, b \in Ends}
  \cup {Case("slice", len, a, b, 0, FALSE, IotaDoc(len)) : len \in 0..2, a \in Ends, b \in Ends}           \* step 0 is an error whatever the endpoints
  \cup {Case("slice", 5, a, b, 0, FALSE, IotaDoc(5)) : a \in {None, Some(0), Some(2), Some(8), Some(-8), Some(-2)}, b \in {None, Some(0), Some(1), Some(3), Some(8), Some(-2), Some(-8)}}
  \* the public method with step 0: it has no way to report an error, it must still return (and select nothing)
  \cup {Case("method", len, a, b, 0, FALSE, IotaDoc(len)) : len \in {0, 1, 4}, a \in {None, Some(0), Some(3), Some(-1)}, b \in {None, Some(0), Some(1), Some(4)}}
  \* documents that hold nulls at selected positions: a slice selects positions, not contents (the public method keeps every one)
  \cup {Case("method", len, a, b, c, FALSE, NullDoc(len)) : len \in 1..MaxLen, a \in {None, Some(0), Some(1), Some(-1), Some(-2)},
                                                           b \in {None, Some(0), Some(2), Some(-1), Some(MaxLen)}, c \in {1, 2, -1, -2}}
  \cup {Case("index", len, None, None, n, FALSE, IotaDoc(len)) : len \in 0..MaxLen, n \in Ints}
  \cup {Case("other", 0, a, b, c, FALSE, d) : a \in {None, Some(0)}, b \in {None, Some(2)}, c \in {1, -1, 2}, d \in OtherDocs}
  \cup {Case("otheridx", 0, None, None, n, FALSE, d) \* index of a non-array
           : n \in {0, 1, -1}, d \in OtherDocs}

SpellCases(zzdummy) ==
  LET ps == ndJsonDeserialize(IOEnv.IN)
  IN [i \in DOMAIN ps |-> Case(ps[i].kind, ps[i].len, ps[i].start, ps[i].stop, ps[i].step,
                               ps[i].stepomit, IotaDoc(ps[i].len))]

(* MODE "context": the slice behind another projection, applied to rows of different lengths (each row must get its own
   window), judged through the evaluation model (e = "eval") *)
Row(len, base) == JArr([i \in 1..len |-> JInt(base + i - 1)])
RowsDoc(lens) == JArr([i \in DOMAIN lens |-> Row(lens[i], 100 * i)])
RowLens == {<<3, 9>>, <<9, 3>>, <<2, 8, 5>>, <<0, 6>>, <<6, 0, 7>>, <<1, 2, 3, 4>>}
CtxPrefixes == {<<cAT, cLBRACKET, cSTAR, cRBRACKET>>, <<cAT, cLBRACKET, cCOLON, cRBRACKET>>, <<cAT, cLBRACKET, cQMARK, cAT, cRBRACKET>>,
             <<cAT, cLBRACKET, cCOLON, cCOLON, 45, 49, cRBRACKET>>}
CtxEnds == {None, Some(0), Some(1), Some(5), Some(-2), Some(6), Some(7), Some(-9), Some(-20), Some(2147483647)}
ContextCases(zzdummy) ==
  LET cells == SetToSeq({<<p, a, b, c, ls>> : p \in CtxPrefixes, a \in CtxEnds, b \in CtxEnds, c \in {1, 2, -1}, ls \in RowLens})
  IN [x \in DOMAIN cells |-> [e |-> "eval", doc |-> RowsDoc(cells[x][5]),
                               text |-> cells[x][1] \o <<cLBRACKET>> \o OptText(cells[x][2]) \o <<cCOLON>> \o OptText(cells[x][3])
                                        \o <<cCOLON>> \o IntText(cells[x][4]) \o <<cRBRACKET>>]]

NullRow == JArr(<<JInt(0), JNull, JStr(<<116>>), JNull, JNull, JInt(5)>>)
NullConts == << <<>>, <<cDOT>> \o <<116, 121, 112, 101, cLPAREN, cAT, cRPAREN>>, <<cLBRACKET, cSTAR, cRBRACKET>>, <<cPIPE, cLBRACKET, 48, cRBRACKET>>,
                <<cDOT>> \o <<116, 111, 95, 97, 114, 114, 97, 121, cLPAREN, cAT, cRPAREN>>, <<cPIPE>> \o <<108, 101, 110, 103, 116, 104, cLPAREN, cAT, cRPAREN>>,
                <<cLBRACKET, cQMARK, cBANG, cAT, cRBRACKET>>, <<cDOT>> \o <<110, 111, 116, 95, 110, 117, 108, 108, cLPAREN, cAT, cCOMMA, 96, 55, 96, cRPAREN>> >>
NullContextCases(zzdummy) ==
  LET cells == SetToSeq({<<a, b, c, k>> : a \in {None, Some(0), Some(1), Some(-2), Some(-9), Some(-6), Some(-7), Some(20)},
                                           b \in {None, Some(2), Some(5), Some(-1), Some(-9), Some(20)}, c \in {1, 2, -1}, k \in DOMAIN NullConts})
  IN [x \in DOMAIN cells |-> [e |-> "eval", doc |-> NullRow,
                               text |-> <<cAT, cLBRACKET>> \o OptText(cells[x][1]) \o <<cCOLON>> \o OptText(cells[x][2]) \o <<cCOLON>> \o IntText(cells[x][3])
                                        \o <<cRBRACKET>> \o NullConts[cells[x][4]]]]

Cases(zzdummy) == IF IOEnv.MODE = "enum" THEN SetToSeq(EnumCases(0)) ELSE IF IOEnv.MODE = "context" THEN ContextCases(0) \o NullContextCases(0) ELSE SpellCases(0)

ASSUME ndJsonSerialize(IOEnv.OUT, Cases(0))
ASSUME PrintT(<<"CASES", Len(Cases(0))>>)
=============================================================================
