------------------------------- MODULE Gen_Json -------------------------------
(***************************************************************************)
(* spec -> impl cases for C08: JSON texts.                                 *)
(*  numerals : boundary integers (2^53, 2^63, 2^64 and neighbours, 30      *)
(*             digits), decimals of 1..17 significant digits, exponents    *)
(*             at the class boundaries (22/23, 308, subnormal) -- each     *)
(*             bare, inside an array and inside an object                  *)
(*  strings  : every escape form (short escapes, \uXXXX in both cases,     *)
(*             surrogate pairs, raw characters of all planes), alone and   *)
(*             as object keys                                              *)
(*  structure: nesting, array order, duplicate keys, blanks everywhere     *)
(***************************************************************************)
EXTENDS Numerals, JText, Json, IOUtils, SequencesExt

D(str) == str
Ints == { <<0>>, <<1>>, <<4,2>>, <<9,0,0,7,1,9,9,2,5,4,7,4,0,9,9,1>>, <<9,0,0,7,1,9,9,2,5,4,7,4,0,9,9,2>>, <<9,0,0,7,1,9,9,2,5,4,7,4,0,9,9,3>>,
          I64MAX, I64MINM, <<9,2,2,3,3,7,2,0,3,6,8,5,4,7,7,5,8,0,9>>, U64MAX, <<1,8,4,4,6,7,4,4,0,7,3,7,0,9,5,5,1,6,1,6>>,
          <<1,2,3,4,5,6,7,8,9,0,1,2,3,4,5,6,7,8,9,0,1,2,3,4,5,6,7,8,9,0>>, <<1,0,0,0,0,0,0,0,0,0,0,0,0,0,0,0,0,0,0,0,0,0,0>>,
          <<1,2,3,4,5,6,7,8,9,0,1,2,3,4,5>>, <<1,2,3,4,5,6,7,8,9,0,1,2,3,4,5,6>>, <<4,2,9,4,9,6,7,2,9,6>>, <<2,1,4,7,4,8,3,6,4,8>>,
          \* between 2^63 and 2^64 (and their negatives: outside every 64-bit integer type, whole doubles), 2^53 .. 2^63
          <<1,0,0,0,0,0,0,0,0,0,0,0,0,0,0,0,0,0,0,0>>, <<1,2,3,4,5,6,7,8,9,0,1,2,3,4,5,6,7,8,9,0>>, <<9,2,2,3,3,7,2,0,3,6,8,5,4,7,7,7,8,5,6>>, <<1,5,0,0,0,0,0,0,0,0,0,0,0,0,0,0,0,0,0,0>>,
          <<1,0,0,0,0,0,0,0,0,0,0,0,0,0,0,0,0,0,0>>, <<1,8,4,4,6,7,4,4,0,7,3,7,0,9,5,5,0,0,0,0>> }
Fracs == { <<>>, <<0>>, <<5>>, <<1>>, <<2,5>>, <<0,0,0,0,0,1>>, <<1,2,3,4,5,6,7,8,9,0,1,2,3,4>>, <<1,2,3,4,5,6,7,8,9,0,1,2,3,4,5,6>>,
           <<3>>, <<9,9,9,9,9,9,9,9,9,9,9,9,9,9,9,9,9>> }
E1(neg, d) == [has |-> TRUE, neg |-> neg, d |-> d]
Exps == { NoExp, E1(FALSE, <<0>>), E1(FALSE, <<1>>), E1(FALSE, <<2,2>>), E1(FALSE, <<2,3>>), E1(TRUE, <<2,2>>), E1(TRUE, <<2,3>>),
          E1(FALSE, <<3,0,0>>), E1(TRUE, <<3,0,0>>), E1(TRUE, <<3,1,0>>), E1(FALSE, <<1,5>>), E1(TRUE, <<7>>), E1(FALSE, <<1,9>>), E1(FALSE, <<1,8>>) }
SmallIp == { <<0>>, <<1>>, <<4,2>>, <<1,2,3,4,5,6,7,8,9,0,1,2,3,4,5>>, <<1,7,9,7,6,9,3,1,3,4,8,6,2,3,1,5,7>> }

Numerals ==
  {Numeral(neg, ip, <<>>, NoExp) : neg \in BOOLEAN, ip \in Ints}
  \cup {Numeral(neg, ip, fp, ex) : neg \in BOOLEAN, ip \in SmallIp, fp \in Fracs, ex \in Exps}
  \cup {Numeral(FALSE, <<1>>, <<7,9,7,6,9,3,1,3,4,8,6,2,3,1,5,7>>, E1(FALSE, <<3,0,8>>)),      \* max finite
        Numeral(FALSE, <<4>>, <<9>>, E1(TRUE, <<3,2,4>>)),                                    \* min subnormal
        Numeral(FALSE, <<2>>, <<2,2,5,0,7,3,8,5,8,5,0,7,2,0,1,4>>, E1(TRUE, <<3,0,8>>)),      \* min normal
        Numeral(FALSE, <<0>>, <<1>>, NoExp), Numeral(FALSE, <<0>>, <<3>>, NoExp),
        \* subnormal doubles written with few digits; the largest finite numerals (trailing zeros, 19-20 digits, just below the maximum)
        Numeral(FALSE, <<2>>, <<1,8>>, E1(TRUE, <<3,0,8>>)), Numeral(FALSE, <<2>>, <<1,9,0>>, E1(TRUE, <<3,0,8>>)), Numeral(FALSE, <<2>>, <<1,9>>, E1(TRUE, <<3,0,8>>)),
        Numeral(TRUE, <<1>>, <<2,3,4>>, E1(TRUE, <<3,1,0>>)), Numeral(FALSE, <<9>>, <<8,7>>, E1(TRUE, <<3,2,0>>)), Numeral(FALSE, <<3>>, <<3>>, E1(TRUE, <<3,1,5>>)),
        Numeral(FALSE, <<1>>, <<7,9,7,6,9,3,1,3,4,8,6,2,3,1,5,7,0,0>>, E1(FALSE, <<3,0,8>>)), Numeral(FALSE, <<1>>, <<7,9,7,6,9,3,1,3,4,8,6,2,3,1,5,7,0,8,1>>, E1(FALSE, <<3,0,8>>)),
        Numeral(FALSE, <<1>>, <<7,9,7,6,9,3,1,3,4,8,6,2,3,1,5,6,4,9>>, E1(FALSE, <<3,0,8>>)), Numeral(TRUE, <<1>>, <<7,9,7,6,9,3,1,3,4,8,6,2,3,1,5,7,0>>, E1(FALSE, <<3,0,8>>)),
        Numeral(FALSE, <<1>>, <<5>>, E1(TRUE, <<2,2>>)), Numeral(FALSE, <<7>>, <<8>>, E1(TRUE, <<2,2>>)), Numeral(FALSE, <<3>>, <<9>>, E1(TRUE, <<2,8>>)),
        \* doubles that are also exact in single precision but need more than nine digits: 2^32, 2^30, 2^40, 2^53 as floats, 2^-14, 2^-20
        Numeral(FALSE, <<4,2,9,4,9,6,7,2,9,6>>, <<0>>, NoExp), Numeral(TRUE, <<1,0,7,3,7,4,1,8,2,4>>, <<0>>, NoExp), Numeral(FALSE, <<1,0,9,9,5,1,1,6,2,7,7,7,6>>, <<0>>, NoExp),
        Numeral(FALSE, <<9,0,0,7,1,9,9,2,5,4,7,4,0,9,9,2>>, <<0>>, NoExp), Numeral(FALSE, <<0>>, <<0,0,0,0,6,1,0,3,5,1,5,6,2,5>>, NoExp),
        Numeral(FALSE, <<9>>, <<5,3,6,7,4,3,1,6,4,0,6,2,5>>, E1(TRUE, <<7>>)), Numeral(FALSE, <<1,6,7,7,7,2,1,6>>, <<0>>, NoExp), Numeral(FALSE, <<1,6,7,7,7,2,1,7>>, <<0>>, NoExp),
        Numeral(FALSE, <<3>>, <<1,4,1,5,9,2,7,4,1,0,1,2,5,7,3,2,4>>, NoExp) }

Wrap(kind, t) == CASE kind = 1 -> t
                   [] kind = 2 -> <<91, 32>> \o t \o <<32, 44, 49, 93>>                       \* [ n ,1]
                   [] kind = 3 -> <<123, 34, 107, 34, 58>> \o t \o <<125>>                    \* {"k":n}
NumCases(zzdummy) ==
  LET ns == SetToSeq(Numerals)
      ps == SetToSeq({<<i, k>> : i \in DOMAIN ns, k \in 1..3})
  IN [x \in DOMAIN ps |->
        LET n == ns[ps[x][1]] t == NumeralText(n) IN
        [e |-> "json", kind |-> "num", text |-> Wrap(ps[x][2], t),
         numerals |-> IF ps[x][2] = 2 THEN <<t, <<49>>>> ELSE <<t>>,
         classes |-> IF ps[x][2] = 2 THEN <<Class(n), "int">> ELSE <<Class(n)>>]]

(* neighbouring rows: consecutive containers that differ only in numbers which a tolerant comparison identifies (1 / 1.0, 2^53 /
   2^53+1, neighbouring doubles): each row must keep its own numbers *)
NearPairs == <<<<<<49>>, <<49,46,48>>>>,
             <<<<49>>, <<49,101,48>>>>,
             <<<<49,46,48>>, <<49>>>>,
             <<<<57,48,48,55,49,57,57,50,53,52,55,52,48,57,57,50>>, <<57,48,48,55,49,57,57,50,53,52,55,52,48,57,57,51>>>>,
             <<<<57,50,50,51,51,55,50,48,51,54,56,53,52,55,55,53,56,48,55>>, <<57,50,50,51,51,55,50,48,51,54,56,53,52,55,55,53,56,48,56>>>>,
             <<<<49,56,52,52,54,55,52,52,48,55,51,55,48,57,53,53,49,54,49,52>>, <<49,56,52,52,54,55,52,52,48,55,51,55,48,57,53,53,49,54,49,53>>>>,
             <<<<55,46,53>>, <<55,46,53,48,48,48,48,48,48,48,48,48,48,48,48,48,51>>>>,
             <<<<48,46,51>>, <<48,46,51,48,48,48,48,48,48,48,48,48,48,48,48,48,48,48,52>>>>,
             <<<<49,46,48>>, <<49,46,48,48,48,48,48,48,48,48,48,48,48,48,48,48,48,50>>>>,
             <<<<49,48,48>>, <<49,101,50>>>>,
             <<<<48>>, <<48,46,48>>>>,
             <<<<48>>, <<45,48,46,48>>>>,
             <<<<49,101,50,50>>, <<49,48,48,48,48,48,48,48,48,48,48,48,48,48,48,48,48,48,48,48,48,48,48>>>>,
             <<<<45,49>>, <<45,49,46,48>>>>,
             <<<<49,50,51,52,53,54,55,56,57,48,49,50>>, <<49,50,51,52,53,54,55,56,57,48,49,50,46,48>>>>,
             <<<<50>>, <<50,46,48,48,48,48,48,48,48,48,48,48,48,48,48,48,48,52>>>>>>
PairShapes(a, b) == << <<91, 91>> \o a \o <<93, 44, 91>> \o b \o <<93, 93>>,                                                   \* [[a],[b]]
                       <<91, 123, 34, 107, 34, 58>> \o a \o <<125, 44, 123, 34, 107, 34, 58>> \o b \o <<125, 93>>,                \* [{"k":a},{"k":b}]
                       <<91, 91>> \o a \o <<93, 44, 91>> \o b \o <<93, 44, 91>> \o a \o <<93, 93>>,                             \* [[a],[b],[a]]
                       <<123, 34, 97, 34, 58, 91>> \o a \o <<93, 44, 34, 98, 34, 58, 91>> \o b \o <<93, 125>>,                    \* {"a":[a],"b":[b]}
                       <<91>> \o a \o <<44>> \o b \o <<44>> \o a \o <<93>> >>                                                   \* [a,b,a]
PairCases(zzdummy) ==
  LET ps == SetToSeq({<<i, k>> : i \in DOMAIN NearPairs, k \in 1..5})
  IN [x \in DOMAIN ps |->
        LET a == NearPairs[ps[x][1]][1] b == NearPairs[ps[x][1]][2] k == ps[x][2] IN
        [e |-> "json", kind |-> "num", text |-> PairShapes(a, b)[k],
         numerals |-> IF k \in {3, 5} THEN <<a, b, a>> ELSE <<a, b>>, classes |-> <<>>]]

(* long strings: multi-byte characters at every alignment around the 4096th and 8192nd byte of the printed text *)
LongStrCases(zzdummy) ==
  LET pads == SetToSeq({4085, 4086, 4087, 4088, 4089, 4090, 4091, 4092, 4093, 4094, 4095, 4096, 8181, 8182, 8183, 8184, 8185, 8186, 8187, 8188, 8189, 8190, 8191})
      tail == <<233, 8364, 128512, 1114111, 233, 97, 26085, 26412, 35486>>
  IN [i \in DOMAIN pads |-> [e |-> "json", kind |-> "str", text |-> <<34>> \o [j \in 1..pads[i] |-> 97] \o tail \o <<34>>, numerals |-> <<>>, classes |-> <<>>]]
     \o << [e |-> "json", kind |-> "str", numerals |-> <<>>, classes |-> <<>>,
            text |-> <<91>> \o JoinWith([j \in 1..500 |-> <<34, 26085, 26412, 35486, 34>>], <<44>>) \o <<93>>],
           [e |-> "json", kind |-> "str", numerals |-> <<>>, classes |-> <<>>,
            text |-> <<123>> \o JoinWith([j \in 1..300 |-> <<34, 233, 48 + (j \div 100), 48 + ((j \div 10) % 10), 48 + (j % 10), 8364, 34, 58, 34, 128512, 34>>], <<44>>) \o <<125>>] >>

(* strings: items [c, st]: st 0 raw, 1 short escape, 2 \u lower-case hex, 3 \u upper-case hex (astral: surrogate pair) *)
HexU(d) == IF d < 10 THEN 48 + d ELSE 55 + d
U4U(cp) == <<cBSLASH, 117, HexU(cp \div 4096), HexU((cp \div 256) % 16), HexU((cp \div 16) % 16), HexU(cp % 16)>>
PairOf(c, up) == LET d == c - 65536 hi == 55296 + (d \div 1024) lo == 56320 + (d % 1024)
                 IN IF up THEN U4U(hi) \o U4U(lo) ELSE U4(hi) \o U4(lo)
Short(c) == CASE c = 34 -> <<cBSLASH, 34>> [] c = 92 -> <<cBSLASH, 92>> [] c = 47 -> <<cBSLASH, 47>> [] c = 8 -> <<cBSLASH, 98>>
              [] c = 12 -> <<cBSLASH, 102>> [] c = 10 -> <<cBSLASH, 110>> [] c = 13 -> <<cBSLASH, 114>> [] c = 9 -> <<cBSLASH, 116>>
HasShort(c) == c \in {34, 92, 47, 8, 12, 10, 13, 9}
MustEscape(c) == c < 32 \/ c = 34 \/ c = 92
ItemText(c, st) ==
  IF st = 1 /\ HasShort(c) THEN Short(c)
  ELSE IF st \in {2, 3} \/ MustEscape(c) THEN (IF c >= 65536 THEN PairOf(c, st = 3) ELSE IF st = 3 THEN U4U(c) ELSE U4(c))
  ELSE <<c>>
StrText(s, sts) == <<34>> \o Concat([i \in DOMAIN s |-> ItemText(s[i], sts[i])]) \o <<34>>
CharPool == {97, 34, 92, 47, 10, 9, 0, 31, 127, 128, 233, 8364, 55295, 57344, 65535, 65536, 128512, 1114111, 8, 12, 13, 32, 8232, 8233, 133, 65279}
StrCases(zzdummy) ==
  LET one == SetToSeq({<<c, st>> : c \in CharPool, st \in 0..3})
      two == SetToSeq({<<c, d, st>> : c \in {34, 92, 233, 128512, 10, 97, 13, 8233}, d \in {34, 92, 65536, 0, 117, 10, 13, 8232}, st \in 0..3})      \* (CR LF in both orders; the two separators side by side)
  IN [i \in DOMAIN one |-> [e |-> "json", kind |-> "str", text |-> StrText(<<one[i][1]>>, <<one[i][2]>>), numerals |-> <<>>, classes |-> <<>>]]
     \o [i \in DOMAIN two |-> [e |-> "json", kind |-> "str",
                               text |-> <<123>> \o StrText(<<two[i][1], two[i][2]>>, <<two[i][3], (two[i][3] + 1) % 4>>) \o <<58>>
                                         \o StrText(<<two[i][2], 97, two[i][1]>>, <<0, 0, two[i][3]>>) \o <<125>>,
                               numerals |-> <<>>, classes |-> <<>>]]

(* structure: texts written out by hand as code points *)
T(s) == s
StructTexts == <<
  <<110,117,108,108>>, <<32,10,9,13,116,114,117,101,32,10>>, <<91,93>>, <<123,125>>, <<91,32,93>>, <<123,10,125>>,
  <<91,49,44,91,50,44,91,51,44,91,93,93,93,44,123,34,97,34,58,91,123,125,93,125,93>>,
  <<123,34,97,34,58,49,44,34,97,34,58,50,125>>, <<123,34,98,34,58,49,44,34,97,34,58,50,44,34,98,34,58,51,125>>,
  <<123,34,97,34,58,123,34,97,34,58,49,44,34,97,34,58,91,49,93,125,125>>,
  <<91,51,44,49,44,50,44,49,44,51,93>>, <<91,110,117,108,108,44,102,97,108,115,101,44,34,34,44,48,44,91,93,44,123,125,93>>,
  <<32,123,32,34,97,34,32,58,32,91,32,49,32,44,32,50,32,93,32,44,32,34,98,34,32,58,32,110,117,108,108,32,125,32>>,
  <<123,34,92,117,48,48,54,49,34,58,49,44,34,97,34,58,50,125>>,
  <<123,34,34,58,49,44,34,97,34,58,50,125>>, <<123,34,97,34,58,123,34,34,58,110,117,108,108,125,125>>, <<91,123,34,34,58,91,93,125,93>>, <<123,34,34,58,123,34,34,58,34,34,125,125>>,   \* empty-string keys
  <<123,34,34,58,49,44,34,34,58,50,125>>, <<91,34,34,44,34,34,93>>, <<123,34,32,34,58,49,44,34,34,58,50,125>>,
  <<123,34,233,34,58,49,44,34,101,34,58,50,44,34,122,34,58,51,44,34,90,34,58,52,44,34,128512,34,58,53,44,34,65535,34,58,54,125>> >>
RECURSIVE RepSeq(_, _)
RepSeq(s, n) == IF n = 0 THEN <<>> ELSE s \o RepSeq(s, n - 1)
DeepTexts == << RepSeq(<<91>>, 127) \o RepSeq(<<93>>, 127), RepSeq(<<91>>, 128) \o RepSeq(<<93>>, 128), RepSeq(<<91>>, 64) \o <<49>> \o RepSeq(<<93>>, 64),
               RepSeq(<<123, 34, 97, 34, 58>>, 127) \o <<49>> \o RepSeq(<<125>>, 127), RepSeq(<<123, 34, 97, 34, 58>>, 128) \o <<49>> \o RepSeq(<<125>>, 128),
               RepSeq(<<91>>, 200) \o RepSeq(<<93>>, 200) >>
StructCases(zzdummy) == [i \in DOMAIN StructTexts |-> [e |-> "json", kind |-> "struct", text |-> StructTexts[i], numerals |-> <<>>, classes |-> <<>>]]
                        \o [i \in DOMAIN DeepTexts |-> [e |-> "json", kind |-> "struct", text |-> DeepTexts[i], numerals |-> <<>>, classes |-> <<>>]]

ASSUME ndJsonSerialize(IOEnv.OUT, NumCases(0) \o StrCases(0) \o StructCases(0) \o PairCases(0) \o LongStrCases(0))
=============================================================================
