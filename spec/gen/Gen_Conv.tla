------------------------------- MODULE Gen_Conv -------------------------------
(* spec -> impl cases for C17 (input conversions): every input of Convert!Inputs *)
EXTENDS Convert, Json, IOUtils, SequencesExt
Cases(zzdummy) == LET xs == SetToSeq(Inputs) IN
  [i \in DOMAIN xs |-> IF "json" \in DOMAIN xs[i] THEN [e |-> "conv", kind |-> "conv", ty |-> xs[i].ty, json |-> xs[i].json, node |-> [k |-> "unit"]]
                       ELSE [e |-> "conv", kind |-> "conv", ty |-> xs[i].ty, node |-> xs[i].node, json |-> JNull]]
DeepCases(zzdummy) ==
  LET cells == SetToSeq({<<t, d, sh>> : t \in {"Value", "&Value"}, d \in {1, 64, 100, 126, 127, 128, 129, 130, 200}, sh \in {"arr", "obj", "mix"}})
  IN [i \in DOMAIN cells |-> [e |-> "conv", kind |-> "conv", ty |-> cells[i][1], deep |-> [d |-> cells[i][2], shape |-> cells[i][3]],
                               json |-> JNull, node |-> [k |-> "unit"]]]
(* inputs of types that have no specialised conversion: judged by agreement of the feature sets alone *)
Generics == <<"Vec<i32>", "&Vec<i32>", "BTreeMap<String,i32>", "BTreeMap<u16,String>", "BTreeMap<bool,i32>", "BTreeMap<char,i32>", "HashMap<i64,()>", "Vec<BTreeMap<u8,u8>>",
              "(i32,String)", "P", "Option<i32>", "Option<()>", "i128", "u128", "i128big", "[u8;2]", "Box<i32>", "char", "f32nan", "f64nan", "f64inf", "f32neginf", "&f64nan", "Vec<f64>", "(BTreeMap<i8,i8>,i8)", "Vec<u128>",
              "f64sub1", "f64sub2", "f64subneg", "f64subtop", "f64minpos", "f64max", "f64min", "f64negzero", "f64eps", "f32sub", "f32minpos", "f32max", "f32negzero", "&f64sub", "Vec<f64sub>", "Option<f64sub>">>
GenericCases(zzdummy) == [i \in DOMAIN Generics |-> [e |-> "conv", kind |-> "convgen", ty |-> Generics[i], json |-> JNull, node |-> [k |-> "unit"]]]
ASSUME ndJsonSerialize(IOEnv.OUT, Cases(0) \o DeepCases(0) \o GenericCases(0))
=============================================================================
