------------------------------- MODULE Gen_Conv -------------------------------
(* spec -> impl cases for C17 (input conversions): every input of Convert!Inputs *)
EXTENDS Convert, Json, IOUtils, SequencesExt
Cases(zzdummy) == LET xs == SetToSeq(Inputs) IN
  [i \in DOMAIN xs |-> IF "json" \in DOMAIN xs[i] THEN [e |-> "conv", kind |-> "conv", ty |-> xs[i].ty, json |-> xs[i].json, node |-> [k |-> "unit"]]
                       ELSE [e |-> "conv", kind |-> "conv", ty |-> xs[i].ty, node |-> xs[i].node, json |-> JNull]]
DeepCases(zzdummy) ==
  LET cells == SetToSeq({<<t, d, sh>> : t \in {"Value", "&Value"}, d \in {1, 64, 100, 126, 127, 128, 129, 130, 200}, sh \in {"arr", "obj", "mix"}})
  IN [i \in DOMAIN cells |-> [e |-> "conv", kind |-> "conv", ty |-> cells[i][1], deep |-> [d |-> cells[i][2], shape |-> cells[i][3]],
                               json |-> JNull, node |-> [k |-> "unit"]]]
ASSUME ndJsonSerialize(IOEnv.OUT, Cases(0) \o DeepCases(0))
=============================================================================
