------------------------------- MODULE Gen_Conv -------------------------------
(* spec -> impl cases for C17 (input conversions): every input of Convert!Inputs *)
EXTENDS Convert, Json, IOUtils, SequencesExt
Cases(zzdummy) == LET xs == SetToSeq(Inputs) IN
  [i \in DOMAIN xs |-> IF "json" \in DOMAIN xs[i] THEN [e |-> "conv", kind |-> "conv", ty |-> xs[i].ty, json |-> xs[i].json, node |-> [k |-> "unit"]]
                       ELSE [e |-> "conv", kind |-> "conv", ty |-> xs[i].ty, node |-> xs[i].node, json |-> JNull]]
ASSUME ndJsonSerialize(IOEnv.OUT, Cases(0))
=============================================================================
