----------------------------- MODULE Gen_Decode -----------------------------
(***************************************************************************)
(* Cases for the decoding half of C14: every value of Decode!Universe (the *)
(* witnesses of every type of the zoo and all their one-edit mutations);   *)
(* the driver decodes each value into every type of the zoo.               *)
(* DEEP = "2" adds every second edit of the witnesses of composite types.  *)
(***************************************************************************)
EXTENDS Decode, Json, IOUtils, SequencesExt
(* IOEnv.DEEP = "2": also every second edit of the witnesses of the composite types *)
U1 == Universe(ZooNames)
Rich == {"E", "Outer", "IT", "AT", "UT", "Flat", "FirstEntry", "TupI32String", "Point", "MapColorI32", "OptE"}
U2 == LET W == UNION {Wit(Zoo[n]) : n \in Rich} IN UNION {UNION {Mut(m) : m \in Mut(w)} : w \in W}
Cases(zzdummy) == LET vs == SetToSeq(IF IOEnv.DEEP = "2" THEN U1 \cup U2 ELSE U1) IN [i \in DOMAIN vs |-> [e |-> "serde", kind |-> "dec", json |-> vs[i]]]
ASSUME ndJsonSerialize(IOEnv.OUT, Cases(0))
=============================================================================
