------------------------------- MODULE JText -------------------------------
(***************************************************************************)
(* Spelling: abstract things -> sequences of code points.                  *)
(* Every text handed to the implementation by a TLC-generated case is      *)
(* produced here, so the Rust driver contains no spelling logic.           *)
(***************************************************************************)
EXTENDS JValue

RECURSIVE NatText(_)
NatText(n) == IF n < 10 THEN <<48 + n>> ELSE NatText(n \div 10) \o <<48 + (n % 10)>>
IntText(n) == IF n < 0 THEN <<45>> \o NatText(-n) ELSE NatText(n)

RECURSIVE Concat(_)
Concat(ss) == IF ss = <<>> THEN <<>> ELSE Head(ss) \o Concat(Tail(ss))

RECURSIVE JoinWith(_, _)
JoinWith(ss, sep) == IF ss = <<>> THEN <<>>
                     ELSE IF Len(ss) = 1 THEN ss[1]
                     ELSE ss[1] \o sep \o JoinWith(Tail(ss), sep)

(* common characters *)
cLBRACKET == 91   cRBRACKET == 93   cCOLON == 58   cAT == 64   cCOMMA == 44
cLBRACE == 123    cRBRACE == 125    cDQUOTE == 34  cSQUOTE == 39 cBTICK == 96
cBSLASH == 92     cSPACE == 32      cDOT == 46     cLPAREN == 40 cRPAREN == 41
cSTAR == 42       cPIPE == 124      cAMP == 38     cBANG == 33   cEQ == 61
cLT == 60         cGT == 62         cQMARK == 63   cMINUS == 45  cNL == 10

(* Hex digit for \uXXXX escapes *)
Hex(d) == IF d < 10 THEN 48 + d ELSE 87 + d
U4(cp) == <<cBSLASH, 117, Hex(cp \div 4096), Hex((cp \div 256) % 16), Hex((cp \div 16) % 16), Hex(cp % 16)>>

(* JSON string body (without the quotes): the minimal canonical escaping *)
JsonChar(c) ==
  IF c = cDQUOTE THEN <<cBSLASH, cDQUOTE>>
  ELSE IF c = cBSLASH THEN <<cBSLASH, cBSLASH>>
  ELSE IF c = 10 THEN <<cBSLASH, 110>>
  ELSE IF c = 9 THEN <<cBSLASH, 116>>
  ELSE IF c = 13 THEN <<cBSLASH, 114>>
  ELSE IF c = 8 THEN <<cBSLASH, 98>>
  ELSE IF c = 12 THEN <<cBSLASH, 102>>
  ELSE IF c < 32 THEN U4(c)
  ELSE <<c>>
JsonStrBody(s) == Concat([i \in DOMAIN s |-> JsonChar(s[i])])
JsonStrText(s) == <<cDQUOTE>> \o JsonStrBody(s) \o <<cDQUOTE>>

(* number text: integers and halves/quarters etc. with denominator 2, 4, 5, 10 spelled as decimals *)
NumText(n) ==
  IF n.q = 1 THEN IntText(n.p)
  ELSE LET sign == IF n.p < 0 THEN <<cMINUS>> ELSE <<>>
           a    == Abs(n.p)
           ip   == a \div n.q
           num  == a % n.q                      \* fraction num/q, 0 < num < q
           frac == CASE n.q = 2  -> NatText(num * 5)
                     [] n.q = 4  -> (IF num * 25 < 10 THEN <<48>> ELSE <<>>) \o NatText(num * 25)
                     [] n.q = 5  -> NatText(num * 2)
                     [] n.q = 10 -> NatText(num)
       IN sign \o NatText(ip) \o <<cDOT>> \o frac

(* compact JSON text of a tagged value *)
RECURSIVE JsonText(_)
JsonText(v) ==
  CASE v.t = "null" -> <<110, 117, 108, 108>>
    [] v.t = "bool" -> IF v.b THEN <<116, 114, 117, 101>> ELSE <<102, 97, 108, 115, 101>>
    [] v.t = "num"  -> NumText(v)
    [] v.t = "str"  -> JsonStrText(v.s)
    [] v.t = "arr"  -> <<cLBRACKET>> \o JoinWith([i \in DOMAIN v.a |-> JsonText(v.a[i])], <<cCOMMA>>) \o <<cRBRACKET>>
    [] v.t = "obj"  -> <<cLBRACE>> \o JoinWith([i \in DOMAIN v.o |->
                           JsonStrText(v.o[i].k) \o <<cCOLON>> \o JsonText(v.o[i].v)], <<cCOMMA>>) \o <<cRBRACE>>
=============================================================================
