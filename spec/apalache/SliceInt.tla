------------------------------ MODULE SliceInt ------------------------------
(***************************************************************************)
(* The slice loop of jmespath/src/variable.rs:453-502 over the WHOLE       *)
(* signed 32-bit range, for Apalache (integer-only, typed).  TLC explores  *)
(* the same machine on a boundary-heavy finite domain (mc/MC_Slice.tla);   *)
(* here start, stop and step range over all of i32 and len over 0..2^31-1. *)
(*                                                                         *)
(* State: the loop cursor i, the bound b, how many elements were taken,    *)
(* and two failure flags: ovf (an i32 operation left the range) and oob    *)
(* (an index outside 0..len-1 was used).  CHECKED selects the repaired     *)
(* loop (checked_add, stop on overflow) or the loop as found.              *)
(***************************************************************************)
EXTENDS Integers

CONSTANTS
  \* @type: Int;
  LEN,
  \* @type: Int;
  START,
  \* @type: Bool;
  HASSTART,
  \* @type: Int;
  STOP,
  \* @type: Bool;
  HASSTOP,
  \* @type: Int;
  STEP,
  \* @type: Bool;
  CHECKED

VARIABLES
  \* @type: Str;
  pc,
  \* @type: Int;
  i,
  \* @type: Int;
  b,
  \* @type: Int;
  taken,
  \* @type: Bool;
  ovf,
  \* @type: Bool;
  oob

MAXI == 2147483647
MINI == -2147483648

ConstInit ==
  /\ LEN \in 0..MAXI
  /\ START \in MINI..MAXI /\ STOP \in MINI..MAXI /\ STEP \in MINI..MAXI /\ STEP # 0
  /\ HASSTART \in BOOLEAN /\ HASSTOP \in BOOLEAN
  /\ CHECKED \in BOOLEAN

Adjust(e) ==
  IF e < 0
  THEN (IF e + LEN >= 0 THEN e + LEN ELSE IF STEP < 0 THEN -1 ELSE 0)
  ELSE IF e < LEN THEN e ELSE IF STEP < 0 THEN LEN - 1 ELSE LEN

Init ==
  /\ pc = IF LEN = 0 THEN "done" ELSE "loop"
  /\ i = IF HASSTART THEN Adjust(START) ELSE IF STEP < 0 THEN LEN - 1 ELSE 0
  /\ b = IF HASSTOP THEN Adjust(STOP) ELSE IF STEP < 0 THEN -1 ELSE LEN
  /\ taken = 0 /\ ovf = FALSE /\ oob = FALSE

Continue == (STEP > 0 /\ i < b) \/ (STEP < 0 /\ i > b)

Step ==
  /\ pc = "loop"
  /\ IF ~Continue THEN pc' = "done" /\ UNCHANGED <<i, b, taken, ovf, oob>>
     ELSE /\ oob' = (oob \/ i < 0 \/ i >= LEN)
          /\ taken' = taken + 1
          /\ b' = b
          /\ IF i + STEP > MAXI \/ i + STEP < MINI
             THEN IF CHECKED THEN pc' = "done" /\ i' = i /\ ovf' = ovf
                  ELSE pc' = "fail" /\ i' = i /\ ovf' = TRUE
             ELSE pc' = "loop" /\ i' = i + STEP /\ ovf' = ovf

Stutter == pc \in {"done", "fail"} /\ UNCHANGED <<pc, i, b, taken, ovf, oob>>
Next == Step \/ Stutter

(* C05 / C07: with the repaired loop no i32 overflow and no out-of-bounds index, for every array length and every triple *)
Safe == CHECKED => (~ovf /\ ~oob /\ pc # "fail")

(* inductive strengthening: while looping the cursor stays inside the array whenever another element will be taken *)
IndInv ==
  /\ pc \in {"loop", "done", "fail"}
  /\ LEN >= 0 /\ LEN <= MAXI /\ STEP # 0 /\ STEP >= MINI /\ STEP <= MAXI
  /\ b >= -1 /\ b <= LEN
  /\ i >= MINI /\ i <= MAXI
  /\ (pc = "loop" /\ Continue) => (i >= 0 /\ i < LEN)
  /\ (pc = "loop" /\ STEP > 0) => i >= 0
  /\ (pc = "loop" /\ STEP < 0) => i < LEN
  /\ taken >= 0
  /\ Safe

(* negative control: the loop as found (unchecked `i += step`) must violate this *)
ConstInitAsFound == ConstInit /\ CHECKED = FALSE
NoOverflow == ~ovf

(* IndInv as an initial predicate in Apalache's assignment form *)
IndInit ==
  /\ pc \in {"loop", "done", "fail"}
  /\ i \in MINI..MAXI
  /\ b \in (-1)..MAXI
  /\ taken \in 0..MAXI
  /\ ovf \in BOOLEAN
  /\ oob \in BOOLEAN
  /\ IndInv
=============================================================================
