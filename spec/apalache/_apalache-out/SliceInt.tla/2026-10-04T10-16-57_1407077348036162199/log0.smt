Logging is disabled (Z3SolverContext.debug = false). Activate with --debug.
