-------------------------------- MODULE Prec --------------------------------
(***************************************************************************)
(* Level 0 for C04: the tree "dictated by the binding-power order"         *)
(*                                                                         *)
(*   pipe < or < and < comparison < flatten < wildcard < filter < dot      *)
(*        < not < bracket < call                                           *)
(*                                                                         *)
(* with every binary operator left-associative and a projection's          *)
(* right-hand side extending until a token that binds looser than a        *)
(* projection.  The order is held as DATA (Level below) and interpreted by *)
(* a generic operator-precedence (shift-reduce) machine with an explicit   *)
(* stack of open operators -- deliberately not the recursive functions of  *)
(* parser.rs.  Defined on sentences of the grammar only.                   *)
(*                                                                         *)
(* A frame is an operator still waiting for (the rest of) its right        *)
(* operand: [rbp, kind, a, b, acc, name, op, t, has].  A token that binds  *)
(* at level p first closes every open operator that binds at least as      *)
(* tightly (rbp >= p: left associativity), then opens its own frame.       *)
(* Group frames (parentheses, lists, argument lists, hashes, filter        *)
(* predicates) have rbp -1 and are closed only by their closing token.     *)
(***************************************************************************)
EXTENDS Tokens

(* the binding-power order of the statement, as data *)
BindLevel(k) ==
  CASE k = "Pipe" -> 1 [] k = "Or" -> 2 [] k = "And" -> 3 [] k = "Cmp" -> 5
    [] k = "Flatten" -> 9 [] k = "Star" -> 20 [] k = "Filter" -> 21 [] k = "Dot" -> 40
    [] k = "Not" -> 45 [] k = "Lbracket" -> 55 [] k = "Lparen" -> 60
    [] OTHER -> 0            \* closing brackets, comma, colon, end of input
WILDCARD == 20
FILTER   == 21
FLATTEN  == 9

Frame(rbp, kind, a, b, op) ==
  [rbp |-> rbp, kind |-> kind, a |-> a, b |-> b, acc |-> <<>>, name |-> <<>>, op |-> op,
   t |-> AErr, has |-> FALSE]
Group(kind, a, name, op) ==
  [rbp |-> -1, kind |-> kind, a |-> a, b |-> AErr, acc |-> <<>>, name |-> name, op |-> op,
   t |-> AErr, has |-> FALSE]
IsGroup(f) == f.rbp = -1

Top(st) == st[Len(st)]
Pop(st) == SubSeq(st, 1, Len(st) - 1)
SetT(st, t) == [st EXCEPT ![Len(st)].t = t, ![Len(st)].has = TRUE]
ClearT(st)  == [st EXCEPT ![Len(st)].has = FALSE]

(* the tree an operator frame denotes once its right operand c is complete *)
Close(f) ==
  LET c == IF f.has THEN f.t ELSE AIdentity IN       \* a projection with nothing after it projects the element itself
  CASE f.kind = "not"        -> A1("Not", c)
    [] f.kind = "expref"     -> A1("Expref", c)
    [] f.kind = "bin"        -> A2(IF f.op = "Or" THEN "Or" ELSE IF f.op = "And" THEN "And" ELSE "Subexpr", f.a, c)
    [] f.kind = "cmp"        -> ACmp(f.op, f.a, c)
    [] f.kind = "dot"        -> A2("Subexpr", f.a, c)
    [] f.kind = "proj"       -> A2("Projection", f.a, c)
    [] f.kind = "filterproj" -> A2("Projection", f.a, A2("Condition", f.b, c))
    [] f.kind = "sliceproj"  -> A2("Subexpr", f.a, A2("Projection", f.b, c))

(* close every open operator that binds at least as tightly as level p *)
RECURSIVE PopWhile(_, _)
PopWhile(st, p) ==
  IF Len(st) > 1 /\ ~IsGroup(Top(st)) /\ Top(st).rbp >= p
  THEN PopWhile(SetT(Pop(st), Close(Top(st))), p)
  ELSE st

(* the contents of "[" number / slice "]" starting after the "[" *)
RECURSIVE ScanIdx(_, _, _, _)
ScanIdx(ts, pos, parts, cnt) ==
  LET k == K(ts, pos) IN
  IF k = "Num" THEN ScanIdx(ts, pos + 1, [parts EXCEPT ![cnt] = OptSome(ts[pos].num)], cnt)
  ELSE IF k = "Colon" THEN ScanIdx(ts, pos + 1, parts, cnt + 1)
  ELSE [parts |-> parts, cnt |-> cnt, end |-> pos]        \* the "]"
SliceNode(sc) == ASlice(sc.parts[1], sc.parts[2], IF sc.parts[3].has THEN sc.parts[3].v ELSE 1)

RECURSIVE Run(_, _, _)
Run(ts, pos, st) ==
  IF pos > Len(ts) THEN PopWhile(st, 0)[1].t
  ELSE
  LET k   == ts[pos].k
      top == Top(st)
      \* directly after a projection only ".", "[" and "[?" continue it; anything else ends it
      rhsStart == ~top.has /\ top.kind \in {"proj", "filterproj", "sliceproj"} /\ top.op # "dotted"
      operand == ~top.has /\ (~rhsStart \/ k \in {"Dot", "Lbracket", "Filter"})
      afterDot == top.kind = "dot" \/ top.op = "dotted"      \* after "." a "[" always opens a multi-select list
  IN
  \* ----- a hash group waiting for "key :" -----
  IF operand /\ top.kind = "hash" /\ top.op = "key" THEN
       Run(ts, pos + 2, [st EXCEPT ![Len(st)].name = ts[pos].name, ![Len(st)].op = "val"])
  \* ----- operand position -----
  ELSE IF operand /\ k = "Ident" /\ K(ts, pos + 1) = "Lparen" THEN
       Run(ts, pos + 2, Append(st, Group("args", AErr, ts[pos].name, "")))
  ELSE IF operand /\ k \in {"Ident", "QIdent"} THEN Run(ts, pos + 1, SetT(st, AField(ts[pos].name)))
  ELSE IF operand /\ k = "Lit" THEN Run(ts, pos + 1, SetT(st, ALiteral(ts[pos].val)))
  ELSE IF operand /\ k = "At"  THEN Run(ts, pos + 1, SetT(st, AIdentity))
  ELSE IF operand /\ k = "Not" THEN Run(ts, pos + 1, Append(st, Frame(BindLevel("Not"), "not", AErr, AErr, "")))
  ELSE IF operand /\ k = "Amp" THEN Run(ts, pos + 1, Append(st, Frame(0, "expref", AErr, AErr, "")))
  ELSE IF operand /\ k = "Lparen" THEN Run(ts, pos + 1, Append(st, Group("paren", AErr, <<>>, "")))
  ELSE IF operand /\ k = "Lbrace" THEN Run(ts, pos + 1, Append(st, Group("hash", AErr, <<>>, "key")))
  ELSE IF operand /\ k = "Star" THEN
       Run(ts, pos + 1, Append(st, Frame(WILDCARD, "proj", A1("ObjectValues", AIdentity), AErr, "")))
  ELSE IF operand /\ k = "Flatten" THEN
       Run(ts, pos + 1, Append(st, Frame(FLATTEN, "proj", A1("Flatten", AIdentity), AErr, "")))
  ELSE IF operand /\ k = "Filter" THEN Run(ts, pos + 1, Append(st, Group("filter", AIdentity, <<>>, "")))
  ELSE IF operand /\ k = "Lbracket" /\ afterDot THEN Run(ts, pos + 1, Append(st, Group("mlist", AErr, <<>>, "")))
  ELSE IF operand /\ k = "Lbracket" /\ K(ts, pos + 1) \in {"Num", "Colon"} THEN
       LET sc == ScanIdx(ts, pos + 1, <<OptNone, OptNone, OptNone>>, 1)
       IN IF sc.cnt = 1 THEN Run(ts, sc.end + 1, SetT(st, AIndex(sc.parts[1].v)))
          ELSE Run(ts, sc.end + 1, Append(st, Frame(WILDCARD, "proj", SliceNode(sc), AErr, "")))
  ELSE IF operand /\ k = "Lbracket" /\ K(ts, pos + 1) = "Star" /\ K(ts, pos + 2) = "Rbracket" THEN
       Run(ts, pos + 3, Append(st, Frame(WILDCARD, "proj", AIdentity, AErr, "")))
  ELSE IF operand /\ k = "Lbracket" THEN Run(ts, pos + 1, Append(st, Group("mlist", AErr, <<>>, "")))
  ELSE IF operand /\ k = "Dot" THEN                         \* the "." that starts a projection's right-hand side
       Run(ts, pos + 1, [st EXCEPT ![Len(st)].op = "dotted"])
  \* ----- operator position (also: a stopper right after a projection, `f()`) -----
  ELSE
  LET s1  == PopWhile(st, BindLevel(k))
      cur == Top(s1)
      acc1 == IF cur.has THEN Append(cur.acc, cur.t) ELSE cur.acc
  IN
  CASE k \in {"Pipe", "Or", "And"} -> Run(ts, pos + 1, Append(s1, Frame(BindLevel(k), "bin", cur.t, AErr, k)))
    [] k = "Cmp" -> Run(ts, pos + 1, Append(s1, Frame(BindLevel(k), "cmp", cur.t, AErr, ts[pos].op)))
    [] k = "Dot" ->
         IF K(ts, pos + 1) = "Star"
         THEN Run(ts, pos + 2, Append(s1, Frame(WILDCARD, "proj", A1("ObjectValues", cur.t), AErr, "")))
         ELSE Run(ts, pos + 1, Append(s1, Frame(BindLevel("Dot"), "dot", cur.t, AErr, "")))
    [] k = "Lbracket" ->
         IF K(ts, pos + 1) = "Star"
         THEN Run(ts, pos + 3, Append(s1, Frame(WILDCARD, "proj", cur.t, AErr, "")))
         ELSE LET sc == ScanIdx(ts, pos + 1, <<OptNone, OptNone, OptNone>>, 1)
              IN IF sc.cnt = 1
                 THEN Run(ts, sc.end + 1, SetT(s1, A2("Subexpr", cur.t, AIndex(sc.parts[1].v))))
                 ELSE Run(ts, sc.end + 1, Append(s1, Frame(WILDCARD, "sliceproj", cur.t, SliceNode(sc), "")))
    [] k = "Flatten" -> Run(ts, pos + 1, Append(s1, Frame(FLATTEN, "proj", A1("Flatten", cur.t), AErr, "")))
    [] k = "Filter"  -> Run(ts, pos + 1, Append(s1, Group("filter", cur.t, <<>>, "")))
    [] k = "Comma" ->
         IF cur.kind = "hash"
         THEN Run(ts, pos + 1, [s1 EXCEPT ![Len(s1)].acc = Append(cur.acc, [k |-> cur.name, v |-> cur.t]),
                                          ![Len(s1)].op = "key", ![Len(s1)].has = FALSE])
         ELSE Run(ts, pos + 1, [s1 EXCEPT ![Len(s1)].acc = acc1, ![Len(s1)].has = FALSE])
    [] k = "Rparen" ->
         IF cur.kind = "paren" THEN Run(ts, pos + 1, SetT(Pop(s1), cur.t))
         ELSE Run(ts, pos + 1, SetT(Pop(s1), AFunction(cur.name, acc1)))
    [] k = "Rbracket" ->
         IF cur.kind = "mlist" THEN Run(ts, pos + 1, SetT(Pop(s1), AMultiList(acc1)))
         ELSE \* end of a filter predicate: the filter projection opens
              Run(ts, pos + 1, Append(Pop(s1), Frame(FILTER, "filterproj", cur.a, cur.t, "")))
    [] k = "Rbrace" ->
         Run(ts, pos + 1, SetT(Pop(s1), AMultiHash(Append(cur.acc, [k |-> cur.name, v |-> cur.t]))))

Base == [rbp |-> -2, kind |-> "base", a |-> AErr, b |-> AErr, acc |-> <<>>, name |-> <<>>, op |-> "",
         t |-> AErr, has |-> FALSE]

TreeOf(ts) == Run(ts, 1, <<Base>>)
=============================================================================
