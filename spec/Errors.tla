------------------------------- MODULE Errors -------------------------------
(***************************************************************************)
(* C12: error coordinates and rendering.                                   *)
(* Level 0  Coord(chars, k): the zero-based line and character column of   *)
(*          the k-th character boundary (k characters precede it).         *)
(* Level 1  CoordL1: errors.rs:25-46 -- the position handed to             *)
(*          JmespathError::new is a BYTE offset; the loop                  *)
(*          `for c in expr.chars().take(offset)` counts it as a number of  *)
(*          characters (DEV_COLUMN_IN_BYTES); with the deviation off the   *)
(*          characters that start below the byte offset are counted.       *)
(***************************************************************************)
EXTENDS Integers, Sequences, FiniteSets, TLC

NL == 10
Utf8Len(c) == IF c < 128 THEN 1 ELSE IF c < 2048 THEN 2 ELSE IF c < 65536 THEN 3 ELSE 4

RECURSIVE ByteOffsetOf(_, _)
(* byte offset of the k-th character boundary *)
ByteOffsetOf(chars, k) == IF k = 0 THEN 0 ELSE ByteOffsetOf(chars, k - 1) + Utf8Len(chars[k])

(* Level 0 *)
Coord(chars, k) ==
  LET nls == {i \in 1..k : chars[i] = NL}
      lastNl == IF nls = {} THEN 0 ELSE CHOOSE i \in nls : \A j \in nls : j <= i
  IN [line |-> Cardinality(nls), col |-> k - lastNl]

(* Level 1: scan `take` characters *)
RECURSIVE Scan(_, _, _, _, _)
Scan(chars, i, take, line, col) ==
  IF i > take \/ i > Len(chars) THEN [line |-> line, col |-> col]
  ELSE IF chars[i] = NL THEN Scan(chars, i + 1, take, line + 1, 0)
  ELSE Scan(chars, i + 1, take, line, col + 1)

(* number of characters that start below byte offset b *)
RECURSIVE CharsBelow(_, _, _, _)
CharsBelow(chars, i, pos, b) ==
  IF i > Len(chars) \/ pos >= b THEN i - 1 ELSE CharsBelow(chars, i + 1, pos + Utf8Len(chars[i]), b)

CoordL1(chars, byteoff, D) ==
  IF "DEV_COLUMN_IN_BYTES" \in D THEN Scan(chars, 1, byteoff, 0, 0)
  ELSE Scan(chars, 1, CharsBelow(chars, 1, 0, byteoff), 0, 0)

(* the (1-based) index in `text` just after the end of line number L (0-based) of chars, i.e. where the caret line
   is injected by Display (errors.rs:69-101) *)
RECURSIVE LineEnd(_, _, _)
LineEnd(chars, i, L) ==
  IF i > Len(chars) THEN Len(chars) + 1
  ELSE IF chars[i] = NL THEN (IF L = 0 THEN i + 1 ELSE LineEnd(chars, i + 1, L - 1))
  ELSE LineEnd(chars, i + 1, L)

Spaces(n) == [i \in 1..n |-> 32]
(* Level 0 rendering of the location part: the expression with a caret line ("^" under column col) placed directly
   after line L of the expression (after its terminating newline if it has one, else after an added newline) *)
Rendered(chars, L, col) ==
  LET nNl == Cardinality({i \in 1..Len(chars) : chars[i] = NL})
      caret == Spaces(col) \o <<94, NL>>
  IN IF nNl >= L + 1
     THEN LET e == LineEnd(chars, 1, L) IN SubSeq(chars, 1, e - 1) \o caret \o SubSeq(chars, e, Len(chars))
     ELSE chars \o <<NL>> \o caret
=============================================================================
