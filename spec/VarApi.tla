------------------------------- MODULE VarApi -------------------------------
(***************************************************************************)
(* The public accessor methods of `Variable` (jmespath/src/variable.rs:    *)
(* 250-432, :88-163): what an embedding program calls on a search result.  *)
(* Not a listed property by itself; each method is the evaluator's own     *)
(* building block for one expression form, so its contract is stated       *)
(* THROUGH Eval (MC_VarApi checks the two statements coincide), and the    *)
(* conformance judge (TV_VarApi) compares every call on the real methods   *)
(* with it.  Attached to C01 (accessors) and C10 (compare, ==, the         *)
(* documented internal order).                                             *)
(*                                                                         *)
(*   get_field(k)            `k`        on the value                       *)
(*   get_index(i)            `[i]`                                         *)
(*   get_negative_index(n)   `[-n]` (n >= 1); 0 is treated like 1          *)
(*   is_truthy()             the truth value `!!@` has                     *)
(*   get_type()              what `type(@)` names                          *)
(*   compare(op, w)          `@ op w` : None where the language says null  *)
(*   ==                      compare(Equal)                                *)
(*   Ord::cmp                documented: values of different types are     *)
(*                           Equal; strings by code point; numbers by      *)
(*                           value; everything else Equal                  *)
(*   is_X / as_X             by the JSON type                              *)
(***************************************************************************)
EXTENDS Eval

FieldOf(v, k) == IF v.t = "obj" THEN ObjGet(v, k) ELSE JNull
IndexOf(v, i) == IF v.t = "arr" /\ i < Len(v.a) THEN v.a[i + 1] ELSE JNull
MaxN(a, b) == IF a > b THEN a ELSE b
NegIndexOf(v, n) == IF v.t = "arr" /\ Len(v.a) >= MaxN(n, 1) THEN v.a[Len(v.a) - MaxN(n, 1) + 1] ELSE JNull
CompareOf(op, v, w) == Cmp(op, v, w)                      \* JNull stands for None
OrdOf(a, b) ==
  IF a.t # b.t THEN 0
  ELSE CASE a.t = "str" -> IF SeqLess(a.s, b.s) THEN -1 ELSE IF SeqLess(b.s, a.s) THEN 1 ELSE 0
         [] a.t = "num" -> IF NumLess(a, b) THEN -1 ELSE IF NumLess(b, a) THEN 1 ELSE 0
         [] OTHER -> 0

(* the same, stated through the evaluator *)
ViaEval(a, v) == Eval(a, v, <<>>).ok
FieldByEval(v, k) == ViaEval(AField(k), v)
IndexByEval(v, i) == ViaEval(AIndex(i), v)
TruthyByEval(v) == ViaEval(A1("Not", A1("Not", AIdentity)), v) = JTrue
CompareByEval(op, v, w) == ViaEval(ACmp(op, AIdentity, ALiteral(w)), v)
=============================================================================
