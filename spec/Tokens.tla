------------------------------- MODULE Tokens -------------------------------
(***************************************************************************)
(* Token vocabulary shared by Lexer, Grammar, Pratt and Prec.              *)
(* A token is a record [k |-> kind] plus a payload field that depends on   *)
(* the kind (different field names per payload type, see JValue):          *)
(*   Ident / QIdent : name  (sequence of code points)                      *)
(*   Num            : num   (integer)                                      *)
(*   Lit            : val   (tagged JSON value)                            *)
(*   Cmp            : op    ("eq","ne","lt","le","gt","ge")                *)
(* The six comparators are one kind: they are interchangeable in the       *)
(* grammar and in the binding-power table (lexer.rs:63-68).                *)
(***************************************************************************)
EXTENDS JValue

Kinds == {"Ident", "QIdent", "Num", "Lit", "Dot", "Star", "Flatten", "And", "Or", "Pipe",
          "Filter", "Lbracket", "Rbracket", "Comma", "Colon", "Not", "Cmp", "At", "Amp",
          "Lparen", "Rparen", "Lbrace", "Rbrace"}

KindSeq == <<"Ident", "QIdent", "Num", "Lit", "Dot", "Star", "Flatten", "And", "Or", "Pipe",
             "Filter", "Lbracket", "Rbracket", "Comma", "Colon", "Not", "Cmp", "At", "Amp",
             "Lparen", "Rparen", "Lbrace", "Rbrace">>

CmpOps == {"eq", "ne", "lt", "le", "gt", "ge"}

TIdent(name)  == [k |-> "Ident", name |-> name]
TQIdent(name) == [k |-> "QIdent", name |-> name]
TNum(n)       == [k |-> "Num", num |-> n]
TLit(v)       == [k |-> "Lit", val |-> v]
TCmpTok(op)   == [k |-> "Cmp", op |-> op]
TPlain(kind)  == [k |-> kind]

(* kind of the i-th token, "Eof" past the end (parser.rs:74-79 peek) *)
K(ts, i) == IF i >= 1 /\ i <= Len(ts) THEN ts[i].k ELSE "Eof"

(* the sequence of kinds of a token sequence *)
KindsOf(ts) == [i \in DOMAIN ts |-> ts[i].k]

(***************************************************************************)
(* AST constructors: the public node vocabulary of ast.rs:25-171 with      *)
(* offsets dropped (the driver's ast_to_json produces exactly these).      *)
(***************************************************************************)
AIdentity         == [n |-> "Identity"]
AField(name)      == [n |-> "Field", name |-> name]
ALiteral(v)       == [n |-> "Literal", value |-> v]
AIndex(i)         == [n |-> "Index", idx |-> i]
ASlice(a, b, c)   == [n |-> "Slice", start |-> a, stop |-> b, step |-> c]
A1(kind, l)       == [n |-> kind, l |-> l]            \* Not, Flatten, ObjectValues, Expref
A2(kind, l, r)    == [n |-> kind, l |-> l, r |-> r]   \* Subexpr, Or, And, Projection, Condition
ACmp(op, l, r)    == [n |-> "Comparison", op |-> op, l |-> l, r |-> r]
AFunction(nm, as) == [n |-> "Function", name |-> nm, args |-> as]
AMultiList(as)    == [n |-> "MultiList", args |-> as]
AMultiHash(kvs)   == [n |-> "MultiHash", kvs |-> kvs] \* kvs: sequence of [k |-> key, v |-> tree]
AErr              == [n |-> "ERR"]

OptSome(n) == [has |-> TRUE, v |-> n]
OptNone    == [has |-> FALSE, v |-> 0]
=============================================================================
