----------------------------- MODULE FunctionsL1 -----------------------------
(***************************************************************************)
(* Level 1 for C02: the ALGORITHMS of the built-ins that have one, as      *)
(* coded in jmespath/src/functions.rs and variable.rs:137-163, transcribed *)
(* step for step.  MC_FunctionsL1 checks them against the Level-0 values   *)
(* of Eval!Apply on the value domains.                                     *)
(*   OrdL1          the internal total order (different types compare      *)
(*                  Equal; strings by bytes = code points; numbers by      *)
(*                  partial_cmp)                                           *)
(*   FoldMax/Min    min_and_max!: fold with std::cmp::max / min (max       *)
(*                  returns the SECOND argument on Equal, min the first)   *)
(*   StableSort     slice::sort / sort_by: a stable sort, here insertion   *)
(*                  sort from the left with strict "greater" shifting      *)
(*   ByExtreme      min_and_max_by!: keep the first candidate, replace it  *)
(*                  only when the new key is strictly better               *)
(*   MergeL1        BTreeMap::extend per argument, left to right           *)
(* Switches (negative controls): NC_UNSTABLE (ties swapped by the sort),   *)
(* NC_MERGE_LEFT (first argument wins).                                    *)
(***************************************************************************)
EXTENDS Eval

OrdL1(a, b) ==
  IF a.t # b.t THEN "eq"
  ELSE IF a.t = "str" THEN (IF SeqLess(a.s, b.s) THEN "lt" ELSE IF SeqLess(b.s, a.s) THEN "gt" ELSE "eq")
  ELSE IF a.t = "num" THEN (IF NumLess(a, b) THEN "lt" ELSE IF NumLess(b, a) THEN "gt" ELSE "eq")
  ELSE "eq"

StdMax(v1, v2) == IF OrdL1(v1, v2) = "gt" THEN v1 ELSE v2      \* std::cmp::max: second argument on Equal
StdMin(v1, v2) == IF OrdL1(v1, v2) = "gt" THEN v2 ELSE v1      \* std::cmp::min: first argument on Equal

RECURSIVE FoldL1(_, _, _, _)
FoldL1(xs, i, acc, isMax) == IF i > Len(xs) THEN acc ELSE FoldL1(xs, i + 1, IF isMax THEN StdMax(acc, xs[i]) ELSE StdMin(acc, xs[i]), isMax)
MinMaxL1(xs, isMax) == IF xs = <<>> THEN JNull ELSE FoldL1(xs, 2, xs[1], isMax)

(* insert x into the sorted prefix: move left past elements that are strictly greater (so equal keys keep their order) *)
RECURSIVE InsertL1(_, _, _, _)
InsertL1(sorted, x, key(_), D) ==
  LET RECURSIVE pos(_)
      pos(j) == IF j >= 1 /\ (OrdL1(key(sorted[j]), key(x)) = "gt" \/ ("NC_UNSTABLE" \in D /\ OrdL1(key(sorted[j]), key(x)) = "eq"))
                THEN pos(j - 1) ELSE j
      p == pos(Len(sorted))
  IN SubSeq(sorted, 1, p) \o <<x>> \o SubSeq(sorted, p + 1, Len(sorted))
RECURSIVE SortFrom(_, _, _, _, _)
SortFrom(xs, i, acc, key(_), D) == IF i > Len(xs) THEN acc ELSE SortFrom(xs, i + 1, InsertL1(acc, xs[i], key, D), key, D)
StableSortL1(xs, key(_), D) == SortFrom(xs, 1, <<>>, key, D)

SortL1(xs, D) == StableSortL1(xs, LAMBDA v : v, D)
(* sort_by: pairs (element, key) sorted by key *)
SortByL1(xs, keys, D) ==
  LET pairs == [i \in DOMAIN xs |-> [el |-> xs[i], key |-> keys[i]]]
      s == StableSortL1(pairs, LAMBDA pr : pr.key, D)
  IN [i \in DOMAIN s |-> s[i].el]

RECURSIVE ByExtremeL1(_, _, _, _, _, _)
ByExtremeL1(xs, keys, i, cand, ckey, isMax) ==
  IF i > Len(xs) THEN cand
  ELSE LET better == IF isMax THEN OrdL1(keys[i], ckey) = "gt" ELSE OrdL1(keys[i], ckey) = "lt"
       IN ByExtremeL1(xs, keys, i + 1, IF better THEN xs[i] ELSE cand, IF better THEN keys[i] ELSE ckey, isMax)
MinMaxByL1(xs, keys, isMax) == IF xs = <<>> THEN JNull ELSE ByExtremeL1(xs, keys, 2, xs[1], keys[1], isMax)

(* BTreeMap::extend, argument by argument *)
RECURSIVE ExtendL1(_, _, _)
ExtendL1(ms, add, i) ==
  IF i > Len(add) THEN ms
  ELSE LET key == add[i].k
           without == SelectSeq(ms, LAMBDA m : m.k # key)
           before == SelectSeq(without, LAMBDA m : SeqLess(m.k, key))
           after == SelectSeq(without, LAMBDA m : SeqLess(key, m.k))
       IN ExtendL1(before \o <<add[i]>> \o after, add, i + 1)
RECURSIVE MergeFrom(_, _, _, _)
MergeFrom(args, i, acc, D) ==
  IF i > Len(args) THEN JObj(acc)
  ELSE IF "NC_MERGE_LEFT" \in D
       THEN MergeFrom(args, i + 1, ExtendL1(acc, SelectSeq(args[i].o, LAMBDA m : \A x \in 1..Len(acc) : acc[x].k # m.k), 1), D)
       ELSE MergeFrom(args, i + 1, ExtendL1(acc, args[i].o, 1), D)
MergeL1(args, D) == MergeFrom(args, 1, <<>>, D)

RECURSIVE RevL1(_)
RevL1(s) == IF s = <<>> THEN <<>> ELSE RevL1(Tail(s)) \o <<Head(s)>>

(* contains: Vec::contains (PartialEq) for arrays; str::contains for strings, false for a non-string needle *)
ContainsL1(hay, needle) ==
  IF hay.t = "arr" THEN \E i \in DOMAIN hay.a : hay.a[i].t = needle.t /\ hay.a[i] = needle
  ELSE needle.t = "str" /\ SeqContains(hay.s, needle.s)

RECURSIVE FirstNonNull(_, _)
FirstNonNull(args, i) == IF i > Len(args) THEN JNull ELSE IF args[i].t # "null" THEN args[i] ELSE FirstNonNull(args, i + 1)

(* the value of f(args) as coded, for validated arguments; "na" where this module has no transcription *)
ApplyL1(f, args, keys, D) ==
  LET x == args[1] IN
  CASE f = "max" -> [v |-> MinMaxL1(x.a, TRUE)]
    [] f = "min" -> [v |-> MinMaxL1(x.a, FALSE)]
    [] f = "sort" -> [v |-> JArr(SortL1(x.a, D))]
    [] f = "sort_by" -> [v |-> JArr(SortByL1(x.a, keys, D))]
    [] f = "max_by" -> [v |-> MinMaxByL1(x.a, keys, TRUE)]
    [] f = "min_by" -> [v |-> MinMaxByL1(x.a, keys, FALSE)]
    [] f = "merge" -> [v |-> MergeL1(args, D)]
    [] f = "reverse" -> [v |-> IF x.t = "arr" THEN JArr(RevL1(x.a)) ELSE JStr(RevL1(x.s))]
    [] f = "contains" -> [v |-> JBool(ContainsL1(x, args[2]))]
    [] f = "not_null" -> [v |-> FirstNonNull(args, 1)]
    [] f = "length" -> [v |-> JInt(IF x.t = "str" THEN Len(x.s) ELSE IF x.t = "arr" THEN Len(x.a) ELSE Len(x.o))]
    [] OTHER -> [na |-> TRUE]
=============================================================================
