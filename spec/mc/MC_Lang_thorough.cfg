CONSTANTS
  N = 5
  CYKN = 3
  DEVS = {}
SPECIFICATION Spec
INVARIANTS Inv_C03 Inv_Sets Inv_Spell
CHECK_DEADLOCK FALSE
