SPECIFICATION Spec
INVARIANTS Inv_Total Inv_Transparent Inv_NonFinite Inv_Variants Inv_LastDup
CHECK_DEADLOCK FALSE
