CONSTANTS
  MODE = "sig"
  MAXAR = 2
  LEN = 3
  DEVS = {"NC_LENGTH_ANY"}
SPECIFICATION Spec
INVARIANTS Inv_L1Sig
CHECK_DEADLOCK FALSE
