CONSTANTS
  KMAX = 3
  DEVS = {"NC_MEMO"}
  EXPORT = FALSE
SPECIFICATION Spec
INVARIANTS Inv_Pure
CHECK_DEADLOCK FALSE
