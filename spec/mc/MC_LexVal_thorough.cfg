CONSTANTS
  N = 5
  DEVS = {}
SPECIFICATION Spec
INVARIANTS Inv_Raw Inv_Lit Inv_Quoted Inv_Bad
CHECK_DEADLOCK FALSE
