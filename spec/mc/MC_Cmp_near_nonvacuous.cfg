CONSTANTS
  DEVS = {}
  NEAR = TRUE
SPECIFICATION Spec
INVARIANTS Inv_NoTolerantPair
CHECK_DEADLOCK FALSE
