CONSTANTS
  DEVS = {}
  NEAR = TRUE
SPECIFICATION Spec
INVARIANTS Inv_ContractNear Inv_L1Near
CHECK_DEADLOCK FALSE
