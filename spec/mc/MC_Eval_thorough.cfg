CONSTANTS
  DEPTH = 2
  DEVS = {}
SPECIFICATION Spec
INVARIANTS Inv_InterpIsEval Inv_Laws Inv_Cmp
CHECK_DEADLOCK FALSE
