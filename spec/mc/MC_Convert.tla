----------------------------- MODULE MC_Convert -----------------------------
(* C17 at model level: for every feature set and every input of the specially handled types the conversion as coded
   (generic serde path, or the specialised implementation) is the JSON image of the input, hence independent of the
   feature set.  The transition switches the feature set. *)
EXTENDS Convert, TLC
CONSTANT DEVS
VARIABLES cfg, inp
Init == cfg \in Configs /\ inp \in Inputs
Next == \E c2 \in Configs \ {cfg} : cfg' = c2 /\ UNCHANGED inp
Spec == Init /\ [][Next]_<<cfg, inp>>
(* negative control: the specialised integer path routed through a double loses integers above 2^53 *)
ErrOut == [t |-> "error"]
L1(c, x) == IF "DEV_SPECIALIZED_NONFINITE_ERROR" \in DEVS /\ IsSpecialized(c) /\ x.ty \in {"f32", "f64"} /\ "special" \in DOMAIN x.node THEN ErrOut   \* as found (F17)
            ELSE IF "NC_INT_VIA_F64" \in DEVS /\ IsSpecialized(c) /\ x.ty = "u64" /\ x.node.v = "18446744073709551615"
            THEN JIntS("18446744073709551616") ELSE ConvL1(c, x)
Inv_ImageOfInput == L1(cfg, inp) = Conv0(inp)
Inv_ConfigIndependent == \A c2 \in Configs : L1(c2, inp) = L1(cfg, inp)
=============================================================================
