------------------------------ MODULE MC_Session ------------------------------
(***************************************************************************)
(* C13 / C15 at model level: every history of up to K API calls over 2     *)
(* runtimes (+ the default runtime 0), names {abs, f, g}, three custom     *)
(* bindings, TEXTS expression texts and 3 documents.  hist is a history    *)
(* variable (hidden from the state fingerprint by VIEW) from which the     *)
(* invariants re-derive what the contract promises:                        *)
(*   Inv_Registry  for every runtime and name, the registry answers with   *)
(*                 the most recently registered binding still registered   *)
(*                 (derived from hist alone); a fresh runtime has none     *)
(*   Inv_Borrow    a live expression's runtime registry is the registry    *)
(*                 it was compiled with                                    *)
(*   Inv_Pure      the last search result is Eval(tree(text), document,    *)
(*                 registry at compile time): no dependence on the         *)
(*                 history; documents never change                         *)
(*   Inv_Clone     a clone is indistinguishable from its original          *)
(* DEVS = {"NC_MEMO"}: a result cache keyed by text only (negative         *)
(* control for Inv_Pure).                                                  *)
(* In simulation mode the invariant Export prints each complete history as *)
(* JSON ("REPLAY ..."), to be replayed on a real Runtime.                  *)
(***************************************************************************)
EXTENDS Session, Json, TLC, SequencesExt
CONSTANTS KMAX, DEVS, EXPORT

VARIABLES hist, lastres, cache
vars == <<reg, live, docs, hist, lastres, cache>>

AbsN == NameCps("abs")   Fn == <<102>>   Gn == <<103>>
Names == {AbsN, Fn, Gn}
Bindings == {[k |-> "const", id |-> 101], [k |-> "const", id |-> 102], [k |-> "sigconst", id |-> 103], [k |-> "first", id |-> 104]}
Rts == {1, 2}
Handles == 1..3

(* expression texts (code points):  abs(`-1`)   f(@)   g(f(`1`), a)   [abs(a), f(`"x"`)]   a.b   f()   abs(a)  *)
Texts == << <<97,98,115,40,96,45,49,96,41>>, <<102,40,64,41>>, <<103,40,102,40,96,49,96,41,44,32,97,41>>,
            <<91,97,98,115,40,97,41,44,32,102,40,96,34,120,34,96,41,93>>, <<97,46,98>>, <<102,40,41>>, <<97,98,115,40,97,41>> >>
D1 == MkObj(<<JMem(<<97>>, JInt(-2)), JMem(<<98>>, JInt(1))>>)
D2 == MkObj(<<JMem(<<97>>, MkObj(<<JMem(<<98>>, JStr(<<120>>))>>))>>)
D3 == JNull
Docs0 == <<D1, D2, D3>>

Op(op, rt, name, b, h, h2, t, d) == [op |-> op, rt |-> rt, name |-> name, bk |-> b.k, bid |-> b.id, h |-> h, h2 |-> h2, t |-> t, d |-> d]
NoB == [k |-> "none", id |-> 0]

Init == /\ reg = [rt \in {0} \cup Rts |-> IF rt = 0 THEN Builtins ELSE EmptyReg]
        /\ live = NoHandles /\ docs = Docs0 /\ hist = <<>> /\ lastres = [none |-> TRUE] /\ cache = [x \in {} |-> 0]

Log(o) == hist' = Append(hist, o)
Quiet == UNCHANGED <<lastres, cache>>

Next ==
  /\ Len(hist) < KMAX
  /\ \/ \E rt \in Rts : NewRuntime(rt) /\ Log(Op("newrt", rt, <<>>, NoB, 0, 0, 0, 0)) /\ Quiet
     \/ \E rt \in Rts, nm \in Names, b \in Bindings : Register(rt, nm, b) /\ Log(Op("register", rt, nm, b, 0, 0, 0, 0)) /\ Quiet
     \/ \E rt \in Rts, nm \in Names : Deregister(rt, nm) /\ Log(Op("deregister", rt, nm, NoB, 0, 0, 0, 0)) /\ Quiet
     \/ \E rt \in Rts : RegisterBuiltins(rt) /\ Log(Op("builtins", rt, <<>>, NoB, 0, 0, 0, 0)) /\ Quiet
     \/ \E h \in Handles, rt \in {0} \cup Rts, t \in DOMAIN Texts : Compile(h, rt, Texts[t]) /\ Log(Op("compile", rt, <<>>, NoB, h, 0, t, 0)) /\ Quiet
     \/ \E h \in Handles, h2 \in Handles : Clone(h, h2) /\ Log(Op("clone", 0, <<>>, NoB, h, h2, 0, 0)) /\ Quiet
     \/ \E h \in Handles : Drop(h) /\ Log(Op("drop", 0, <<>>, NoB, h, 0, 0, 0)) /\ Quiet
     \/ \E h \in Handles, d \in DOMAIN Docs0 :
          /\ Search(h, d) /\ Log(Op("search", 0, <<>>, NoB, h, 0, 0, d))
          /\ IF "NC_MEMO" \in DEVS
             THEN LET key == live[h].text IN
                  IF key \in DOMAIN cache THEN lastres' = cache[key] /\ cache' = cache
                  ELSE lastres' = SearchResult(h, d) /\ cache' = [x \in (DOMAIN cache) \cup {key} |-> IF x = key THEN SearchResult(h, d) ELSE cache[x]]
             ELSE lastres' = SearchResult(h, d) /\ cache' = cache
Spec == Init /\ [][Next]_vars

View == <<reg, live, docs, lastres, cache, Len(hist)>>

(* ---- what the contract promises, derived from the history alone ---- *)
RECURSIVE RegFromHist(_, _, _)
RegFromHist(h, i, rt) ==      \* the registry of rt after the first i operations
  IF i = 0 THEN (IF rt = 0 THEN Builtins ELSE EmptyReg)
  ELSE LET prev == RegFromHist(h, i - 1, rt) o == h[i] IN
       IF o.rt # rt \/ o.op \notin {"newrt", "register", "deregister", "builtins"} THEN prev
       ELSE CASE o.op = "newrt" -> EmptyReg
              [] o.op = "register" -> [n \in (DOMAIN prev) \cup {o.name} |-> IF n = o.name THEN [k |-> o.bk, id |-> o.bid] ELSE prev[n]]
              [] o.op = "deregister" -> [n \in (DOMAIN prev) \ {o.name} |-> prev[n]]
              [] o.op = "builtins" -> [n \in (DOMAIN prev) \cup BuiltinNames |-> IF n \in BuiltinNames THEN [k |-> "builtin"] ELSE prev[n]]

Inv_Registry == \A rt \in Rts : reg[rt] = RegFromHist(hist, Len(hist), rt)

(* index of the compile (or, through clones, the original compile) that created handle h *)
RECURSIVE Origin(_, _, _)
Origin(hs, i, h) ==
  IF i = 0 THEN 0
  ELSE LET o == hs[i] IN
       IF o.op = "compile" /\ o.h = h THEN i
       ELSE IF o.op = "clone" /\ o.h2 = h THEN Origin(hs, i - 1, o.h)
       ELSE Origin(hs, i - 1, h)
Inv_Borrow == \A h \in DOMAIN live :
                 LET c == Origin(hist, Len(hist), h) IN
                 c > 0 /\ reg[live[h].rt] = RegFromHist(hist, c, hist[c].rt) /\ live[h].text = Texts[hist[c].t]

Inv_Pure ==
  (hist # <<>> /\ hist[Len(hist)].op = "search") =>
     LET o == hist[Len(hist)]
         c == Origin(hist, Len(hist) - 1, o.h)
     IN /\ lastres = Eval(Compiled(Texts[hist[c].t]).tree, Docs0[o.d], RegFromHist(hist, c, hist[c].rt))
        /\ docs = Docs0

Inv_Clone == \A h1, h2 \in DOMAIN live :
               (Origin(hist, Len(hist), h1) = Origin(hist, Len(hist), h2)) => live[h1] = live[h2]

(* the pools, for the driver that replays exported histories *)
ASSUME EXPORT => PrintT(<<"META", ToJson([texts |-> Texts, docs |-> Docs0, pool |-> SetToSeq(Names \cup {NameCps("length")})])>>)

Export == (EXPORT /\ Len(hist) = KMAX) => PrintT(<<"REPLAY", ToJson(hist)>>)
=============================================================================
