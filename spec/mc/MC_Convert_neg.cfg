CONSTANT DEVS = {"NC_INT_VIA_F64"}
SPECIFICATION Spec
INVARIANTS Inv_ConfigIndependent
CHECK_DEADLOCK FALSE
