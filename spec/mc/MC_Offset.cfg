CONSTANTS
  DEVS = {}
SPECIFICATION Spec
INVARIANTS Inv_ErrorPointsAtRaiser Inv_FreshPerSearch Inv_Balanced
CHECK_DEADLOCK FALSE
