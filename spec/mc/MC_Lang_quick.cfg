CONSTANTS
  N = 4
  CYKN = 2
  DEVS = {}
SPECIFICATION Spec
INVARIANTS Inv_C03 Inv_Sets Inv_Spell
CHECK_DEADLOCK FALSE
