CONSTANTS
  MaxLen = 3
  Small = 2
  STEP0 = TRUE
  DEVS = {"NC_METHOD_STEP0_LOOPS"}
SPECIFICATION Spec
INVARIANTS Inv_Bounded
CHECK_DEADLOCK FALSE
