CONSTANTS
  N = 3
  DEVS = {}
SPECIFICATION Spec
INVARIANTS Inv_Raw
CHECK_DEADLOCK FALSE
CONSTANT Spellable <- AlwaysSpellable
