CONSTANTS
  DEPTH = 1
  DEVS = {}
SPECIFICATION Spec
INVARIANTS Inv_Cmp
CHECK_DEADLOCK FALSE
