------------------------------- MODULE MC_Cli -------------------------------
(***************************************************************************)
(* C18 at model level: every invocation shape x every library behaviour.   *)
(*   Inv_Discipline  exit = 0 iff every stage succeeded; on failure        *)
(*                   nothing on stdout, a message on stderr, non-zero      *)
(*                   exit; on success stdout non-empty and stderr empty    *)
(*   Inv_AstNoInput  with --ast the input is never read                    *)
(*   Inv_Unquoted    -u changes the output only for string results         *)
(*   Inv_Outcome     the step machine ends in the outcome function         *)
(* DIE_PRINTS: negative control (a die! that has already printed partial   *)
(* output on stdout).  TEXT_ONLY_ARGS: negative control (the tool before   *)
(* the repair of finding F20: arguments that are not text panic).          *)
(***************************************************************************)
EXTENDS Cli
CONSTANT DIE_PRINTS
VARIABLES inv, lib, readinput

Invs == [exprsrc : {"arg", "file", "missingfile", "notext"}, inputsrc : {"stdin", "file", "devstdin", "missingfile"}, unquoted : BOOLEAN, ast : BOOLEAN,
         bytespath : BOOLEAN]
Libs == [stage : {"compile", "json", "search", "ok"}, is_string : BOOLEAN]

Init == inv \in Invs /\ lib \in Libs /\ readinput = FALSE /\ CInit
Next == /\ Step(inv, lib) /\ UNCHANGED <<inv, lib>>
        /\ readinput' = (readinput \/ phase = "readinput")
Spec == Init /\ [][Next]_<<inv, lib, readinput, phase, stdout, stderr, exit>>

Final == phase \in {"done", "dead"}
Out == IF DIE_PRINTS /\ phase = "dead" /\ lib.stage = "search" THEN "pretty" ELSE stdout
AllOk == inv.exprsrc \notin {"missingfile", "notext"} /\ lib.stage # "compile" /\ (inv.ast \/ (inv.inputsrc # "missingfile" /\ lib.stage = "ok"))
Inv_Discipline == Final => /\ (exit = 0 <=> AllOk)
                           /\ (exit # 0 => Out = "none" /\ stderr = "message")
                           /\ (exit = 0 => Out # "none" /\ stderr = "empty")
Inv_AstNoInput == inv.ast => ~readinput
Inv_Unquoted == (Final /\ exit = 0 /\ ~inv.ast) => (Out = "raw" <=> (inv.unquoted /\ lib.is_string))
Inv_Outcome == Final => LET o == Outcome(inv, lib) IN o.exit = exit /\ o.stdout = stdout
=============================================================================
