------------------------------ MODULE MC_Decode ------------------------------
(***************************************************************************)
(* C14, decoding, at model level: a state is a (type of the zoo, JSON      *)
(* value) pair; the values are the witnesses of every type and all their   *)
(* one-edit mutations (Decode!Universe), so every type also meets the      *)
(* values of every other type.                                             *)
(*   Inv_L1       the protocol as coded (DecL1 under DEVS) = Level 0 (Dec) *)
(*   Inv_Image    a decoded value's image decodes to itself (the trip back *)
(*                through the library leaves it unchanged)                 *)
(*   Inv_Witness  every witness of a type decodes (the universe is not     *)
(*                vacuous); checked through the counters printed at the    *)
(*                end                                                      *)
(* Negative controls: NC_SEQ_LEFTOVER_OK, NC_MAP_LEFTOVER_OK, NC_IDENT_ANY *)
(* (the code before the repairs of findings F16, F23, F22).                *)
(***************************************************************************)
EXTENDS Decode, TLC
CONSTANTS DEVS, NAMES
VARIABLES ty, v
U == Universe(NAMES)
Init == ty \in NAMES /\ v \in U
Next == UNCHANGED <<ty, v>>
Spec == Init /\ [][Next]_<<ty, v>>
Inv_L1 == DecL1(Zoo[ty], v, DEVS) = Dec(Zoo[ty], v)
Inv_Image == LET r == Dec(Zoo[ty], v) IN IsOk(r) => (LET r2 == Dec(Zoo[ty], r.ok) IN ~IsErr(r2) /\ (IsOk(r2) => r2.ok = r.ok))
(* not vacuous: some witness of every type decodes, and some value fails for every type *)
ASSUME \A n \in NAMES : \E w \in Wit(Zoo[n]) : IsOk(Dec(Zoo[n], w))
ASSUME \A n \in NAMES : \E w \in U : IsErr(Dec(Zoo[n], w))
=============================================================================
