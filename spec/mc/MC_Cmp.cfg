CONSTANTS
  DEVS = {}
  NEAR = FALSE
SPECIFICATION Spec
INVARIANTS Inv_Contract Inv_L1
CHECK_DEADLOCK FALSE
