------------------------------- MODULE MC_Lang -------------------------------
(***************************************************************************)
(* Level 1 |= Level 0 for the language engine, as a TLC state space: the   *)
(* prefix tree of all token-kind strings up to N tokens (every worker      *)
(* extends different prefixes).                                            *)
(*   Inv_C03   the parser model with all deviations off accepts exactly    *)
(*             the strings the ABNF derives (dynamic-programming           *)
(*             recogniser Grammar!Derives)                                 *)
(*   Inv_Sets  the recogniser = the bottom-up sentence sets (checked per   *)
(*             prefix of length N-2 for all its extensions, so that the    *)
(*             sets are built once per state: TLC does not cache constant  *)
(*             definitions that contain bound variables)                   *)
(*   Inv_C04   on every sentence the parser model's tree is the tree the   *)
(*             binding-power order dictates (Prec), and parenthesising     *)
(*             operands (Paren) does not change it                         *)
(*   Inv_Spell lexing the spelling of a token string gives it back, for    *)
(*             the spaced, tight and mixed-blank spellings                 *)
(* DEVS = LangDevs is the negative control: the parser as found.           *)
(***************************************************************************)
EXTENDS Grammar, Pratt, Paren, Lexer, Spell, TLC
CONSTANTS N, DEVS, CYKN

VARIABLE s
AllSentOf(G) == UNION {G.E[n] : n \in 1..N}

OpAt(i) == <<"eq", "ne", "lt", "le", "gt", "ge">>[(i % 6) + 1]
Def(k, i) == CASE k = "Ident" -> TIdent(<<96 + i>>) [] k = "QIdent" -> TQIdent(<<64 + i>>)
               [] k = "Num" -> TNum(IF i % 2 = 0 THEN i ELSE -i)
               [] k = "Lit" -> TLit(IF i % 2 = 0 THEN JInt(i) ELSE JStr(<<48 + i>>))
               [] k = "Cmp" -> TCmpTok(OpAt(i)) [] OTHER -> TPlain(k)
Toks(ks) == [i \in DOMAIN ks |-> Def(ks[i], i)]

Init == s = <<>>
Next == Len(s) < N /\ \E k \in Kinds : s' = Append(s, k)
Spec == Init /\ [][Next]_s

Inv_C03 == s # <<>> => (Accepts(Toks(s), DEVS) <=> Derives(s))
Exts == {<<>>} \cup {<<a>> : a \in Kinds} \cup {<<a, b>> : a \in Kinds, b \in Kinds}
Inv_Sets == Len(s) = CYKN =>
              LET A == AllSentOf(Sets(N))
              IN \A e \in Exts : (Len(s \o e) > 0 /\ Len(s \o e) <= N) => (Derives(s \o e) <=> (s \o e) \in A)
Inv_C04 == (s # <<>> /\ Derives(s)) =>
             LET ts == Toks(s) t == Parse(ts, DEVS).t
             IN /\ t = TreeOf(ts)
                /\ Parse(Parenthesise(ts), DEVS).t = t
Inv_Spell == s # <<>> =>
             LET ts == Toks(s)
             IN /\ Lex(Spell(ts, "spaced", 0), {}).toks = ts
                /\ Lex(Spell(ts, "tight", 1), {}).toks = ts
                /\ Lex(Spell(ts, "mixed", 0), {}).toks = ts
=============================================================================
