CONSTANTS
  MAXDEPTH = 64
  STACK = 8192
SPECIFICATION Spec
INVARIANTS Inv_NoOverflow Inv_Linear Inv_Returns
CHECK_DEADLOCK FALSE
