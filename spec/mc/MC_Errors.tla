------------------------------ MODULE MC_Errors ------------------------------
(***************************************************************************)
(* C12 coordinates at model level: the prefix tree of all strings up to N  *)
(* characters over 1-, 2-, 3- and 4-byte characters and newline.  For      *)
(* every character boundary k of the string s:                             *)
(*   Inv_Coord   the coordinates as coded (errors.rs:25-46 under DEVS,     *)
(*               given the BYTE offset of k) are the line and character    *)
(*               column of k (Level 0)                                     *)
(*   Inv_Render  the caret line sits directly after line L and the caret   *)
(*               under column C of it                                      *)
(* DEVS = {"DEV_COLUMN_IN_BYTES"} (the code as found) must fail.           *)
(***************************************************************************)
EXTENDS Errors
CONSTANTS N, DEVS
VARIABLE s
Alpha == {97, 233, 8364, 128512, NL}
Init == s = <<>>
Next == Len(s) < N /\ \E c \in Alpha : s' = Append(s, c)
Spec == Init /\ [][Next]_s

Inv_Coord == \A k \in 0..Len(s) : CoordL1(s, ByteOffsetOf(s, k), DEVS) = Coord(s, k)
LinesOf(cs) == Cardinality({i \in 1..Len(cs) : cs[i] = NL})
Inv_Render ==
  \A k \in 0..Len(s) :
     LET c == Coord(s, k) r == Rendered(s, c.line, c.col)
         \* position of the caret in the rendering
         p == CHOOSE i \in 1..Len(r) : r[i] = 94 /\ \A j \in 1..(i - 1) : r[j] # 94 \/ TRUE
     IN /\ Len(r) >= Len(s) + c.col + 2
        /\ \E i \in 1..Len(r) : /\ r[i] = 94 /\ (i = Len(r) \/ r[i + 1] = NL)
                                /\ i > c.col /\ \A j \in (i - c.col)..(i - 1) : r[j] = 32
                                /\ (i - c.col = 1 \/ r[i - c.col - 1] = NL)
                                /\ LinesOf(SubSeq(r, 1, i - c.col - 1)) = c.line + 1
=============================================================================
