----------------------------- MODULE MC_Grammar -----------------------------
EXTENDS Grammar, Pratt, TLC
N == 4
S == Sets(N)
Counts == [n \in 1..N |-> Cardinality(S.E[n])]
ASSUME PrintT(<<"COUNTS", Counts>>)
AllSent == UNION {S.E[n] : n \in 1..N}
ASSUME PrintT(<<"CYK-agree", \A s \in AllSent : Derives(s)>>)
Def(k) == CASE k = "Ident" -> TIdent(<<97>>) [] k = "QIdent" -> TQIdent(<<98>>) [] k = "Num" -> TNum(1)
            [] k = "Lit" -> TLit(JNull) [] k = "Cmp" -> TCmpTok("eq") [] OTHER -> TPlain(k)
Toks(ks) == [i \in DOMAIN ks |-> Def(ks[i])]
ASSUME PrintT(<<"pratt-accepts-all", \A s \in AllSent : Accepts(Toks(s), {})>>)
ASSUME PrintT(<<"pratt-alldev-accepts-all", \A s \in AllSent : Accepts(Toks(s), LangDevs)>>)
=============================================================================
