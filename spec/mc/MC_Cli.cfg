CONSTANT DIE_PRINTS = FALSE
CONSTANT TEXT_ONLY_ARGS = FALSE
SPECIFICATION Spec
INVARIANTS Inv_Discipline Inv_AstNoInput Inv_Unquoted Inv_Outcome
CHECK_DEADLOCK FALSE
