CONSTANTS
  DEVS = {"NC_SEQ_LEFTOVER_OK"}
  NAMES = {"bool", "i8", "u8", "i32", "i64", "u64", "f64", "char", "String", "OptI32", "unit", "Newtype", "VecI32", "VecU8", "TupI32String", "Point", "E",
           "MapStringI32", "VecOptBool", "Outer", "OptE", "VecPoint", "MapUserIdVecU32", "MapCharI32", "MapColorI32", "Flat", "VecUserId", "ArrI32x2",
           "BoxPoint", "TupUserIdI32", "MapStringOptPoint", "IT", "AT", "UT", "FirstEntry", "VecIT", "Strict", "VecStrict", "ITU", "UTU", "FlatU", "Level", "VecLevel", "f32"}
SPECIFICATION Spec
INVARIANTS Inv_L1
CHECK_DEADLOCK FALSE
