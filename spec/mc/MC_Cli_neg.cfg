CONSTANT DIE_PRINTS = TRUE
SPECIFICATION Spec
INVARIANTS Inv_Discipline
CHECK_DEADLOCK FALSE
