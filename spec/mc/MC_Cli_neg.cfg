CONSTANT DIE_PRINTS = TRUE
CONSTANT TEXT_ONLY_ARGS = FALSE
SPECIFICATION Spec
INVARIANTS Inv_Discipline
CHECK_DEADLOCK FALSE
