CONSTANTS
  KMAX = 12
  DEVS = {}
  EXPORT = TRUE
SPECIFICATION Spec
INVARIANTS Export
CHECK_DEADLOCK FALSE
