CONSTANTS
  MODE = "sig"
  MAXAR = 4
  LEN = 3
  DEVS = {}
SPECIFICATION Spec
INVARIANTS Inv_Arity Inv_Type Inv_OkTyped Inv_L1Sig
CHECK_DEADLOCK FALSE
