------------------------------- MODULE MC_Total -------------------------------
(***************************************************************************)
(* C05, the recursion part, at model level.  compile and search recurse    *)
(* once (or a fixed number of times) per nesting level of the expression   *)
(* (parser.rs expr/nud/led, interpreter.rs interpret, and the derived      *)
(* Drop/Clone of the tree) and there is no depth limit.  The machine       *)
(* descends into an expression of nesting depth n of a given constructor;  *)
(* each level pushes FramesPerLevel(kind) frames of FRAME bytes.           *)
(*   Inv_NoOverflow   the stack in use never exceeds STACK                 *)
(*   Inv_Linear       stack use is a linear function of the nesting depth  *)
(* With MAXDEPTH = 64 (the bound the check guarantees) Inv_NoOverflow      *)
(* holds with a margin; with MAXDEPTH unbounded enough it fails: that is   *)
(* the recorded finding DEV_UNBOUNDED_RECURSION (no depth limit), which a  *)
(* limit could only cure by contradicting "any nesting" in C03.            *)
(* FRAME / per-level constants were measured on the debug build: `a[][]`   *)
(* overflows 8 MiB at depth ~410 (~20 KiB per level), most constructors at *)
(* ~820 (~10 KiB), parentheses at ~1570 (~5 KiB).                          *)
(***************************************************************************)
EXTENDS Integers, TLC
CONSTANTS MAXDEPTH, STACK
VARIABLES kind, n, level, used, dir
Kinds == {"flatten", "common", "paren"}
PerLevel(k) == CASE k = "flatten" -> 20 [] k = "common" -> 10 [] k = "paren" -> 5      \* KiB per nesting level
Init == kind \in Kinds /\ n \in 1..MAXDEPTH /\ level = 0 /\ used = 8 /\ dir = "down"
Descend == dir = "down" /\ level < n /\ level' = level + 1 /\ used' = used + PerLevel(kind) /\ UNCHANGED <<kind, n, dir>>
Turn == dir = "down" /\ level = n /\ dir' = "up" /\ UNCHANGED <<kind, n, level, used>>
Ascend == dir = "up" /\ level > 0 /\ level' = level - 1 /\ used' = used - PerLevel(kind) /\ UNCHANGED <<kind, n, dir>>
Next == Descend \/ Turn \/ Ascend
Spec == Init /\ [][Next]_<<kind, n, level, used, dir>>
Inv_NoOverflow == used <= STACK
Inv_Linear == used = 8 + PerLevel(kind) * level
Inv_Returns == (dir = "up" /\ level = 0) => used = 8
=============================================================================
