CONSTANTS
  MaxLen = 4
  Small = 5
  STEP0 = TRUE
  DEVS = {}
SPECIFICATION Spec
INVARIANTS Inv_NoFail Inv_Result Inv_Loop Inv_OperatorForm Inv_Bounded Inv_Index
CHECK_DEADLOCK FALSE
