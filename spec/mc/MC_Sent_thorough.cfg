CONSTANTS
  N = 6
  DEVS = {}
SPECIFICATION Spec
INVARIANTS Inv_Tree Inv_Paren Inv_Assoc
CHECK_DEADLOCK FALSE
