CONSTANTS
  Threads = {t1, t2, t3, t4}
  OPS = 2
  NSTEPS = 4
  UNGUARDED = FALSE
SPECIFICATION Spec
INVARIANTS Inv_OneInitialiser Inv_NoPartialRegistry Inv_UseOnlyWhenDone Inv_SequentialResults
PROPERTY Live_AllFinish
CHECK_DEADLOCK FALSE
