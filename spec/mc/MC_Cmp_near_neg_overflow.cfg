CONSTANTS
  DEVS = {"NC_FLOAT_EQ_SUM_OVERFLOWS"}
  NEAR = TRUE
SPECIFICATION Spec
INVARIANTS Inv_L1Near
CHECK_DEADLOCK FALSE
