CONSTANTS
  MODE = "near"
  MAXAR = 3
  LEN = 3
  DEVS = {}
SPECIFICATION Spec
INVARIANTS Inv_Arity Inv_OkTyped Inv_Contract Inv_L1Functions
CHECK_DEADLOCK FALSE
