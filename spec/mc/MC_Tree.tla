------------------------------- MODULE MC_Tree -------------------------------
EXTENDS Grammar, Pratt, Prec, TLC
N == 5
S == Sets(N)
AllSent == UNION {S.E[n] : n \in 1..N}
OpAt(i) == <<"eq", "ne", "lt", "le", "gt", "ge">>[(i % 6) + 1]
Def(k, i) == CASE k = "Ident" -> TIdent(<<96 + i>>) [] k = "QIdent" -> TQIdent(<<64 + i>>) [] k = "Num" -> TNum(i)
            [] k = "Lit" -> TLit(JInt(i)) [] k = "Cmp" -> TCmpTok(OpAt(i)) [] OTHER -> TPlain(k)
Toks(ks) == [i \in DOMAIN ks |-> Def(ks[i], i)]
Bad == {s \in AllSent : Parse(Toks(s), {}).t # TreeOf(Toks(s))}
ASSUME PrintT(<<"sentences", Cardinality(AllSent), "tree-mismatch", Cardinality(Bad)>>)
ASSUME Bad = {} \/ LET s == CHOOSE x \in Bad : TRUE IN PrintT(<<s, Parse(Toks(s), {}).t, TreeOf(Toks(s))>>)
=============================================================================
