CONSTANTS
  Threads = {t1, t2, t3}
  OPS = 1
  NSTEPS = 2
  UNGUARDED = TRUE
SPECIFICATION Spec
INVARIANTS Inv_NoPartialRegistry
CHECK_DEADLOCK FALSE
