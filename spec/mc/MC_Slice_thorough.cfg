CONSTANTS
  MaxLen = 7
  Small = 10
  STEP0 = TRUE
  DEVS = {}
SPECIFICATION Spec
INVARIANTS Inv_NoFail Inv_Result Inv_Loop Inv_OperatorForm Inv_Bounded Inv_Index
CHECK_DEADLOCK FALSE
