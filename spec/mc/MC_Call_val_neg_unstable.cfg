CONSTANTS
  MODE = "val"
  MAXAR = 3
  LEN = 3
  DEVS = {"NC_UNSTABLE"}
SPECIFICATION Spec
INVARIANTS Inv_L1Functions
CHECK_DEADLOCK FALSE
