CONSTANTS
  N = 3
  CYKN = 1
  DEVS = {"DEV_LIST_COMMA_OPTIONAL", "DEV_EMPTY_MULTISELECT", "DEV_EXPREF_ANYWHERE", "DEV_PAREN_FUNCNAME", "DEV_PROJ_MULTISELECT", "DEV_DOT_MULTILIST_NO_LED"}
SPECIFICATION Spec
INVARIANTS Inv_C03
CHECK_DEADLOCK FALSE
