CONSTANTS
  KMAX = 5
  DEVS = {}
  EXPORT = FALSE
SPECIFICATION Spec
VIEW View
INVARIANTS Inv_Registry Inv_Borrow Inv_Pure Inv_Clone
CHECK_DEADLOCK FALSE
