------------------------------- MODULE MC_Call -------------------------------
(***************************************************************************)
(* Built-in function calls at model level (C06 signatures, C02 values).    *)
(* A state is a cell (function, argument tuple); the one transition        *)
(* applies the function (Eval!Apply, the Level-0 meaning used by every     *)
(* judge) and stores the outcome.                                          *)
(*                                                                         *)
(* C06  Inv_Arity, Inv_Type, Inv_OkTyped : arity first, then positional    *)
(*      types with a variadic tail; a valid call has a result of the       *)
(*      declared type.   Inv_L1Sig : the signature table as coded          *)
(*      (functions.rs defn!/arg! cells and Signature::validate, Level 1)   *)
(*      agrees with the table of the function specification (Level 0)      *)
(*      except where an expression reference meets an `any` parameter,     *)
(*      which the specification leaves open.                               *)
(* C02  Inv_Contract : the clauses of the property statement, stated       *)
(*      independently of how Apply computes (permutation + ordered +       *)
(*      stable, extreme key, right bias, code points, ...).                *)
(* MODE = "sig" : the decision table (10 type classes per position)        *)
(* MODE = "val" : value domains                                            *)
(***************************************************************************)
EXTENDS FunctionsL1, TLC
CONSTANTS MODE, MAXAR, LEN, DEVS
VARIABLES f, args, res, stage

ObjA == MkObj(<<JMem(<<97>>, JInt(1))>>)
Classes == {JNull, JTrue, JInt(1), JStr(<<97>>), JArr(<<>>), JArr(<<JInt(1), JInt(2)>>), JArr(<<JStr(<<97>>), JStr(<<98>>)>>),
            JArr(<<JInt(1), JStr(<<97>>)>>), ObjA, JExpref(AIdentity)}
FnSet == {FnNames[i] : i \in DOMAIN FnNames}

Seqs(S, n) == UNION {[1..m -> S] : m \in 0..n}
KeyK == <<107>>   KeyI == <<105>>
Rec(key, i) == MkObj(<<JMem(KeyK, key), JMem(KeyI, JInt(i))>>)
RecArrs == {JArr([i \in DOMAIN ks |-> Rec(ks[i], i)]) : ks \in Seqs({JInt(0), JInt(1), JNum(1, 2)}, LEN)}
        \cup {JArr([i \in DOMAIN ks |-> Rec(ks[i], i)]) : ks \in Seqs({JStr(<<97>>), JStr(<<233>>), JStr(<<65535>>), JStr(<<128512>>)}, 3)}
        \cup {JArr(<<Rec(JInt(1), 1), Rec(JStr(<<97>>), 2)>>), JArr(<<Rec(JNull, 1)>>)}
Nums == {JInt(-1), JInt(0), JInt(1), JNum(3, 2), JNum(-1, 2)}
NumArrs == {JArr(s) : s \in Seqs(Nums, LEN)}
StrPool == {JStr(<<>>), JStr(<<97>>), JStr(<<233>>), JStr(<<65535>>), JStr(<<128512>>), JStr(<<97, 98>>)}
StrArrs == {JArr(s) : s \in Seqs(StrPool, 3)}
Objs == {JObj(<<>>), ObjA, MkObj(<<JMem(<<97>>, JInt(2)), JMem(<<98>>, JNull)>>), MkObj(<<JMem(<<98>>, JStr(<<120>>))>>)}
ExprefK == JExpref(AField(KeyK))
ToNumStrs == {JStr(<<49>>), JStr(<<49, 46, 53>>), JStr(<<45, 50>>), JStr(<<97>>), JStr(<<34, 97, 34>>), JStr(<<91, 49, 93>>),
              JStr(<<116, 114, 117, 101>>), JStr(<<>>), JStr(<<48, 49>>)}

ValCells ==
  {<<g, <<x>>>> : g \in {"abs", "ceil", "floor"}, x \in Nums \cup {JNum(5, 2), JNum(-3, 2)}}
  \cup {<<g, <<x>>>> : g \in {"avg", "sum", "max", "min", "sort", "reverse", "length"}, x \in NumArrs}
  \cup {<<g, <<x>>>> : g \in {"max", "min", "sort", "reverse", "length"}, x \in StrArrs}
  \cup {<<g, <<x>>>> : g \in {"reverse", "length", "to_number"}, x \in StrPool \cup ToNumStrs}
  \cup {<<g, <<x>>>> : g \in {"keys", "values", "length"}, x \in Objs}
  \cup {<<"merge", <<x, y>>>> : x \in Objs, y \in Objs}
  \cup {<<g, <<x, ExprefK>>>> : g \in {"sort_by", "max_by", "min_by"}, x \in RecArrs}
  \cup {<<"map", <<ExprefK, x>>>> : x \in RecArrs}
  \cup {<<"to_number", <<x>>>> : x \in Classes \ {JExpref(AIdentity)}}

(* MODE = "near": the value domains over neighbouring doubles (JValue.tla): the contract clauses are about the exact order *)
NearCluster == {JInt(1), JNear(1, 1, 1), JNear(1, 1, 2), JNear(1, 1, -1), JNear(3, 10, 1), JNum(3, 10)}
NearObjs == Objs \cup {MkObj(<<JMem(<<98>>, JInt(7)), JMem(<<99>>, JInt(8)), JMem(<<100>>, JInt(9))>>)}
NearCells ==
  {<<g, <<x>>>> : g \in {"abs", "ceil", "floor"}, x \in NearCluster \cup {JNear(-1, 1, 1), JNear(-1, 1, -1), JNear(2, 1, -1), JNear(-3, 10, -1)}}
  \cup {<<"abs", <<x>>>> : x \in {JBig(1, 19), JBig(-11, 18)}}
  \cup {<<g, <<x>>>> : g \in {"avg", "sum", "max", "min", "sort", "reverse", "length"}, x \in {JArr(s) : s \in Seqs(NearCluster, LEN)}}
  \cup {<<g, <<x>>>> : g \in {"max", "min", "sort"}, x \in {JArr(s) : s \in Seqs({JBig(1, 19), JBig(11, 18), JBig(-1, 19), JInt(5), JBig(1, 20)}, LEN)}}
  \cup {<<g, <<x, ExprefK>>>> : g \in {"sort_by", "max_by", "min_by"},
                                x \in {JArr([i \in DOMAIN ks |-> Rec(ks[i], i)]) : ks \in Seqs(NearCluster \ {JNum(3, 10)}, LEN)}}
  \cup {<<"merge", <<x, y, z>>>> : x \in NearObjs, y \in NearObjs, z \in NearObjs}

SigCells == {<<g, a>> : g \in FnSet, a \in UNION {[1..n -> Classes] : n \in 0..MAXAR}}

Init == /\ \E c \in (IF MODE = "sig" THEN SigCells ELSE IF MODE = "near" THEN NearCells ELSE ValCells) : f = c[1] /\ args = c[2]
        /\ res = VOk(JNull) /\ stage = 0
Next == stage = 0 /\ stage' = 1 /\ res' = Apply(f, args, Builtins) /\ UNCHANGED <<f, args>>
Spec == Init /\ [][Next]_<<f, args, res, stage>>

(* ---------- Level 1: the signature cells of functions.rs ---------- *)
L1Any == {"any"}
L1Sig(g) ==
  CASE g = "abs" -> [ps |-> <<{"number"}>>, var |-> {}]
    [] g = "avg" -> [ps |-> <<{"anum"}>>, var |-> {}]
    [] g = "ceil" -> [ps |-> <<{"number"}>>, var |-> {}]
    [] g = "contains" -> [ps |-> <<{"string", "array"}, L1Any>>, var |-> {}]
    [] g = "ends_with" -> [ps |-> <<{"string"}, {"string"}>>, var |-> {}]
    [] g = "floor" -> [ps |-> <<{"number"}>>, var |-> {}]
    [] g = "join" -> [ps |-> <<{"string"}, {"astr"}>>, var |-> {}]
    [] g = "keys" -> [ps |-> <<{"object"}>>, var |-> {}]
    [] g = "length" -> [ps |-> <<IF "NC_LENGTH_ANY" \in DEVS THEN L1Any ELSE {"array", "object", "string"}>>, var |-> {}]
    [] g = "map" -> [ps |-> <<{"expref"}, {"array"}>>, var |-> {}]
    [] g = "max" -> [ps |-> <<{"astr", "anum"}>>, var |-> {}]
    [] g = "min" -> [ps |-> <<{"astr", "anum"}>>, var |-> {}]
    [] g = "max_by" -> [ps |-> <<{"array"}, {"expref"}>>, var |-> {}]
    [] g = "min_by" -> [ps |-> <<{"array"}, {"expref"}>>, var |-> {}]
    [] g = "merge" -> [ps |-> <<{"object"}>>, var |-> {"object"}]
    [] g = "not_null" -> [ps |-> <<L1Any>>, var |-> L1Any]
    [] g = "reverse" -> [ps |-> <<{"array", "string"}>>, var |-> {}]
    [] g = "sort" -> [ps |-> <<{"astr", "anum"}>>, var |-> {}]
    [] g = "sort_by" -> [ps |-> <<{"array"}, {"expref"}>>, var |-> {}]
    [] g = "starts_with" -> [ps |-> <<{"string"}, {"string"}>>, var |-> {}]
    [] g = "sum" -> [ps |-> <<{"anum"}>>, var |-> {}]
    [] g = "to_array" -> [ps |-> <<L1Any>>, var |-> {}]
    [] g = "to_number" -> [ps |-> <<L1Any>>, var |-> {}]
    [] g = "to_string" -> [ps |-> <<{"object", "array", "boolean", "number", "string", "null"}>>, var |-> {}]
    [] g = "type" -> [ps |-> <<L1Any>>, var |-> {}]
    [] g = "values" -> [ps |-> <<{"object"}>>, var |-> {}]
(* ArgumentType::is_valid, functions.rs:37-58 *)
L1Fits(v, P) == "any" \in P \/ TypeName(v) \in P \/ ("anum" \in P /\ AllOf(v, "num")) \/ ("astr" \in P /\ AllOf(v, "str"))
(* Signature::validate_arity + validate, functions.rs:158-194 *)
L1Validate(g, as) ==
  LET sg == L1Sig(g) expected == Len(sg.ps) actual == Len(as) IN
  IF sg.var # {} THEN (IF actual >= expected
                       THEN (IF \A k \in 1..actual : L1Fits(as[k], IF k <= expected THEN sg.ps[k] ELSE sg.var) THEN "ok" ELSE "type")
                       ELSE "arity")
  ELSE IF actual = expected THEN (IF \A k \in 1..actual : L1Fits(as[k], sg.ps[k]) THEN "ok" ELSE "type")
  ELSE "arity"

np == Len(Sig(f).ps)
ArityOk == Len(args) >= np /\ (Sig(f).var # {} \/ Len(args) = np)

Inv_Arity == stage = 1 => (~ArityOk <=> (IsVErr(res) /\ res.err = "arity"))
Inv_Type  == (stage = 1 /\ ArityOk /\ Validate(f, args) = "type" /\ ~OnlyExprefToAny(f, args)) => (IsVErr(res) /\ res.err = "type")
Inv_OkTyped == (stage = 1 /\ Validate(f, args) = "ok") =>
                 \/ (IsVOk(res) /\ TypeName(res.ok) \in ResultTypes(f))
                 \/ (f \in {"sort_by", "max_by", "min_by", "map"} /\ IsVErr(res))     \* the expression reference's own failures
Inv_L1Sig == OnlyExprefToAny(f, args) \/ L1Validate(f, args) = Validate(f, args)

(* Level 1 (the algorithms as coded, FunctionsL1) = Level 0 (Apply) on every valid value cell *)
KeysFor == IF f \in {"sort_by", "max_by", "min_by"} /\ Validate(f, args) = "ok"
           THEN LET ks == KeysOf(args[2].ast, args[1].a, 1, Builtins, [vals |-> <<>>, amb |-> FALSE]) IN IF IsVOk(ks) THEN ks.ok ELSE <<>>
           ELSE <<>>
Inv_L1Functions ==
  (stage = 1 /\ IsVOk(res) /\ Validate(f, args) = "ok") =>
     LET l1 == ApplyL1(f, args, KeysFor, DEVS) IN
     "na" \in DOMAIN l1 \/ l1.v = res.ok
        \/ (res.amb /\ f \in {"max_by", "min_by"} /\ \E i \in DOMAIN args[1].a : args[1].a[i] = l1.v)

(* vacuity guard: this "invariant" MUST be violated -- it claims that no sort_by / max_by input has tied keys *)
Inv_NoTiesExercised == ~(f \in {"sort_by", "max_by", "min_by"} /\ args[1].t = "arr"
                          /\ \E i, j \in DOMAIN args[1].a : i # j /\ ObjGet(args[1].a[i], KeyK) = ObjGet(args[1].a[j], KeyK))

(* ---------- C02: the contract, stated independently ---------- *)
IsPerm(xs, ys) == Len(xs) = Len(ys) /\ \E p \in [1..Len(xs) -> 1..Len(xs)] :
                     (\A i, j \in 1..Len(xs) : i # j => p[i] # p[j]) /\ \A i \in 1..Len(xs) : ys[i] = xs[p[i]]
KeyOfRec(x) == ObjGet(x, KeyK)
Idx(x) == ObjGet(x, KeyI).p
Ordered(ks) == \A i \in 1..(Len(ks) - 1) : ~ValLess(ks[i + 1], ks[i])
Inv_Contract ==
  (stage = 1 /\ IsVOk(res)) =>
    LET x == args[1] r == res.ok IN
    CASE f = "sort" -> /\ Len(r.a) = Len(x.a) /\ Ordered(r.a)
                       /\ \A v \in {x.a[i] : i \in DOMAIN x.a} :
                            Cardinality({i \in DOMAIN x.a : x.a[i] = v}) = Cardinality({i \in DOMAIN r.a : r.a[i] = v})
      [] f = "sort_by" -> /\ Len(r.a) = Len(x.a) /\ {r.a[i] : i \in DOMAIN r.a} = {x.a[i] : i \in DOMAIN x.a}
                          /\ Ordered([i \in DOMAIN r.a |-> KeyOfRec(r.a[i])])
                          /\ \A i \in 1..(Len(r.a) - 1) : KeyOfRec(r.a[i]) = KeyOfRec(r.a[i + 1]) => Idx(r.a[i]) < Idx(r.a[i + 1])
      [] f \in {"max_by", "min_by"} ->
            IF x.a = <<>> THEN r = JNull
            ELSE /\ \E i \in DOMAIN x.a : x.a[i] = r
                 /\ \A i \in DOMAIN x.a : IF f = "max_by" THEN ~ValLess(KeyOfRec(r), KeyOfRec(x.a[i]))
                                                          ELSE ~ValLess(KeyOfRec(x.a[i]), KeyOfRec(r))
      [] f \in {"max", "min"} ->
            IF x.a = <<>> THEN r = JNull
            ELSE /\ \E i \in DOMAIN x.a : x.a[i] = r
                 /\ \A i \in DOMAIN x.a : IF f = "max" THEN ~ValLess(r, x.a[i]) ELSE ~ValLess(x.a[i], r)
      [] f = "merge" -> /\ ObjKeySet(r) = UNION {ObjKeySet(args[i]) : i \in DOMAIN args}
                        /\ \A key \in ObjKeySet(r) :
                             LET last == CHOOSE i \in DOMAIN args : ObjHas(args[i], key) /\ \A j \in DOMAIN args : ObjHas(args[j], key) => j <= i
                             IN ObjGet(r, key) = ObjGet(args[last], key)
      [] f = "keys" -> /\ Len(r.a) = Len(x.o)
                       /\ \A i \in DOMAIN r.a : ObjGet(x, r.a[i].s) = Apply("values", args, Builtins).ok.a[i]
                       /\ \A i \in 1..(Len(r.a) - 1) : SeqLess(r.a[i].s, r.a[i + 1].s)
      [] f = "length" -> r.t = "num" /\ r.q = 1 /\ r.p = (IF x.t = "str" THEN Len(x.s) ELSE IF x.t = "arr" THEN Len(x.a) ELSE Len(x.o))
      [] f = "reverse" -> LET xs == IF x.t = "str" THEN x.s ELSE x.a  rs == IF r.t = "str" THEN r.s ELSE r.a
                          IN r.t = x.t /\ Len(rs) = Len(xs) /\ \A i \in DOMAIN xs : rs[i] = xs[Len(xs) + 1 - i]
      [] f = "to_number" -> r.t \in {"num", "null"} /\ (x.t = "num" => r = x) /\ (x.t \notin {"num", "str"} => r = JNull)
      [] f = "avg" -> IF x.a = <<>> THEN r = JNull ELSE NumAdd(r, JInt(0)) = NumDivInt(SumNums(x.a), Len(x.a))
      [] f = "sum" -> (x.a = <<>> => r = JInt(0)) /\ r.t = "num"
      [] f = "map" -> Len(r.a) = Len(args[2].a) /\ \A i \in DOMAIN r.a : r.a[i] = KeyOfRec(args[2].a[i])
      [] f = "abs" -> ~NumLess(r, JInt(0)) /\ (r = x \/ r = NumNeg(x))
      [] f = "ceil" -> r.q = 1 /\ NumLeq(x, r) /\ NumLess(NumAdd(r, JInt(-1)), x)
      [] f = "floor" -> r.q = 1 /\ NumLeq(r, x) /\ NumLess(x, NumAdd(r, JInt(1)))
      [] OTHER -> TRUE
=============================================================================
