CONSTANTS
  MODE = "val"
  MAXAR = 3
  LEN = 3
  DEVS = {}
SPECIFICATION Spec
INVARIANTS Inv_NoTiesExercised
CHECK_DEADLOCK FALSE
