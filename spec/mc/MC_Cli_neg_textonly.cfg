CONSTANT DIE_PRINTS = FALSE
CONSTANT TEXT_ONLY_ARGS = TRUE
SPECIFICATION Spec
INVARIANTS Inv_Outcome
CHECK_DEADLOCK FALSE
