CONSTANTS
  MAXDEPTH = 450
  STACK = 8192
SPECIFICATION Spec
INVARIANTS Inv_NoOverflow
CHECK_DEADLOCK FALSE
