------------------------------- MODULE MC_Cmp -------------------------------
(***************************************************************************)
(* C10 at model level: every ordered pair (l, r) of a bounded universe of  *)
(* JSON values (depth <= 1, width <= 2 over 10 atoms: all type pairings,   *)
(* empty and nested containers, fractions).  The transition swaps the      *)
(* pair, so symmetry is a property of adjacent states.                     *)
(*   Inv_Contract  the algebraic contract on the Level-0 comparison (Cmp)  *)
(*   Inv_L1        the comparison as coded (type-gated PartialEq, the      *)
(*                 internal total order, the number gate of `compare`,     *)
(*                 Interp!CompareL1 under DEVS) equals Level 0             *)
(* Negative control NC_ORD_LEAK: `==` answered by the internal total order *)
(* in which values of different types compare Equal.                       *)
(***************************************************************************)
EXTENDS Interp, TLC
CONSTANTS DEVS
VARIABLES l, r, swapped

MoreAtoms == Atoms \cup {JNum(1, 2), JStr(<<98>>)}
U == Univ(MoreAtoms, 1, 2)
Init == l \in U /\ r \in U /\ swapped = FALSE
Next == ~swapped /\ swapped' = TRUE /\ l' = r /\ r' = l
Spec == Init /\ [][Next]_<<l, r, swapped>>

OpsAll == {"eq", "ne", "lt", "le", "gt", "ge"}
C(op, a, b) == Cmp(op, a, b)
L1(op, a, b) == IF "NC_ORD_LEAK" \in DEVS /\ op = "eq" THEN JBool(a.t # b.t \/ a = b) ELSE CompareL1(op, a, b)

Inv_Contract ==
  LET bothNum == l.t = "num" /\ r.t = "num" IN
  /\ C("eq", l, r) = JBool(l = r)
  /\ (l.t # r.t => C("eq", l, r) = JFalse)                           \* different types never equal
  /\ C("eq", l, l) = JTrue                                           \* reflexive
  /\ C("eq", l, r) = C("eq", r, l)                                   \* symmetric
  /\ C("ne", l, r) = JBool(C("eq", l, r) = JFalse)                   \* != is the negation
  /\ (~bothNum => \A op \in {"lt", "le", "gt", "ge"} : C(op, l, r) = JNull)
  /\ (bothNum => /\ \A op \in OpsAll : C(op, l, r).t = "bool"
                 /\ Cardinality({op \in {"lt", "eq", "gt"} : C(op, l, r) = JTrue}) = 1
                 /\ C("le", l, r) = JBool(C("lt", l, r) = JTrue \/ C("eq", l, r) = JTrue)
                 /\ C("ge", l, r) = JBool(C("gt", l, r) = JTrue \/ C("eq", l, r) = JTrue)
                 /\ C("lt", l, r) = C("gt", r, l))
Inv_L1 == \A op \in OpsAll : L1(op, l, r) = C(op, l, r)
=============================================================================
