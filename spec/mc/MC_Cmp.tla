------------------------------- MODULE MC_Cmp -------------------------------
(***************************************************************************)
(* C10 at model level: every ordered pair (l, r) of a bounded universe of  *)
(* JSON values (depth <= 1, width <= 2 over 10 atoms: all type pairings,   *)
(* empty and nested containers, fractions).  The transition swaps the      *)
(* pair, so symmetry is a property of adjacent states.                     *)
(*   Inv_Contract  the algebraic contract on the Level-0 comparison (Cmp)  *)
(*   Inv_L1        the comparison as coded (type-gated PartialEq, the      *)
(*                 internal total order, the number gate of `compare`,     *)
(*                 Interp!CompareL1 under DEVS) equals Level 0             *)
(* Negative control NC_FLOAT_EQ_SUM_OVERFLOWS (MC_Cmp_near_neg_overflow):  *)
(* float_eq as it stood before the repair of finding F18.                  *)
(* Negative control NC_ORD_LEAK: `==` answered by the internal total order *)
(* in which values of different types compare Equal.                       *)
(***************************************************************************)
EXTENDS Interp, TLC
CONSTANTS DEVS, NEAR
VARIABLES l, r, swapped

(* NEAR = TRUE: the universe of MC_Cmp_near -- neighbouring doubles (1, 1+1ulp, 1+2ulp, 1-1ulp, 3/10+1ulp), an inexact number and
   large magnitudes (10^19 and three next to f64::MAX, where the sum of two magnitudes leaves the doubles) among the atoms *)
NearAtoms == {JNull, JTrue, JInt(0), JInt(1), JNear(1, 1, 1), JNear(1, 1, 2), JNear(1, 1, -1), JNum(3, 10), JNear(3, 10, 1), JNear(-1, 1, 1),
              WithU(JInt(1), INEXACT), JBig(1, 19), JBig(11, 18), JBig(-1, 19), JBig(1, 308), JBig(17, 307), JBig(9, 307), JStr(<<97>>)}
MoreAtoms == IF NEAR THEN NearAtoms ELSE Atoms \cup {JNum(1, 2), JStr(<<98>>)}
U == Univ(MoreAtoms, 1, IF NEAR THEN 1 ELSE 2)
Init == l \in U /\ r \in U /\ swapped = FALSE
Next == ~swapped /\ swapped' = TRUE /\ l' = r /\ r' = l
Spec == Init /\ [][Next]_<<l, r, swapped>>

OpsAll == {"eq", "ne", "lt", "le", "gt", "ge"}
C(op, a, b) == Cmp(op, a, b)
L1(op, a, b) == IF "NC_ORD_LEAK" \in DEVS /\ op = "eq" THEN JBool(a.t # b.t \/ a = b) ELSE CompareL1(op, a, b, DEVS)

Inv_Contract ==
  LET bothNum == l.t = "num" /\ r.t = "num" IN
  /\ C("eq", l, r) = JBool(l = r)
  /\ (l.t # r.t => C("eq", l, r) = JFalse)                           \* different types never equal
  /\ C("eq", l, l) = JTrue                                           \* reflexive
  /\ C("eq", l, r) = C("eq", r, l)                                   \* symmetric
  /\ C("ne", l, r) = JBool(C("eq", l, r) = JFalse)                   \* != is the negation
  /\ (~bothNum => \A op \in {"lt", "le", "gt", "ge"} : C(op, l, r) = JNull)
  /\ (bothNum => /\ \A op \in OpsAll : C(op, l, r).t = "bool"
                 /\ Cardinality({op \in {"lt", "eq", "gt"} : C(op, l, r) = JTrue}) = 1
                 /\ C("le", l, r) = JBool(C("lt", l, r) = JTrue \/ C("eq", l, r) = JTrue)
                 /\ C("ge", l, r) = JBool(C("gt", l, r) = JTrue \/ C("eq", l, r) = JTrue)
                 /\ C("lt", l, r) = C("gt", r, l))
Inv_L1 == \A op \in OpsAll : L1(op, l, r) = C(op, l, r)

(* the universe with neighbouring doubles.  Level 0: equality is exact, the order is that of the reals (base, then units in the last
   place), total on numbers.  Level 1 = Level 0 except that '==' / '!=' identify what EqOpen names (DEV_TOLERANT_EQ); where the
   transcription of float_eq decides (at most one unit apart) neighbours ARE equal for the code; the ordering operators never differ. *)
Inv_ContractNear ==
  LET bothNum == l.t = "num" /\ r.t = "num" IN
  /\ C("eq", l, r) = JBool(l = r) /\ C("eq", l, r) = C("eq", r, l) /\ C("ne", l, r) = JBool(C("eq", l, r) = JFalse)
  /\ (~bothNum => \A op \in {"lt", "le", "gt", "ge"} : C(op, l, r) = JNull)
  /\ (bothNum /\ ~NumOrderOpen(l, r) =>
        /\ Cardinality({op \in {"lt", "eq", "gt"} : C(op, l, r) = JTrue}) = 1          \* exact equality: trichotomy for every pair
        /\ C("le", l, r) = JBool(C("gt", l, r) = JFalse) /\ C("ge", l, r) = JBool(C("lt", l, r) = JFalse)
        /\ C("lt", l, r) = C("gt", r, l))
Inv_L1Near ==
  /\ \A op \in {"lt", "le", "gt", "ge"} : (l.t = "num" /\ r.t = "num" /\ NumOrderOpen(l, r)) \/ L1(op, l, r) = C(op, l, r)
  /\ \A op \in {"eq", "ne"} :
        IF ~EqOpen(l, r) THEN L1(op, l, r) = C(op, l, r)
        ELSE DeepEqOpenL1(l, r) \/ HasInexact(l) \/ HasInexact(r) \/ L1(op, l, r) = JBool(op = "eq")   \* the tolerance: neighbours are equal
(* the tolerance is not vacuous: some pair differs for Level 0 and is equal for the code *)
Inv_NoTolerantPair == ~(l # r /\ L1("eq", l, r) = JTrue)
=============================================================================
