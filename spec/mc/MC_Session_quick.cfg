CONSTANTS
  KMAX = 3
  DEVS = {}
  EXPORT = FALSE
SPECIFICATION Spec
INVARIANTS Inv_Registry Inv_Borrow Inv_Pure Inv_Clone
CHECK_DEADLOCK FALSE
