------------------------------ MODULE MC_Offset ------------------------------
(***************************************************************************)
(* C12 / C13: the discipline of the one mutable cell of a search, the      *)
(* error cursor Context.offset (lib.rs:441-460), as a state machine that   *)
(* mirrors the Function arm of interpreter.rs:146-165 and the by-functions *)
(* of functions.rs (which interpret an expression reference -- and so      *)
(* nested calls -- in the middle of their own evaluation and may fail      *)
(* afterwards).                                                            *)
(*                                                                         *)
(* A program is a tree of up to 3 calls; a child is either an ARGUMENT of  *)
(* its parent (evaluated before the parent is entered) or sits inside an   *)
(* EXPRESSION REFERENCE argument (evaluated during the parent's body).     *)
(* Each call fails early (signature validation), late (after its           *)
(* expression references were interpreted) or not at all.                  *)
(*   EvalArg   push the next argument child                                *)
(*   Enter     arguments done: ctx.offset := the call's "(" offset         *)
(*   Body      validation failure / interpret next expref child / late     *)
(*             failure / normal return                                     *)
(*   Return    pop; the repaired code restores the caller's offset         *)
(* Inv_ErrorPointsAtRaiser : an error carries the offset of the call that  *)
(* raised it.  DEVS = {"DEV_STALE_OFFSET"} (no restore: the code as found) *)
(* must violate it.                                                        *)
(* Inv_FreshPerSearch : a search starts with offset 0 whatever the         *)
(* previous search left behind (C13).                                      *)
(***************************************************************************)
EXTENDS Integers, Sequences, FiniteSets, TLC
CONSTANTS DEVS

Nodes == 1..3
NoErr == [by |-> 0, off |-> 0]
Offset(c) == 10 * c                      \* distinct "(" offsets

VARIABLES n, parent, viaExpref, fail, stack, off, err, searches
vars == <<n, parent, viaExpref, fail, stack, off, err, searches>>

Children(c, kind) == {d \in 2..n : parent[d] = c /\ viaExpref[d] = kind}
Frame(c) == [c |-> c, phase |-> "args", doneArgs |-> {}, doneRefs |-> {}, saved |-> 0]

Init ==
  /\ n \in Nodes
  /\ parent \in [2..3 -> 1..2] /\ parent[2] = 1
  /\ viaExpref \in [2..3 -> BOOLEAN]
  /\ fail \in [Nodes -> {"none", "early", "late"}]
  /\ stack = <<Frame(1)>> /\ off = 0 /\ err = NoErr /\ searches = 1

Top == stack[Len(stack)]
SetTop(f) == [stack EXCEPT ![Len(stack)] = f]

EvalArg ==
  /\ err = NoErr /\ stack # <<>> /\ Top.phase = "args"
  /\ \E d \in Children(Top.c, FALSE) \ Top.doneArgs :
        /\ \A d2 \in Children(Top.c, FALSE) \ Top.doneArgs : d <= d2          \* left to right
        /\ stack' = Append(SetTop([Top EXCEPT !.doneArgs = @ \cup {d}]), Frame(d))
  /\ UNCHANGED <<n, parent, viaExpref, fail, off, err, searches>>

Enter ==
  /\ err = NoErr /\ stack # <<>> /\ Top.phase = "args" /\ Children(Top.c, FALSE) \subseteq Top.doneArgs
  /\ stack' = SetTop([Top EXCEPT !.phase = "body", !.saved = off])
  /\ off' = Offset(Top.c)                                                     \* ctx.offset = offset
  /\ UNCHANGED <<n, parent, viaExpref, fail, err, searches>>

Body ==
  /\ err = NoErr /\ stack # <<>> /\ Top.phase = "body"
  /\ LET refs == Children(Top.c, TRUE) \ Top.doneRefs IN
     IF fail[Top.c] = "early" THEN err' = [by |-> Top.c, off |-> off] /\ UNCHANGED <<stack, off>>
     ELSE IF refs # {} THEN
          LET d == CHOOSE x \in refs : \A y \in refs : x <= y
          IN stack' = Append(SetTop([Top EXCEPT !.doneRefs = @ \cup {d}]), Frame(d)) /\ UNCHANGED <<off, err>>
     ELSE IF fail[Top.c] = "late" THEN err' = [by |-> Top.c, off |-> off] /\ UNCHANGED <<stack, off>>
     ELSE /\ stack' = SubSeq(stack, 1, Len(stack) - 1)                       \* Return
          /\ off' = IF "DEV_STALE_OFFSET" \in DEVS THEN off ELSE Top.saved
          /\ UNCHANGED err
  /\ UNCHANGED <<n, parent, viaExpref, fail, searches>>

(* the expression is searched again: a fresh Context (lib.rs:396-399) *)
SearchAgain ==
  /\ (err # NoErr \/ stack = <<>>) /\ searches < 2
  /\ stack' = <<Frame(1)>> /\ off' = 0 /\ err' = NoErr /\ searches' = searches + 1
  /\ UNCHANGED <<n, parent, viaExpref, fail>>

Next == EvalArg \/ Enter \/ Body \/ SearchAgain
Spec == Init /\ [][Next]_vars

Inv_ErrorPointsAtRaiser == err # NoErr => err.off = Offset(err.by)
Inv_FreshPerSearch == (Len(stack) = 1 /\ Top.phase = "args" /\ Top.doneArgs = {}) => off = 0
Inv_Balanced == stack = <<>> => (off = 0 \/ "DEV_STALE_OFFSET" \in DEVS)
=============================================================================
