------------------------------- MODULE MC_Json -------------------------------
(***************************************************************************)
(* C08 at model level, on the JSON reader/printer of the specification     *)
(* (JsonParse = "the value a text denotes", JText!JsonText = the compact   *)
(* printer): a state is a JSON value of a bounded universe; the transition *)
(* prints it and parses the text back.                                     *)
(*   Inv_RoundTrip   Denote(Print(v)) = v                                  *)
(*   Inv_Blanks      blanks between tokens do not change the value         *)
(*   Inv_DupKeys     the last of several members with the same key wins    *)
(*   Inv_Classes     numeral classification is total and, for the printed  *)
(*                   numbers of the universe, "int" exactly for integers   *)
(***************************************************************************)
EXTENDS JsonParse, JText, Numerals
CONSTANT DEPTH
VARIABLES v, stage

MoreAtoms == Atoms \cup {JNum(3, 2), JNum(-1, 4), JStr(<<34, 92, 10>>), JStr(<<233, 128512>>), JInt(999999999)}
(* at depth 2 the universe is built over six atoms (one of each kind that the printer treats differently): ~20 000 values *)
DeepAtoms == {JNull, JTrue, JNum(-1, 4), JInt(999999999), JStr(<<34, 92, 10>>), JStr(<<233, 128512>>)}
Init == v \in Univ(IF DEPTH >= 2 THEN DeepAtoms ELSE MoreAtoms, DEPTH, 2) /\ stage = 0
Next == stage = 0 /\ stage' = 1 /\ v' = JsonParse(JsonText(v)).v
Spec == Init /\ [][Next]_<<v, stage>>

RECURSIVE Pad(_)
Pad(t) == IF t = <<>> THEN <<>>
          ELSE IF t[1] \in {91, 93, 123, 125, 44, 58} THEN <<32, t[1], 10>> \o Pad(Tail(t)) ELSE <<t[1]>> \o Pad(Tail(t))
NoStructInStrings(x) == TRUE
RECURSIVE StringsSafe(_)
StringsSafe(x) == CASE x.t = "str" -> \A i \in DOMAIN x.s : x.s[i] \notin {91, 93, 123, 125, 44, 58}
                    [] x.t = "arr" -> \A i \in DOMAIN x.a : StringsSafe(x.a[i])
                    [] x.t = "obj" -> \A i \in DOMAIN x.o : StringsSafe(x.o[i].v) /\ \A j \in DOMAIN x.o[i].k : x.o[i].k[j] \notin {91, 93, 123, 125, 44, 58}
                    [] OTHER -> TRUE

Inv_RoundTrip == LET p == JsonParse(JsonText(v)) IN p.ok /\ p.dom /\ p.v = v
Inv_Blanks == StringsSafe(v) => LET p == JsonParse(Pad(JsonText(v))) IN p.ok /\ p.v = v
Inv_DupKeys == LET t == <<123, 34, 97, 34, 58>> \o JsonText(JNull) \o <<44, 34, 97, 34, 58>> \o JsonText(v) \o <<125>>
               IN JsonParse(t).v = MkObj(<<JMem(<<97>>, v)>>)
Inv_Classes == v.t = "num" => LET c == ClassOfText(NumText(v)) IN IF v.q = 1 THEN c = "int" ELSE c = "exact"
=============================================================================
