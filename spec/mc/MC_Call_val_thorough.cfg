CONSTANTS
  MODE = "val"
  MAXAR = 3
  LEN = 5
  DEVS = {}
SPECIFICATION Spec
INVARIANTS Inv_Arity Inv_OkTyped Inv_Contract
CHECK_DEADLOCK FALSE
