CONSTANTS
  DEPTH = 1
SPECIFICATION Spec
INVARIANTS Inv_RoundTrip Inv_Blanks Inv_DupKeys Inv_Classes
CHECK_DEADLOCK FALSE
