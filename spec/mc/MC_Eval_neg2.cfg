CONSTANTS
  DEPTH = 1
  DEVS = {"NC_ZERO_FALSY"}
SPECIFICATION Spec
INVARIANTS Inv_InterpIsEval
CHECK_DEADLOCK FALSE
