------------------------------ MODULE MC_LexVal ------------------------------
(***************************************************************************)
(* C09 at model level: the prefix tree of all strings up to N characters   *)
(* over an alphabet of delimiters, backslash, blanks and 1-, 2- and 4-byte *)
(* characters.  For each string s:                                         *)
(*   Inv_Raw    Spellable(s) => the lexer gives its raw spelling the value *)
(*              s; ~Spellable(s) => the spelling does not denote s         *)
(*   Inv_Lit    the JSON literal holding the string s, and the literals    *)
(*              holding [s] and {s: s}, denote exactly those values        *)
(*   Inv_Quoted every spelling style of the quoted identifier s lexes to   *)
(*              the identifier s                                           *)
(*   Inv_Bad    unterminated / malformed forms built from s are rejected   *)
(***************************************************************************)
EXTENDS LexVal, TLC
CONSTANTS N, DEVS
VARIABLE s

Alpha == {97, cSQUOTE, cBTICK, cDQUOTE, cBSLASH, cSPACE, cNL, 233, 128512, 47}
Init == s = <<>>
Next == Len(s) < N /\ \E c \in Alpha : s' = Append(s, c)
Spec == Init /\ [][Next]_s

(* negative control: pretending every string has a raw spelling must break Inv_Raw *)
AlwaysSpellable(x) == TRUE

Inv_Raw == IF Spellable(s) THEN LitValueOf(SpellRaw(s)) = JStr(s) ELSE LitValueOf(SpellRaw(s)) # JStr(s)
Inv_Lit == /\ LitValueOf(SpellLit(JStr(s))) = JStr(s)
           /\ LitValueOf(SpellLit(JArr(<<JStr(s), JInt(1)>>))) = JArr(<<JStr(s), JInt(1)>>)
           /\ LitValueOf(SpellLit(MkObj(<<JMem(s, JStr(s))>>))) = MkObj(<<JMem(s, JStr(s))>>)
Inv_Quoted == \A st \in 0..2 : QIdentOf(SpellQ(s, st)) = JStr(s)
HasCtl == \E i \in DOMAIN s : s[i] = cNL
Inv_Bad == /\ (Spellable(s) => ~Lex(<<cSQUOTE>> \o EscDelim(s, cSQUOTE), DEVS).ok)  \* unterminated raw string
           /\ ~Lex(<<cDQUOTE>> \o JsonStrBody(s), DEVS).ok                      \* unterminated quoted identifier
           /\ ~Lex(<<cBTICK>> \o EscDelim(JsonText(JStr(s)), cBTICK), DEVS).ok  \* unterminated literal
           /\ (HasCtl => ~Lex(<<cDQUOTE>> \o s \o <<cDQUOTE>>, DEVS).ok \/ \E i \in DOMAIN s : s[i] = cDQUOTE)  \* raw control character
           /\ ~Lex(<<cDQUOTE>> \o JsonStrBody(s) \o <<cBSLASH, 117, 100, 56, 48, 48, cDQUOTE>>, DEVS).ok   \* lone surrogate \ud800
=============================================================================
