CONSTANTS
  N = 5
  DEVS = {}
SPECIFICATION Spec
INVARIANTS Inv_Tree Inv_Paren Inv_Assoc
CHECK_DEADLOCK FALSE
