CONSTANTS
  MODE = "val"
  MAXAR = 3
  LEN = 2
  DEVS = {"NC_MERGE_LEFT"}
SPECIFICATION Spec
INVARIANTS Inv_L1Functions
CHECK_DEADLOCK FALSE
