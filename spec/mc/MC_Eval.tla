------------------------------- MODULE MC_Eval -------------------------------
(***************************************************************************)
(* C01 / C10 / C11 at model level.  A state is a (tree, document) pair     *)
(* drawn from a bounded universe: trees of nesting depth <= 1 over a leaf  *)
(* pool (current node, fields a/b/missing, indexes, literals of every      *)
(* type, slices) under every constructor; documents = all JSON values of   *)
(* depth <= DEPTH, width <= 2 over 8 atoms.                                *)
(*   Inv_InterpIsEval   the evaluator as coded (Interp, Level 1) computes  *)
(*                      the meaning the specification assigns (Eval, L0)   *)
(*   Inv_Laws           C11: pipe, projections, filter, multi-select,      *)
(*                      boolean truth tables, stated on Eval               *)
(*   Inv_Cmp            C10: the algebra of the six comparison operators   *)
(* The one transition replaces the document by the result of the tree (so  *)
(* results become documents of further states).                            *)
(***************************************************************************)
EXTENDS Interp, TLC
CONSTANTS DEPTH, DEVS
VARIABLES ast, doc, stage

Leaves == {AIdentity, AField(KeyA), AField(KeyB), AField(<<122>>), AIndex(0), AIndex(1), AIndex(-1), AIndex(2),
           ALiteral(JNull), ALiteral(JFalse), ALiteral(JInt(0)), ALiteral(JStr(<<>>)), ALiteral(JArr(<<>>)),
           ALiteral(JInt(1)), ALiteral(JStr(<<97>>)),
           A2("Projection", ASlice(OptSome(1), OptNone, 1), AIdentity),
           A2("Projection", ASlice(OptNone, OptNone, -1), AIdentity)}
Ops == {"eq", "ne", "lt", "le", "gt", "ge"}
Small == {AIdentity, AField(KeyA), AField(KeyB), AIndex(0), ALiteral(JInt(1)), ALiteral(JNull)}
Trees ==
  Leaves
  \cup {A2(k, l, r) : k \in {"Subexpr", "Or", "And"}, l \in Leaves, r \in Small}
  \cup {ACmp(op, l, r) : op \in Ops, l \in Small, r \in Small}
  \cup {A1(k, l) : k \in {"Not", "Flatten", "ObjectValues"}, l \in Leaves}
  \cup {A2("Projection", l, r) : l \in Small \cup {A1("Flatten", AIdentity), A1("ObjectValues", AIdentity)}, r \in Small}
  \cup {A2("Projection", l, A2("Condition", p, AIdentity)) : l \in {AIdentity, AField(KeyA)}, p \in Small \cup {ACmp("eq", AField(KeyA), ALiteral(JInt(1)))}}
  \cup {AMultiList(<<l, r>>) : l \in Small, r \in Small}
  \cup {AMultiHash(<<[k |-> KeyA, v |-> l], [k |-> KeyB, v |-> r]>>) : l \in Small, r \in Small}
  \cup {AMultiHash(<<[k |-> KeyB, v |-> l], [k |-> KeyB, v |-> r]>>) : l \in {AIdentity}, r \in Small}

(* depth 1: all eight atoms; depth 2: five of them (one of each kind that evaluation treats differently, both truth values of a
   number-free kind), which keeps the exhaustive run at ~16 million states; the depth-1 configuration is run as well *)
DocAtoms == IF DEPTH >= 2 THEN {JNull, JTrue, JInt(0), JInt(1), JStr(<<97>>)} ELSE Atoms
Docs == Univ(DocAtoms, DEPTH, 2)

Init == ast \in Trees /\ doc \in Docs /\ stage = 0
Next == /\ stage = 0
        /\ LET o == Eval(ast, doc, Builtins) IN IsVOk(o) /\ doc' = o.ok
        /\ stage' = 1 /\ UNCHANGED ast
Spec == Init /\ [][Next]_<<ast, doc, stage>>

RECURSIVE Extra(_, _, _)
Extra(xs, i, acc) == IF i > Len(xs) THEN acc ELSE Extra(xs, i + 1, acc + (IF xs[i].t = "arr" THEN Len(xs[i].a) ELSE 1))

Inv_InterpIsEval == Interp(ast, doc, Builtins, DEVS) = Eval(ast, doc, Builtins)

E(a, v) == Eval(a, v, Builtins).ok
Inv_Laws ==
  /\ ast.n = "Subexpr" => E(ast, doc) = E(ast.r, E(ast.l, doc))
  /\ (ast.n = "Projection" /\ ast.r.n # "Condition") =>
        LET s == E(ast.l, doc) IN
        IF s.t # "arr" THEN E(ast, doc) = JNull
        ELSE E(ast, doc) = JArr(DropNulls([i \in DOMAIN s.a |-> E(ast.r, s.a[i])]))
  /\ (ast.n = "Projection" /\ ast.r.n = "Condition") =>
        LET s == E(ast.l, doc) IN
        IF s.t # "arr" THEN E(ast, doc) = JNull
        ELSE E(ast, doc) = JArr(DropNulls(SelectSeq(s.a, LAMBDA x : Truthy(E(ast.r.l, x)))))
  /\ ast.n = "MultiList" => (IF doc.t = "null" THEN E(ast, doc) = JNull
                             ELSE E(ast, doc) = JArr([i \in DOMAIN ast.args |-> E(ast.args[i], doc)]))
  /\ ast.n = "Not" => E(ast, doc) = JBool(~Truthy(E(ast.l, doc)))
  /\ ast.n = "And" => E(ast, doc) = (IF Truthy(E(ast.l, doc)) THEN E(ast.r, doc) ELSE E(ast.l, doc))
  /\ ast.n = "Or"  => E(ast, doc) = (IF Truthy(E(ast.l, doc)) THEN E(ast.l, doc) ELSE E(ast.r, doc))
  /\ ast.n = "Flatten" => LET s == E(ast.l, doc) IN
        (s.t = "arr" => /\ E(ast, doc).t = "arr"
                        /\ Len(E(ast, doc).a) = Extra(s.a, 1, 0))

Inv_Cmp ==
  ast.n = "Comparison" =>
    LET l == E(ast.l, doc) r == E(ast.r, doc)
        c(op) == E(ACmp(op, ast.l, ast.r), doc)
        bothNum == l.t = "num" /\ r.t = "num"
    IN /\ c("eq") = JBool(l = r) /\ c("ne") = JBool(l # r)
       /\ (l.t # r.t => c("eq") = JFalse)
       /\ E(ACmp("eq", ast.r, ast.l), doc) = c("eq")                     \* symmetric
       /\ E(ACmp("eq", ast.l, ast.l), doc) = JTrue                       \* reflexive
       /\ (~bothNum => \A op \in {"lt", "le", "gt", "ge"} : c(op) = JNull)
       /\ (bothNum => /\ Cardinality({op \in {"lt", "eq", "gt"} : c(op) = JTrue}) = 1
                      /\ c("le") = JBool(c("lt") = JTrue \/ c("eq") = JTrue)
                      /\ c("ge") = JBool(c("gt") = JTrue \/ c("eq") = JTrue))
=============================================================================
