------------------------------ MODULE MC_Sync ------------------------------
(* model-checking instance of Sync.tla (C16): constants are set in the .cfg files *)
EXTENDS Sync
=============================================================================
