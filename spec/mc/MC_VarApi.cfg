SPECIFICATION Spec
INVARIANTS Inv_Accessors Inv_Order
CHECK_DEADLOCK FALSE
