----------------------------- MODULE MC_VarApi ------------------------------
(***************************************************************************)
(* The accessor contract of VarApi, stated directly, is the evaluator's    *)
(* meaning of the corresponding expression form on every pair of a bounded *)
(* universe; the documented internal order is a preorder that refines to   *)
(* the language's `<` on numbers and to code-point order on strings.       *)
(***************************************************************************)
EXTENDS VarApi, TLC
VARIABLES v, w
U == Univ(Atoms \cup {JNum(1, 2), JStr(<<98>>), JStr(<<97, 98>>)}, 1, 2)
Init == v \in U /\ w \in U
Next == UNCHANGED <<v, w>>
Spec == Init /\ [][Next]_<<v, w>>
Keys == {<<>>, <<97>>, <<98>>}
Inv_Accessors ==
  /\ \A k \in Keys : FieldOf(v, k) = FieldByEval(v, k)
  /\ \A i \in 0..3 : IndexOf(v, i) = IndexByEval(v, i)
  /\ \A n \in 1..3 : NegIndexOf(v, n) = IndexByEval(v, -n)
  /\ NegIndexOf(v, 0) = NegIndexOf(v, 1)
  /\ Truthy(v) = TruthyByEval(v)
  /\ \A op \in {"eq", "ne", "lt", "le", "gt", "ge"} : CompareOf(op, v, w) = CompareByEval(op, v, w)
Inv_Order ==
  /\ OrdOf(v, w) = -OrdOf(w, v) /\ OrdOf(v, v) = 0
  /\ (v.t = "num" /\ w.t = "num") => (OrdOf(v, w) = -1 <=> Cmp("lt", v, w) = JTrue) /\ (OrdOf(v, w) = 0 <=> v = w)
  /\ (v.t = "str" /\ w.t = "str") => (OrdOf(v, w) = 0 <=> v = w)
  /\ v.t # w.t => OrdOf(v, w) = 0
=============================================================================
