------------------------------- MODULE MC_Sent -------------------------------
(***************************************************************************)
(* C04 at model level over every ABNF sentence of up to N tokens (the      *)
(* initial states), with positional payloads so that every leaf is         *)
(* distinguishable:                                                        *)
(*   Inv_Tree   Pratt (Level 1, deviations DEVS) builds the tree the       *)
(*              binding-power order dictates (Prec!TreeOf, Level 0)        *)
(*   Inv_Paren  wrapping the operands the rules imply in parentheses       *)
(*              leaves the tree unchanged                                  *)
(*   Inv_Assoc  chains of one binary operator group to the left            *)
(* The one transition parenthesises the sentence, so parenthesised forms   *)
(* are states too and are themselves checked against Prec.                 *)
(***************************************************************************)
EXTENDS Grammar, Pratt, Paren, TLC
CONSTANTS N, DEVS
VARIABLES ts, stage

OpAt(i) == <<"eq", "ne", "lt", "le", "gt", "ge">>[(i % 6) + 1]
Def(k, i) == CASE k = "Ident" -> TIdent(<<96 + i>>) [] k = "QIdent" -> TQIdent(<<64 + i>>)
               [] k = "Num" -> TNum(IF i % 2 = 0 THEN i ELSE -i)
               [] k = "Lit" -> TLit(IF i % 2 = 0 THEN JInt(i) ELSE JStr(<<48 + i>>))
               [] k = "Cmp" -> TCmpTok(OpAt(i)) [] OTHER -> TPlain(k)
Toks(ks) == [i \in DOMAIN ks |-> Def(ks[i], i)]

Init == /\ stage = 0
        /\ ts \in LET G == Sets(N) IN {Toks(s) : s \in UNION {G.E[n] : n \in 1..N}}
Next == stage = 0 /\ stage' = 1 /\ ts' = Parenthesise(ts)
Spec == Init /\ [][Next]_<<ts, stage>>

Inv_Tree  == LET p == Parse(ts, DEVS) IN p.ok /\ p.t = TreeOf(ts)
Inv_Paren == stage = 0 => Parse(Parenthesise(ts), DEVS).t = Parse(ts, DEVS).t
(* a op b op c  =  (a op b) op c for the four binary levels *)
Inv_Assoc == (stage = 0 /\ Len(ts) = 5 /\ ts[2].k = ts[4].k /\ ts[2].k \in {"Pipe", "Or", "And", "Cmp"}
              /\ \A i \in {1, 3, 5} : ts[i].k \in {"Ident", "At", "Lit", "QIdent", "Star"})
             => LET t == Parse(ts, DEVS).t IN t.l.n = t.n \/ (t.n = "Subexpr" /\ t.l.n = "Subexpr")
=============================================================================
