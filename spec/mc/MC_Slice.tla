------------------------------ MODULE MC_Slice ------------------------------
(***************************************************************************)
(* Level 1 |= Level 0 for slices: the loop of variable.rs:453-482 as a     *)
(* state machine over every (len, start, stop, step) of a boundary-heavy   *)
(* domain.  One action per step of the Rust function.                      *)
(*   Adjust    : endpoint defaulting/clamping (adjust_slice_endpoint)      *)
(*   LoopStep  : one iteration  `result.push(array[i]); i += step`         *)
(*   LoopExit  : loop condition false                                      *)
(* DEVS = {} is the design as repaired; DEVS = {"DEV_SLICE_STEP_OVERFLOW"} *)
(* is the negative control (TLC must report Inv_NoFail violated).          *)
(* STEP0 = TRUE adds step 0, which only the public method Variable::slice  *)
(* can receive: the guard returns at once; NC_METHOD_STEP0_LOOPS is the    *)
(* function before the repair of finding F19 (Inv_Bounded must fail).      *)
(***************************************************************************)
EXTENDS Slice
CONSTANTS MaxLen, Small, DEVS, STEP0

Edge == {MAXI, MAXI - 1, -MAXI, -(MAXI - 1)}
Ints == (-Small..Small) \cup Edge
Ends == {None} \cup {Some(n) : n \in Ints}
Steps == IF STEP0 THEN Ints ELSE Ints \ {0}

VARIABLES len, start, stop, step, pc, i, b, out, ovf, oob
vars == <<len, start, stop, step, pc, i, b, out, ovf, oob>>

Init == /\ len \in 0..MaxLen /\ start \in Ends /\ stop \in Ends /\ step \in Steps
        /\ pc = "adjust" /\ i = 0 /\ b = 0 /\ out = <<>> /\ ovf = FALSE /\ oob = FALSE

Adjust ==
  /\ pc = "adjust"
  /\ IF len = 0 \/ (step = 0 /\ "NC_METHOD_STEP0_LOOPS" \notin DEVS)
     THEN pc' = "done" /\ UNCHANGED <<i, b>>
     ELSE /\ i' = StartL1(len, start, step)
          /\ b' = StopL1(len, stop, step)
          /\ pc' = "loop"
  /\ UNCHANGED <<len, start, stop, step, out, ovf, oob>>

Continue == (step > 0 /\ i < b) \/ (step <= 0 /\ i > b)          \* `if step > 0 { while i < b } else { while i > b }`

LoopStep ==
  /\ pc = "loop" /\ Continue
  /\ IF i < 0 \/ i >= len
     THEN oob' = TRUE /\ pc' = "fail" /\ UNCHANGED <<i, out, ovf>>
     ELSE /\ out' = Append(out, i)
          /\ oob' = oob
          /\ IF AddOverflows(i, step)
             THEN IF "DEV_SLICE_STEP_OVERFLOW" \in DEVS
                  THEN ovf' = TRUE /\ pc' = "fail" /\ i' = i
                  ELSE ovf' = ovf /\ pc' = "done" /\ i' = i
             ELSE i' = i + step /\ pc' = pc /\ ovf' = ovf
  /\ UNCHANGED <<len, start, stop, step, b>>

LoopExit ==
  /\ pc = "loop" /\ ~Continue
  /\ pc' = "done"
  /\ UNCHANGED <<len, start, stop, step, i, b, out, ovf, oob>>

Next == Adjust \/ LoopStep \/ LoopExit
Spec == Init /\ [][Next]_vars

(* C05: no integer overflow, no out-of-bounds index, ever *)
Inv_NoFail == ~ovf /\ ~oob /\ pc # "fail"

(* C07: the result is the comprehension *)
Inv_Result == pc = "done" => out = SliceL0(len, start, stop, step)

(* inductive shape of the loop: what has been collected is a prefix of the answer,
   and i is inside the i32 range and inside the array whenever the loop continues *)
IsPrefix(s, t) == Len(s) <= Len(t) /\ \A k \in 1..Len(s) : s[k] = t[k]
Inv_Loop == pc = "loop" =>
              /\ IsPrefix(out, SliceL0(len, start, stop, step))
              /\ (Continue => i >= 0 /\ i < len)
              /\ b >= -1 /\ b <= len

(* the operator form used by judges agrees with the machine *)
Inv_OperatorForm ==
  pc \in {"done", "fail"} =>
     LET r == SliceL1(len, start, stop, step, DEVS)
     IN ~Loops(r) /\ r.out = out /\ r.ovf = ovf /\ r.oob = oob

(* the loop terminates: at most len iterations *)
Inv_Bounded == Len(out) <= len

(* index rule *)
Inv_Index == \A n \in Ints : IndexL1(len, n) = IndexL0(len, n)
=============================================================================
