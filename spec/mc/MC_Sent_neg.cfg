CONSTANTS
  N = 4
  DEVS = {"NC_NOT_39"}
SPECIFICATION Spec
INVARIANTS Inv_Tree
CHECK_DEADLOCK FALSE
