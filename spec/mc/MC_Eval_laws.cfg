CONSTANTS
  DEPTH = 1
  DEVS = {}
SPECIFICATION Spec
INVARIANTS Inv_Laws Inv_InterpIsEval
CHECK_DEADLOCK FALSE
