CONSTANTS
  DEPTH = 1
  DEVS = {"NC_PROJ_KEEPS_NULLS"}
SPECIFICATION Spec
INVARIANTS Inv_InterpIsEval
CHECK_DEADLOCK FALSE
