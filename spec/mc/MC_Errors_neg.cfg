CONSTANTS
  N = 3
  DEVS = {"DEV_COLUMN_IN_BYTES"}
SPECIFICATION Spec
INVARIANTS Inv_Coord
CHECK_DEADLOCK FALSE
