CONSTANTS
  DEVS = {"DEV_STALE_OFFSET"}
SPECIFICATION Spec
INVARIANTS Inv_ErrorPointsAtRaiser
CHECK_DEADLOCK FALSE
