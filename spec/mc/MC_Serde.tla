------------------------------ MODULE MC_Serde ------------------------------
(***************************************************************************)
(* C14 at model level: a state is a data-model tree; the transition wraps  *)
(* it once more (Some / newtype struct / 1-tuple / newtype variant /       *)
(* struct field).  Invariants: Image is total on string-keyed trees;       *)
(* transparent wrappers are transparent; non-finite floats map to null;    *)
(* variants are externally tagged single-key objects; objects have         *)
(* ascending distinct keys (last duplicate wins).                          *)
(***************************************************************************)
EXTENDS Serde, TLC
VARIABLES t, depth
Init == t \in Leaves \cup Depth1 /\ depth = 0
Next == depth < 2 /\ depth' = depth + 1 /\
        \E w \in {"some", "newtype_struct", "tuple", "newtype_variant", "struct"} :
           t' = CASE w = "some" -> [k |-> "some", x |-> t] [] w = "newtype_struct" -> [k |-> "newtype_struct", x |-> t]
                  [] w = "tuple" -> [k |-> "tuple", xs |-> <<t>>] [] w = "newtype_variant" -> [k |-> "newtype_variant", name |-> depth, x |-> t]
                  [] w = "struct" -> [k |-> "struct", fs |-> <<[f |-> depth, v |-> t], [f |-> depth, v |-> [k |-> "unit"]]>>]
Spec == Init /\ [][Next]_<<t, depth>>

RECURSIVE WFImg(_)
WFImg(v) == CASE v.t = "num" -> TRUE [] v.t = "arr" -> \A i \in DOMAIN v.a : WFImg(v.a[i])
              [] v.t = "obj" -> SortedKeys(v) /\ \A i \in DOMAIN v.o : WFImg(v.o[i].v) [] OTHER -> TRUE
Inv_Total == WFImg(Image(t))
Inv_Transparent == t.k \in {"some", "newtype_struct"} => Image(t) = Image(t.x)
Inv_NonFinite == (t.k \in {"f32", "f64"} /\ "special" \in DOMAIN t /\ t.special \notin {"negzero", "tiny", "tiny64"}) => Image(t) = JNull
Inv_Variants == t.k \in {"newtype_variant", "tuple_variant", "struct_variant"} => (Image(t).t = "obj" /\ Len(Image(t).o) = 1)
Inv_LastDup == (t.k = "struct" /\ Len(t.fs) = 2 /\ t.fs[1].f = t.fs[2].f) => Image(t) = JObj(<<JMem(FieldName(t.fs[2].f), Image(t.fs[2].v))>>)
=============================================================================
