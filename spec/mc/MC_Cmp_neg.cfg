CONSTANTS
  DEVS = {"NC_ORD_LEAK"}
  NEAR = FALSE
SPECIFICATION Spec
INVARIANTS Inv_L1
CHECK_DEADLOCK FALSE
