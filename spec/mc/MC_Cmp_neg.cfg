CONSTANTS
  DEVS = {"NC_ORD_LEAK"}
SPECIFICATION Spec
INVARIANTS Inv_L1
CHECK_DEADLOCK FALSE
