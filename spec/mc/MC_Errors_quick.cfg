CONSTANTS
  N = 5
  DEVS = {}
SPECIFICATION Spec
INVARIANTS Inv_Coord Inv_Render
CHECK_DEADLOCK FALSE
