CONSTANTS
  DEVS = {"DEV_SPECIALIZED_NONFINITE_ERROR"}
SPECIFICATION Spec
INVARIANTS Inv_ConfigIndependent
CHECK_DEADLOCK FALSE
