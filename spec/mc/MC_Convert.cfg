CONSTANT DEVS = {}
SPECIFICATION Spec
INVARIANTS Inv_ImageOfInput Inv_ConfigIndependent
CHECK_DEADLOCK FALSE
