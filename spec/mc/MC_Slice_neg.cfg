CONSTANTS
  MaxLen = 3
  Small = 2
  DEVS = {"DEV_SLICE_STEP_OVERFLOW"}
SPECIFICATION Spec
INVARIANTS Inv_NoFail
CHECK_DEADLOCK FALSE
