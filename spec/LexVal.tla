------------------------------- MODULE LexVal -------------------------------
(***************************************************************************)
(* C09, Level 0: how a value is WRITTEN as a raw string, a JSON literal or *)
(* a quoted identifier (the spelling rules the property states), so that   *)
(* "the spelling of x denotes x" can be checked against the lexer model    *)
(* (MC_LexVal) and against the implementation (Gen_LexVal / TV_LexVal).    *)
(***************************************************************************)
EXTENDS Lexer, Spell

(* raw string: only backslash-quote is an escape; every other backslash is literal *)
SpellRaw(s) == <<cSQUOTE>> \o EscDelim(s, cSQUOTE) \o <<cSQUOTE>>

(* length of the backslash run ending at position i (0 if s[i] is not a backslash) *)
RECURSIVE RunBack(_, _)
RunBack(s, i) == IF i >= 1 /\ s[i] = cBSLASH THEN 1 + RunBack(s, i - 1) ELSE 0
(* A string has a raw-string spelling iff every maximal backslash run that is followed by a quote, or that
   ends the string, has even length (a backslash always takes the next character with it). *)
Spellable(s) ==
  /\ RunBack(s, Len(s)) % 2 = 0
  /\ \A i \in 1..Len(s) : (s[i] = cSQUOTE /\ i > 1) => RunBack(s, i - 1) % 2 = 0

(* JSON literal: the JSON text between backticks, backticks escaped *)
SpellLit(v) == <<cBTICK>> \o EscDelim(JsonText(v), cBTICK) \o <<cBTICK>>

(* quoted identifier: three spellings of the same key *)
U4s(c) == IF c < 65536 THEN U4(c)
          ELSE LET d == c - 65536 IN U4(55296 + (d \div 1024)) \o U4(56320 + (d % 1024))
SpellQ(k, style) ==
  <<cDQUOTE>> \o
  (CASE style = 0 -> JsonStrBody(k)                                      \* minimal escaping
     [] style = 1 -> Concat([i \in DOMAIN k |-> U4s(k[i])])              \* every character as \uXXXX (pairs for astral)
     [] style = 2 -> Concat([i \in DOMAIN k |-> IF k[i] = 47 THEN <<cBSLASH, 47>> ELSE JsonChar(k[i])]))  \* "\/" allowed
  \o <<cDQUOTE>>

(* the value a one-token literal text denotes according to the lexer model; NoVal if it does not lex to one literal *)
NoVal == [t |-> "none"]
LitValueOf(text) ==
  LET L == Lex(text, {}) IN IF L.ok /\ Len(L.toks) = 1 /\ L.toks[1].k = "Lit" THEN L.toks[1].val ELSE NoVal
QIdentOf(text) ==
  LET L == Lex(text, {}) IN IF L.ok /\ Len(L.toks) = 1 /\ L.toks[1].k = "QIdent" THEN JStr(L.toks[1].name) ELSE NoVal
=============================================================================
