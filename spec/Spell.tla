-------------------------------- MODULE Spell --------------------------------
(***************************************************************************)
(* Tokens -> expression text.  Every expression text of a TLC-generated    *)
(* case is produced here; TLC checks Lex(Spell(ts)) = ts (MC_Lang), so a   *)
(* spelling mistake shows up as a model-checking failure, not as silent    *)
(* agreement between generator and judge.                                  *)
(***************************************************************************)
EXTENDS Tokens, JText

OpText(op) == CASE op = "eq" -> <<61, 61>> [] op = "ne" -> <<33, 61>> [] op = "lt" -> <<60>>
                [] op = "le" -> <<60, 61>> [] op = "gt" -> <<62>> [] op = "ge" -> <<62, 61>>

(* escape the delimiter inside a delimited form *)
RECURSIVE EscDelim(_, _)
EscDelim(s, d) == IF s = <<>> THEN <<>>
                  ELSE IF s[1] = d THEN <<cBSLASH, d>> \o EscDelim(Tail(s), d)
                  ELSE <<s[1]>> \o EscDelim(Tail(s), d)

HasBackslash(s) == \E i \in DOMAIN s : s[i] = cBSLASH

(* a literal: strings without backslash as raw strings when style = 0, everything else as `json` *)
LitText(v, style) ==
  IF style = 0 /\ v.t = "str" /\ ~HasBackslash(v.s)
  THEN <<cSQUOTE>> \o EscDelim(v.s, cSQUOTE) \o <<cSQUOTE>>
  ELSE <<cBTICK>> \o EscDelim(JsonText(v), cBTICK) \o <<cBTICK>>

TokText(tok, style) ==
  LET k == tok.k IN
  CASE k = "Ident"  -> tok.name
    [] k = "QIdent" -> JsonStrText(tok.name)
    [] k = "Num"    -> IntText(tok.num)
    [] k = "Lit"    -> LitText(tok.val, style)
    [] k = "Cmp"    -> OpText(tok.op)
    [] k = "Dot" -> <<cDOT>> [] k = "Star" -> <<cSTAR>> [] k = "Flatten" -> <<cLBRACKET, cRBRACKET>>
    [] k = "And" -> <<cAMP, cAMP>> [] k = "Or" -> <<cPIPE, cPIPE>> [] k = "Pipe" -> <<cPIPE>>
    [] k = "Filter" -> <<cLBRACKET, cQMARK>> [] k = "Lbracket" -> <<cLBRACKET>> [] k = "Rbracket" -> <<cRBRACKET>>
    [] k = "Comma" -> <<cCOMMA>> [] k = "Colon" -> <<cCOLON>> [] k = "Not" -> <<cBANG>>
    [] k = "At" -> <<cAT>> [] k = "Amp" -> <<cAMP>> [] k = "Lparen" -> <<cLPAREN>> [] k = "Rparen" -> <<cRPAREN>>
    [] k = "Lbrace" -> <<cLBRACE>> [] k = "Rbrace" -> <<cRBRACE>>

(* must a blank separate a from b? *)
NeedSep(a, b) ==
  \/ (a.k = "Ident" /\ (b.k = "Ident" \/ (b.k = "Num" /\ b.num >= 0)))
  \/ (a.k = "Num" /\ b.k = "Num" /\ b.num >= 0)
  \/ (a.k = "Lbracket" /\ b.k = "Rbracket")
  \/ (a.k = "Pipe" /\ b.k \in {"Pipe", "Or"})
  \/ (a.k = "Amp" /\ b.k \in {"Amp", "And"})
  \/ (a.k = "Not" /\ b.k = "Cmp" /\ b.op = "eq")
  \/ (a.k = "Cmp" /\ a.op \in {"lt", "gt"} /\ b.k = "Cmp" /\ b.op = "eq")

RECURSIVE SpellFrom(_, _, _, _)
(* mode: "spaced" = one blank between tokens; "tight" = blanks only where needed;
   "mixed" = alternate blank kinds (space, newline, tab) even where not needed *)
SpellFrom(ts, i, mode, style) ==
  IF i > Len(ts) THEN <<>>
  ELSE LET sep == IF i = 1 THEN <<>>
                  ELSE IF mode = "spaced" THEN <<cSPACE>>
                  ELSE IF mode = "mixed" THEN <<(<<cSPACE, cNL, 9>>)[(i % 3) + 1]>>
                  ELSE IF mode = "cr" THEN <<13>>
                  ELSE IF mode = "crlf" THEN <<13, cNL>>
                  ELSE IF mode = "wide" THEN <<cSPACE, 9, cSPACE>>
                  ELSE IF NeedSep(ts[i - 1], ts[i]) THEN <<cSPACE>> ELSE <<>>
       IN sep \o TokText(ts[i], style) \o SpellFrom(ts, i + 1, mode, style)

Spell(ts, mode, style) == SpellFrom(ts, 1, mode, style)
=============================================================================
