------------------------------- MODULE Decode -------------------------------
(***************************************************************************)
(* C14, the way back: decoding a JSON value (a search result) into a Rust  *)
(* type.                                                                   *)
(*                                                                         *)
(* Level 0  Dec(T, v): what serde_json::from_value::<T>(v) yields, written *)
(*          from the serde data model and serde_json's documentation of    *)
(*          how each shape reads JSON (NOT from variable.rs): Err, or Ok   *)
(*          with the decoded value given by its JSON image (what           *)
(*          serde_json::to_value of the decoded value is; Serde!Image is   *)
(*          the same mapping on trees).                                    *)
(* Level 1  DecL1(T, v, D): the protocol as coded in                       *)
(*          jmespath/src/variable.rs:631-975 -- which Deserializer method  *)
(*          a type asks for (serde's impls and derive), what the           *)
(*          Variable / SeqDeserializer / MapDeserializer / EnumDeserializer*)
(*          / VariantDeserializer do with it, which visit_* call the       *)
(*          visitor of T receives, and the checks after the visitor        *)
(*          returns.  Negative controls (the code before a repair):        *)
(*            NC_SEQ_LEFTOVER_OK  arrays longer than the visitor read are  *)
(*                                accepted                    (finding F16)*)
(*            NC_MAP_LEFTOVER_OK  objects with entries the visitor did not *)
(*                                read are accepted           (finding F23)*)
(*            NC_IDENT_ANY        deserialize_identifier forwards to       *)
(*                                deserialize_any: a number names the      *)
(*                                variant by position         (finding F22)*)
(*          MC_Decode: DecL1 = Dec on every (type, value) of a universe    *)
(*          built from witnesses of every type and their one-edit          *)
(*          mutations.                                                     *)
(*                                                                         *)
(* A type is a record [k |-> kind, ...]; a result is [ok |-> image],       *)
(* [err |-> TRUE] or [open |-> TRUE] (outside the model: integers as       *)
(* floats beyond 2^31).  Integers are decimal STRINGS (Serde!JIntS) and    *)
(* are compared through a table of the integers the universe uses.         *)
(***************************************************************************)
EXTENDS Serde

(* ---- names ---- *)
nX == <<120>>  nY == <<121>>  nA == <<97>>  nT == <<116>>  nC == <<99>>  nId == <<105, 100>>
nNote == <<110, 111, 116, 101>>  nKind == <<107, 105, 110, 100>>  nSeq == <<115, 101, 113>>  nMarker == <<109, 97, 114, 107, 101, 114>>  nGhost == <<103, 104, 111, 115, 116>>
nAck == <<97, 99, 107>>  nN == <<110>>  nB == <<98>>
vPing == <<80, 105, 110, 103>>  vTick == <<84, 105, 99, 107>>  vPair == <<80, 97, 105, 114>>  vNum == <<78, 117, 109>>
vLow == <<76, 111, 119>>  vMedium == <<77, 101, 100, 105, 117, 109>>  vHigh == <<72, 105, 103, 104>>  vUnknown == <<85, 110, 107, 110, 111, 119, 110>>
nP == <<112>>  nE == <<101>>  nO == <<111>>  nD == <<100>>  nK == <<107>>
vUnit == <<85, 110, 105, 116>>  vNew == <<78, 101, 119>>  vTup == <<84, 117, 112>>  vStr == <<83, 116, 114>>
vOpt == <<79, 112, 116>>  vNil == <<78, 105, 108>>  vRed == <<82, 101, 100>>  vBlue == <<66, 108, 117, 101>>
vA == <<65>>  vB == <<66>>  vC == <<67>>  vN == <<78>>  vS == <<83>>  vP == <<80>>

(* ---- results ---- *)
Ok(x) == [ok |-> x]
Err == [err |-> TRUE]
Open == [open |-> TRUE]
IsOk(r) == "ok" \in DOMAIN r
IsErr(r) == "err" \in DOMAIN r
(* a sequence of results: the first failure fails the whole; something outside the model leaves the whole outside *)
Gather(rs, Build(_)) ==
  IF \E i \in DOMAIN rs : IsErr(rs[i]) THEN Err
  ELSE IF \E i \in DOMAIN rs : ~IsOk(rs[i]) THEN Open
  ELSE Ok(Build([i \in DOMAIN rs |-> rs[i].ok]))
Then(r, Build(_)) == IF IsOk(r) THEN Ok(Build(r.ok)) ELSE r

(* ---- integers as decimal strings ---- *)
IntOrder == << "-9223372036854775808", "-4611686293305294849", "-2147483649", "-2147483648", "-32769", "-32768", "-129", "-128", "-7", "-1", "0", "1", "2", "3", "5", "7", "9",
               "65", "127", "128", "255", "256", "300", "32767", "32768", "65535", "65536", "2147483647", "2147483648", "4294967295", "4294967296",
               "9223372036854775807", "9223372036854775808", "9223372586610589697", "18446744073709551615" >>
Rank(s) == CHOOSE i \in DOMAIN IntOrder : IntOrder[i] = s
KnownInt(s) == \E i \in DOMAIN IntOrder : IntOrder[i] = s
Lo(w) == CASE w = "i8" -> "-128" [] w = "i16" -> "-32768" [] w = "i32" -> "-2147483648" [] w = "i64" -> "-9223372036854775808" [] OTHER -> "0"
Hi(w) == CASE w = "i8" -> "127" [] w = "i16" -> "32767" [] w = "i32" -> "2147483647" [] w = "i64" -> "9223372036854775807"
           [] w = "u8" -> "255" [] w = "u16" -> "65535" [] w = "u32" -> "4294967295" [] w = "u64" -> "18446744073709551615"
InRange(s, w) == Rank(Lo(w)) <= Rank(s) /\ Rank(s) <= Rank(Hi(w))
SmallInts == {-2147483647 - 1, -32769, -32768, -129, -128, -7, -1, 0, 1, 2, 3, 5, 7, 9, 65, 127, 128, 255, 256, 300, 32767, 32768, 65535, 65536, 2147483647}
IsSmall(s) == \E n \in SmallInts : ToString(n) = s
SmallVal(s) == CHOOSE n \in SmallInts : ToString(n) = s
IsIntV(v) == v.t = "num" /\ "int" \in DOMAIN v
(* a number read as f64: a float as it is, a small integer as the float of the same value; larger integers are left open (their images
   need the double nearest to them, which this module does not compute) *)
AsF64(v) == IF ~IsIntV(v) THEN Ok(v)
            ELSE IF IsSmall(v.int) /\ SmallVal(v.int) >= -65536 /\ SmallVal(v.int) <= 65536 THEN Ok([t |-> "num", p |-> SmallVal(v.int), q |-> 1]) ELSE Open

(* a number read as f32: halves and quarters and small integers are exact there; everything else is rounded to single precision, which this
   module does not compute (left open: the library's answer must still be serde_json's -- one rounding, from the integer or the double) *)
AsF32(v) == IF ~IsIntV(v) THEN (IF "p" \in DOMAIN v /\ v.q \in {1, 2, 4} /\ v.p >= -65536 /\ v.p <= 65536 /\ "u" \notin DOMAIN v /\ "e" \notin DOMAIN v THEN Ok(v) ELSE Open)
            ELSE IF IsSmall(v.int) /\ SmallVal(v.int) >= -65536 /\ SmallVal(v.int) <= 65536 THEN Ok([t |-> "num", p |-> SmallVal(v.int), q |-> 1]) ELSE Open

(* ---- types ---- *)
TBool == [k |-> "bool"]   TInt(w) == [k |-> "int", w |-> w]   TF64 == [k |-> "f64"]   TF32 == [k |-> "f32"]   TChar == [k |-> "char"]   TString == [k |-> "string"]
TUnit == [k |-> "unit"]                                    \* () and unit structs
TOpt(x) == [k |-> "option", x |-> x]
TNew(x) == [k |-> "newtype", x |-> x]                        \* newtype structs, Box
TSeq(x) == [k |-> "seq", x |-> x]
TTup(xs) == [k |-> "tuple", xs |-> xs]                       \* tuples, tuple structs, arrays [T; n]
TMap(key, x) == [k |-> "map", key |-> key, x |-> x]          \* key: a type that reads a string
TStruct(fs) == [k |-> "struct", fs |-> fs]
TStructDeny(fs) == [k |-> "struct", fs |-> fs, deny |-> TRUE]    \* #[serde(deny_unknown_fields)]: a member that names no field is an error
Deny(T) == "deny" \in DOMAIN T
Surplus(T, v) == Deny(T) /\ \E i \in DOMAIN v.o : \A j \in DOMAIN T.fs : T.fs[j].f # v.o[i].k
Fld(name, ty) == [f |-> name, ty |-> ty, def |-> FALSE]
FldDefault(name, ty, img) == [f |-> name, ty |-> ty, def |-> TRUE, dimg |-> img]
TEnum(vs) == [k |-> "enum", vs |-> vs]                       \* externally tagged (serde's default)
TEnumOther(vs, o) == [k |-> "enum", vs |-> vs, other |-> o]  \* ... with a #[serde(other)] unit variant o: every name that is not a variant's is o
TFlatS(fs) == [k |-> "struct", fs |-> fs, noseq |-> TRUE]    \* a struct with a #[serde(flatten)] struct inside: the fields of both, from an object only
(* a null that serde has BUFFERED (internally tagged / untagged enums, flatten) and later reads as a unit: the buffer remembers which visit_*
   call delivered it.  "unitc" is the unit type inside such a buffered value; bad = the deserializer delivered null through visit_none
   (negative control NC_NULL_AS_NONE), which a unit then refuses *)
TUnitC(bad, emap) == [k |-> "unitc", bad |-> bad, emap |-> emap, eseq |-> FALSE]
TUnitStructC == [k |-> "unitc", bad |-> FALSE, emap |-> TRUE, eseq |-> TRUE]      \* a unit STRUCT in such a buffer: an empty sequence is taken for it as well      \* emap: the reader of the buffer takes an empty map for a unit too (ContentDeserializer does, ContentRefDeserializer -- untagged enums -- does not)
VUnit(n) == [name |-> n, kind |-> "unit"]
VNew(n, x) == [name |-> n, kind |-> "newtype", x |-> x]
VTup(n, xs) == [name |-> n, kind |-> "tuple", xs |-> xs]
VStruct(n, fs) == [name |-> n, kind |-> "struct", fs |-> fs]
TITag(tag, vs) == [k |-> "itag", tag |-> tag, vs |-> vs]     \* #[serde(tag = ..)]
TATag(tag, c, vs) == [k |-> "atag", tag |-> tag, c |-> c, vs |-> vs]     \* #[serde(tag = .., content = ..)]
TUntagged(vs) == [k |-> "untagged", vs |-> vs]
TFlat(fs, x) == [k |-> "flat", fs |-> fs, x |-> x]           \* named fields + #[serde(flatten)] BTreeMap<String, x>
TFirstEntry(x) == [k |-> "firstentry", x |-> x]              \* a hand-written visitor that reads ONE entry (String, x) of a map

HasOther(T) == "other" \in DOMAIN T
VariantNamed(vs, n) == IF \E i \in DOMAIN vs : vs[i].name = n THEN vs[CHOOSE i \in DOMAIN vs : vs[i].name = n] ELSE [kind |-> "none"]

(***************************************************************************)
(* Level 0                                                                 *)
(***************************************************************************)
RECURSIVE Dec(_, _)
(* named fields out of an object: unknown members are ignored, a missing member is None for an Option, the default where one is
   declared, an error otherwise *)
FieldsFromObj(fs, v) ==
  Gather([i \in DOMAIN fs |->
            IF ObjHas(v, fs[i].f) THEN Dec(fs[i].ty, ObjGet(v, fs[i].f))
            ELSE IF fs[i].def THEN Ok(fs[i].dimg) ELSE IF fs[i].ty.k = "option" THEN Ok(JNull) ELSE Err],
         LAMBDA imgs : MkObj([i \in DOMAIN fs |-> JMem(fs[i].f, imgs[i])]))
(* named fields by position: exactly as many elements as the array has must be wanted; a missing trailing element is the default where
   one is declared and an error otherwise (None is not assumed for positions) *)
FieldsFromArr(fs, xs) ==
  IF Len(xs) > Len(fs) THEN Err
  ELSE Gather([i \in DOMAIN fs |-> IF i <= Len(xs) THEN Dec(fs[i].ty, xs[i]) ELSE IF fs[i].def THEN Ok(fs[i].dimg) ELSE Err],
              LAMBDA imgs : MkObj([i \in DOMAIN fs |-> JMem(fs[i].f, imgs[i])]))
TupleFromArr(ts, xs) ==
  IF Len(xs) # Len(ts) THEN Err ELSE Gather([i \in DOMAIN ts |-> Dec(ts[i], xs[i])], LAMBDA imgs : JArr(imgs))
(* the content of a variant (externally tagged: the value beside the name; adjacently tagged: the content member) *)
VariantContent(var, c, Wrap(_), unitimg) ==
  CASE var.kind = "unit" -> IF c.t = "null" THEN Ok(unitimg) ELSE Err
    [] var.kind = "newtype" -> Then(Dec(var.x, c), Wrap)
    [] var.kind = "tuple" -> IF c.t = "arr" THEN Then(TupleFromArr(var.xs, c.a), Wrap) ELSE Err
    [] var.kind = "struct" -> IF c.t = "obj" THEN Then(FieldsFromObj(var.fs, c), Wrap) ELSE Err
    [] OTHER -> Err
WithMember(obj, k, v) == MkObj(obj.o \o <<JMem(k, v)>>)
WithoutMember(obj, k) == JObj(SelectSeq(obj.o, LAMBDA m : m.k # k))

Dec(T, v) ==
  CASE T.k = "bool" -> IF v.t = "bool" THEN Ok(v) ELSE Err
    [] T.k = "int" -> IF IsIntV(v) /\ InRange(v.int, T.w) THEN Ok(v) ELSE Err                 \* a float, even a whole one, is not an integer
    [] T.k = "f64" -> IF v.t # "num" THEN Err ELSE AsF64(v)
    [] T.k = "f32" -> IF v.t # "num" THEN Err ELSE AsF32(v)
    [] T.k = "char" -> IF v.t = "str" /\ Len(v.s) = 1 THEN Ok(v) ELSE Err
    [] T.k = "string" -> IF v.t = "str" THEN Ok(v) ELSE Err
    [] T.k = "unit" -> IF v.t = "null" THEN Ok(JNull) ELSE Err
    [] T.k = "unitc" -> IF (v.t = "null" /\ ~T.bad) \/ (T.emap /\ v.t = "obj" /\ v.o = <<>>) \/ (T.eseq /\ v.t = "arr" /\ v.a = <<>>) THEN Ok(JNull) ELSE Err
    [] T.k = "option" -> IF v.t = "null" THEN Ok(JNull) ELSE Dec(T.x, v)
    [] T.k = "newtype" -> Dec(T.x, v)
    [] T.k = "seq" -> IF v.t = "arr" THEN Gather([i \in DOMAIN v.a |-> Dec(T.x, v.a[i])], LAMBDA imgs : JArr(imgs)) ELSE Err
    [] T.k = "tuple" -> IF v.t = "arr" THEN TupleFromArr(T.xs, v.a) ELSE Err
    [] T.k = "map" -> IF v.t # "obj" THEN Err
                      ELSE Gather([i \in DOMAIN v.o |-> IF IsOk(Dec(T.key, JStr(v.o[i].k))) THEN Dec(T.x, v.o[i].v) ELSE Err],
                                  LAMBDA imgs : JObj([i \in DOMAIN v.o |-> JMem(v.o[i].k, imgs[i])]))
    [] T.k = "struct" -> IF v.t = "obj" THEN (IF Surplus(T, v) THEN Err ELSE FieldsFromObj(T.fs, v))
                         ELSE IF v.t = "arr" /\ "noseq" \notin DOMAIN T THEN FieldsFromArr(T.fs, v.a) ELSE Err
    [] T.k = "enum" ->
         IF v.t = "str" THEN (IF VariantNamed(T.vs, v.s).kind = "unit" THEN Ok(v)                \* a bare name is a unit variant only
                              ELSE IF VariantNamed(T.vs, v.s).kind = "none" /\ HasOther(T) THEN Ok(JStr(T.other)) ELSE Err)
         ELSE IF v.t = "obj" /\ Len(v.o) = 1
              THEN LET n == v.o[1].k  var == VariantNamed(T.vs, n) IN
                   IF var.kind = "none" /\ HasOther(T) THEN (IF v.o[1].v.t = "null" THEN Ok(JStr(T.other)) ELSE Err)
                   ELSE VariantContent(var, v.o[1].v, LAMBDA img : Single(n, img), JStr(n))
              ELSE Err
    [] T.k = "itag" ->                                                                        \* {"t": NAME, ...the variant's fields}
         IF v.t # "obj" THEN (IF v.t = "arr" THEN Open ELSE Err)
         ELSE IF ~ObjHas(v, T.tag) \/ ObjGet(v, T.tag).t # "str" THEN Err                      \* only a string names a variant
         ELSE LET n == ObjGet(v, T.tag).s  var == VariantNamed(T.vs, n) IN
              (CASE var.kind = "unit" -> Ok(Single(T.tag, JStr(n)))
                 [] var.kind = "struct" -> Then(FieldsFromObj(var.fs, WithoutMember(v, T.tag)), LAMBDA img : WithMember(img, T.tag, JStr(n)))
                 [] OTHER -> Err)
    [] T.k = "atag" ->                                                                        \* {"t": NAME, "c": content}
         IF v.t # "obj" THEN (IF v.t = "arr" THEN Open ELSE Err)
         ELSE IF ~ObjHas(v, T.tag) \/ ObjGet(v, T.tag).t # "str" THEN Err
         ELSE LET n == ObjGet(v, T.tag).s  var == VariantNamed(T.vs, n)  tagged == Single(T.tag, JStr(n)) IN
              IF var.kind = "none" THEN Err
              ELSE IF ~ObjHas(v, T.c) THEN (IF var.kind = "unit" THEN Ok(tagged) ELSE Err)
              ELSE IF var.kind = "struct" /\ ObjGet(v, T.c).t = "arr" THEN Open                \* buffered content read by position
              ELSE VariantContent(var, ObjGet(v, T.c), LAMBDA img : WithMember(tagged, T.c, img), tagged)
    [] T.k = "untagged" ->                                                                    \* the first variant that reads the value
         LET rs == [i \in DOMAIN T.vs |->
                      (CASE T.vs[i].kind = "newtype" -> Dec(T.vs[i].x, v)
                         [] T.vs[i].kind = "struct" -> IF v.t = "obj" THEN FieldsFromObj(T.vs[i].fs, v) ELSE IF v.t = "arr" THEN Open ELSE Err
                         [] OTHER -> Open)]
             firstNotErr == IF \E i \in DOMAIN rs : ~IsErr(rs[i]) THEN CHOOSE i \in DOMAIN rs : ~IsErr(rs[i]) /\ \A j \in 1..(i - 1) : IsErr(rs[j]) ELSE 0
         IN IF firstNotErr = 0 THEN Err ELSE rs[firstNotErr]
    [] T.k = "flat" ->                                                                        \* named fields, every other member into the map
         IF v.t # "obj" THEN Err
         ELSE LET named == {T.fs[i].f : i \in DOMAIN T.fs}
                  rest == SelectSeq(v.o, LAMBDA m : m.k \notin named)
                  a == FieldsFromObj(T.fs, v)
                  b == Gather([i \in DOMAIN rest |-> Dec(T.x, rest[i].v)], LAMBDA imgs : [i \in DOMAIN rest |-> JMem(rest[i].k, imgs[i])])
              IN IF IsErr(a) \/ IsErr(b) THEN Err ELSE IF ~IsOk(a) \/ ~IsOk(b) THEN Open ELSE Ok(MkObj(a.ok.o \o b.ok))
    [] T.k = "firstentry" ->                                                                  \* exactly one entry: a value with more is not a FirstEntry
         IF v.t # "obj" \/ Len(v.o) # 1 THEN Err ELSE Then(Dec(T.x, v.o[1].v), LAMBDA img : Single(v.o[1].k, img))

(***************************************************************************)
(* Level 1: variable.rs:631-975 and the visitors of serde / serde_derive   *)
(***************************************************************************)
RECURSIVE DecL1(_, _, _), AnyL1(_, _, _)
(* derive's visit_map for named fields: every entry is read (key through deserialize_identifier of Variable::String, value as the
   field's type or as IgnoredAny), so nothing is left over; then the missing fields *)
VisitMapFields(fs, v, D) ==
  Gather([i \in DOMAIN fs |->
            IF ObjHas(v, fs[i].f) THEN DecL1(fs[i].ty, ObjGet(v, fs[i].f), D)
            ELSE IF fs[i].def THEN Ok(fs[i].dimg) ELSE IF fs[i].ty.k = "option" THEN Ok(JNull) ELSE Err],
         LAMBDA imgs : MkObj([i \in DOMAIN fs |-> JMem(fs[i].f, imgs[i])]))
(* a visitor's visit_seq: [res, used]: the elements it asked next_element for *)
Min(a, b) == IF a < b THEN a ELSE b
VisitSeqPositional(n, ElemTy(_), Default(_), xs, D, Build(_)) ==
  [used |-> Min(n, Len(xs)),
   res |-> Gather([i \in 1..n |-> IF i <= Len(xs) THEN DecL1(ElemTy(i), xs[i], D) ELSE Default(i)], Build)]
(* Variable::deserialize_any on an array / SeqDeserializer::deserialize_any: visit_seq, then the length check *)
SeqChecked(r, len, D) == IF IsErr(r.res) THEN Err ELSE IF r.used = len \/ "NC_SEQ_LEFTOVER_OK" \in D THEN r.res ELSE Err
MapChecked(r, len, D) == IF IsErr(r.res) THEN Err ELSE IF r.used = len \/ "NC_MAP_LEFTOVER_OK" \in D THEN r.res ELSE Err
(* deserialize_identifier (a variant's name as the value of a tag member): only Variable::String; before fix 8cf4dc1 forwarded to
   deserialize_any, where a number reaches visit_u64 and names the variant by position *)
IdentL1(vs, x, D) ==
  IF x.t = "str" THEN VariantNamed(vs, x.s)
  ELSE IF "NC_IDENT_ANY" \in D /\ IsIntV(x) /\ IsSmall(x.int) /\ SmallVal(x.int) >= 0 /\ SmallVal(x.int) < Len(vs) THEN vs[SmallVal(x.int) + 1]
  ELSE [kind |-> "none"]
(* VariantDeserializer: unit_variant / newtype_variant_seed / tuple_variant / struct_variant (:768-845) *)
VariantL1(var, has, c, D, Wrap(_), unitimg) ==
  CASE var.kind = "unit" -> IF ~has THEN Ok(unitimg) ELSE Then(DecL1(TUnit, c, D), LAMBDA z : unitimg)
    [] var.kind = "newtype" -> IF has THEN Then(DecL1(var.x, c, D), Wrap) ELSE Err
    [] var.kind = "tuple" ->
         IF has /\ c.t = "arr"
         THEN IF Len(c.a) = 0 THEN Err                                     \* SeqDeserializer::deserialize_any: visit_unit, which a tuple visitor refuses
              ELSE Then(SeqChecked(VisitSeqPositional(Len(var.xs), LAMBDA i : var.xs[i], LAMBDA i : Err, c.a, D, LAMBDA imgs : JArr(imgs)), Len(c.a), D), Wrap)
         ELSE Err
    [] var.kind = "struct" ->
         IF has /\ c.t = "obj" THEN Then(MapChecked([used |-> Len(c.o), res |-> VisitMapFields(var.fs, c, D)], Len(c.o), D), Wrap) ELSE Err
    [] OTHER -> Err

(* the variant a name stands for: the visitor of the variant identifier decides (a #[serde(other)] variant takes every unknown name);
   NC_ENUM_CHECKS_VARIANTS: deserialize_enum itself refuses a name that is not in the VARIANTS list it was handed (which lacks nothing
   but does not say that unknown names are welcome) *)
NamedL1(T, n, D) ==
  LET var == VariantNamed(T.vs, n) IN
  IF var.kind # "none" THEN var
  ELSE IF HasOther(T) /\ "NC_ENUM_CHECKS_VARIANTS" \notin D THEN [name |-> T.other, kind |-> "unit"] ELSE [name |-> n, kind |-> "none"]
(* the types inside a value that serde buffers before decoding it: units become "unitc" *)
RECURSIVE MapUnits(_, _)
MapFs(fs, bad) == [i \in DOMAIN fs |-> [fs[i] EXCEPT !.ty = MapUnits(fs[i].ty, bad)]]
MapVs(vs, bad) == [i \in DOMAIN vs |-> CASE vs[i].kind = "newtype" -> [vs[i] EXCEPT !.x = MapUnits(vs[i].x, bad)]
                                          [] vs[i].kind = "tuple" -> [vs[i] EXCEPT !.xs = [j \in DOMAIN vs[i].xs |-> MapUnits(vs[i].xs[j], bad)]]
                                          [] vs[i].kind = "struct" -> [vs[i] EXCEPT !.fs = MapFs(vs[i].fs, bad)]
                                          [] OTHER -> vs[i]]
MapUnits(T, bad) ==
  CASE T.k = "unit" -> TUnitC(bad, TRUE)
    [] T.k = "unitc" -> [T EXCEPT !.bad = bad]
    [] T.k \in {"option", "newtype", "seq", "firstentry"} -> [T EXCEPT !.x = MapUnits(T.x, bad)]
    [] T.k = "tuple" -> [T EXCEPT !.xs = [i \in DOMAIN T.xs |-> MapUnits(T.xs[i], bad)]]
    [] T.k = "map" -> [T EXCEPT !.x = MapUnits(T.x, bad)]
    [] T.k = "struct" -> [T EXCEPT !.fs = MapFs(T.fs, bad)]
    [] T.k \in {"enum", "itag", "atag", "untagged"} -> [T EXCEPT !.vs = MapVs(T.vs, bad)]
    [] T.k = "flat" -> [T EXCEPT !.fs = MapFs(T.fs, bad), !.x = MapUnits(T.x, bad)]
    [] OTHER -> T
Buffered(T, D) == MapUnits(T, "NC_NULL_AS_NONE" \in D)

DecL1(T, v, D) ==
  CASE T.k = "option" -> IF v.t = "null" THEN Ok(JNull) ELSE DecL1(T.x, v, D)            \* deserialize_option: visit_none / visit_some(self)
    [] T.k = "newtype" -> DecL1(T.x, v, D)                                              \* deserialize_newtype_struct: visit_newtype_struct(self)
    [] T.k = "enum" ->                                                                  \* deserialize_enum (:690-733), EnumDeserializer
         IF v.t = "obj"
         THEN IF Len(v.o) # 1 THEN Err                                                  \* "map with a single key"
              ELSE LET n == v.o[1].k  var == NamedL1(T, n, D) IN VariantL1(var, TRUE, v.o[1].v, D, LAMBDA img : Single(n, img), JStr(var.name))
         ELSE IF v.t = "str" THEN LET var == NamedL1(T, v.s, D) IN VariantL1(var, FALSE, JNull, D, LAMBDA img : Single(v.s, img), JStr(var.name))
         ELSE Err
    [] OTHER -> AnyL1(T, v, D)

(* everything else is forwarded to deserialize_any (:635-674): the visit_* call follows the VALUE, the visitor of T takes it or not *)
AnyL1(T, v, D) ==
       CASE v.t = "null" -> IF T.k = "unit" THEN Ok(JNull) ELSE IF T.k = "untagged" THEN Dec(Buffered(T, D), v) ELSE Err        \* visit_unit
         [] v.t = "bool" -> IF T.k = "bool" THEN Ok(v) ELSE IF T.k = "untagged" THEN Dec(Buffered(T, D), v) ELSE Err             \* visit_bool
         [] v.t = "num" ->                                                               \* Number::deserialize_any: visit_u64 / visit_i64 / visit_f64
              (CASE T.k = "int" -> IF IsIntV(v) /\ InRange(v.int, T.w) THEN Ok(v) ELSE Err
                 [] T.k = "f64" -> AsF64(v)
                 [] T.k = "f32" -> AsF32(v)
                 [] T.k = "untagged" -> Dec(Buffered(T, D), v)
                 [] OTHER -> Err)
         [] v.t = "str" ->                                                               \* visit_string
              (CASE T.k = "string" -> Ok(v)
                 [] T.k = "char" -> IF Len(v.s) = 1 THEN Ok(v) ELSE Err
                 [] T.k = "untagged" -> Dec(Buffered(T, D), v)
                 [] OTHER -> Err)
         [] v.t = "arr" ->                                                               \* visit_seq on a SeqDeserializer, then the length check
              (CASE T.k = "seq" -> Gather([i \in DOMAIN v.a |-> DecL1(T.x, v.a[i], D)], LAMBDA imgs : JArr(imgs))
                [] T.k = "tuple" -> SeqChecked(VisitSeqPositional(Len(T.xs), LAMBDA i : T.xs[i], LAMBDA i : Err, v.a, D, LAMBDA imgs : JArr(imgs)), Len(v.a), D)
                [] T.k = "struct" /\ "noseq" \in DOMAIN T -> Err                     \* deserialize_map: the visitor of a struct with a flattened member has no visit_seq
                [] T.k = "struct" -> SeqChecked(VisitSeqPositional(Len(T.fs), LAMBDA i : T.fs[i].ty, LAMBDA i : IF T.fs[i].def THEN Ok(T.fs[i].dimg) ELSE Err, v.a, D,
                                                                   LAMBDA imgs : MkObj([i \in DOMAIN T.fs |-> JMem(T.fs[i].f, imgs[i])])), Len(v.a), D)
                [] T.k \in {"itag", "atag", "untagged"} -> Open
                [] OTHER -> Err)
         [] v.t = "obj" ->                                                               \* visit_map on a MapDeserializer, then the length check
              CASE T.k = "map" ->                                                        \* keys as Variable::String (:929), values as they are
                     Gather([i \in DOMAIN v.o |-> IF IsOk(DecL1(T.key, JStr(v.o[i].k), D)) THEN DecL1(T.x, v.o[i].v, D) ELSE Err],
                            LAMBDA imgs : JObj([i \in DOMAIN v.o |-> JMem(v.o[i].k, imgs[i])]))
                [] T.k = "struct" /\ "noseq" \in DOMAIN T -> Dec(Buffered(T, D), v)    \* every entry is buffered, the inner struct reads the buffer
                [] T.k = "struct" -> IF Surplus(T, v) THEN Err ELSE VisitMapFields(T.fs, v, D)     \* the derived field visitor refuses the key
                [] T.k = "firstentry" ->                                                 \* the visitor reads one entry and returns
                     IF Len(v.o) = 0 THEN Err
                     ELSE MapChecked([used |-> 1, res |-> Then(DecL1(T.x, v.o[1].v, D), LAMBDA img : Single(v.o[1].k, img))], Len(v.o), D)
                [] T.k = "itag" ->                                                       \* serde's TaggedContentVisitor: the tag member through deserialize_identifier,
                     IF ~ObjHas(v, T.tag) THEN Err                                       \* everything else buffered and read by serde itself
                     ELSE LET var == IdentL1(T.vs, ObjGet(v, T.tag), D) IN
                          (CASE var.kind = "unit" -> Ok(Single(T.tag, JStr(var.name)))
                             [] var.kind = "struct" -> Then(FieldsFromObj(MapFs(var.fs, "NC_NULL_AS_NONE" \in D), WithoutMember(v, T.tag)), LAMBDA img : WithMember(img, T.tag, JStr(var.name)))
                             [] OTHER -> Err)
                [] T.k = "atag" ->
                     IF ~ObjHas(v, T.tag) THEN Err
                     ELSE LET var == IdentL1(T.vs, ObjGet(v, T.tag), D) IN
                          IF var.kind = "none" THEN Err
                          ELSE LET tagged == Single(T.tag, JStr(var.name)) IN
                               IF ~ObjHas(v, T.c) THEN (IF var.kind = "unit" THEN Ok(tagged) ELSE Err)
                               ELSE IF var.kind = "struct" /\ ObjGet(v, T.c).t = "arr" THEN Open
                               ELSE VariantContent(MapVs(<<var>>, "NC_NULL_AS_NONE" \in D)[1], ObjGet(v, T.c), LAMBDA img : WithMember(tagged, T.c, img), tagged)
                [] T.k \in {"untagged", "flat"} -> Dec(Buffered(T, D), v)                             \* the whole value is buffered (every entry read) and decoded by serde
                [] OTHER -> Err

(***************************************************************************)
(* the zoo of the harness (harness/driver/src/serde_rt.rs), by name        *)
(***************************************************************************)
I32 == TInt("i32")
Point == TStruct(<<Fld(nX, I32), Fld(nY, I32)>>)
EType == TEnum(<<VUnit(vUnit), VNew(vNew, I32), VTup(vTup, <<I32, TString>>), VStruct(vStr, <<Fld(nA, TBool)>>), VNew(vOpt, TOpt(I32)), VNew(vNil, TUnit)>>)
UserId == TNew(TString)
UC == TUnitC(FALSE, TRUE)    \* a unit inside a type whose value serde buffers: Level 0 says what the buffer reads as a unit (null, and an empty map)
ITU == TITag(nKind, <<VStruct(vPing, <<Fld(nSeq, TInt("u32")), Fld(nMarker, TUnitStructC)>>), VStruct(vTick, <<Fld(nGhost, UC)>>)>>)
UTU == TUntagged(<<VStruct(vPair, <<Fld(nA, TUnitC(FALSE, FALSE)), Fld(nB, TBool)>>), VNew(vNum, TInt("i64"))>>)
FlatU == TFlatS(<<Fld(nId, I32), Fld(nAck, UC), Fld(nN, I32)>>)
Level == TEnumOther(<<VUnit(vLow), VUnit(vMedium), VNew(vHigh, TInt("u8"))>>, vUnknown)
Strict == TStructDeny(<<Fld(nId, I32), FldDefault(nNote, TOpt(TString), JNull)>>)
Color == TEnum(<<VUnit(vRed), VUnit(vBlue)>>)
IT == TITag(nT, <<VStruct(vA, <<Fld(nX, I32)>>), VUnit(vB)>>)
AT == TATag(nT, nC, <<VStruct(vA, <<Fld(nX, I32)>>), VUnit(vB), VTup(vC, <<I32, I32>>)>>)
UT == TUntagged(<<VNew(vN, I32), VNew(vS, TString), VStruct(vP, <<Fld(nX, I32)>>)>>)
Zoo == [ bool |-> TBool, i8 |-> TInt("i8"), u8 |-> TInt("u8"), i32 |-> I32, i64 |-> TInt("i64"), u64 |-> TInt("u64"), f64 |-> TF64, char |-> TChar,
         String |-> TString, OptI32 |-> TOpt(I32), unit |-> TUnit, Unit |-> TUnit, Newtype |-> TNew(I32), VecI32 |-> TSeq(I32), VecU8 |-> TSeq(TInt("u8")),
         TupI32String |-> TTup(<<I32, TString>>), Pair |-> TTup(<<I32, TString>>), Point |-> Point, E |-> EType, MapStringI32 |-> TMap(TString, I32),
         VecOptBool |-> TSeq(TOpt(TBool)),
         Outer |-> TStruct(<<Fld(nP, Point), Fld(nE, EType), Fld(nO, TOpt(TSeq(I32))), FldDefault(nD, TInt("u8"), JIntS("0"))>>),
         OptE |-> TOpt(EType), VecPoint |-> TSeq(Point), MapUserIdVecU32 |-> TMap(UserId, TSeq(TInt("u32"))), MapCharI32 |-> TMap(TChar, I32),
         MapColorI32 |-> TMap(Color, I32), Flat |-> TFlat(<<Fld(nId, I32)>>, I32), VecUserId |-> TSeq(UserId), ArrI32x2 |-> TTup(<<I32, I32>>),
         BoxPoint |-> TNew(Point), TupUserIdI32 |-> TTup(<<UserId, I32>>), MapStringOptPoint |-> TMap(TString, TOpt(Point)),
         IT |-> IT, AT |-> AT, UT |-> UT, FirstEntry |-> TFirstEntry(I32), VecIT |-> TSeq(IT),
         Strict |-> Strict, VecStrict |-> TSeq(Strict), ITU |-> ITU, UTU |-> UTU, FlatU |-> FlatU, Level |-> Level, VecLevel |-> TSeq(Level), f32 |-> TF32 ]
ZooNames == DOMAIN Zoo

(***************************************************************************)
(* witnesses and one-edit mutations: the universe of MC_Decode and of the  *)
(* generator                                                               *)
(***************************************************************************)
N(s) == JIntS(s)
RECURSIVE Wit(_)
FirstWit(T) == CHOOSE w \in Wit(T) : IsOk(Dec(T, w))              \* a witness that does decode
FieldsWit(fs) == [i \in DOMAIN fs |-> FirstWit(fs[i].ty)]
ObjOfFields(fs) == LET ws == FieldsWit(fs) IN MkObj([i \in DOMAIN fs |-> JMem(fs[i].f, ws[i])])
VariantWit(var) ==
  CASE var.kind = "unit" -> {JStr(var.name), Single(var.name, JNull)}
    [] var.kind = "newtype" -> {Single(var.name, w) : w \in Wit(var.x)} \cup {JStr(var.name)}
    [] var.kind = "tuple" -> {Single(var.name, JArr([i \in DOMAIN var.xs |-> FirstWit(var.xs[i])])), Single(var.name, JArr(<<>>))}
    [] var.kind = "struct" -> {Single(var.name, ObjOfFields(var.fs)), Single(var.name, JArr(FieldsWit(var.fs)))}
Wit(T) ==
  CASE T.k = "bool" -> {JTrue}
    [] T.k = "int" -> {N("1"), N(Hi(T.w)), N(Lo(T.w))}
    [] T.k = "f64" -> {JNum(3, 2), N("3"), JNum(3, 1)}
    [] T.k = "f32" -> {JNum(3, 2), N("3"), JNum(1, 4), N("9223372586610589697"), N("-4611686293305294849"), N("18446744073709551615"), N("2147483647")}
    [] T.k = "char" -> {JStr(<<97>>), JStr(<<233>>)}
    [] T.k = "string" -> {JStr(<<>>), JStr(<<97, 98>>)}
    [] T.k \in {"unit", "unitc"} -> {JNull}
    [] T.k = "option" -> {JNull} \cup Wit(T.x)
    [] T.k = "newtype" -> Wit(T.x)
    [] T.k = "seq" -> {JArr(<<>>)} \cup {JArr(<<w>>) : w \in Wit(T.x)} \cup {JArr(<<FirstWit(T.x), FirstWit(T.x)>>)}
    [] T.k = "tuple" -> {JArr([i \in DOMAIN T.xs |-> FirstWit(T.xs[i])])}
    [] T.k = "map" -> LET ks == IF T.key.k = "char" THEN <<nA, <<233>>>> ELSE IF T.key.k = "enum" THEN <<vBlue, vRed>> ELSE <<nA, <<97, 110, 110>>>>
                          w == FirstWit(T.x)
                      IN {JObj(<<>>), JObj(<<JMem(ks[1], w)>>), MkObj(<<JMem(ks[1], w), JMem(ks[2], w)>>)}
    [] T.k = "struct" -> {ObjOfFields(T.fs), JArr(FieldsWit(T.fs))}
    [] T.k = "enum" -> UNION {VariantWit(T.vs[i]) : i \in DOMAIN T.vs}
                       \cup (IF HasOther(T) THEN {JStr(<<88, 120>>), Single(<<88, 120>>, JNull), Single(<<88, 120>>, N("1")), JStr(T.other)} ELSE {})
    [] T.k = "itag" -> {IF T.vs[i].kind = "struct" THEN WithMember(ObjOfFields(T.vs[i].fs), T.tag, JStr(T.vs[i].name)) ELSE Single(T.tag, JStr(T.vs[i].name)) : i \in DOMAIN T.vs}
                       \cup {Single(T.tag, N(ToString(i - 1))) : i \in DOMAIN T.vs}
    [] T.k = "atag" -> {CASE T.vs[i].kind = "struct" -> MkObj(<<JMem(T.tag, JStr(T.vs[i].name)), JMem(T.c, ObjOfFields(T.vs[i].fs))>>)
                          [] T.vs[i].kind = "tuple" -> MkObj(<<JMem(T.tag, JStr(T.vs[i].name)), JMem(T.c, JArr([j \in DOMAIN T.vs[i].xs |-> FirstWit(T.vs[i].xs[j])]))>>)
                          [] OTHER -> Single(T.tag, JStr(T.vs[i].name)) : i \in DOMAIN T.vs}
                       \cup {MkObj(<<JMem(T.tag, N(ToString(i - 1))), JMem(T.c, JNull)>>) : i \in DOMAIN T.vs}
    [] T.k = "untagged" -> UNION {IF T.vs[i].kind = "newtype" THEN Wit(T.vs[i].x) ELSE {ObjOfFields(T.vs[i].fs)} : i \in DOMAIN T.vs}
    [] T.k = "flat" -> {ObjOfFields(T.fs), WithMember(ObjOfFields(T.fs), nK, FirstWit(T.x))}
    [] T.k = "firstentry" -> {Single(nA, FirstWit(T.x))}

(* one edit anywhere in a value: a node replaced by an atom of another kind, an element dropped / added, a member dropped / added /
   renamed, a number named where a name stands *)
EditAtoms == {JNull, JTrue, N("1"), N("300"), N("2147483648"), JNum(1, 2), JNum(1, 1), JStr(<<97>>), JStr(<<97, 98>>), JArr(<<>>), JObj(<<>>),
              JArr(<<N("1")>>), JStr(vB), N("0")}
RECURSIVE Mut(_)
Mut(v) ==
  (EditAtoms \ {v})
  \cup (IF v.t = "arr"
        THEN {JArr(SubSeq(v.a, 1, Len(v.a) - 1)) : z \in IF Len(v.a) > 0 THEN {0} ELSE {}}
             \cup {JArr(Append(v.a, x)) : x \in {N("1"), JStr(<<97>>), JNull}}
             \cup UNION {{JArr([v.a EXCEPT ![i] = m]) : m \in Mut(v.a[i])} : i \in DOMAIN v.a}
        ELSE {})
  \cup (IF v.t = "obj"
        THEN {JObj(SelectSeq(v.o, LAMBDA m : m.k # v.o[i].k)) : i \in DOMAIN v.o}
             \cup {MkObj(Append(v.o, JMem(k, x))) : k \in {<<122, 122>>, <<48>>}, x \in {N("1"), JNull}}
             \cup {MkObj([v.o EXCEPT ![i] = JMem(k, v.o[i].v)]) : i \in DOMAIN v.o, k \in {<<122>>, vB, vUnit}}
             \cup UNION {{JObj([v.o EXCEPT ![i] = JMem(v.o[i].k, m)]) : m \in Mut(v.o[i].v)} : i \in DOMAIN v.o}
        ELSE {})
Universe(names) == LET W == UNION {Wit(Zoo[n]) : n \in names} IN W \cup UNION {Mut(w) : w \in W}
=============================================================================
