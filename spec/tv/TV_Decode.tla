------------------------------ MODULE TV_Decode ------------------------------
(***************************************************************************)
(* Judge for the decoding half of C14 (kind "dec"): for every type T of    *)
(* the zoo the library's T::deserialize(value) is what Decode!Dec(T, v)    *)
(* says -- the same failure, or the same decoded value (given by its       *)
(* image).  serde_json's own answer is judged by the same rule: where IT   *)
(* differs from Dec the specification misreads serde_json ("reference", a  *)
(* tool error, never a violation).  Where Dec leaves a case open the two   *)
(* answers must still agree with each other.                               *)
(***************************************************************************)
EXTENDS Decode, Json, IOUtils
CONSTANT KnownDevs
VARIABLES chunk, phase

Fits(exp, o) == IF IsOk(exp) THEN "ok" \in DOMAIN o /\ o.ok = exp.ok ELSE IF IsErr(exp) THEN "err" \in DOMAIN o ELSE TRUE
Names(r) == {n \in ZooNames : n \in DOMAIN r.out.dec}
WhyOf(r, n) == LET exp == Dec(Zoo[n], r.json)  o == r.out.dec[n] IN
               IF ~Fits(exp, o.serde_json) THEN "reference" ELSE IF ~Fits(exp, o.lib) THEN "decode" ELSE IF o.lib # o.serde_json THEN "differs" ELSE "none"
Bad(r) == {n \in Names(r) : WhyOf(r, n) # "none"}
Allowed(r) == "dec" \in DOMAIN r.out /\ Bad(r) = {}
Expected(r) == IF "dec" \notin DOMAIN r.out THEN [why |-> "crash"]
               ELSE LET n == CHOOSE n \in Bad(r) : TRUE IN [why |-> WhyOf(r, n), ty |-> n, want |-> Dec(Zoo[n], r.json), nbad |-> Cardinality(Bad(r))]
Explains(r) == <<>>
NonTrivial(r) == \E n \in Names(r) : IsOk(Dec(Zoo[n], r.json))
Unjudged(r) == FALSE
J == INSTANCE JudgeLoop
Spec == J!Spec
=============================================================================
