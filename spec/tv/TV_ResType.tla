----------------------------- MODULE TV_ResType ------------------------------
(***************************************************************************)
(* Judge for the result-type clause of C06 where the VALUE lies outside    *)
(* the number model (sums that leave the doubles, integers of 16+ digits): *)
(* a call of a built-in yields a failure or a value of one of the types    *)
(* the function specification declares for it (Eval!ResultTypes) -- never  *)
(* anything else.  Cases name the function (field fn); the expression is   *)
(* a call of it, possibly wrapped in another call of a built-in named in   *)
(* field outer (then the outer function's types apply and a well-typed     *)
(* inner call may not make it fail with a type error).                     *)
(***************************************************************************)
EXTENDS Eval, Json, IOUtils
CONSTANT KnownDevs
VARIABLES chunk, phase

Why(r) ==
  IF ~("ok" \in DOMAIN r.out \/ "err" \in DOMAIN r.out) THEN "crash"
  ELSE IF "ok" \in DOMAIN r.out THEN (IF TypeName(r.out.ok) \in ResultTypes(FnOf(r.fn)) THEN "none" ELSE "result type")
  ELSE IF "stage" \in DOMAIN r.out THEN "notcompiled"
  ELSE IF r.mustwork /\ r.out.err.class = "runtime" /\ r.out.err.kind \in {"invalid_type", "invalid_return_type"} THEN "type error on well-typed arguments"
  ELSE "none"
Allowed(r) == Why(r) = "none"
Expected(r) == [why |-> Why(r), types |-> ResultTypes(FnOf(r.fn))]
Explains(r) == <<>>
NonTrivial(r) == "ok" \in DOMAIN r.out
Unjudged(r) == FALSE
J == INSTANCE JudgeLoop
Spec == J!Spec
=============================================================================
