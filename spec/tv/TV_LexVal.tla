------------------------------ MODULE TV_LexVal ------------------------------
(***************************************************************************)
(* Judge for C09: the observed value of a spelling is the value it was     *)
(* spelled from (want); malformed forms are rejected by compile with a     *)
(* parse error.  Why: "value", "accepted" (a malformed form compiled),     *)
(* "rejected" (a good spelling did not compile), "crash"; "model" means    *)
(* the lexer MODEL disagrees with the spelling rule (a specification bug,  *)
(* reported as a tool error by the check).                                 *)
(***************************************************************************)
EXTENDS LexVal, Prec, Eval, Json, IOUtils
CONSTANT KnownDevs
VARIABLES chunk, phase

ModelValue(r) ==
  LET L == Lex(r.text, {}) IN
  IF ~L.ok \/ L.toks = <<>> THEN [bad |-> TRUE]
  ELSE LET o == Eval(TreeOf(L.toks), r.doc, Builtins) IN IF IsVOk(o) THEN [bad |-> FALSE, v |-> o.ok] ELSE [bad |-> TRUE]

Why(r) ==
  LET m == ModelValue(r) IN
  IF ~("ok" \in DOMAIN r.out \/ "err" \in DOMAIN r.out) THEN "crash"
  ELSE IF r.kind = "lex"                     \* what the text denotes is what the lexer model says: a parse error, or that value
  THEN (IF m.bad THEN (IF "err" \in DOMAIN r.out /\ "stage" \in DOMAIN r.out /\ r.out.err.class = "parse" THEN "none" ELSE "accepted")
        ELSE IF "err" \in DOMAIN r.out THEN "rejected" ELSE IF r.out.ok = m.v THEN "none" ELSE "value")
  ELSE IF r.kind = "bad"
  THEN (IF ~m.bad THEN "model"
        ELSE IF "err" \in DOMAIN r.out /\ "stage" \in DOMAIN r.out /\ r.out.err.class = "parse" THEN "none" ELSE "accepted")
  ELSE (IF m.bad \/ m.v # r.want THEN "model"
        ELSE IF "err" \in DOMAIN r.out THEN "rejected"
        ELSE IF r.out.ok = r.want THEN "none" ELSE "value")

Allowed(r) == Why(r) = "none"
Expected(r) == [why |-> Why(r), want |-> IF r.kind = "lex" THEN ModelValue(r) ELSE [v |-> r.want]]
(* the recorded deviation: a JSON literal nested 128 levels or deeper is refused by the JSON layer *)
Explains(r) ==
  IF "DEV_JSON_DEPTH_LIMIT_128" \in KnownDevs /\ Why(r) = "rejected" /\ r.kind = "lit" /\ NestDepth(r.text) >= 128
  THEN <<"DEV_JSON_DEPTH_LIMIT_128">> ELSE <<>>
NonTrivial(r) == r.kind # "bad" /\ Len(r.text) >= 4
Unjudged(r) == FALSE

J == INSTANCE JudgeLoop
Spec == J!Spec
=============================================================================
