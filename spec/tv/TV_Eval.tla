------------------------------- MODULE TV_Eval -------------------------------
(***************************************************************************)
(* Judge for evaluation observations [text, doc, out] (C01, C02, C06):     *)
(* the text is lexed by the Lexer model, its tree is the Level-0 tree      *)
(* (Prec!TreeOf) and the expected outcome is the Level-0 meaning           *)
(* Eval(tree, doc).  The observation is accepted iff it is that outcome    *)
(* (values compared as JSON with numbers by value; error kinds by class).  *)
(* Why: "none" accepted, "value", "errkind", "crash", "notcompiled";       *)
(* records whose expected value depends on a choice the specification      *)
(* leaves open (amb) are counted but not judged.                           *)
(***************************************************************************)
EXTENDS Grammar, Pratt, Prec, Lexer, Eval, Json, IOUtils
CONSTANT KnownDevs
VARIABLES chunk, phase

KindClass(k) == CASE k \in {"not_enough_arguments", "too_many_arguments"} -> "arity"
                  [] k \in {"invalid_type", "invalid_return_type"} -> "type"
                  [] k = "unknown_function" -> "unknown"
                  [] k = "invalid_slice" -> "slice"
                  [] OTHER -> "other"

Exp(r) ==
  LET L == Lex(r.text, {}) IN
  IF ~L.ok \/ ~L.dom \/ L.toks = <<>> \/ ~Accepts(L.toks, {}) THEN [skip |-> TRUE]
  ELSE [skip |-> FALSE, o |-> Eval(TreeOf(L.toks), r.doc, Builtins)]

(* how the observed outcome relates to the outcome o the specification assigns *)
Verdict(o, out) ==
  IF o.amb THEN "none"
  ELSE IF "ok" \in DOMAIN out THEN (IF IsVOk(o) /\ o.ok = out.ok THEN "none" ELSE "value")
  ELSE IF "err" \in DOMAIN out
       THEN (IF "stage" \in DOMAIN out THEN "notcompiled"
             ELSE IF IsVErr(o) /\ out.err.class = "runtime" /\ KindClass(out.err.kind) = o.err THEN "none"
             ELSE "errkind")
  ELSE "crash"

Why(r) == LET x == Exp(r) IN IF x.skip THEN "none" ELSE Verdict(x.o, r.out)

(* Level 1 with deviations D reproduces the observation: same acceptance, and the meaning of the tree the parser
   model builds under D is the observed outcome *)
Repro(r, D) ==
  LET L == Lex(r.text, D)
      P == IF L.ok THEN Parse(L.toks, D) ELSE Fail(0)
  IN L.ok /\ P.ok /\ LET o == Eval(P.t, r.doc, Builtins) IN ~o.amb /\ Verdict(o, r.out) = "none"

Allowed(r) == Why(r) = "none"
Expected(r) == LET x == Exp(r) IN [why |-> Why(r), spec |-> IF x.skip THEN [skip |-> TRUE] ELSE x.o]
KnownSeq == SetToSeq(KnownDevs)
Explains(r) ==
  IF KnownDevs # {} /\ Repro(r, KnownDevs)
  THEN SelectSeq(KnownSeq, LAMBDA d : ~Repro(r, KnownDevs \ {d}))
  ELSE <<>>
NonTrivial(r) == "ok" \in DOMAIN r.out /\ r.out.ok.t # "null"

J == INSTANCE JudgeLoop
Spec == J!Spec
=============================================================================
