------------------------------- MODULE TV_Eval -------------------------------
(***************************************************************************)
(* Judge for evaluation observations [text, doc, out] (C01, C02, C06):     *)
(* the text is lexed by the Lexer model, its tree is the Level-0 tree      *)
(* (Prec!TreeOf) and the expected outcome is the Level-0 meaning           *)
(* Eval(tree, doc).  The observation is accepted iff it is that outcome    *)
(* (values compared as JSON with numbers by value; error kinds by class).  *)
(* Why: "none" accepted, "value", "errkind", "crash", "notcompiled";       *)
(* records whose expected value depends on a choice the specification      *)
(* leaves open (amb) are counted but not judged.                           *)
(***************************************************************************)
EXTENDS Grammar, Pratt, Prec, Lexer, Eval, Json, IOUtils
CONSTANT KnownDevs
VARIABLES chunk, phase

RECURSIVE SpellableNums(_)
SpellableNums(v) == CASE v.t = "num" -> v.q \in {1, 2, 4, 5, 10} /\ UOf(v) = 0 /\ EOf(v) = 0
                      [] v.t = "arr" -> \A i \in DOMAIN v.a : SpellableNums(v.a[i])
                      [] v.t = "obj" -> \A i \in DOMAIN v.o : SpellableNums(v.o[i].v)
                      [] OTHER -> TRUE

KindClass(k) == CASE k \in {"not_enough_arguments", "too_many_arguments"} -> "arity"
                  [] k \in {"invalid_type", "invalid_return_type"} -> "type"
                  [] k = "unknown_function" -> "unknown"
                  [] k = "invalid_slice" -> "slice"
                  [] OTHER -> "other"

(* the document: a tagged value, or JSON text given meaning by JsonParse *)
DocOf(r) == IF "doctext" \in DOMAIN r THEN JsonParse(r.doctext) ELSE [ok |-> TRUE, dom |-> TRUE, v |-> r.doc]

(* the registry of the runtime the case was compiled with: the shared default runtime and a "fresh" runtime hold the 26
   built-ins, an "empty" runtime holds nothing (every call is an unknown function) *)
EmptyReg == [x \in {} |-> [k |-> "builtin"]]
RegOf(r) == IF "rt" \in DOMAIN r /\ r.rt = "empty" THEN EmptyReg ELSE Builtins

Exp(r) ==
  LET L == Lex(r.text, {}) d == DocOf(r) IN
  IF ~L.ok \/ ~L.dom \/ L.toks = <<>> \/ ~Accepts(L.toks, {}) \/ ~d.ok \/ ~d.dom THEN [skip |-> TRUE]
  ELSE LET t == TreeOf(L.toks) IN [skip |-> FALSE, t |-> t, d |-> d.v, o |-> Eval(t, d.v, RegOf(r))]

(* how the observed outcome relates to the outcome o the specification assigns *)
(* cases that say WHICH sub-expression's failure is the one to be reported (field span = [lo, hi) in characters): the reported position
   lies inside it *)
SiteOk(r) == "span" \notin DOMAIN r \/ ~("err" \in DOMAIN r.out /\ "stage" \notin DOMAIN r.out /\ r.out.err.class = "runtime")
             \/ (r.out.err.char_offset >= r.span[1] /\ r.out.err.char_offset < r.span[2])
Verdict(o, out) ==
  IF o.amb THEN "none"
  ELSE IF "ok" \in DOMAIN out THEN (IF IsVOk(o) /\ Matches(o.ok, out.ok) THEN "none" ELSE "value")
  ELSE IF "err" \in DOMAIN out
       THEN (IF "stage" \in DOMAIN out THEN "notcompiled"
             ELSE IF IsVErr(o) /\ out.err.class = "runtime" /\ KindClass(out.err.kind) = o.err THEN "none"
             ELSE "errkind")
  ELSE "crash"

(* Two places where the general rule "amb => not judged" would be needlessly weak, decided by the relation the
   property states instead of by one value:
   - max_by / min_by at the top of the expression: any input element whose key is extreme is a correct answer;
   - to_string of a value taken straight from the document or a literal: integers are spelled as integers there,
     so the JSON text is determined. *)
Special(t, doc, out) ==
  IF t.n = "Function" /\ FnOf(t.name) \in {"max_by", "min_by"} /\ Len(t.args) = 2 /\ t.args[2].n = "Expref"
  THEN LET xs == Eval(t.args[1], doc, Builtins) IN
       IF IsVOk(xs) /\ ~xs.amb /\ xs.ok.t = "arr" /\ xs.ok.a # <<>>
       THEN LET ks == KeysOf(t.args[2].l, xs.ok.a, 1, Builtins, [vals |-> <<>>, amb |-> FALSE]) IN
            IF IsVOk(ks) /\ ~ks.amb
            THEN IF "ok" \in DOMAIN out /\ \E i \in DOMAIN xs.ok.a :
                        /\ Matches(xs.ok.a[i], out.ok)
                        /\ \A j \in DOMAIN ks.ok : IF FnOf(t.name) = "max_by" THEN ~ValLess(ks.ok[i], ks.ok[j]) ELSE ~ValLess(ks.ok[j], ks.ok[i])
                 THEN "none" ELSE "value"
            ELSE "na"
       ELSE "na"
  ELSE IF t.n = "Function" /\ FnOf(t.name) = "to_string" /\ Len(t.args) = 1 /\ t.args[1].n \in {"Field", "Identity", "Literal"}
  THEN LET x == Eval(t.args[1], doc, Builtins).ok IN
       IF x.t \in {"str", "expref"} \/ ~SpellableNums(x) THEN "na"
       ELSE IF "ok" \in DOMAIN out /\ out.ok = JStr(JsonText(x)) THEN "none" ELSE "value"
  ELSE "na"

(* C10 "using only the implementation": the cross-operator laws on the six observed results [==, !=, <, <=, >, >=] *)
SixLaws(out) ==
  IF "ok" \notin DOMAIN out \/ out.ok.t # "arr" \/ Len(out.ok.a) # 6 THEN FALSE
  ELSE LET v == out.ok.a
           T(i) == v[i] = JTrue
           isB(i) == v[i].t = "bool"
       IN /\ isB(1) /\ isB(2) /\ T(2) = ~T(1)
          /\ (\A i \in 3..6 : v[i] = JNull) \/ (\A i \in 3..6 : isB(i))
          /\ ((\A i \in 3..6 : isB(i)) =>
                /\ Cardinality({i \in {1, 3, 5} : T(i)}) = 1
                /\ T(4) = (T(3) \/ T(1)) /\ T(6) = (T(5) \/ T(1)))

(* a pair that differs only in neighbouring doubles: '==' / '!=' are left open there (tolerant equality; the property speaks of
   well-separated numbers), but they stay negations of each other, and the four ordering results are those of numeric order *)
NearPair(x) == ~x.skip /\ x.d.t = "obj" /\ ObjHas(x.d, <<97>>) /\ ObjHas(x.d, <<98>>) /\ EqOpen(ObjGet(x.d, <<97>>), ObjGet(x.d, <<98>>))
NearLaws(x, out) ==
  IF "ok" \notin DOMAIN out \/ out.ok.t # "arr" \/ Len(out.ok.a) # 6 THEN FALSE
  ELSE LET v == out.ok.a
           l == ObjGet(x.d, <<97>>)
           rr == ObjGet(x.d, <<98>>)
           ops == <<"eq", "ne", "lt", "le", "gt", "ge">>
       IN /\ v[1].t = "bool" /\ v[2].t = "bool" /\ v[2].b = ~v[1].b
          /\ \A i \in 3..6 : CmpOpen(ops[i], l, rr) \/ v[i] = Cmp(ops[i], l, rr)

Why(r) ==
  LET x == Exp(r) IN
  IF r.e = "cmp" /\ NearPair(x) THEN (IF NearLaws(x, r.out) THEN "none" ELSE "laws")
  ELSE IF r.e = "cmp" /\ ~SixLaws(r.out) THEN "laws"
  ELSE IF x.skip THEN "none"
  ELSE IF x.o.amb THEN LET sp == Special(x.t, x.d, r.out) IN IF sp = "na" THEN "none" ELSE sp
  ELSE IF Verdict(x.o, r.out) = "none" /\ ~SiteOk(r) THEN "errsite"
  ELSE Verdict(x.o, r.out)

(* Level 1 with deviations D reproduces the observation: same acceptance, and the meaning of the tree the parser
   model builds under D is the observed outcome *)
Repro(r, D) ==
  LET L == Lex(r.text, D)
      P == IF L.ok THEN Parse(L.toks, D) ELSE Fail(0)
      d == DocOf(r)
     \* (an outcome the specification leaves open under the deviating parse -- an expression reference reaching an `any` parameter, a tie --
     \* is reproduced as far as it can be: the deviation leads the evaluation there, Level 0 does not)
  IN L.ok /\ P.ok /\ d.ok /\ LET o == Eval(P.t, d.v, Builtins) IN Verdict(o, r.out) = "none"

Allowed(r) == Why(r) = "none"
Expected(r) == LET x == Exp(r) IN [why |-> Why(r), spec |-> IF x.skip THEN [skip |-> TRUE] ELSE x.o]
KnownSeq == SetToSeq(KnownDevs)
Explains(r) ==
  IF KnownDevs # {} /\ Repro(r, KnownDevs)
  THEN SelectSeq(KnownSeq, LAMBDA d : ~Repro(r, KnownDevs \ {d}))
  ELSE <<>>
NonTrivial(r) == "ok" \in DOMAIN r.out /\ r.out.ok.t # "null"

Unjudged(r) == LET x == Exp(r) IN x.skip \/ (x.o.amb /\ Special(x.t, x.d, r.out) = "na" /\ ~(r.e = "cmp" /\ NearPair(x)))

J == INSTANCE JudgeLoop
Spec == J!Spec
=============================================================================
