------------------------------- MODULE TV_Laws -------------------------------
(***************************************************************************)
(* Judge for C11: the law's equation on values that were ALL observed from *)
(* the implementation (whole, whole built from the parts' public ASTs,     *)
(* parts, parts per element).  TLC only supplies the combination rule the  *)
(* property states (map-then-drop-nulls, select, tuple/record, truth       *)
(* table); no expected value comes from the specification here.            *)
(* An observation record:                                                  *)
(*   whole, whole_ast : OUT of the compound (from text / from parts' ASTs) *)
(*   l, r             : OUT of L and R on the document                     *)
(*   r_on_l           : OUT of R on the value of L        (pipe)           *)
(*   subject          : OUT of S on the document          (projections)    *)
(*   elems_r, elems_p : OUTs of R / P on each element of the subject       *)
(*                      (for filter, R only where P's value is truthy:     *)
(*                      elems_r[i] is [skipped |-> TRUE] otherwise)        *)
(***************************************************************************)
EXTENDS Eval, Json, IOUtils
CONSTANT KnownDevs
VARIABLES chunk, phase

OkOf(o) == "ok" \in DOMAIN o
ErrOf(o) == "err" \in DOMAIN o
Crash(o) == ~OkOf(o) /\ ~ErrOf(o) /\ "skipped" \notin DOMAIN o
SameErr(a, b) == ErrOf(a) /\ ErrOf(b) /\ a.err.kind = b.err.kind

(* first error among a sequence of OUTs, in order; [none |-> TRUE] if none *)
RECURSIVE FirstErr(_, _)
FirstErr(os, i) == IF i > Len(os) THEN [none |-> TRUE] ELSE IF ErrOf(os[i]) THEN os[i] ELSE FirstErr(os, i + 1)

Vals(os) == [i \in DOMAIN os |-> os[i].ok]

(* what the law says the whole must be, from the observed parts: [ok |-> v] / [err |-> OUT] *)
Law(r) ==
  CASE r.law = "pipe" -> IF ErrOf(r.l) THEN [err |-> r.l] ELSE IF ErrOf(r.r_on_l) THEN [err |-> r.r_on_l] ELSE [ok |-> r.r_on_l.ok]
    [] r.law = "not" -> IF ErrOf(r.l) THEN [err |-> r.l] ELSE [ok |-> JBool(~Truthy(r.l.ok))]
    [] r.law = "and" -> IF ErrOf(r.l) THEN [err |-> r.l] ELSE IF ~Truthy(r.l.ok) THEN [ok |-> r.l.ok]
                        ELSE IF ErrOf(r.r) THEN [err |-> r.r] ELSE [ok |-> r.r.ok]
    [] r.law = "or"  -> IF ErrOf(r.l) THEN [err |-> r.l] ELSE IF Truthy(r.l.ok) THEN [ok |-> r.l.ok]
                        ELSE IF ErrOf(r.r) THEN [err |-> r.r] ELSE [ok |-> r.r.ok]
    [] r.law = "mlist" -> IF r.doc.t = "null" THEN [ok |-> JNull]
                          ELSE IF ErrOf(r.l) THEN [err |-> r.l] ELSE IF ErrOf(r.r) THEN [err |-> r.r]
                          ELSE [ok |-> JArr(<<r.l.ok, r.r.ok>>)]
    [] r.law = "mhash" -> IF r.doc.t = "null" THEN [ok |-> JNull]
                          ELSE IF ErrOf(r.l) THEN [err |-> r.l] ELSE IF ErrOf(r.r) THEN [err |-> r.r]
                          ELSE [ok |-> MkObj(<<JMem(<<120>>, r.l.ok), JMem(<<121>>, r.r.ok)>>)]
    [] r.law \in {"listproj", "flatten", "valproj", "slice"} ->
          IF ErrOf(r.subject) THEN [err |-> r.subject]
          ELSE IF r.subject.ok.t # "arr" THEN [ok |-> JNull]
          ELSE LET fe == FirstErr(r.elems_r, 1) IN
               IF "none" \notin DOMAIN fe THEN [err |-> fe] ELSE [ok |-> JArr(DropNulls(Vals(r.elems_r)))]
    [] r.law = "filter" ->
          IF ErrOf(r.subject) THEN [err |-> r.subject]
          ELSE IF r.subject.ok.t # "arr" THEN [ok |-> JNull]
          ELSE LET n == Len(r.elems_p)
                   \* per element: the predicate's error, else (if truthy) the right-hand side's outcome
                   per == [i \in 1..n |-> IF ErrOf(r.elems_p[i]) THEN r.elems_p[i]
                                          ELSE IF Truthy(r.elems_p[i].ok) THEN r.elems_r[i] ELSE [ok |-> JNull]]
                   fe == FirstErr(per, 1)
               IN IF "none" \notin DOMAIN fe THEN [err |-> fe] ELSE [ok |-> JArr(DropNulls(Vals(per)))]

Agrees(law, out) == IF "ok" \in DOMAIN law THEN OkOf(out) /\ out.ok = law.ok ELSE SameErr(law.err, out)

AnyCrash(r) == Crash(r.whole) \/ Crash(r.whole_ast) \/ Crash(r.l)
Why(r) ==
  IF AnyCrash(r) THEN "crash"
  ELSE LET w == Law(r) IN
       IF ~Agrees(w, r.whole) THEN "law"
       ELSE IF ~((OkOf(r.whole) /\ OkOf(r.whole_ast) /\ r.whole.ok = r.whole_ast.ok) \/ SameErr(r.whole, r.whole_ast)) THEN "ast"
       ELSE "none"

Allowed(r) == Why(r) = "none"
Expected(r) == [why |-> Why(r), law |-> IF AnyCrash(r) THEN [crash |-> TRUE] ELSE Law(r)]
Explains(r) == <<>>
NonTrivial(r) == OkOf(r.whole) /\ r.whole.ok.t # "null"
Unjudged(r) == FALSE

J == INSTANCE JudgeLoop
Spec == J!Spec
=============================================================================
