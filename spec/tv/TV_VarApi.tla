------------------------------ MODULE TV_VarApi ------------------------------
(***************************************************************************)
(* Judge for the accessor methods of Variable (VarApi.tla): every recorded *)
(* answer is the contract's.  '==' / '!=' / compare(Equal) on values the   *)
(* model leaves open (neighbouring doubles: EqOpen) may go either way but  *)
(* must agree with each other.                                             *)
(***************************************************************************)
EXTENDS VarApi, Json, IOUtils
CONSTANT KnownDevs
VARIABLES chunk, phase

JKinds == {"null", "bool", "num", "str", "arr", "obj", "expref"}
Why(r) ==
  LET o == r.out  v == r.v  w == r.w  x == r.x IN
  IF "type" \notin DOMAIN o THEN "crash"
  ELSE IF o.type # TypeCps(TypeName(v)) THEN "get_type"
  ELSE IF o.truthy # Truthy(v) THEN "is_truthy"
  ELSE IF \E k \in JKinds : o.is[k] # (v.t = k) \/ o.has[k] # (v.t = k) THEN "is_X / as_X"
  ELSE IF ~Matches(v, o.back) THEN "as_X gives another value"
  ELSE IF \E i \in DOMAIN r.keys : ~Matches(FieldOf(v, r.keys[i]), o.fields[i]) THEN "get_field"
  ELSE IF \E i \in 0..r.n : ~Matches(IndexOf(v, i), o.idx[i + 1]) THEN "get_index"
  ELSE IF \E i \in 0..r.n : ~Matches(NegIndexOf(v, i), o.nidx[i + 1]) THEN "get_negative_index"
  ELSE IF \E op \in {"lt", "le", "gt", "ge"} : ~CmpOpen(op, v, w) /\ o.cmp[op] # CompareOf(op, v, w) THEN "compare (ordering)"
  ELSE IF ~EqOpen(v, w) /\ (o.cmp.eq # CompareOf("eq", v, w) \/ o.cmp.ne # CompareOf("ne", v, w)) THEN "compare (equality)"
  ELSE IF o.cmp.eq # JBool(o.eq) \/ o.cmp.ne # JBool(o.ne) \/ o.ne = o.eq THEN "== / != / compare disagree"
  ELSE IF ~(v.t = "num" /\ w.t = "num" /\ NumOrderOpen(v, w)) /\ o.ord # OrdOf(v, w) THEN "Ord::cmp"
  ELSE IF o.ord = 0 /\ o.ord_wx = 0 /\ o.ord_vx # 0 /\ v.t = w.t /\ w.t = x.t THEN "Ord::cmp not transitive"
  ELSE "none"
Allowed(r) == Why(r) = "none"
Expected(r) == [why |-> Why(r), ord |-> OrdOf(r.v, r.w), eq |-> CompareOf("eq", r.v, r.w)]
Explains(r) == <<>>
NonTrivial(r) == r.v.t \in {"arr", "obj", "num", "str"}
Unjudged(r) == EqOpen(r.v, r.w)
J == INSTANCE JudgeLoop
Spec == J!Spec
=============================================================================
