------------------------------- MODULE TV_Lang -------------------------------
(***************************************************************************)
(* Judge for the language engine.  Every observation carries only the text *)
(* that was handed to the real parser; the judge lexes it with the Lexer   *)
(* model and decides with Level 0:                                         *)
(*   C03  parse succeeded  <=>  the text lexes and its token string is     *)
(*        derived by the ABNF; failures are parse-class errors             *)
(*   C04  the public AST = Prec!TreeOf(tokens); the parenthesised spelling *)
(*        has the same AST and the same search results                     *)
(*   C12  a compile failure is located truthfully ("coords")               *)
(* Expected(r).why names the clause that failed: "accept", "reject",       *)
(* "errclass",                                                             *)
(* "tree", "paren", "results", "compile" so that the check of each         *)
(* property reports its own clauses.                                       *)
(***************************************************************************)
EXTENDS Grammar, Pratt, Prec, Lexer, Errors, Json, IOUtils
CONSTANT KnownDevs
VARIABLES chunk, phase

(* Membership of long strings is decided by the parser model with every deviation off, which
   MC_Lang shows equal to the ABNF on every string up to its bound; shorter ones by the ABNF
   recogniser itself. *)
CYKMAX == 14
InLanguage(toks) == IF Len(toks) <= CYKMAX THEN Derives(KindsOf(toks)) ELSE Accepts(toks, {})
L0(r) == LET L == Lex(r.text, {}) IN
         [lexok |-> L.ok, dom |-> L.dom, toks |-> L.toks,
          acc |-> L.ok /\ L.toks # <<>> /\ InLanguage(L.toks)]

(* search outcomes compared up to error position (parentheses shift offsets) *)
OutKey(o) == IF "ok" \in DOMAIN o THEN [ok |-> o.ok]
             ELSE IF "err" \in DOMAIN o THEN [err |-> o.err.kind, class |-> o.err.class]
             ELSE [crash |-> TRUE]
SameOuts(a, b) == Len(a) = Len(b) /\ \A i \in DOMAIN a : OutKey(a[i]) = OutKey(b[i]) /\ "crash" \notin DOMAIN OutKey(a[i])

(* C12 for compile failures: the error carries the text, its offset is a character boundary inside 0..len and
   line / column are the coordinates of that offset *)
CoordsOkOf(r, e) ==
  /\ e.expr_same /\ e.char_offset >= 0 /\ e.char_offset <= Len(r.text)
  /\ LET c == Coord(r.text, e.char_offset) IN e.line = c.line /\ e.col = c.col
(* ... for the error of parse() and for the error of compile() on the same text, which must be the same error *)
CoordsOk(r) ==
  /\ CoordsOkOf(r, r.parse.err)
  /\ ("cerr" \in DOMAIN r.parse /\ "none" \notin DOMAIN r.parse.cerr) => (CoordsOkOf(r, r.parse.cerr) /\ r.parse.cerr = r.parse.err)

Why(r) ==
  LET x == L0(r) IN
  IF ~x.dom THEN "none"
  ELSE IF r.parse.errclass = "panic" THEN "accept"
  ELSE IF r.parse.ok # x.acc THEN (IF x.acc THEN "reject" ELSE "accept")        \* "reject": an expression of the language is refused (no tree at all: C03 and C04)
  ELSE IF ~r.parse.ok /\ r.parse.errclass # "parse" THEN "errclass"
  ELSE IF ~r.parse.ok /\ ~CoordsOk(r) THEN "coords"
  ELSE IF ~r.parse.compile_same THEN "compile"
  ELSE IF x.acc /\ r.parse.ast # TreeOf(x.toks) THEN "tree"
  ELSE IF x.acc /\ "pparse" \in DOMAIN r /\ (~r.pparse.ok \/ r.pparse.ast # r.parse.ast) THEN "paren"
  ELSE IF x.acc /\ "outs" \in DOMAIN r /\ ~SameOuts(r.outs, r.pouts) THEN "results"
  ELSE "none"

Allowed(r) == Why(r) = "none"

Expected(r) ==
  LET x == L0(r) IN
  [why |-> Why(r), lexok |-> x.lexok, accept |-> x.acc, toks |-> x.toks,
   tree |-> IF x.acc THEN TreeOf(x.toks) ELSE AErr]

(* does the Level-1 model with deviations D reproduce the observation exactly? *)
Repro(r, D) ==
  LET L == Lex(r.text, D)
      P == IF L.ok THEN Parse(L.toks, D) ELSE Fail(0)
  IN /\ r.parse.errclass # "panic"
     /\ r.parse.ok = (L.ok /\ P.ok)
     /\ (r.parse.ok => r.parse.ast = P.t)
     /\ (~r.parse.ok => r.parse.errclass = "parse")

KnownSeq == SetToSeq(KnownDevs)
Explains(r) ==
  IF KnownDevs # {} /\ Repro(r, KnownDevs)
  THEN SelectSeq(KnownSeq, LAMBDA d : ~Repro(r, KnownDevs \ {d}))
  ELSE <<>>

NonTrivial(r) == LET L == Lex(r.text, {}) IN L.ok /\ Len(L.toks) >= 2

Unjudged(r) == ~Lex(r.text, {}).dom

J == INSTANCE JudgeLoop
Spec == J!Spec
=============================================================================
