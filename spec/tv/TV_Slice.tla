------------------------------ MODULE TV_Slice ------------------------------
(***************************************************************************)
(* Judge for slice / index observations (C07).  The verdict is Level 0:    *)
(* the JMESPath slice rule as a comprehension; Level 1 (+ one named        *)
(* deviation) is used only to attribute a rejected record to a known       *)
(* finding.                                                                *)
(***************************************************************************)
EXTENDS Slice, JValue, Json, IOUtils, SequencesExt
CONSTANT KnownDevs
VARIABLES chunk, phase

IsOk(o)    == "ok" \in DOMAIN o
IsErr(o)   == "err" \in DOMAIN o
IsPanic(o) == "panic" \in DOMAIN o \/ "abort" \in DOMAIN o \/ "timeout" \in DOMAIN o

(* the selected elements of the case's own document (the documents are [0, .., len-1], or hold nulls at known positions) *)
Picked(r, sel) == JArr([k \in 1..Len(sel) |-> r.doc.a[sel[k] + 1]])
Step(r) == IF r.stepomit THEN 1 ELSE r.step

(* what the specification says this case must produce; a record
   [ok |-> value] or [err |-> kind] *)
Expected(r) ==
  CASE r.kind = "method" /\ Step(r) = 0 -> [ok |-> JArr(<<>>)]      \* Variable::slice cannot report an error: it returns, selecting nothing
    [] r.kind \in {"slice", "method"} ->
         IF Step(r) = 0 THEN [err |-> "invalid_slice"]
         ELSE [ok |-> Picked(r, SliceL0(r.len, r.start, r.stop, Step(r)))]
    [] r.kind = "index" ->
         LET j == IndexL0(r.len, r.step) IN [ok |-> IF j = NOIDX THEN JNull ELSE r.doc.a[j + 1]]
    [] r.kind \in {"other", "otheridx"} -> [ok |-> JNull]

SliceMatches(exp, out) ==
  IF "ok" \in DOMAIN exp THEN IsOk(out) /\ out.ok = exp.ok
  ELSE IsErr(out) /\ out.err.class = "runtime" /\ out.err.kind = exp.err

Allowed(r) == SliceMatches(Expected(r), r.out)

(* Level 1 + one deviation: what the code as modelled would do *)
L1Outcome(r, devs) ==
  LET s == SliceL1(r.len, r.start, r.stop, Step(r), devs)
  IN IF s.ovf \/ s.oob THEN "panic" ELSE "ok"

Explains(r) ==
  IF r.kind \in {"slice", "method"} /\ Step(r) # 0
  THEN SelectSeq(SetToSeq(KnownDevs), LAMBDA d : L1Outcome(r, {d}) = "panic" /\ IsPanic(r.out))
  ELSE <<>>

NonTrivial(r) == r.kind \in {"slice", "method"} /\ IsOk(r.out) /\ Len(r.out.ok.a) >= 2

Unjudged(r) == FALSE

J == INSTANCE JudgeLoop
Spec == J!Spec
=============================================================================
