------------------------------ MODULE TV_Determ ------------------------------
(***************************************************************************)
(* Judge for C16, determinism: a record joins every outcome that the       *)
(* threads of the trials observed for one (expression, document) pair;     *)
(* "exactly the results a sequential execution obtains" means there is     *)
(* exactly one -- also where the specification leaves a choice open (which *)
(* of several tied elements max_by returns), the choice may not depend on  *)
(* the schedule.                                                           *)
(***************************************************************************)
EXTENDS Integers, Sequences, FiniteSets, TLC, Json, IOUtils, SequencesExt
CONSTANT KnownDevs
VARIABLES chunk, phase
Why(r) == IF Len(r.outs) = 1 THEN "none" ELSE "schedule"
Allowed(r) == Why(r) = "none"
Expected(r) == [why |-> Why(r), distinct_outcomes |-> Len(r.outs)]
Explains(r) == <<>>
NonTrivial(r) == TRUE
Unjudged(r) == FALSE
J == INSTANCE JudgeLoop
Spec == J!Spec
=============================================================================
