------------------------------ MODULE TV_Serde ------------------------------
(***************************************************************************)
(* Judge for C14.                                                          *)
(*  ser : the library's image of the tree (Variable::from_serializable,    *)
(*        ToJmespath, and the result of searching the typed value with     *)
(*        `@`) is Image(tree) (Level 0), and so is serde_json's            *)
(*  de  : for every type of the zoo the library's decoding of the JSON     *)
(*        value agrees with serde_json's (same Ok value / both Err), and a *)
(*        decoded value survives the trip back through the library         *)
(***************************************************************************)
EXTENDS Serde, Json, IOUtils
CONSTANT KnownDevs
VARIABLES chunk, phase

IsOkV(o, v) == "ok" \in DOMAIN o /\ o.ok = v
WhySer(r) ==
  LET img == Image(r.tree) o == r.out IN
  IF "image" \notin DOMAIN o THEN "crash"
  ELSE IF ~IsOkV(o.image, img) THEN "image"
  ELSE IF ~IsOkV(o.serde_json, img) THEN "reference"            \* the specification disagrees with serde_json itself
  ELSE IF ~IsOkV(o.searched, img) \/ ~IsOkV(o.to_jmespath, img) THEN "searched"
  ELSE "none"
WhyDe(r) ==
  IF "decoded" \notin DOMAIN r.out THEN "crash"
  ELSE IF \E i \in DOMAIN r.out.decoded : r.out.decoded[i].lib # r.out.decoded[i].serde_json THEN "decode"
  ELSE IF \E i \in DOMAIN r.out.decoded : ~r.out.decoded[i].roundtrip THEN "roundtrip"
  ELSE "none"
(* real std / derived types, whose impls may branch on properties of the format: no tree to compute an image from, so the relations
   of the property are checked on the observations: the library's image IS serde_json's image, searching gives that image, and
   decoding -- from the library's own image and from the JSON text -- yields what serde_json yields (the original value) *)
WhyReal(r) ==
  LET o == r.out IN
  IF "image" \notin DOMAIN o THEN "crash"
  ELSE IF o.image # o.serde_json THEN "image"
  ELSE IF o.searched # o.image THEN "searched"
  ELSE IF o.dec_text # o.dec_serde_json \/ o.dec_own # o.dec_serde_json THEN "decode"
  ELSE "none"
Why(r) == IF r.kind = "ser" THEN WhySer(r) ELSE IF r.kind = "real" THEN WhyReal(r) ELSE WhyDe(r)
Allowed(r) == Why(r) = "none"
Expected(r) == IF r.kind = "ser" THEN [why |-> Why(r), image |-> Image(r.tree)]
               ELSE IF r.kind = "real" THEN [why |-> Why(r), image |-> [t |-> "same-as-serde_json"]]
               ELSE [why |-> Why(r), image |-> [t |-> "null"]]
Explains(r) == <<>>
NonTrivial(r) == r.kind \in {"de", "real"} \/ r.tree.k \notin {"bool", "unit", "none"}
Unjudged(r) == FALSE
J == INSTANCE JudgeLoop
Spec == J!Spec
=============================================================================
