------------------------------- MODULE TV_Cli -------------------------------
(***************************************************************************)
(* Judge for C18: exit status, stdout and stderr-emptiness of the real jp  *)
(* against the outcome of the Cli machine, given what the library computed *)
(* in-process on the same expression and input (lib.stage, lib.pretty,     *)
(* lib.raw).  Expected stdout: pretty-printed result + newline; the raw    *)
(* string + newline with --unquoted on a string result; something          *)
(* non-empty for --ast; nothing on any failure.                            *)
(***************************************************************************)
EXTENDS CliOutcome, Json, IOUtils
CONSTANT KnownDevs
VARIABLES chunk, phase

Why(r) ==
  LET o == r.out IN
  IF "exit" \notin DOMAIN o THEN "crash"
  ELSE LET want == Outcome([exprsrc |-> r.exprsrc, inputsrc |-> r.inputsrc, unquoted |-> r.unquoted, ast |-> r.ast], o.lib) IN
       IF o.panicked THEN "panic"
       ELSE IF (o.exit = 0) # (want.exit = 0) THEN "exit"
       ELSE IF want.exit # 0 THEN (IF o.stdout # <<>> THEN "stdout_on_failure" ELSE IF o.stderr_empty THEN "silent_failure" ELSE "none")
       ELSE IF ~o.stderr_empty THEN "stderr_on_success"
       ELSE IF want.stdout = "ast" THEN (IF o.stdout = <<>> THEN "ast" ELSE "none")
       ELSE IF want.stdout = "raw" THEN (IF o.stdout = o.lib.raw \o <<10>> THEN "none" ELSE "unquoted")
       ELSE IF o.stdout = o.lib.pretty \o <<10>> THEN "none" ELSE "output"

Allowed(r) == Why(r) = "none"
Expected(r) == [why |-> Why(r), outcome |-> IF "exit" \in DOMAIN r.out THEN Outcome([exprsrc |-> r.exprsrc, inputsrc |-> r.inputsrc, unquoted |-> r.unquoted, ast |-> r.ast], r.out.lib) ELSE [exit |-> -1, stdout |-> "none"]]
Explains(r) == <<>>
NonTrivial(r) == "exit" \in DOMAIN r.out /\ (r.out.exit # 0 \/ Len(r.out.stdout) > 5)
Unjudged(r) == FALSE

J == INSTANCE JudgeLoop
Spec == J!Spec
=============================================================================
