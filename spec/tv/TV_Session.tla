------------------------------ MODULE TV_Session ------------------------------
(***************************************************************************)
(* Trace validation for C13 / C15: one event per public API call of a real *)
(* session (recorded by the driver at the call's return, in call order) is *)
(* matched against the corresponding action of Session.tla; the logged     *)
(* results bind / are checked against the state the action produces.       *)
(*   IsEvent(name) /\ <bind logged fields> /\ SpecAction(args) /\ <check>  *)
(* Independent histories are concatenated with "reset" events.  If no      *)
(* action matches the next event the trace is rejected there: the index is *)
(* recorded and validation resumes at the next reset, so one rejection     *)
(* does not leave the rest unexamined.  When the trace is consumed the     *)
(* verdicts are written to IOEnv.OUT.                                      *)
(***************************************************************************)
EXTENDS Session, Json, IOUtils, TLC
CONSTANT KnownDevs

Rec == ndJsonDeserialize(IOEnv.OBS)
VARIABLES l, rejects, searched, done
tvars == <<reg, live, docs, l, rejects, searched, done>>

Pool == {Rec[1].pool[i] : i \in DOMAIN Rec[1].pool}         \* the names the driver probes after every registry operation
Present(r) == {nm \in Pool : nm \in DOMAIN r}
SetOf(seq) == {seq[i] : i \in DOMAIN seq}
B(ev) == [k |-> ev.bk, id |-> ev.bid]

KindClass(k) == CASE k \in {"not_enough_arguments", "too_many_arguments"} -> "arity"
                  [] k \in {"invalid_type", "invalid_return_type"} -> "type"
                  [] k = "unknown_function" -> "unknown"
                  [] k = "invalid_slice" -> "slice"
                  [] OTHER -> "other"
OutMatches(o, out) ==
  IF o.amb THEN TRUE
  ELSE IF "ok" \in DOMAIN out THEN IsVOk(o) /\ Matches(o.ok, out.ok)
  ELSE IF "err" \in DOMAIN out THEN IsVErr(o) /\ out.err.class = "runtime" /\ KindClass(out.err.kind) = o.err
  ELSE FALSE
CallsMatch(exp, obs) == Len(exp) = Len(obs) /\ \A i \in DOMAIN exp : exp[i].id = obs[i].id /\ exp[i].args = obs[i].args

IsEvent(name) == l <= Len(Rec) /\ Rec[l].e = name /\ l' = l + 1 /\ UNCHANGED <<rejects, done>>
ev == Rec[l]

TraceInit ==
  /\ reg = [rt \in 0..8 |-> IF rt = 0 THEN Builtins ELSE EmptyReg]
  /\ live = NoHandles /\ docs = Rec[1].docs /\ l = 2 /\ rejects = <<>> /\ searched = 0 /\ done = FALSE

TReset == /\ IsEvent("reset")
          /\ reg' = [rt \in 0..8 |-> IF rt = 0 THEN Builtins ELSE EmptyReg] /\ live' = NoHandles /\ docs' = ev.docs
          /\ UNCHANGED searched
TNewRt == IsEvent("newrt") /\ NewRuntime(ev.rt) /\ SetOf(ev.present) = Present(reg'[ev.rt]) /\ UNCHANGED searched
TRegister == IsEvent("register") /\ Register(ev.rt, ev.name, B(ev)) /\ SetOf(ev.present) = Present(reg'[ev.rt]) /\ UNCHANGED searched
TDeregister == /\ IsEvent("deregister") /\ ev.was = DeregisterResult(ev.rt, ev.name)
               /\ Deregister(ev.rt, ev.name) /\ SetOf(ev.present) = Present(reg'[ev.rt]) /\ UNCHANGED searched
TBuiltins == IsEvent("builtins") /\ RegisterBuiltins(ev.rt) /\ SetOf(ev.present) = Present(reg'[ev.rt]) /\ UNCHANGED searched
TCompile == /\ IsEvent("compile") /\ Compile(ev.h, ev.rt, ev.text)
            /\ ev.ok = Compiled(ev.text).ok /\ (ev.ok => ev.ast = Compiled(ev.text).tree)      \* same text, same tree
            /\ UNCHANGED searched
TClone == IsEvent("clone") /\ Clone(ev.h, ev.h2) /\ UNCHANGED searched
TDrop == IsEvent("drop") /\ Drop(ev.h) /\ UNCHANGED searched
TSearch == /\ IsEvent("search") /\ Search(ev.h, ev.d)
           /\ OutMatches(SearchResult(ev.h, ev.d), ev.out)                       \* C13: a function of (text, registry, document)
           /\ ev.docs_same                                                       \* C13: inputs unchanged
           /\ ("fresh_same" \in DOMAIN ev => ev.fresh_same) /\ ("repeat_same" \in DOMAIN ev => ev.repeat_same)                       \* C13: the whole outcome -- message text included -- is what a
                                                                                 \*      runtime with no history gives for the same text and document
           /\ (LET o == SearchResult(ev.h, ev.d) c == CallLog(live[ev.h].tree, docs[ev.d], reg[live[ev.h].rt])
               IN o.amb \/ CallsMatch(c.log, ev.calls))                          \* C15: callbacks, evaluated arguments, order
           /\ searched' = searched + 1

(* a search whose input cannot be converted for searching: it fails, and its error is the one a thread without history reports *)
TSearchBad == IsEvent("search_bad") /\ ev.h \in DOMAIN live /\ ev.is_err /\ ev.fresh_same /\ UNCHANGED <<reg, live, docs, searched>>

Proper == TSearchBad \/ TReset \/ TNewRt \/ TRegister \/ TDeregister \/ TBuiltins \/ TCompile \/ TClone \/ TDrop \/ TSearch

RECURSIVE NextReset(_)
NextReset(i) == IF i > Len(Rec) THEN i ELSE IF Rec[i].e = "reset" THEN i ELSE NextReset(i + 1)

(* no action of the specification explains the next event: record it and resume at the next history *)
(* which clause of a search event failed (for attributing the rejection to C13 or C15) *)
SearchDiag ==
  IF ev.e = "search" /\ "h" \in DOMAIN ev /\ ev.h \in DOMAIN live /\ ev.d \in DOMAIN docs
  THEN LET o == SearchResult(ev.h, ev.d) c == CallLog(live[ev.h].tree, docs[ev.d], reg[live[ev.h].rt])
       IN [outok |-> OutMatches(o, ev.out) /\ ("fresh_same" \in DOMAIN ev => ev.fresh_same) /\ ("repeat_same" \in DOMAIN ev => ev.repeat_same), docsok |-> ev.docs_same, callsok |-> o.amb \/ CallsMatch(c.log, ev.calls),
           expected |-> o, expcalls |-> c.log]
  ELSE [outok |-> TRUE, docsok |-> TRUE, callsok |-> TRUE, expected |-> [none |-> TRUE], expcalls |-> <<>>]

Mismatch == /\ l <= Len(Rec) /\ ~ENABLED Proper
            /\ rejects' = Append(rejects, [i |-> l, e |-> Rec[l].e, diag |-> SearchDiag])
            /\ l' = NextReset(l + 1)
            /\ UNCHANGED <<reg, live, docs, searched, done>>

Finish == /\ l > Len(Rec) /\ ~done /\ done' = TRUE
          /\ ndJsonSerialize(IOEnv.OUT, <<[stats |-> [n |-> Len(Rec), searched |-> searched]]>> \o rejects)
          /\ UNCHANGED <<reg, live, docs, l, rejects, searched>>

TraceNext == Proper \/ Mismatch \/ Finish
TraceSpec == TraceInit /\ [][TraceNext]_tvars
=============================================================================
