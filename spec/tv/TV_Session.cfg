CONSTANT KnownDevs = {}
SPECIFICATION TraceSpec
CHECK_DEADLOCK FALSE
