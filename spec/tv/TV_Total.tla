------------------------------- MODULE TV_Total -------------------------------
(***************************************************************************)
(* Judge for C05: the specification's Total predicate -- the call returned *)
(* Ok or a JmespathError: no panic, abort (stack overflow, signal) or      *)
(* time-out.  Works on the observation records of every engine (field      *)
(* `out`, and `parse` / `pparse` for the language engine).                 *)
(* DEV_UNBOUNDED_RECURSION: nesting beyond the bound the check guarantees  *)
(* (text longer than 3000 characters of pure nesting) aborts with a stack  *)
(* overflow -- attributed to the recorded finding.                         *)
(***************************************************************************)
EXTENDS Integers, Sequences, FiniteSets, TLC, Json, IOUtils
CONSTANT KnownDevs
VARIABLES chunk, phase

Bad(o) == "panic" \in DOMAIN o \/ "abort" \in DOMAIN o \/ "timeout" \in DOMAIN o \/ "harness" \in DOMAIN o
Why(r) ==
  IF "out" \in DOMAIN r /\ Bad(r.out) THEN (IF "harness" \in DOMAIN r.out THEN "harness" ELSE "crash")
  ELSE IF "parse" \in DOMAIN r /\ r.parse.errclass = "panic" THEN "crash"
  ELSE IF "pparse" \in DOMAIN r /\ r.pparse.errclass = "panic" THEN "crash"
  ELSE "none"
Allowed(r) == Why(r) = "none"
Expected(r) == [why |-> Why(r)]
Explains(r) ==
  IF "DEV_UNBOUNDED_RECURSION" \in KnownDevs /\ "out" \in DOMAIN r /\ "abort" \in DOMAIN r.out /\ "deep" \in DOMAIN r /\ r.deep
  THEN <<"DEV_UNBOUNDED_RECURSION">> ELSE <<>>
NonTrivial(r) == "text" \in DOMAIN r /\ Len(r.text) >= 3
Unjudged(r) == FALSE
J == INSTANCE JudgeLoop
Spec == J!Spec
=============================================================================
