------------------------------- MODULE TV_Json -------------------------------
(***************************************************************************)
(* Judge for C08.  For each JSON text handed to Variable::from_json and    *)
(* searched with `@`:                                                      *)
(*  "value"   (texts inside the modelled domain) the tagged result is the  *)
(*            value JsonParse assigns to the text, and so is the value of  *)
(*            the printed text (strings by code point, nesting and order,  *)
(*            last duplicate key wins)                                     *)
(*  "int"     an in-range integer numeral is printed with exactly its      *)
(*            digits                                                       *)
(*  "exact"   the bit pattern is the double the numeral denotes            *)
(*  "near"    within 2 units in the last place                             *)
(*  "reparse" printing and re-parsing gives an equal value                 *)
(*  "bridge"  conversion to and from serde_json's Value is lossless        *)
(* The double a numeral denotes is supplied by the driver from Rust's      *)
(* correctly rounded f64::from_str (trusted denotation oracle; TLA+ has no *)
(* floating point).                                                        *)
(***************************************************************************)
EXTENDS Numerals, JsonParse, Json, IOUtils, SequencesExt
CONSTANT KnownDevs
VARIABLES chunk, phase

NumOk(cls, numeral, got, want) ==
  CASE cls = "int" -> "int" \in DOMAIN got /\ got.int = numeral
    [] cls = "negzero" -> "int" \in DOMAIN got /\ got.int = numeral
    [] cls = "exact" -> IF "bits" \in DOMAIN got THEN got.bits = want.bits
                        ELSE want.finite /\ "int" \in DOMAIN got      \* an integer-valued numeral kept as an integer is also exact
    [] cls = "near" -> ~want.finite \/ ("bits" \in DOMAIN got /\ WithinUlps(got.bits, want.bits, 2))

(* the class of each numeral is computed here from its text (the generator's own labels are not used) *)
Classes(r) == [i \in DOMAIN r.numerals |-> ClassOfText(r.numerals[i])]

Why(r) ==
  LET o == r.out
      \* texts of several thousand characters are judged by the print / re-parse / bridge relations alone (dom = FALSE below)
      p == IF Len(r.text) > 1500 THEN [ok |-> TRUE, dom |-> FALSE, v |-> JNull]
           ELSE IF NestDepth(r.text) > 100 THEN [ok |-> JsonParse(r.text).ok, dom |-> FALSE, v |-> JNull]     \* very deep: relations only
           ELSE JsonParse(r.text)
      cls == Classes(r) IN
  IF "printed" \notin DOMAIN o
  THEN (IF "parse_err" \in DOMAIN o /\ (~p.ok \/ \E i \in DOMAIN cls : cls[i] = "near" /\ ("want" \notin DOMAIN o \/ ~o.want[i].finite)) THEN "none" ELSE "failed")
  ELSE IF ~p.ok THEN "accepted"
  ELSE IF r.kind = "num" /\ Len(o.nums) # Len(cls) THEN "numcount"
  ELSE IF r.kind = "num" /\ \E i \in DOMAIN cls : ~NumOk(cls[i], r.numerals[i], o.nums[i], o.want[i])
       THEN LET i == CHOOSE j \in DOMAIN cls : ~NumOk(cls[j], r.numerals[j], o.nums[j], o.want[j]) IN cls[i]
  ELSE IF r.kind = "num" /\ Len(cls) = 1 /\ r.text = r.numerals[1] /\ cls[1] = "int" /\ o.printed # r.text THEN "printed"
  ELSE IF p.dom /\ o.value # p.v THEN "value"
  ELSE IF p.dom /\ LET q == JsonParse(o.printed) IN ~q.ok \/ (q.dom /\ q.v # p.v) THEN "printed"
  ELSE IF ~o.reparse_equal \/ ~o.reparse_text_equal THEN "reparse"
  ELSE IF ~o.print_routes_agree THEN "printed"
  ELSE IF ~o.bridge_to \/ ~o.bridge_from \/ ~o.bridge_deser THEN "bridge"
  ELSE "none"

Allowed(r) == Why(r) = "none"
Expected(r) == LET p == IF Len(r.text) > 1500 \/ NestDepth(r.text) > 100 THEN [ok |-> TRUE, dom |-> FALSE] ELSE JsonParse(r.text) IN [why |-> Why(r), classes |-> Classes(r), value |-> IF p.ok /\ p.dom THEN p.v ELSE [t |-> "outside"]]
(* the one recorded deviation: the JSON layer re-spells the integer numeral -0 as -0.0 *)
Explains(r) ==
  IF "DEV_NEG_ZERO_RESPELLED" \in KnownDevs /\ Why(r) = "negzero" /\ "printed" \in DOMAIN r.out
     /\ \E i \in DOMAIN r.numerals : Classes(r)[i] = "negzero" /\ "bits" \in DOMAIN r.out.nums[i] /\ r.out.nums[i].bits = <<32768, 0, 0, 0>>
  THEN <<"DEV_NEG_ZERO_RESPELLED">>
  \* the other recorded deviation: the JSON layer refuses texts nested 128 levels or deeper
  ELSE IF "DEV_JSON_DEPTH_LIMIT_128" \in KnownDevs /\ Why(r) = "failed" /\ "parse_err" \in DOMAIN r.out /\ NestDepth(r.text) >= 128
  THEN <<"DEV_JSON_DEPTH_LIMIT_128">> ELSE <<>>
NonTrivial(r) == r.kind # "struct" \/ Len(r.text) > 6
Unjudged(r) == FALSE

J == INSTANCE JudgeLoop
Spec == J!Spec
=============================================================================
