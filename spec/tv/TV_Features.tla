------------------------------ MODULE TV_Features ------------------------------
(***************************************************************************)
(* Judge for C17.  A record joins the observations of the same case made   *)
(* by the driver built under each feature set: outs = [default, sync,      *)
(* specialized, sync_specialized] (a missing build is "absent").           *)
(*  conv : each configuration's image (to_jmespath and search) is the      *)
(*         JSON image of the input (Convert!Conv0)                         *)
(*  eval : every configuration observed the same outcome (value / error    *)
(*         kind); the outcome itself is judged against Eval by C01/C02/C06 *)
(***************************************************************************)
EXTENDS Convert, Json, IOUtils
CONSTANT KnownDevs
VARIABLES chunk, phase

Present(o) == "absent" \notin DOMAIN o
Key(o) == IF "ok" \in DOMAIN o THEN [ok |-> o.ok]
          ELSE IF "err" \in DOMAIN o THEN [err |-> o.err.kind, class |-> o.err.class, stage |-> "stage" \in DOMAIN o]
          ELSE IF \E k \in {"panic", "abort", "timeout", "harness"} : k \in DOMAIN o THEN [crash |-> TRUE]
          ELSE [whole |-> o]                       \* records of other engines (JSON texts: printed text, bit patterns, ...) are compared whole
WhyEval(r) ==
  LET ps == {i \in DOMAIN r.outs : Present(r.outs[i])} IN
  IF \E i \in ps : "crash" \in DOMAIN Key(r.outs[i]) THEN "crash"
  ELSE IF \E i, j \in ps : Key(r.outs[i]) # Key(r.outs[j]) THEN "config" ELSE "none"
WhyConv(r) ==
  LET ps == {i \in DOMAIN r.outs : Present(r.outs[i])} want == Conv0(r) IN
  IF \E i \in ps : "image" \notin DOMAIN r.outs[i] THEN "crash"
  ELSE IF \E i \in ps : ~("ok" \in DOMAIN r.outs[i].image /\ r.outs[i].image.ok = want) THEN "image"
  ELSE IF \E i \in ps : ~("ok" \in DOMAIN r.outs[i].searched /\ r.outs[i].searched.ok = want) THEN "searched"
  ELSE "none"
IsConv(r) == "kind" \in DOMAIN r /\ r.kind = "conv"
Why(r) == IF IsConv(r) THEN WhyConv(r) ELSE WhyEval(r)
Allowed(r) == Why(r) = "none"
Expected(r) == [why |-> Why(r), want |-> IF IsConv(r) THEN Conv0(r) ELSE [t |-> "same-in-all-configurations"]]
Explains(r) == <<>>
NonTrivial(r) == Cardinality({i \in DOMAIN r.outs : Present(r.outs[i])}) >= 2
Unjudged(r) == Cardinality({i \in DOMAIN r.outs : Present(r.outs[i])}) < 2
J == INSTANCE JudgeLoop
Spec == J!Spec
=============================================================================
