------------------------------ MODULE TV_Errors ------------------------------
(***************************************************************************)
(* Judge for C12.                                                          *)
(*  coord : line / column of JmespathError::new = Coord (Level 0); the     *)
(*          rendered message ends with " (line L, column C)" + newline +   *)
(*          the expression with a caret under that column, and shows the   *)
(*          reason before it                                               *)
(*  site  : a failing search: a runtime error of the expected kind class,  *)
(*          carrying the expression text, whose offset is on a character   *)
(*          boundary inside lo..hi, with line / column = Coord of it       *)
(*  nonfinite : a search that overflows the number domain: anything but a  *)
(*          non-runtime error (known finding DEV_PARSE_CLASS_ON_NONFINITE) *)
(* Explains: DEV_COLUMN_IN_BYTES reproduces a coord observation through    *)
(* CoordL1; DEV_STALE_OFFSET = the observed offset is the "(" of a call    *)
(* nested inside the failing call's expression-reference argument.         *)
(***************************************************************************)
EXTENDS Errors, JText, Json, IOUtils, SequencesExt
CONSTANT KnownDevs
VARIABLES chunk, phase

KindClass(k) == CASE k \in {"not_enough_arguments", "too_many_arguments"} -> "arity"
                  [] k \in {"invalid_type", "invalid_return_type"} -> "type"
                  [] k = "unknown_function" -> "unknown"
                  [] k = "invalid_slice" -> "slice"
                  [] OTHER -> "other"

IsSuffix2(suf, s) == Len(suf) <= Len(s) /\ SubSeq(s, Len(s) - Len(suf) + 1, Len(s)) = suf
HasSub(s, sub) == \E i \in 1..(Len(s) - Len(sub) + 1) : SubSeq(s, i, i + Len(sub) - 1) = sub
Boom == <<98, 111, 111, 109>>
CoordText(L, C) == <<32, 40, 108, 105, 110, 101, 32>> \o IntText(L) \o <<44, 32, 99, 111, 108, 117, 109, 110, 32>> \o IntText(C) \o <<41, 10>>

WhyCoord(r) ==
  LET c == Coord(r.chars, r.k)
      tail == CoordText(c.line, c.col) \o Rendered(r.chars, c.line, c.col)
  IN IF "line" \notin DOMAIN r.out THEN "crash"
     ELSE IF r.out.line # c.line \/ r.out.col # c.col THEN "coords"
     ELSE IF ~r.out.expr_same \/ r.out.offset # ByteOffsetOf(r.chars, r.k) THEN "carried"
     ELSE IF ~IsSuffix2(tail, r.out.display) THEN "render"
     ELSE IF ~HasSub(SubSeq(r.out.display, 1, Len(r.out.display) - Len(tail)), Boom) THEN "reason"
     ELSE "none"

WhySite(r) ==
  IF "err" \notin DOMAIN r.out THEN (IF "ok" \in DOMAIN r.out THEN "noerror" ELSE "crash")
  ELSE LET e == r.out.err IN
       IF e.class # "runtime" THEN "class"
       ELSE IF KindClass(e.kind) # r.class THEN "kind"
       ELSE IF ~e.expr_same THEN "carried"
       ELSE IF e.char_offset < r.lo \/ e.char_offset > r.hi THEN "offset"
       ELSE LET c == Coord(r.text, e.char_offset) IN IF e.line # c.line \/ e.col # c.col THEN "coords" ELSE "none"

WhyNonfinite(r) ==
  IF "err" \in DOMAIN r.out /\ r.out.err.class # "runtime" THEN "class"
  ELSE IF "ok" \in DOMAIN r.out \/ "err" \in DOMAIN r.out THEN "none" ELSE "crash"

Why(r) == CASE r.kind = "coord" -> WhyCoord(r) [] r.kind = "site" -> WhySite(r) [] r.kind = "nonfinite" -> WhyNonfinite(r)
Allowed(r) == Why(r) = "none"
Expected(r) ==
  IF r.kind = "coord" THEN [why |-> Why(r), coord |-> Coord(r.chars, r.k)]
  ELSE IF r.kind = "site" THEN [why |-> Why(r), lo |-> r.lo, hi |-> r.hi, class |-> r.class]
  ELSE [why |-> Why(r)]

ReproCoord(r) ==
  LET c == CoordL1(r.chars, ByteOffsetOf(r.chars, r.k), {"DEV_COLUMN_IN_BYTES"})
  IN "line" \in DOMAIN r.out /\ r.out.line = c.line /\ r.out.col = c.col
(* the stale-offset deviation: everything is right except that the offset is that of a later "(" in the text *)
ReproStale(r) ==
  /\ "err" \in DOMAIN r.out /\ r.out.err.class = "runtime" /\ KindClass(r.out.err.kind) = r.class /\ r.out.err.expr_same
  /\ r.out.err.char_offset > r.hi /\ r.out.err.char_offset < Len(r.text) /\ r.text[r.out.err.char_offset + 1] = 40
ReproNonfinite(r) == "err" \in DOMAIN r.out /\ r.out.err.class = "parse" /\ r.out.err.expr_empty

Explains(r) ==
  (IF r.kind = "coord" /\ "DEV_COLUMN_IN_BYTES" \in KnownDevs /\ ReproCoord(r) THEN <<"DEV_COLUMN_IN_BYTES">> ELSE <<>>)
  \o (IF r.kind = "site" /\ "DEV_STALE_OFFSET" \in KnownDevs /\ ReproStale(r) THEN <<"DEV_STALE_OFFSET">> ELSE <<>>)
  \o (IF r.kind = "nonfinite" /\ "DEV_PARSE_CLASS_ON_NONFINITE" \in KnownDevs /\ ReproNonfinite(r) THEN <<"DEV_PARSE_CLASS_ON_NONFINITE">> ELSE <<>>)

NonTrivial(r) == (r.kind = "coord" /\ \E i \in 1..r.k : r.chars[i] > 127 \/ r.chars[i] = NL) \/ r.kind = "site"
Unjudged(r) == FALSE

J == INSTANCE JudgeLoop
Spec == J!Spec
=============================================================================
