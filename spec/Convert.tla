------------------------------- MODULE Convert -------------------------------
(***************************************************************************)
(* C17: how an input value becomes a searchable value.                     *)
(* Level 0  Conv0(ty, x) = the JSON image of x (Serde!Image for Rust       *)
(*          scalars; the value itself for JSON / library values).          *)
(* Level 1  ConvL1(cfg, ty, x): the generic path goes through the serde    *)
(*          serializer (Image); with the `specialized` feature 20 input    *)
(*          types take a direct conversion instead (lib.rs:190-357).       *)
(*          `sync` only changes the reference-count type.                  *)
(* An input is [ty, node] (a serde scalar node) or [ty, json] (a value).   *)
(***************************************************************************)
EXTENDS Serde

Configs == {"default", "sync", "specialized", "sync_specialized"}
IsSpecialized(cfg) == cfg \in {"specialized", "sync_specialized"}

ScalarTypes == {"String", "&str", "i8", "i16", "i32", "i64", "isize", "u8", "u16", "u32", "u64", "usize", "f32", "f64", "bool", "()"}
ValueTypes == {"Value", "&Value", "Variable", "&Variable", "Rcvar", "&Rcvar"}

(* the value with every integer as [t |-> "num", int |-> digits], as the judge sees results *)
(* a value nested d levels deep, built in code by the driver from (d, shape): arrays, objects, or both in turn, around the leaf 7.
   (JSON text of such depth cannot be parsed -- the JSON parser stops at 128 levels -- but a serde_json::Value can be built and searched) *)
(* interchange form of such a value (the JSON reader of TLC stops at 255 levels): its spine -- the container kind at each level,
   outermost first, 97 = array of one element, 111 = object with the single key "k" -- and its leaf *)
DeepKind(level, shape) == IF shape = "arr" \/ (shape = "mix" /\ level % 2 = 0) THEN 97 ELSE 111
DeepVal(d, shape) == [t |-> "deep", spine |-> [i \in 1..d |-> DeepKind(d - i + 1, shape)], leaf |-> JIntS("7")]
InputJson(c) == IF "deep" \in DOMAIN c THEN DeepVal(c.deep.d, c.deep.shape) ELSE c.json
Conv0(c) == IF c.ty \in ValueTypes THEN InputJson(c) ELSE Image(c.node)

(* lib.rs:190-357: the specialised implementations *)
Special(c) ==
  CASE c.ty \in ValueTypes -> InputJson(c)                                  \* try_into / identity / clone
    [] c.ty \in {"String", "&str"} -> JStr(c.node.s)
    [] c.ty \in {"i8", "i16", "i32", "i64", "isize", "u8", "u16", "u32", "u64", "usize"} -> JIntS(c.node.v)   \* Number::from
    [] c.ty \in {"f32", "f64"} -> IF "special" \in DOMAIN c.node THEN JNull        \* non-finite: null, like the generic path (as found it was an
                                   ELSE Rat(c.node.p, c.node.q)                  \* error: finding F17, switch DEV_SPECIALIZED_NONFINITE_ERROR in MC_Convert)
    [] c.ty = "bool" -> JBool(c.node.b)
    [] c.ty = "()" -> JNull
ConvL1(cfg, c) == IF IsSpecialized(cfg) THEN Special(c) ELSE Conv0(c)

I2(kind, str) == [k |-> kind, v |-> str]
Inputs ==
  {[ty |-> "i8", node |-> I2("i8", v)] : v \in {"-128", "0", "127"}}
  \cup {[ty |-> "i16", node |-> I2("i16", v)] : v \in {"-32768", "32767"}}
  \cup {[ty |-> "i32", node |-> I2("i32", v)] : v \in {"-2147483648", "2147483647", "-1"}}
  \cup {[ty |-> t, node |-> I2("i64", v)] : t \in {"i64", "isize"}, v \in {"-9223372036854775808", "9223372036854775807", "0"}}
  \cup {[ty |-> "u8", node |-> I2("u8", v)] : v \in {"0", "255"}}
  \cup {[ty |-> "u16", node |-> I2("u16", "65535")], [ty |-> "u32", node |-> I2("u32", "4294967295")]}
  \cup {[ty |-> t, node |-> I2("u64", v)] : t \in {"u64", "usize"}, v \in {"18446744073709551615", "9223372036854775808", "0"}}
  \cup {[ty |-> "f64", node |-> [k |-> "f64", p |-> p, q |-> q]] : p \in {-3, 0, 1, 5}, q \in {1, 2, 4}}
  \cup {[ty |-> "f32", node |-> [k |-> "f32", p |-> p, q |-> q]] : p \in {-3, 1}, q \in {1, 2}}
  \cup {[ty |-> t, node |-> [k |-> t, special |-> sp]] : t \in {"f32", "f64"}, sp \in {"nan", "inf", "ninf"}}
  \cup {[ty |-> t, node |-> [k |-> "str", s |-> s]] : t \in {"String", "&str"}, s \in {<<>>, <<97>>, <<233, 128512>>, <<34, 92>>,
                                                                                      <<49, 50, 51>>, <<116, 114, 117, 101>>, <<110, 117, 108, 108>>, <<91, 49, 44, 50, 93>>, <<34, 113, 34>>, <<123, 125>>}}
  \cup {[ty |-> "bool", node |-> [k |-> "bool", b |-> b]] : b \in BOOLEAN}
  \cup {[ty |-> "()", node |-> [k |-> "unit"]]}
  \cup {[ty |-> t, json |-> j] : t \in ValueTypes,
          j \in {JNull, JTrue, JIntS("1"), JIntS("18446744073709551615"), JIntS("-9223372036854775808"), JNum(3, 2), JStr(<<233>>), JArr(<<>>),
                 JArr(<<JIntS("1"), JStr(<<97>>), JNull>>), JObj(<<>>), MkObj(<<JMem(<<98>>, JIntS("2")), JMem(<<97>>, JArr(<<JNum(1, 2)>>))>>),
                 \* neighbours that are different JSON numbers with the same (or nearly the same) double: each keeps its own spelling
                 JArr(<<JIntS("1"), JNum(1, 1)>>), JArr(<<JNum(1, 1), JIntS("1"), JNum(1, 1)>>), JArr(<<JIntS("9007199254740992"), JIntS("9007199254740993")>>),
                 JArr(<<JNum(0, 1), JIntS("0")>>), JArr(<<JArr(<<JIntS("1")>>), JArr(<<JNum(1, 1)>>)>>), JArr(<<JStr(<<49>>), JIntS("1"), JStr(<<49>>)>>),
                 MkObj(<<JMem(<<97>>, JArr(<<JIntS("2"), JNum(2, 1), JIntS("2")>>)), JMem(<<98>>, JArr(<<JIntS("18446744073709551615"), JIntS("18446744073709551614")>>))>>),
                 JArr(<<JTrue, JTrue, JNull, JNull, JStr(<<>>), JStr(<<>>)>>)}}
=============================================================================
