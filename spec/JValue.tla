------------------------------- MODULE JValue -------------------------------
(***************************************************************************)
(* Tagged JSON values: the data domain of every other module.              *)
(*                                                                         *)
(*   null      [t |-> "null"]                                              *)
(*   boolean   [t |-> "bool", b |-> TRUE]                                  *)
(*   number    [t |-> "num",  p |-> 3, q |-> 2]   normalised rational 3/2  *)
(*   string    [t |-> "str",  s |-> <<97, 233>>]  sequence of code points  *)
(*   array     [t |-> "arr",  a |-> <<...>>]                               *)
(*   object    [t |-> "obj",  o |-> <<[k |-> key, v |-> val], ...>>]       *)
(*             members strictly ascending by key (code-point order)        *)
(*   expref    [t |-> "expref", ast |-> AST]                               *)
(* Every type has its own payload field name, so that TLC never has to     *)
(* compare payloads of different types when it normalises a set of values  *)
(* (its record comparison interleaves field names and field values).       *)
(*                                                                         *)
(* Because numbers are normalised and objects are key-sorted, structural   *)
(* equality of these records IS JMESPath deep equality (1 == 1.0).         *)
(* Mirrors jmespath/src/variable.rs:52-163, 350-427.                       *)
(***************************************************************************)
EXTENDS Integers, Sequences, FiniteSets, TLC

JNull      == [t |-> "null"]
JBool(b)   == [t |-> "bool", b |-> b]
JTrue      == JBool(TRUE)
JFalse     == JBool(FALSE)
JNum(p, q) == [t |-> "num", p |-> p, q |-> q]
JInt(n)    == JNum(n, 1)
JStr(s)    == [t |-> "str", s |-> s]
JArr(xs)   == [t |-> "arr", a |-> xs]
JObj(ms)   == [t |-> "obj", o |-> ms]
JMem(k, v) == [k |-> k, v |-> v]
JExpref(a) == [t |-> "expref", ast |-> a]

IsNull(v)   == v.t = "null"
IsBool(v)   == v.t = "bool"
IsNum(v)    == v.t = "num"
IsStr(v)    == v.t = "str"
IsArr(v)    == v.t = "arr"
IsObj(v)    == v.t = "obj"
IsExpref(v) == v.t = "expref"

(* The name the `type` built-in reports (variable.rs:32-48). *)
TypeName(v) ==
  CASE v.t = "null"   -> "null"
    [] v.t = "bool"   -> "boolean"
    [] v.t = "num"    -> "number"
    [] v.t = "str"    -> "string"
    [] v.t = "arr"    -> "array"
    [] v.t = "obj"    -> "object"
    [] v.t = "expref" -> "expref"

(* ASCII helper: a TLA+ string of lower-case letters/underscore as code points. *)
AsciiTable == [c \in {"a","b","c","d","e","f","g","h","i","j","k","l","m","n","o","p",
                      "q","r","s","t","u","v","w","x","y","z","_"} |->
   CASE c = "a" -> 97  [] c = "b" -> 98  [] c = "c" -> 99  [] c = "d" -> 100
     [] c = "e" -> 101 [] c = "f" -> 102 [] c = "g" -> 103 [] c = "h" -> 104
     [] c = "i" -> 105 [] c = "j" -> 106 [] c = "k" -> 107 [] c = "l" -> 108
     [] c = "m" -> 109 [] c = "n" -> 110 [] c = "o" -> 111 [] c = "p" -> 112
     [] c = "q" -> 113 [] c = "r" -> 114 [] c = "s" -> 115 [] c = "t" -> 116
     [] c = "u" -> 117 [] c = "v" -> 118 [] c = "w" -> 119 [] c = "x" -> 120
     [] c = "y" -> 121 [] c = "z" -> 122 [] c = "_" -> 95]

(***************************************************************************)
(* Truthiness (JMESPath spec: false, null, "", [], {} are false-like;      *)
(* every number, including 0, is truthy).  variable.rs:386-395             *)
(***************************************************************************)
Truthy(v) ==
  CASE v.t = "null"   -> FALSE
    [] v.t = "bool"   -> v.b
    [] v.t = "num"    -> TRUE
    [] v.t = "str"    -> v.s # <<>>
    [] v.t = "arr"    -> v.a # <<>>
    [] v.t = "obj"    -> v.o # <<>>
    [] v.t = "expref" -> FALSE

(***************************************************************************)
(* Rationals.  All arithmetic stays far inside 32 bits on the modelled     *)
(* domain (|p|, q <= a few thousand).                                      *)
(***************************************************************************)
Abs(n) == IF n < 0 THEN -n ELSE n

RECURSIVE Gcd(_, _)
Gcd(a, b) == IF b = 0 THEN a ELSE Gcd(b, a % b)

Rat(p, q) ==        \* normalise p/q, q # 0
  LET s == IF q < 0 THEN -1 ELSE 1
      g == Gcd(Abs(p), Abs(q))
  IN IF p = 0 THEN JNum(0, 1) ELSE JNum((s * p) \div g, (s * q) \div g)

(***************************************************************************)
(* Neighbouring doubles.  A number may carry a third field u:              *)
(*   [t |-> "num", p |-> 3, q |-> 10, u |-> 1]   the double one unit in    *)
(*   the last place ABOVE the double nearest to 3/10 (u < 0: below).        *)
(* Such numbers are distinct JSON numbers that the library's tolerant '==' *)
(* (variable.rs:70-90) identifies, while its ordering (partial_cmp on f64) *)
(* and therefore sort / max / min / the by-functions tell them apart.      *)
(* u = INEXACT: "some double near p/q" -- the result of floating-point     *)
(* arithmetic (sum, avg) whose rounding the model does not follow.         *)
(* Normal form: no u field when u = 0, so every other number is unchanged. *)
(***************************************************************************)
INEXACT == 9999
UOf(a) == IF "u" \in DOMAIN a THEN a.u ELSE 0
WithU(a, k) == IF k = 0 THEN JNum(a.p, a.q) ELSE [t |-> "num", p |-> a.p, q |-> a.q, u |-> k]
JNear(p, q, k) == WithU(Rat(p, q), k)
IsInexact(a) == UOf(a) = INEXACT
SameBase(a, b) == a.p * b.q = b.p * a.q
Pow10N(k) == CASE k = 0 -> 1 [] k = 1 -> 10 [] k = 2 -> 100 [] k = 3 -> 1000 [] k = 4 -> 10000 [] k = 5 -> 100000 [] k = 6 -> 1000000
               [] k = 7 -> 10000000 [] k = 8 -> 100000000 [] k = 9 -> 1000000000
Dyadic(q) == q \in {1, 2, 4, 8, 16, 32, 64, 128, 256, 512, 1024}
(* an arithmetic result: exact when every operand was exact and dyadic (binary floating point is exact there) *)
Rounded(r, exact) == IF exact /\ Dyadic(r.q) THEN r ELSE WithU(r, INEXACT)
ExactNum(a) == UOf(a) = 0 /\ Dyadic(a.q)

(***************************************************************************)
(* Large magnitudes.  [t |-> "num", p |-> 11, q |-> 1, e |-> 18] is the    *)
(* number 11 * 10^18: p has at most 9 digits and is not a multiple of 10,  *)
(* and the value is at least 10^10 (Digits(p) + e >= 11), beyond every     *)
(* plain number of the model (|p/q| < 2^31).  Normal form is unique, so    *)
(* structural equality is numeric equality here too (1e19 = 10000000000000000000). *)
(***************************************************************************)
EOf(a) == IF "e" \in DOMAIN a THEN a.e ELSE 0
IsBig(a) == EOf(a) > 0
JBig(p, e) == [t |-> "num", p |-> p, q |-> 1, e |-> e]
Digits(n) == CHOOSE d \in 1..10 : (d = 10 \/ n < Pow10N(d)) /\ (d = 1 \/ n >= Pow10N(d - 1))
Scale9(n) == n * Pow10N(9 - Digits(n))                     \* n has at most 9 digits
BigMagLess(a, b) ==                                        \* both big, compared by magnitude
  LET da == Digits(Abs(a.p)) + a.e  db == Digits(Abs(b.p)) + b.e
  IN da < db \/ (da = db /\ Scale9(Abs(a.p)) < Scale9(Abs(b.p)))
BigLess(a, b) ==                                           \* at least one of a, b is big
  IF IsBig(a) /\ IsBig(b)
  THEN IF (a.p < 0) # (b.p < 0) THEN a.p < 0 ELSE IF a.p > 0 THEN BigMagLess(a, b) ELSE BigMagLess(b, a)
  ELSE IF IsBig(a) THEN a.p < 0 ELSE b.p > 0

PlainLess(a, b) == a.p * b.q < b.p * a.q \/ (SameBase(a, b) /\ UOf(a) < UOf(b))
NumLess(a, b) == IF IsBig(a) \/ IsBig(b) THEN BigLess(a, b) ELSE PlainLess(a, b)
NumLeq(a, b)  == IF IsBig(a) \/ IsBig(b) THEN a = b \/ BigLess(a, b)
                 ELSE a.p * b.q < b.p * a.q \/ (SameBase(a, b) /\ UOf(a) <= UOf(b))
(* the order of a and b is not determined by the model: same base and one of them inexact *)
NumOrderOpen(a, b) == ~IsBig(a) /\ ~IsBig(b) /\ SameBase(a, b) /\ (IsInexact(a) \/ IsInexact(b))
(* arithmetic on large magnitudes is outside the model (the caller marks the result open) *)
NumAdd(a, b)  == IF IsBig(a) \/ IsBig(b) THEN WithU(JInt(0), INEXACT)
                 ELSE Rounded(Rat(a.p * b.q + b.p * a.q, a.q * b.q), ExactNum(a) /\ ExactNum(b))
FlipU(k)      == IF k = INEXACT THEN INEXACT ELSE -k
NumNeg(a)     == IF "u" \in DOMAIN a THEN [a EXCEPT !.p = -a.p, !.u = FlipU(a.u)] ELSE [a EXCEPT !.p = -a.p]
NumAbs(a)     == IF a.p < 0 THEN NumNeg(a) ELSE a
NumDivInt(a, n) == IF IsBig(a) THEN WithU(JInt(0), INEXACT) ELSE Rounded(Rat(a.p, a.q * n), ExactNum(a))
FloorDiv(p, q) == p \div q       \* TLA+ \div rounds toward minus infinity for q > 0
(* floor / ceil of a neighbour of an integer depend on the side it lies on; of an inexact integer they are open *)
NumFloor(a)   == IF IsBig(a) THEN a ELSE IF a.q = 1 /\ UOf(a) < 0 THEN JInt(a.p - 1) ELSE JInt(FloorDiv(a.p, a.q))
NumCeil(a)    == IF IsBig(a) THEN a ELSE IF a.q = 1 /\ UOf(a) > 0 /\ ~IsInexact(a) THEN JInt(a.p + 1) ELSE JInt(-FloorDiv(-a.p, a.q))
RoundOpen(a)  == a.q = 1 /\ IsInexact(a)

(***************************************************************************)
(* Code-point lexicographic order on strings (= UTF-8 byte order).         *)
(***************************************************************************)
RECURSIVE SeqLess(_, _)
SeqLess(a, b) ==
  IF b = <<>> THEN FALSE
  ELSE IF a = <<>> THEN TRUE
  ELSE IF Head(a) < Head(b) THEN TRUE
  ELSE IF Head(a) > Head(b) THEN FALSE
  ELSE SeqLess(Tail(a), Tail(b))

StrLess(a, b) == SeqLess(a.s, b.s)

(***************************************************************************)
(* Objects                                                                 *)
(***************************************************************************)
ObjHas(x, key) == \E i \in DOMAIN x.o : x.o[i].k = key
ObjGet(x, key) ==
  IF ObjHas(x, key)
  THEN x.o[CHOOSE i \in DOMAIN x.o : x.o[i].k = key].v
  ELSE JNull
ObjKeys(x) == [i \in DOMAIN x.o |-> JStr(x.o[i].k)]
ObjVals(x) == [i \in DOMAIN x.o |-> x.o[i].v]
ObjKeySet(x) == {x.o[i].k : i \in DOMAIN x.o}

(* Build an object from a sequence of members, later duplicates winning,   *)
(* result sorted by key.                                                   *)
LastIndexOf(ms, key) == CHOOSE i \in DOMAIN ms :
                          ms[i].k = key /\ \A j \in DOMAIN ms : ms[j].k = key => j <= i
MkObj(ms) ==
  LET keys == {ms[i].k : i \in DOMAIN ms}
      uniq == {ms[LastIndexOf(ms, key)] : key \in keys}
      RECURSIVE Build(_)
      Build(S) == IF S = {} THEN <<>>
                  ELSE LET m == CHOOSE x \in S : \A y \in S : y.k = x.k \/ SeqLess(x.k, y.k)
                       IN <<m>> \o Build(S \ {m})
  IN JObj(Build(uniq))

SortedKeys(x) == \A i \in 1..(Len(x.o) - 1) : SeqLess(x.o[i].k, x.o[i + 1].k)

(***************************************************************************)
(* Well-formedness of a tagged value (used as a domain check by judges so  *)
(* that a harness bug is a tool error and not a verdict).                  *)
(***************************************************************************)
RECURSIVE WF(_)
WF(v) ==
  CASE v.t = "null" -> TRUE
    [] v.t = "bool" -> v.b \in BOOLEAN
    [] v.t = "num"  -> v.q > 0 /\ Gcd(Abs(v.p), v.q) = 1 /\ ("u" \in DOMAIN v => v.u # 0)
                       /\ ("e" \in DOMAIN v => v.q = 1 /\ v.p # 0 /\ v.p % 10 # 0 /\ v.e >= 1 /\ Digits(Abs(v.p)) + v.e >= 11)
    [] v.t = "str"  -> \A i \in DOMAIN v.s : v.s[i] \in 0..1114111
    [] v.t = "arr"  -> \A i \in DOMAIN v.a : WF(v.a[i])
    [] v.t = "obj"  -> SortedKeys(v) /\ \A i \in DOMAIN v.o : WF(v.o[i].v)
    [] OTHER -> FALSE

(***************************************************************************)
(* EraseU: the value with every number replaced by its base.  Two values   *)
(* with the same erasure are what the tolerant '==' may identify.          *)
(* Matches(e, o): the observed value o is the expected value e, where an   *)
(* INEXACT expected number matches every observed neighbour of its base.   *)
(***************************************************************************)
RECURSIVE EraseU(_), HasInexact(_), HasNear(_), Matches(_, _)
EraseU(v) == CASE v.t = "num" -> IF "u" \in DOMAIN v THEN JNum(v.p, v.q) ELSE v
               [] v.t = "arr" -> JArr([i \in DOMAIN v.a |-> EraseU(v.a[i])])
               [] v.t = "obj" -> JObj([i \in DOMAIN v.o |-> JMem(v.o[i].k, EraseU(v.o[i].v))])
               [] OTHER -> v
HasInexact(v) == CASE v.t = "num" -> "p" \in DOMAIN v /\ IsInexact(v)
                   [] v.t = "arr" -> \E i \in DOMAIN v.a : HasInexact(v.a[i])
                   [] v.t = "obj" -> \E i \in DOMAIN v.o : HasInexact(v.o[i].v)
                   [] OTHER -> FALSE
HasNear(v) == CASE v.t = "num" -> "p" \in DOMAIN v /\ (UOf(v) # 0 \/ IsBig(v))
                [] v.t = "arr" -> \E i \in DOMAIN v.a : HasNear(v.a[i])
                [] v.t = "obj" -> \E i \in DOMAIN v.o : HasNear(v.o[i].v)
                [] OTHER -> FALSE
Matches(e, o) ==
  IF e.t # o.t THEN FALSE
  ELSE CASE e.t = "num" -> IF "p" \notin DOMAIN e \/ "p" \notin DOMAIN o THEN e = o      \* numbers outside the modelled domain
                           ELSE e.p = o.p /\ e.q = o.q /\ EOf(e) = EOf(o) /\ (IsInexact(e) \/ UOf(e) = UOf(o))
         [] e.t = "arr" -> Len(e.a) = Len(o.a) /\ \A i \in DOMAIN e.a : Matches(e.a[i], o.a[i])
         [] e.t = "obj" -> Len(e.o) = Len(o.o) /\ \A i \in DOMAIN e.o : e.o[i].k = o.o[i].k /\ Matches(e.o[i].v, o.o[i].v)
         [] OTHER -> e = o
(* '==' of the library on l and r is not determined by the model: equal up to neighbouring doubles, but not identical *)
EqOpen(l, r) == EraseU(l) = EraseU(r) /\ (l # r \/ HasInexact(l))

(***************************************************************************)
(* Bounded universes.  Atoms + arrays/objects of bounded width over them.  *)
(***************************************************************************)
SeqsUpTo(S, n) == UNION {[1..m -> S] : m \in 0..n}

Atoms == {JNull, JTrue, JFalse, JInt(0), JInt(1), JInt(-1), JStr(<<>>), JStr(<<97>>)}

KeyA == <<97>>
KeyB == <<98>>
KeyC == <<99>>

(* all objects over the given keys (any subset) with values in S *)
ObjsOver(keys, S) ==
  LET ks == SUBSET keys
  IN UNION { { MkObj(f) : f \in { g \in [1..Cardinality(K) -> [k : K, v : S]] :
                                   \A i, j \in 1..Cardinality(K) : i # j => g[i].k # g[j].k } }
             : K \in ks }

RECURSIVE Univ(_, _, _)
Univ(atoms, depth, width) ==
  IF depth = 0 THEN atoms
  ELSE LET sub == Univ(atoms, depth - 1, width)
       IN sub \cup {JArr(s) : s \in SeqsUpTo(sub, width)}
              \cup ObjsOver({KeyA, KeyB}, sub)

=============================================================================
