------------------------------- MODULE JValue -------------------------------
(***************************************************************************)
(* Tagged JSON values: the data domain of every other module.              *)
(*                                                                         *)
(*   null      [t |-> "null"]                                              *)
(*   boolean   [t |-> "bool", b |-> TRUE]                                  *)
(*   number    [t |-> "num",  p |-> 3, q |-> 2]   normalised rational 3/2  *)
(*   string    [t |-> "str",  s |-> <<97, 233>>]  sequence of code points  *)
(*   array     [t |-> "arr",  a |-> <<...>>]                               *)
(*   object    [t |-> "obj",  o |-> <<[k |-> key, v |-> val], ...>>]       *)
(*             members strictly ascending by key (code-point order)        *)
(*   expref    [t |-> "expref", ast |-> AST]                               *)
(* Every type has its own payload field name, so that TLC never has to     *)
(* compare payloads of different types when it normalises a set of values  *)
(* (its record comparison interleaves field names and field values).       *)
(*                                                                         *)
(* Because numbers are normalised and objects are key-sorted, structural   *)
(* equality of these records IS JMESPath deep equality (1 == 1.0).         *)
(* Mirrors jmespath/src/variable.rs:52-163, 350-427.                       *)
(***************************************************************************)
EXTENDS Integers, Sequences, FiniteSets, TLC

JNull      == [t |-> "null"]
JBool(b)   == [t |-> "bool", b |-> b]
JTrue      == JBool(TRUE)
JFalse     == JBool(FALSE)
JNum(p, q) == [t |-> "num", p |-> p, q |-> q]
JInt(n)    == JNum(n, 1)
JStr(s)    == [t |-> "str", s |-> s]
JArr(xs)   == [t |-> "arr", a |-> xs]
JObj(ms)   == [t |-> "obj", o |-> ms]
JMem(k, v) == [k |-> k, v |-> v]
JExpref(a) == [t |-> "expref", ast |-> a]

IsNull(v)   == v.t = "null"
IsBool(v)   == v.t = "bool"
IsNum(v)    == v.t = "num"
IsStr(v)    == v.t = "str"
IsArr(v)    == v.t = "arr"
IsObj(v)    == v.t = "obj"
IsExpref(v) == v.t = "expref"

(* The name the `type` built-in reports (variable.rs:32-48). *)
TypeName(v) ==
  CASE v.t = "null"   -> "null"
    [] v.t = "bool"   -> "boolean"
    [] v.t = "num"    -> "number"
    [] v.t = "str"    -> "string"
    [] v.t = "arr"    -> "array"
    [] v.t = "obj"    -> "object"
    [] v.t = "expref" -> "expref"

(* ASCII helper: a TLA+ string of lower-case letters/underscore as code points. *)
AsciiTable == [c \in {"a","b","c","d","e","f","g","h","i","j","k","l","m","n","o","p",
                      "q","r","s","t","u","v","w","x","y","z","_"} |->
   CASE c = "a" -> 97  [] c = "b" -> 98  [] c = "c" -> 99  [] c = "d" -> 100
     [] c = "e" -> 101 [] c = "f" -> 102 [] c = "g" -> 103 [] c = "h" -> 104
     [] c = "i" -> 105 [] c = "j" -> 106 [] c = "k" -> 107 [] c = "l" -> 108
     [] c = "m" -> 109 [] c = "n" -> 110 [] c = "o" -> 111 [] c = "p" -> 112
     [] c = "q" -> 113 [] c = "r" -> 114 [] c = "s" -> 115 [] c = "t" -> 116
     [] c = "u" -> 117 [] c = "v" -> 118 [] c = "w" -> 119 [] c = "x" -> 120
     [] c = "y" -> 121 [] c = "z" -> 122 [] c = "_" -> 95]

(***************************************************************************)
(* Truthiness (JMESPath spec: false, null, "", [], {} are false-like;      *)
(* every number, including 0, is truthy).  variable.rs:386-395             *)
(***************************************************************************)
Truthy(v) ==
  CASE v.t = "null"   -> FALSE
    [] v.t = "bool"   -> v.b
    [] v.t = "num"    -> TRUE
    [] v.t = "str"    -> v.s # <<>>
    [] v.t = "arr"    -> v.a # <<>>
    [] v.t = "obj"    -> v.o # <<>>
    [] v.t = "expref" -> FALSE

(***************************************************************************)
(* Rationals.  All arithmetic stays far inside 32 bits on the modelled     *)
(* domain (|p|, q <= a few thousand).                                      *)
(***************************************************************************)
Abs(n) == IF n < 0 THEN -n ELSE n

RECURSIVE Gcd(_, _)
Gcd(a, b) == IF b = 0 THEN a ELSE Gcd(b, a % b)

Rat(p, q) ==        \* normalise p/q, q # 0
  LET s == IF q < 0 THEN -1 ELSE 1
      g == Gcd(Abs(p), Abs(q))
  IN IF p = 0 THEN JNum(0, 1) ELSE JNum((s * p) \div g, (s * q) \div g)

NumLess(a, b) == a.p * b.q < b.p * a.q
NumLeq(a, b)  == a.p * b.q <= b.p * a.q
NumAdd(a, b)  == Rat(a.p * b.q + b.p * a.q, a.q * b.q)
NumNeg(a)     == JNum(-a.p, a.q)
NumAbs(a)     == JNum(Abs(a.p), a.q)
NumDivInt(a, n) == Rat(a.p, a.q * n)
FloorDiv(p, q) == p \div q       \* TLA+ \div rounds toward minus infinity for q > 0
NumFloor(a)   == JInt(FloorDiv(a.p, a.q))
NumCeil(a)    == JInt(-FloorDiv(-a.p, a.q))

(***************************************************************************)
(* Code-point lexicographic order on strings (= UTF-8 byte order).         *)
(***************************************************************************)
RECURSIVE SeqLess(_, _)
SeqLess(a, b) ==
  IF b = <<>> THEN FALSE
  ELSE IF a = <<>> THEN TRUE
  ELSE IF Head(a) < Head(b) THEN TRUE
  ELSE IF Head(a) > Head(b) THEN FALSE
  ELSE SeqLess(Tail(a), Tail(b))

StrLess(a, b) == SeqLess(a.s, b.s)

(***************************************************************************)
(* Objects                                                                 *)
(***************************************************************************)
ObjHas(x, key) == \E i \in DOMAIN x.o : x.o[i].k = key
ObjGet(x, key) ==
  IF ObjHas(x, key)
  THEN x.o[CHOOSE i \in DOMAIN x.o : x.o[i].k = key].v
  ELSE JNull
ObjKeys(x) == [i \in DOMAIN x.o |-> JStr(x.o[i].k)]
ObjVals(x) == [i \in DOMAIN x.o |-> x.o[i].v]
ObjKeySet(x) == {x.o[i].k : i \in DOMAIN x.o}

(* Build an object from a sequence of members, later duplicates winning,   *)
(* result sorted by key.                                                   *)
LastIndexOf(ms, key) == CHOOSE i \in DOMAIN ms :
                          ms[i].k = key /\ \A j \in DOMAIN ms : ms[j].k = key => j <= i
MkObj(ms) ==
  LET keys == {ms[i].k : i \in DOMAIN ms}
      uniq == {ms[LastIndexOf(ms, key)] : key \in keys}
      RECURSIVE Build(_)
      Build(S) == IF S = {} THEN <<>>
                  ELSE LET m == CHOOSE x \in S : \A y \in S : y.k = x.k \/ SeqLess(x.k, y.k)
                       IN <<m>> \o Build(S \ {m})
  IN JObj(Build(uniq))

SortedKeys(x) == \A i \in 1..(Len(x.o) - 1) : SeqLess(x.o[i].k, x.o[i + 1].k)

(***************************************************************************)
(* Well-formedness of a tagged value (used as a domain check by judges so  *)
(* that a harness bug is a tool error and not a verdict).                  *)
(***************************************************************************)
RECURSIVE WF(_)
WF(v) ==
  CASE v.t = "null" -> TRUE
    [] v.t = "bool" -> v.b \in BOOLEAN
    [] v.t = "num"  -> v.q > 0 /\ Gcd(Abs(v.p), v.q) = 1
    [] v.t = "str"  -> \A i \in DOMAIN v.s : v.s[i] \in 0..1114111
    [] v.t = "arr"  -> \A i \in DOMAIN v.a : WF(v.a[i])
    [] v.t = "obj"  -> SortedKeys(v) /\ \A i \in DOMAIN v.o : WF(v.o[i].v)
    [] OTHER -> FALSE

(***************************************************************************)
(* Bounded universes.  Atoms + arrays/objects of bounded width over them.  *)
(***************************************************************************)
SeqsUpTo(S, n) == UNION {[1..m -> S] : m \in 0..n}

Atoms == {JNull, JTrue, JFalse, JInt(0), JInt(1), JInt(-1), JStr(<<>>), JStr(<<97>>)}

KeyA == <<97>>
KeyB == <<98>>
KeyC == <<99>>

(* all objects over the given keys (any subset) with values in S *)
ObjsOver(keys, S) ==
  LET ks == SUBSET keys
  IN UNION { { MkObj(f) : f \in { g \in [1..Cardinality(K) -> [k : K, v : S]] :
                                   \A i, j \in 1..Cardinality(K) : i # j => g[i].k # g[j].k } }
             : K \in ks }

RECURSIVE Univ(_, _, _)
Univ(atoms, depth, width) ==
  IF depth = 0 THEN atoms
  ELSE LET sub == Univ(atoms, depth - 1, width)
       IN sub \cup {JArr(s) : s \in SeqsUpTo(sub, width)}
              \cup ObjsOver({KeyA, KeyB}, sub)

=============================================================================
