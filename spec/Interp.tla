------------------------------- MODULE Interp -------------------------------
(***************************************************************************)
(* Level 1: the tree-walking evaluator of jmespath/src/interpreter.rs      *)
(* (one clause per match arm, loops written as the loops of the code) with *)
(* the value helpers of variable.rs (get_field, get_index,                 *)
(* get_negative_index, is_truthy, compare, slice).  Built-in function      *)
(* bodies are not transcribed a second time (Eval!Apply gives their        *)
(* value); what is Level 1 here is the call protocol of                    *)
(* interpreter.rs:146-165: arguments left to right, then the lookup.       *)
(*                                                                         *)
(* MC_Eval checks Interp = Eval on a bounded universe of trees x values.   *)
(* Switches:                                                               *)
(*   NC_PROJ_KEEPS_NULLS  negative control: Projection keeps nulls         *)
(*   NC_ZERO_FALSY        negative control: is_truthy treats 0 as false    *)
(***************************************************************************)
EXTENDS Eval

(* variable.rs:386-395 *)
IsTruthyL1(v, D) ==
  CASE v.t = "bool" -> v.b
    [] v.t = "str"  -> Len(v.s) # 0
    [] v.t = "arr"  -> Len(v.a) # 0
    [] v.t = "obj"  -> Len(v.o) # 0
    [] v.t = "num"  -> IF "NC_ZERO_FALSY" \in D THEN v.p # 0 ELSE TRUE
    [] OTHER -> FALSE

(* variable.rs:350-357 *)
GetField(v, key) == IF v.t = "obj" /\ ObjHas(v, key) THEN ObjGet(v, key) ELSE JNull

(* interpreter.rs:25-31, variable.rs:361-383 *)
GetIndexL1(v, idx) ==
  IF v.t # "arr" THEN JNull
  ELSE LET j == IndexL1(Len(v.a), idx) IN IF j = NOIDX THEN JNull ELSE v.a[j + 1]

(* variable.rs:70-86 float_eq on the double model of JValue.tla: identical doubles are equal; so are two doubles at most one unit in
   the last place apart (their relative difference is below f64::EPSILON wherever they lie in a binade); for neighbours farther apart
   the bound depends on the position in the binade and the transcription leaves the answer open (FloatEqOpenL1).  This tolerance is a
   NAMED deviation of Level 1 from the exact equality of Level 0 (DEV_TOLERANT_EQ, Appendix C): C10 itself grants it ("well-separated
   numbers"), and MC_Cmp_near checks that it is the ONLY difference between the comparison as coded and Cmp. *)
AbsI(n) == IF n < 0 THEN -n ELSE n
(* variable.rs float_eq as it stood before fix a697374 (finding F18): `diff / (abs_a + abs_b) < EPSILON` with the sum overflowing to
   infinity, so that any two numbers whose magnitudes add up beyond f64::MAX (1.79769313e308) were "equal".  Magnitudes on the model's
   nine significant digits, in units of 10^300.  Negative control NC_FLOAT_EQ_SUM_OVERFLOWS (MC_Cmp_near_neg_overflow.cfg). *)
Mag300(a) == LET d == Digits(Abs(a.p)) + a.e IN IF ~IsBig(a) \/ d < 301 THEN 0 ELSE Scale9(Abs(a.p)) \div Pow10N(309 - d)
SumOverflows(a, b) == Mag300(a) + Mag300(b) >= 179769314
FloatEqL1(a, b, D) == a = b \/ ("NC_FLOAT_EQ_SUM_OVERFLOWS" \in D /\ SumOverflows(a, b)) \/ (~IsBig(a) /\ ~IsBig(b) /\ SameBase(a, b) /\ ~IsInexact(a) /\ ~IsInexact(b) /\ AbsI(UOf(a) - UOf(b)) <= 1)
FloatEqOpenL1(a, b) == a # b /\ ~IsBig(a) /\ ~IsBig(b) /\ SameBase(a, b) /\ (IsInexact(a) \/ IsInexact(b) \/ AbsI(UOf(a) - UOf(b)) > 1)
(* variable.rs:88-110 PartialEq: type-gated, numbers by float_eq, containers element-wise / member-wise *)
RECURSIVE DeepEqL1(_, _, _), DeepEqOpenL1(_, _)
DeepEqL1(l, r, D) ==
  IF l.t # r.t THEN FALSE
  ELSE CASE l.t = "num" -> FloatEqL1(l, r, D)
         [] l.t = "arr" -> Len(l.a) = Len(r.a) /\ \A i \in DOMAIN l.a : DeepEqL1(l.a[i], r.a[i], D)
         [] l.t = "obj" -> Len(l.o) = Len(r.o) /\ \A i \in DOMAIN l.o : l.o[i].k = r.o[i].k /\ DeepEqL1(l.o[i].v, r.o[i].v, D)
         [] OTHER -> l = r
DeepEqOpenL1(l, r) ==
  IF l.t # r.t THEN FALSE
  ELSE CASE l.t = "num" -> FloatEqOpenL1(l, r)
         [] l.t = "arr" -> Len(l.a) = Len(r.a) /\ \E i \in DOMAIN l.a : DeepEqOpenL1(l.a[i], r.a[i])
         [] l.t = "obj" -> Len(l.o) = Len(r.o) /\ \E i \in DOMAIN l.o : l.o[i].k = r.o[i].k /\ DeepEqOpenL1(l.o[i].v, r.o[i].v)
         [] OTHER -> FALSE

(* variable.rs:411-427 compare, with PartialEq (:88-110) and the ordering operators (:113-163: partial_cmp on the doubles, exact) *)
CompareL1(op, l, r, D) ==
  IF ~((l.t = "num" /\ r.t = "num") \/ op = "ne" \/ op = "eq") THEN JNull
  ELSE LET eq == DeepEqL1(l, r, D)                \* type-gated equality; numbers by float_eq
           lt == NumLess(l, r)
           gt == NumLess(r, l)
       IN CASE op = "eq" -> JBool(eq) [] op = "ne" -> JBool(~eq)
            [] op = "lt" -> JBool(lt) [] op = "le" -> JBool(lt \/ ~gt)   \* Ordering Less or Equal
            [] op = "gt" -> JBool(gt) [] op = "ge" -> JBool(gt \/ ~lt)

RECURSIVE Interp(_, _, _, _), ProjLoop(_, _, _, _, _, _), FlatLoop(_, _, _), ListLoop(_, _, _, _, _, _), HashLoop2(_, _, _, _, _, _)

(* for element in left { let current = interpret(element, rhs)?; if !current.is_null() { collected.push(current) } } *)
ProjLoop(rhs, xs, i, REG, D, acc) ==
  IF i > Len(xs) THEN VOkAmb(JArr(acc.vals), acc.amb)
  ELSE LET c == Interp(rhs, xs[i], REG, D) IN
       IF IsVErr(c) THEN WithAmb(c, acc.amb)
       ELSE ProjLoop(rhs, xs, i + 1, REG, D,
              [vals |-> IF c.ok.t # "null" \/ "NC_PROJ_KEEPS_NULLS" \in D THEN Append(acc.vals, c.ok) ELSE acc.vals,
               amb |-> acc.amb \/ c.amb])

(* for element in a { match element.as_array() { Some(array) => collected.extend(array), _ => collected.push(element) } } *)
FlatLoop(xs, i, acc) ==
  IF i > Len(xs) THEN acc
  ELSE FlatLoop(xs, i + 1, IF xs[i].t = "arr" THEN acc \o xs[i].a ELSE Append(acc, xs[i]))

ListLoop(nodes, i, v, REG, D, acc) ==
  IF i > Len(nodes) THEN VOkAmb(acc.vals, acc.amb)
  ELSE LET c == Interp(nodes[i], v, REG, D) IN
       IF IsVErr(c) THEN WithAmb(c, acc.amb)
       ELSE ListLoop(nodes, i + 1, v, REG, D, [vals |-> Append(acc.vals, c.ok), amb |-> acc.amb \/ c.amb])

(* BTreeMap::insert per key-value pair: a later duplicate key replaces the earlier value *)
MapInsert(ms, key, val) ==
  IF \E i \in DOMAIN ms : ms[i].k = key
  THEN [i \in DOMAIN ms |-> IF ms[i].k = key THEN JMem(key, val) ELSE ms[i]]
  ELSE LET before == SelectSeq(ms, LAMBDA m : SeqLess(m.k, key))
           after  == SelectSeq(ms, LAMBDA m : SeqLess(key, m.k))
       IN before \o <<JMem(key, val)>> \o after
HashLoop2(kvs, i, v, REG, D, acc) ==
  IF i > Len(kvs) THEN VOkAmb(JObj(acc.ms), acc.amb)
  ELSE LET c == Interp(kvs[i].v, v, REG, D) IN
       IF IsVErr(c) THEN WithAmb(c, acc.amb)
       ELSE HashLoop2(kvs, i + 1, v, REG, D, [ms |-> MapInsert(acc.ms, kvs[i].k, c.ok), amb |-> acc.amb \/ c.amb])

Interp(a, v, REG, D) ==
  LET n == a.n IN
  CASE n = "Field"    -> VOk(GetField(v, a.name))
    [] n = "Subexpr"  -> LET l == Interp(a.l, v, REG, D) IN IF IsVErr(l) THEN l ELSE WithAmb(Interp(a.r, l.ok, REG, D), l.amb)
    [] n = "Identity" -> VOk(v)
    [] n = "Literal"  -> VOk(a.value)
    [] n = "Index"    -> VOk(GetIndexL1(v, a.idx))
    [] n = "Or"  -> LET l == Interp(a.l, v, REG, D) IN
                    IF IsVErr(l) THEN l ELSE IF IsTruthyL1(l.ok, D) THEN l ELSE WithAmb(Interp(a.r, v, REG, D), l.amb)
    [] n = "And" -> LET l == Interp(a.l, v, REG, D) IN
                    IF IsVErr(l) THEN l ELSE IF ~IsTruthyL1(l.ok, D) THEN l ELSE WithAmb(Interp(a.r, v, REG, D), l.amb)
    [] n = "Not" -> LET r == Interp(a.l, v, REG, D) IN IF IsVErr(r) THEN r ELSE VOkAmb(JBool(~IsTruthyL1(r.ok, D)), r.amb)
    [] n = "Condition" -> LET c == Interp(a.l, v, REG, D) IN
                    IF IsVErr(c) THEN c
                    ELSE IF IsTruthyL1(c.ok, D) THEN WithAmb(Interp(a.r, v, REG, D), c.amb) ELSE VOkAmb(JNull, c.amb)
    [] n = "Comparison" -> LET l == Interp(a.l, v, REG, D) IN
                    IF IsVErr(l) THEN l
                    ELSE LET r == Interp(a.r, v, REG, D) IN
                         IF IsVErr(r) THEN WithAmb(r, l.amb) ELSE VOkAmb(CompareL1(a.op, l.ok, r.ok, D), l.amb \/ r.amb)
    [] n = "ObjectValues" -> LET s == Interp(a.l, v, REG, D) IN
                    IF IsVErr(s) THEN s
                    ELSE VOkAmb(IF s.ok.t = "obj" THEN JArr([i \in DOMAIN s.ok.o |-> s.ok.o[i].v]) ELSE JNull, s.amb)
    [] n = "Projection" -> LET s == Interp(a.l, v, REG, D) IN
                    IF IsVErr(s) THEN s
                    ELSE IF s.ok.t # "arr" THEN VOkAmb(JNull, s.amb)
                    ELSE ProjLoop(a.r, s.ok.a, 1, REG, D, [vals |-> <<>>, amb |-> s.amb])
    [] n = "Flatten" -> LET s == Interp(a.l, v, REG, D) IN
                    IF IsVErr(s) THEN s
                    ELSE VOkAmb(IF s.ok.t = "arr" THEN JArr(FlatLoop(s.ok.a, 1, <<>>)) ELSE JNull, s.amb)
    [] n = "MultiList" -> IF v.t = "null" THEN VOk(JNull)
                    ELSE LET m == ListLoop(a.args, 1, v, REG, D, [vals |-> <<>>, amb |-> FALSE]) IN
                         IF IsVErr(m) THEN m ELSE VOkAmb(JArr(m.ok), m.amb)
    [] n = "MultiHash" -> IF v.t = "null" THEN VOk(JNull)
                    ELSE HashLoop2(a.kvs, 1, v, REG, D, [ms |-> <<>>, amb |-> FALSE])
    [] n = "Function" -> LET m == ListLoop(a.args, 1, v, REG, D, [vals |-> <<>>, amb |-> FALSE]) IN
                    IF IsVErr(m) THEN m
                    ELSE IF a.name \notin DOMAIN REG THEN WithAmb(VErr("unknown"), m.amb)
                    ELSE WithAmb(ApplyBinding(REG[a.name], a.name, m.ok, REG), m.amb)
    [] n = "Expref" -> VOk(JExpref(a.l))
    [] n = "Slice" -> IF a.step = 0 THEN VErr("slice")
                      ELSE IF v.t # "arr" THEN VOk(JNull)
                      ELSE LET r == SliceL1(Len(v.a), a.start, a.stop, a.step, D)
                           IN IF r.ovf \/ r.oob THEN VErr("panic") ELSE VOk(JArr([k \in DOMAIN r.out |-> v.a[r.out[k] + 1]]))
=============================================================================
