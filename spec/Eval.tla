-------------------------------- MODULE Eval --------------------------------
(***************************************************************************)
(* Level 0: the meaning of a JMESPath expression (an AST of Tokens.tla) on *)
(* a JSON value, written from the JMESPath specification and its function  *)
(* specification (C01, C02, C06, C10, C11).                                *)
(*                                                                         *)
(* An outcome is [ok |-> value, amb |-> b] or [err |-> kind, amb |-> b],   *)
(* kind in "slice", "arity", "type", "unknown".  amb records that a choice *)
(* the specification leaves open was made on the way (which of several     *)
(* tied elements max_by / min_by return): a judge must not insist on this  *)
(* particular value then.                                                  *)
(*                                                                         *)
(* REG: the function registry a runtime holds when the expression is       *)
(* compiled: a function from names to bindings.  [k |-> "builtin"] is the  *)
(* built-in of that name; custom functions (C15) are                       *)
(*   [k |-> "const", id |-> n]     a closure returning the number n        *)
(*   [k |-> "sigconst", id |-> n]  the same behind a declared signature    *)
(*                                 (one number argument)                   *)
(*   [k |-> "first", id |-> n]     a closure returning its first argument  *)
(* A name outside DOMAIN REG is an unknown function.                       *)
(***************************************************************************)
EXTENDS Tokens, Slice, JsonParse, JText, SequencesExt

VOk(v)        == [ok |-> v, amb |-> FALSE]
VOkAmb(v, b)  == [ok |-> v, amb |-> b]
VErr(kind)    == [err |-> kind, amb |-> FALSE]
IsVOk(o)      == "ok" \in DOMAIN o
IsVErr(o)     == "err" \in DOMAIN o
WithAmb(o, b) == IF b THEN [o EXCEPT !.amb = TRUE] ELSE o

(* name -> code points for ASCII names *)
NameCps(str) == CASE str = "abs" -> <<97,98,115>> [] str = "avg" -> <<97,118,103>> [] str = "ceil" -> <<99,101,105,108>>
  [] str = "contains" -> <<99,111,110,116,97,105,110,115>> [] str = "ends_with" -> <<101,110,100,115,95,119,105,116,104>>
  [] str = "floor" -> <<102,108,111,111,114>> [] str = "join" -> <<106,111,105,110>> [] str = "keys" -> <<107,101,121,115>>
  [] str = "length" -> <<108,101,110,103,116,104>> [] str = "map" -> <<109,97,112>> [] str = "max" -> <<109,97,120>>
  [] str = "max_by" -> <<109,97,120,95,98,121>> [] str = "merge" -> <<109,101,114,103,101>> [] str = "min" -> <<109,105,110>>
  [] str = "min_by" -> <<109,105,110,95,98,121>> [] str = "not_null" -> <<110,111,116,95,110,117,108,108>>
  [] str = "reverse" -> <<114,101,118,101,114,115,101>> [] str = "sort" -> <<115,111,114,116>>
  [] str = "sort_by" -> <<115,111,114,116,95,98,121>> [] str = "starts_with" -> <<115,116,97,114,116,115,95,119,105,116,104>>
  [] str = "sum" -> <<115,117,109>> [] str = "to_array" -> <<116,111,95,97,114,114,97,121>>
  [] str = "to_number" -> <<116,111,95,110,117,109,98,101,114>> [] str = "to_string" -> <<116,111,95,115,116,114,105,110,103>>
  [] str = "type" -> <<116,121,112,101>> [] str = "values" -> <<118,97,108,117,101,115>>

TypeCps(t) == CASE t = "null" -> <<110,117,108,108>> [] t = "boolean" -> <<98,111,111,108,101,97,110>>
  [] t = "number" -> <<110,117,109,98,101,114>> [] t = "string" -> <<115,116,114,105,110,103>>
  [] t = "array" -> <<97,114,114,97,121>> [] t = "object" -> <<111,98,106,101,99,116>>
  [] t = "expref" -> <<101,120,112,114,101,102>>

FnNames == <<"abs", "avg", "ceil", "contains", "ends_with", "floor", "join", "keys", "length", "map", "max",
             "max_by", "merge", "min", "min_by", "not_null", "reverse", "sort", "sort_by", "starts_with", "sum",
             "to_array", "to_number", "to_string", "type", "values">>
FnOf(cpname) == IF \E i \in DOMAIN FnNames : NameCps(FnNames[i]) = cpname
                THEN FnNames[CHOOSE i \in DOMAIN FnNames : NameCps(FnNames[i]) = cpname] ELSE "?"

(***************************************************************************)
(* Signatures (DESIGN.md Appendix A).  A parameter type is a set of type   *)
(* classes; "anum"/"astr" = array whose elements are all numbers/strings.  *)
(***************************************************************************)
ANY == {"null", "boolean", "number", "string", "array", "object"}
Sig(f) ==
  CASE f = "abs" -> [ps |-> <<{"number"}>>, var |-> {}]
    [] f = "avg" -> [ps |-> <<{"anum"}>>, var |-> {}]
    [] f = "ceil" -> [ps |-> <<{"number"}>>, var |-> {}]
    [] f = "contains" -> [ps |-> <<{"array", "string"}, ANY>>, var |-> {}]
    [] f = "ends_with" -> [ps |-> <<{"string"}, {"string"}>>, var |-> {}]
    [] f = "floor" -> [ps |-> <<{"number"}>>, var |-> {}]
    [] f = "join" -> [ps |-> <<{"string"}, {"astr"}>>, var |-> {}]
    [] f = "keys" -> [ps |-> <<{"object"}>>, var |-> {}]
    [] f = "length" -> [ps |-> <<{"string", "array", "object"}>>, var |-> {}]
    [] f = "map" -> [ps |-> <<{"expref"}, {"array"}>>, var |-> {}]
    [] f = "max" -> [ps |-> <<{"anum", "astr"}>>, var |-> {}]
    [] f = "max_by" -> [ps |-> <<{"array"}, {"expref"}>>, var |-> {}]
    [] f = "merge" -> [ps |-> <<{"object"}>>, var |-> {"object"}]
    [] f = "min" -> [ps |-> <<{"anum", "astr"}>>, var |-> {}]
    [] f = "min_by" -> [ps |-> <<{"array"}, {"expref"}>>, var |-> {}]
    [] f = "not_null" -> [ps |-> <<ANY>>, var |-> ANY]
    [] f = "reverse" -> [ps |-> <<{"array", "string"}>>, var |-> {}]
    [] f = "sort" -> [ps |-> <<{"anum", "astr"}>>, var |-> {}]
    [] f = "sort_by" -> [ps |-> <<{"array"}, {"expref"}>>, var |-> {}]
    [] f = "starts_with" -> [ps |-> <<{"string"}, {"string"}>>, var |-> {}]
    [] f = "sum" -> [ps |-> <<{"anum"}>>, var |-> {}]
    [] f = "to_array" -> [ps |-> <<ANY>>, var |-> {}]
    [] f = "to_number" -> [ps |-> <<ANY>>, var |-> {}]
    [] f = "to_string" -> [ps |-> <<ANY>>, var |-> {}]
    [] f = "type" -> [ps |-> <<ANY>>, var |-> {}]
    [] f = "values" -> [ps |-> <<{"object"}>>, var |-> {}]

(* result types declared by the function specification *)
ResultTypes(f) ==
  CASE f \in {"abs", "ceil", "floor", "length", "sum"} -> {"number"}
    [] f = "avg" -> {"number", "null"}
    [] f \in {"contains", "ends_with", "starts_with"} -> {"boolean"}
    [] f \in {"join", "to_string", "type"} -> {"string"}
    [] f \in {"keys", "map", "sort", "sort_by", "to_array", "values"} -> {"array"}
    [] f \in {"max", "min"} -> {"number", "string", "null"}
    [] f \in {"max_by", "min_by", "not_null"} -> ANY \cup {"expref"}
    [] f = "merge" -> {"object"}
    [] f = "reverse" -> {"array", "string"}
    [] f = "to_number" -> {"number", "null"}

AllOf(v, t) == v.t = "arr" /\ \A i \in DOMAIN v.a : v.a[i].t = t
(* does value v belong to parameter type P (a set of classes)? *)
Fits(v, P) ==
  \/ TypeName(v) \in P
  \/ ("anum" \in P /\ AllOf(v, "num"))
  \/ ("astr" \in P /\ AllOf(v, "str"))

(* "ok", or the error kind: arity first, then positional types with a variadic tail *)
Validate(f, args) ==
  LET sg == Sig(f) np == Len(sg.ps) n == Len(args) IN
  IF n < np \/ (sg.var = {} /\ n > np) THEN "arity"
  ELSE IF \A i \in 1..n : Fits(args[i], IF i <= np THEN sg.ps[i] ELSE sg.var) THEN "ok"
  ELSE "type"

(* Whether an expression reference satisfies an `any` parameter is left open by the specification:
   TRUE when the arity is right and every argument that does not fit is such an expression reference. *)
OnlyExprefToAny(f, args) ==
  LET sg == Sig(f) np == Len(sg.ps) n == Len(args)
      P(i) == IF i <= np THEN sg.ps[i] ELSE sg.var
  IN /\ ~(n < np \/ (sg.var = {} /\ n > np))
     /\ \A i \in 1..n : Fits(args[i], P(i)) \/ (args[i].t = "expref" /\ P(i) = ANY)

(***************************************************************************)
(* Helpers on sequences                                                    *)
(***************************************************************************)
RECURSIVE SumNums(_)
SumNums(xs) == IF xs = <<>> THEN JInt(0) ELSE NumAdd(xs[1], SumNums(Tail(xs)))

ValLess(a, b) == IF a.t = "num" THEN NumLess(a, b) ELSE StrLess(a, b)

(* stable ascending sort of a sequence of [key, val] pairs: by (key, original index) *)
StableSortPairs(ps) ==
  LET idx == [i \in DOMAIN ps |-> [key |-> ps[i].key, val |-> ps[i].val, i |-> i]]
  IN SortSeq(idx, LAMBDA x, y : ValLess(x.key, y.key) \/ (x.key = y.key /\ x.i < y.i))

IsSubseqAt(s, sub, i) == i + Len(sub) - 1 <= Len(s) /\ \A k \in 1..Len(sub) : s[i + k - 1] = sub[k]
SeqContains(s, sub) == \E i \in 1..(Len(s) + 1) : IsSubseqAt(s, sub, i)
SeqStartsWith(s, pre) == IsSubseqAt(s, pre, 1)
SeqEndsWith(s, suf) == Len(suf) <= Len(s) /\ IsSubseqAt(s, suf, Len(s) - Len(suf) + 1)

RECURSIVE FlattenOnce(_)
FlattenOnce(xs) == IF xs = <<>> THEN <<>>
                   ELSE (IF xs[1].t = "arr" THEN xs[1].a ELSE <<xs[1]>>) \o FlattenOnce(Tail(xs))

DropNulls(xs) == SelectSeq(xs, LAMBDA x : x.t # "null")

(* to_number of a string: a JSON number text gives that number; a text that is a number only after
   trimming blanks is left open ("either"); everything else null.  Returns [v, open, dom]. *)
ToNumberOfString(s) ==
  LET p == JsonParse(s) IN
  IF p.ok /\ p.v.t = "num" /\ (s = <<>> \/ (s[1] \notin JWs /\ s[Len(s)] \notin JWs))
  THEN [v |-> p.v, open |-> FALSE, dom |-> p.dom]
  ELSE IF p.ok /\ p.v.t = "num" THEN [v |-> p.v, open |-> TRUE, dom |-> p.dom]
  ELSE [v |-> JNull, open |-> FALSE, dom |-> TRUE]

RECURSIVE HasNumber(_)
HasNumber(v) == CASE v.t = "num" -> TRUE
                  [] v.t = "arr" -> \E i \in DOMAIN v.a : HasNumber(v.a[i])
                  [] v.t = "obj" -> \E i \in DOMAIN v.o : HasNumber(v.o[i].v)
                  [] OTHER -> FALSE

(***************************************************************************)
(* Evaluation                                                              *)
(***************************************************************************)
RECURSIVE Eval(_, _, _), EvalSeq(_, _, _, _, _), MapElems(_, _, _, _, _), Apply(_, _, _), ApplyExact(_, _, _), EvalKvs(_, _, _, _, _),
          KeysOf(_, _, _, _, _), ApplyBinding(_, _, _, _)

Cmp(op, l, r) ==
  IF op = "eq" THEN JBool(l = r)
  ELSE IF op = "ne" THEN JBool(l # r)
  ELSE IF l.t = "num" /\ r.t = "num"
       THEN CASE op = "lt" -> JBool(NumLess(l, r)) [] op = "le" -> JBool(NumLeq(l, r))
              [] op = "gt" -> JBool(NumLess(r, l)) [] op = "ge" -> JBool(NumLeq(r, l))
       ELSE JNull

(* the comparison is one the model leaves open: '==' / '!=' on values that differ only in neighbouring doubles (the library's
   equality is tolerant there, C10 speaks of "well-separated numbers"), an ordering of an inexact number against its own base *)
CmpOpen(op, l, r) ==
  IF op \in {"eq", "ne"} THEN EqOpen(l, r)
  ELSE l.t = "num" /\ r.t = "num" /\ NumOrderOpen(l, r)

(* evaluate a sequence of nodes left to right against v; the first error wins *)
EvalSeq(nodes, i, v, REG, acc) ==
  IF i > Len(nodes) THEN VOkAmb(acc.vals, acc.amb)
  ELSE LET o == Eval(nodes[i], v, REG) IN
       IF IsVErr(o) THEN WithAmb(o, acc.amb)
       ELSE EvalSeq(nodes, i + 1, v, REG, [vals |-> Append(acc.vals, o.ok), amb |-> acc.amb \/ o.amb])

(* apply node to each element in order; the first error wins *)
MapElems(node, xs, i, REG, acc) ==
  IF i > Len(xs) THEN VOkAmb(acc.vals, acc.amb)
  ELSE LET o == Eval(node, xs[i], REG) IN
       IF IsVErr(o) THEN WithAmb(o, acc.amb)
       ELSE MapElems(node, xs, i + 1, REG, [vals |-> Append(acc.vals, o.ok), amb |-> acc.amb \/ o.amb])

EvalKvs(kvs, i, v, REG, acc) ==
  IF i > Len(kvs) THEN VOkAmb(MkObj(acc.ms), acc.amb)
  ELSE LET o == Eval(kvs[i].v, v, REG) IN
       IF IsVErr(o) THEN WithAmb(o, acc.amb)
       ELSE EvalKvs(kvs, i + 1, v, REG, [ms |-> Append(acc.ms, JMem(kvs[i].k, o.ok)), amb |-> acc.amb \/ o.amb])

Eval(a, v, REG) ==
  LET n == a.n IN
  CASE n = "Identity" -> VOk(v)
    [] n = "Field"    -> VOk(IF v.t = "obj" THEN ObjGet(v, a.name) ELSE JNull)
    [] n = "Literal"  -> VOk(a.value)
    [] n = "Index"    -> IF v.t # "arr" THEN VOk(JNull)
                         ELSE LET j == IndexL0(Len(v.a), a.idx) IN VOk(IF j = NOIDX THEN JNull ELSE v.a[j + 1])
    [] n = "Slice"    -> IF a.step = 0 THEN VErr("slice")
                         ELSE IF v.t # "arr" THEN VOk(JNull)
                         ELSE LET sel == SliceL0(Len(v.a), a.start, a.stop, a.step)
                              IN VOk(JArr([k \in DOMAIN sel |-> v.a[sel[k] + 1]]))
    [] n = "Subexpr"  -> LET l == Eval(a.l, v, REG) IN
                         IF IsVErr(l) THEN l ELSE WithAmb(Eval(a.r, l.ok, REG), l.amb)
    [] n = "Or"       -> LET l == Eval(a.l, v, REG) IN
                         IF IsVErr(l) THEN l ELSE IF Truthy(l.ok) THEN l ELSE WithAmb(Eval(a.r, v, REG), l.amb)
    [] n = "And"      -> LET l == Eval(a.l, v, REG) IN
                         IF IsVErr(l) THEN l ELSE IF ~Truthy(l.ok) THEN l ELSE WithAmb(Eval(a.r, v, REG), l.amb)
    [] n = "Not"      -> LET l == Eval(a.l, v, REG) IN
                         IF IsVErr(l) THEN l ELSE VOkAmb(JBool(~Truthy(l.ok)), l.amb)
    [] n = "Condition" -> LET p == Eval(a.l, v, REG) IN
                         IF IsVErr(p) THEN p
                         ELSE IF Truthy(p.ok) THEN WithAmb(Eval(a.r, v, REG), p.amb) ELSE VOkAmb(JNull, p.amb)
    [] n = "Comparison" -> LET l == Eval(a.l, v, REG) IN
                         IF IsVErr(l) THEN l
                         ELSE LET r == Eval(a.r, v, REG) IN
                              IF IsVErr(r) THEN WithAmb(r, l.amb) ELSE VOkAmb(Cmp(a.op, l.ok, r.ok), l.amb \/ r.amb \/ CmpOpen(a.op, l.ok, r.ok))
    [] n = "ObjectValues" -> LET s == Eval(a.l, v, REG) IN
                         IF IsVErr(s) THEN s ELSE VOkAmb(IF s.ok.t = "obj" THEN JArr(ObjVals(s.ok)) ELSE JNull, s.amb)
    [] n = "Projection" -> LET s == Eval(a.l, v, REG) IN
                         IF IsVErr(s) THEN s
                         ELSE IF s.ok.t # "arr" THEN VOkAmb(JNull, s.amb)
                         ELSE LET m == MapElems(a.r, s.ok.a, 1, REG, [vals |-> <<>>, amb |-> s.amb]) IN
                              IF IsVErr(m) THEN m ELSE VOkAmb(JArr(DropNulls(m.ok)), m.amb)
    [] n = "Flatten"  -> LET s == Eval(a.l, v, REG) IN
                         IF IsVErr(s) THEN s
                         ELSE VOkAmb(IF s.ok.t = "arr" THEN JArr(FlattenOnce(s.ok.a)) ELSE JNull, s.amb)
    [] n = "MultiList" -> IF v.t = "null" THEN VOk(JNull)
                         ELSE LET m == EvalSeq(a.args, 1, v, REG, [vals |-> <<>>, amb |-> FALSE]) IN
                              IF IsVErr(m) THEN m ELSE VOkAmb(JArr(m.ok), m.amb)
    [] n = "MultiHash" -> IF v.t = "null" THEN VOk(JNull)
                         ELSE EvalKvs(a.kvs, 1, v, REG, [ms |-> <<>>, amb |-> FALSE])
    [] n = "Expref"   -> VOk(JExpref(a.l))
    [] n = "Function" -> LET m == EvalSeq(a.args, 1, v, REG, [vals |-> <<>>, amb |-> FALSE]) IN
                         IF IsVErr(m) THEN m
                         ELSE IF a.name \notin DOMAIN REG THEN WithAmb(VErr("unknown"), m.amb)
                         ELSE WithAmb(ApplyBinding(REG[a.name], a.name, m.ok, REG), m.amb)

(* keys of the elements of xs under the expression reference e; all numbers or all strings, else a type error *)
KeysOf(e, xs, i, REG, acc) ==
  IF i > Len(xs) THEN VOkAmb(acc.vals, acc.amb)
  ELSE LET o == Eval(e, xs[i], REG) IN
       IF IsVErr(o) THEN WithAmb(o, acc.amb)
       ELSE IF o.ok.t \notin {"num", "str"} \/ (acc.vals # <<>> /\ o.ok.t # acc.vals[1].t) THEN WithAmb(VErr("type"), acc.amb)
       ELSE KeysOf(e, xs, i + 1, REG, [vals |-> Append(acc.vals, o.ok), amb |-> acc.amb \/ o.amb])

Extreme(xs, keys, isMax) ==
  \* index of the first element whose key is extreme; amb when another element ties
  LET better(x, y) == IF isMax THEN ValLess(y, x) ELSE ValLess(x, y)
      best == CHOOSE i \in DOMAIN keys : \A j \in DOMAIN keys : ~better(keys[j], keys[i]) /\ (keys[j] = keys[i] => i <= j)
  IN [i |-> best, tie |-> \E j \in DOMAIN keys : j # best /\ keys[j] = keys[best] /\ xs[j] # xs[best]]

(* order-sensitive built-ins on inexact numbers (results of sum / avg): which of two neighbours comes first is open *)
ApplyOpen(f, args, o) ==
  IF f \in {"sum", "avg"} /\ IsVOk(o) /\ Len(args) = 1 /\ args[1].t = "arr"
     /\ \E i \in DOMAIN args[1].a : args[1].a[i].t = "num" /\ "p" \in DOMAIN args[1].a[i] /\ IsBig(args[1].a[i])
  THEN WithAmb(o, TRUE)                                          \* arithmetic on large magnitudes: outside the model
  ELSE IF f \in {"sort", "sort_by", "max", "min", "max_by", "min_by"} /\ IsVOk(o) /\ (HasInexact(o.ok) \/ \E i \in DOMAIN args : args[i].t # "expref" /\ HasInexact(args[i]))
  THEN WithAmb(o, TRUE) ELSE o

Apply(f, args, REG) == ApplyOpen(f, args, ApplyExact(f, args, REG))

ApplyExact(f, args, REG) ==
  LET chk == Validate(f, args) IN
  IF chk = "type" /\ OnlyExprefToAny(f, args) THEN VOkAmb(JNull, TRUE)     \* unspecified cell: not judged
  ELSE IF chk # "ok" THEN VErr(chk)
  ELSE
  LET x == args[1] IN
  CASE f = "abs"   -> VOk(NumAbs(x))
    [] f = "avg"   -> VOk(IF x.a = <<>> THEN JNull ELSE NumDivInt(SumNums(x.a), Len(x.a)))
    [] f = "ceil"  -> VOkAmb(NumCeil(x), RoundOpen(x))
    [] f = "floor" -> VOkAmb(NumFloor(x), RoundOpen(x))
    [] f = "contains" -> IF x.t = "arr"
                         THEN VOkAmb(JBool(\E i \in DOMAIN x.a : x.a[i] = args[2]), \E i \in DOMAIN x.a : EqOpen(x.a[i], args[2]))
                         ELSE VOk(JBool(args[2].t = "str" /\ SeqContains(x.s, args[2].s)))
    [] f = "ends_with"   -> VOk(JBool(SeqEndsWith(x.s, args[2].s)))
    [] f = "starts_with" -> VOk(JBool(SeqStartsWith(x.s, args[2].s)))
    [] f = "join"  -> VOk(JStr(JoinWith([i \in DOMAIN args[2].a |-> args[2].a[i].s], x.s)))
    [] f = "keys"  -> VOk(JArr(ObjKeys(x)))
    [] f = "values" -> VOk(JArr(ObjVals(x)))
    [] f = "length" -> VOk(JInt(IF x.t = "str" THEN Len(x.s) ELSE IF x.t = "arr" THEN Len(x.a) ELSE Len(x.o)))
    [] f = "map"   -> LET m == MapElems(x.ast, args[2].a, 1, REG, [vals |-> <<>>, amb |-> FALSE]) IN
                      IF IsVErr(m) THEN m ELSE VOkAmb(JArr(m.ok), m.amb)
    [] f \in {"max", "min"} ->
         IF x.a = <<>> THEN VOk(JNull)
         ELSE LET e == Extreme(x.a, x.a, f = "max") IN VOk(x.a[e.i])
    [] f \in {"max_by", "min_by"} ->
         IF x.a = <<>> THEN VOk(JNull)
         ELSE LET ks == KeysOf(args[2].ast, x.a, 1, REG, [vals |-> <<>>, amb |-> FALSE]) IN
              IF IsVErr(ks) THEN ks
              ELSE LET e == Extreme(x.a, ks.ok, f = "max_by") IN VOkAmb(x.a[e.i], ks.amb \/ e.tie)
    [] f = "merge" -> VOk(MkObj(Concat([i \in DOMAIN args |-> args[i].o])))
    [] f = "not_null" -> VOk(IF \E i \in DOMAIN args : args[i].t # "null"
                            THEN args[CHOOSE i \in DOMAIN args : args[i].t # "null" /\ \A j \in 1..(i - 1) : args[j].t = "null"]
                            ELSE JNull)
    [] f = "reverse" -> VOk(IF x.t = "arr" THEN JArr(Reverse(x.a)) ELSE JStr(Reverse(x.s)))
    [] f = "sort"  -> VOk(JArr(SortSeq(x.a, ValLess)))
    [] f = "sort_by" ->
         IF x.a = <<>> THEN VOk(x)
         ELSE LET ks == KeysOf(args[2].ast, x.a, 1, REG, [vals |-> <<>>, amb |-> FALSE]) IN
              IF IsVErr(ks) THEN ks
              ELSE LET srt == StableSortPairs([i \in DOMAIN x.a |-> [key |-> ks.ok[i], val |-> x.a[i]]])
                   IN VOkAmb(JArr([i \in DOMAIN srt |-> srt[i].val]), ks.amb)
    [] f = "sum"   -> VOk(SumNums(x.a))
    [] f = "to_array" -> VOk(IF x.t = "arr" THEN x ELSE JArr(<<x>>))
    [] f = "to_number" -> IF x.t = "num" THEN VOk(x)
                          ELSE IF x.t = "str" THEN LET tn == ToNumberOfString(x.s) IN VOkAmb(tn.v, tn.open \/ ~tn.dom)
                          ELSE VOk(JNull)
    [] f = "to_string" -> IF x.t = "str" THEN VOk(x)
                          ELSE IF HasNumber(x) THEN VOkAmb(JStr(<<>>), TRUE)   \* "1" and "1.0" both encode the number 1
                          ELSE VOk(JStr(JsonText(x)))
    [] f = "type"  -> VOk(JStr(TypeCps(TypeName(x))))

(* custom functions declared with a signature (CustomFunction::new): validated like a built-in before the closure is invoked.
   Declared parameter types may nest (functions.rs ArgumentType: TypedArray(inner), Union(alternatives), Any):
     "sigconst" (number)   "sigaan" (array[array[number]])   "sigaun" (array[number|string])   "sigaany" (array[any])
   and a signature may be variadic (Signature::new(inputs, Some(type))): every argument beyond the declared ones has the variadic type
     "sigvar" (string, number...)   "sigvar0" (number...)
   and a union may have the expression-reference type among its members
     "sigue" (array[any], expref|string)   "sigvue" (number | (expref | null) ...) *)
SigKinds == {"sigconst", "sigaan", "sigaun", "sigaany", "sigvar", "sigvar0", "sigue", "sigvue"}
TyNum == [k |-> "num"]  TyStr == [k |-> "str"]  TyAny == [k |-> "any"]  TyExpref == [k |-> "expref"]  TyNull == [k |-> "null"]
TyArr(of) == [k |-> "arr", of |-> of]
TyUnion(alts) == [k |-> "union", alts |-> alts]
CustomSig(kind) == CASE kind = "sigconst" -> TyNum [] kind = "sigaan" -> TyArr(TyArr(TyNum))
                     [] kind = "sigaun" -> TyArr(TyUnion(<<TyNum, TyStr>>)) [] kind = "sigaany" -> TyArr(TyAny)
RECURSIVE TFits(_, _)
TFits(v, ty) == CASE ty.k = "any" -> TRUE
                  [] ty.k = "num" -> v.t = "num"
                  [] ty.k = "str" -> v.t = "str"
                  [] ty.k = "expref" -> v.t = "expref"
                  [] ty.k = "null" -> v.t = "null"
                  [] ty.k = "arr" -> v.t = "arr" /\ \A i \in DOMAIN v.a : TFits(v.a[i], ty.of)
                  [] ty.k = "union" -> \E j \in DOMAIN ty.alts : TFits(v, ty.alts[j])
SigParams(kind) == CASE kind = "sigvar" -> <<TyStr>> [] kind = "sigvar0" -> <<>> [] kind = "sigue" -> <<TyArr(TyAny), TyUnion(<<TyExpref, TyStr>>)>> [] kind = "sigvue" -> <<>>
                     [] OTHER -> <<CustomSig(kind)>>
SigVariadic(kind) == IF kind \in {"sigvar", "sigvar0"} THEN TyNum ELSE IF kind = "sigvue" THEN TyUnion(<<TyNum, TyUnion(<<TyExpref, TyNull>>)>>) ELSE [k |-> "none"]
SigValidate(kind, args) ==
  LET ps == SigParams(kind)  var == SigVariadic(kind) IN
  IF Len(args) < Len(ps) \/ (var.k = "none" /\ Len(args) > Len(ps)) THEN "arity"
  ELSE IF \A i \in DOMAIN args : TFits(args[i], IF i <= Len(ps) THEN ps[i] ELSE var) THEN "ok" ELSE "type"
SigConstValidate(args) == SigValidate("sigconst", args)
CustomInvoked(b, args) == b.k \in {"const", "first"} \/ (b.k \in SigKinds /\ SigValidate(b.k, args) = "ok")

ApplyBinding(b, name, args, REG) ==
  CASE b.k = "builtin" -> Apply(FnOf(name), args, REG)
    [] b.k = "const" -> VOk(JInt(b.id))
    [] b.k = "first" -> VOk(IF args = <<>> THEN JNull ELSE args[1])
    [] b.k \in SigKinds -> LET c == SigValidate(b.k, args) IN IF c = "ok" THEN VOk(JInt(b.id)) ELSE VErr(c)

BuiltinNames == {NameCps(FnNames[i]) : i \in DOMAIN FnNames}
Builtins == [nm \in BuiltinNames |-> [k |-> "builtin"]]
=============================================================================
