------------------------------- MODULE Session -------------------------------
(***************************************************************************)
(* The library as its user drives it (C13 purity, C15 registry): runtimes  *)
(* with a registry, compiled expressions borrowed from a runtime, shared   *)
(* documents.  jmespath/src/runtime.rs:13-57, lib.rs:124-460,              *)
(* interpreter.rs:146-165, functions.rs:100-140.                           *)
(*                                                                         *)
(* State                                                                   *)
(*   reg[rt]   the registry of runtime rt: a function name -> binding      *)
(*             (Eval.tla); rt = 0 is the shared default runtime            *)
(*   live[h]   compiled expressions: [text, rt, ok, tree]                  *)
(*   docs      the shared documents (never change)                         *)
(* Actions (one per public API call; each is also an event of a trace)     *)
(*   NewRuntime(rt)  Register(rt, name, b)  Deregister(rt, name)           *)
(*   RegisterBuiltins(rt)  Compile(h, rt, text)  Clone(h, h2)  Drop(h)     *)
(*   Search(h, d)  -- has no effect on the state: that IS purity           *)
(* Borrow rule of the Rust API: a runtime with live expressions cannot be  *)
(* mutated (the borrow checker enforces it), so Register / Deregister /    *)
(* RegisterBuiltins are enabled only when no live handle refers to rt.     *)
(***************************************************************************)
EXTENDS Grammar, Pratt, Prec, Lexer, Eval

VARIABLES reg, live, docs

EmptyReg == [x \in {} |-> [k |-> "builtin"]]
NoHandles == [x \in {} |-> 0]

Borrowed(rt) == \E h \in DOMAIN live : live[h].rt = rt

NewRuntime(rt) ==
  /\ rt # 0 /\ ~Borrowed(rt)
  /\ reg' = [reg EXCEPT ![rt] = EmptyReg]
  /\ UNCHANGED <<live, docs>>

(* HashMap::insert: the newest registration of a name replaces the previous one *)
Register(rt, name, b) ==
  /\ rt # 0 /\ ~Borrowed(rt)
  /\ reg' = [reg EXCEPT ![rt] = [n \in (DOMAIN reg[rt]) \cup {name} |-> IF n = name THEN b ELSE reg[rt][n]]]
  /\ UNCHANGED <<live, docs>>

(* HashMap::remove; the call returns whether the name was present *)
DeregisterResult(rt, name) == name \in DOMAIN reg[rt]
Deregister(rt, name) ==
  /\ rt # 0 /\ ~Borrowed(rt)
  /\ reg' = [reg EXCEPT ![rt] = [n \in (DOMAIN reg[rt]) \ {name} |-> reg[rt][n]]]
  /\ UNCHANGED <<live, docs>>

RegisterBuiltins(rt) ==
  /\ rt # 0 /\ ~Borrowed(rt)
  /\ reg' = [reg EXCEPT ![rt] = [n \in (DOMAIN reg[rt]) \cup BuiltinNames |-> IF n \in BuiltinNames THEN [k |-> "builtin"] ELSE reg[rt][n]]]
  /\ UNCHANGED <<live, docs>>

(* what compile(text) yields: acceptance and the tree (a function of the text alone) *)
Compiled(text) ==
  LET L == Lex(text, {}) IN
  IF L.ok /\ L.dom /\ L.toks # <<>> /\ Accepts(L.toks, {}) THEN [ok |-> TRUE, tree |-> TreeOf(L.toks)] ELSE [ok |-> FALSE, tree |-> AErr]

Compile(h, rt, text) ==
  /\ h \notin DOMAIN live
  /\ LET c == Compiled(text) IN
     IF c.ok THEN live' = [x \in (DOMAIN live) \cup {h} |-> IF x = h THEN [text |-> text, rt |-> rt, tree |-> c.tree] ELSE live[x]]
     ELSE live' = live
  /\ UNCHANGED <<reg, docs>>

Clone(h, h2) ==
  /\ h \in DOMAIN live /\ h2 \notin DOMAIN live
  /\ live' = [x \in (DOMAIN live) \cup {h2} |-> IF x = h2 THEN live[h] ELSE live[x]]
  /\ UNCHANGED <<reg, docs>>

Drop(h) ==
  /\ h \in DOMAIN live
  /\ live' = [x \in (DOMAIN live) \ {h} |-> live[x]]
  /\ UNCHANGED <<reg, docs>>

(* the result of a search: a function of (tree, registry of the handle's runtime, document) and of nothing else *)
SearchResult(h, d) == Eval(live[h].tree, docs[d], reg[live[h].rt])
Search(h, d) == h \in DOMAIN live /\ d \in DOMAIN docs /\ UNCHANGED <<reg, live, docs>>

(***************************************************************************)
(* The calls a search makes into custom functions, in order, with their    *)
(* evaluated arguments (C15): [id, args].  Mirrors the evaluation order of *)
(* Eval: left to right, short-circuit, per element; stops at the first     *)
(* error.  Result [log, ok].                                               *)
(***************************************************************************)
RECURSIVE CallLog(_, _, _), LogSeq(_, _, _, _, _), LogElems(_, _, _, _, _)
LogSeq(nodes, i, v, REG, acc) ==
  IF i > Len(nodes) THEN [log |-> acc, ok |-> TRUE]
  ELSE LET c == CallLog(nodes[i], v, REG) IN
       IF ~c.ok THEN [log |-> acc \o c.log, ok |-> FALSE] ELSE LogSeq(nodes, i + 1, v, REG, acc \o c.log)
LogElems(node, xs, i, REG, acc) ==
  IF i > Len(xs) THEN [log |-> acc, ok |-> TRUE]
  ELSE LET c == CallLog(node, xs[i], REG) IN
       IF ~c.ok THEN [log |-> acc \o c.log, ok |-> FALSE] ELSE LogElems(node, xs, i + 1, REG, acc \o c.log)

CallLog(a, v, REG) ==
  LET n == a.n
      val(x, w) == Eval(x, w, REG)
      then(first, rest) == IF first.ok THEN [log |-> first.log \o rest.log, ok |-> rest.ok] ELSE first
      none == [log |-> <<>>, ok |-> TRUE]
  IN
  CASE n \in {"Identity", "Field", "Literal", "Index", "Expref"} -> none
    [] n = "Slice" -> [log |-> <<>>, ok |-> a.step # 0]
    [] n = "Subexpr" -> LET l == CallLog(a.l, v, REG) IN
                        IF ~l.ok THEN l ELSE then(l, CallLog(a.r, val(a.l, v).ok, REG))
    [] n \in {"Or", "And"} -> LET l == CallLog(a.l, v, REG) IN
                        IF ~l.ok THEN l
                        ELSE IF (n = "Or") = Truthy(val(a.l, v).ok) THEN l ELSE then(l, CallLog(a.r, v, REG))
    [] n \in {"Not", "Flatten", "ObjectValues"} -> CallLog(a.l, v, REG)
    [] n = "Condition" -> LET p == CallLog(a.l, v, REG) IN
                        IF ~p.ok THEN p ELSE IF Truthy(val(a.l, v).ok) THEN then(p, CallLog(a.r, v, REG)) ELSE p
    [] n = "Comparison" -> LET l == CallLog(a.l, v, REG) IN IF ~l.ok THEN l ELSE then(l, CallLog(a.r, v, REG))
    [] n = "Projection" -> LET l == CallLog(a.l, v, REG) IN
                        IF ~l.ok THEN l
                        ELSE LET s == val(a.l, v).ok IN
                             IF s.t # "arr" THEN l ELSE then(l, LogElems(a.r, s.a, 1, REG, <<>>))
    [] n = "MultiList" -> IF v.t = "null" THEN none ELSE LogSeq(a.args, 1, v, REG, <<>>)
    [] n = "MultiHash" -> IF v.t = "null" THEN none ELSE LogSeq([i \in DOMAIN a.kvs |-> a.kvs[i].v], 1, v, REG, <<>>)
    [] n = "Function" ->
         LET as == LogSeq(a.args, 1, v, REG, <<>>) IN
         IF ~as.ok THEN as
         ELSE IF a.name \notin DOMAIN REG THEN [log |-> as.log, ok |-> FALSE]
         ELSE LET b == REG[a.name]
                  argv == EvalSeq(a.args, 1, v, REG, [vals |-> <<>>, amb |-> FALSE]).ok
              IN IF b.k = "builtin"
                 THEN \* built-ins that interpret an expression reference evaluate it once per element, in order
                      LET f == FnOf(a.name)
                          okc == Validate(f, argv) = "ok"
                          inner == IF ~okc THEN none
                                   ELSE IF f = "map" THEN LogElems(argv[1].ast, argv[2].a, 1, REG, <<>>)
                                   ELSE IF f \in {"sort_by", "max_by", "min_by"} THEN LogElems(argv[2].ast, argv[1].a, 1, REG, <<>>)
                                   ELSE none
                      IN [log |-> as.log \o inner.log, ok |-> inner.ok /\ IsVOk(Eval(a, v, REG))]
                 ELSE IF CustomInvoked(b, argv)
                      THEN [log |-> Append(as.log, [id |-> b.id, args |-> argv]), ok |-> TRUE]
                      ELSE [log |-> as.log, ok |-> FALSE]
=============================================================================
