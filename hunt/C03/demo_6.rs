// C03 candidate 6: a long NON-sentence without any bracket nesting makes compile() abort
// the process (stack overflow while the partially built, left-leaning AST is dropped on
// the error path) instead of returning a parse error.
//   "a" "[]"*100000 ")"      (200 KB)   -- every prefix up to the ')' is a sentence,
//   "a" ".a"*1000000 ")"     (2 MB)        the stray ')' makes it a non-sentence
// The parser itself handles these chains iteratively (no recursion per element); the
// recursion is in the compiler-generated Drop of Box<Ast>.
//
// The dangerous call runs in a child process (this same test binary re-executed with
// HUNT_C03_CHILD set) so that the parent can report a normal test failure.
//
// Place at jmespath/tests/demo_6.rs ; FAILS on the unmodified library.

use std::process::Command;

fn long_non_sentence(unit: &str, n: usize) -> String {
    let mut s = String::with_capacity(2 + unit.len() * n);
    s.push('a');
    for _ in 0..n {
        s.push_str(unit);
    }
    s.push(')');
    s
}

fn child(which: &str) {
    let expr = match which {
        "flatten" => long_non_sentence("[]", 100_000),
        "dot" => long_non_sentence(".a", 1_000_000),
        "or" => long_non_sentence("||a", 1_000_000),
        _ => unreachable!(),
    };
    // What the property demands: rejected with a parse error.
    match jmespath::compile(&expr) {
        Ok(_) => panic!("a non-sentence compiled"),
        Err(e) => assert!(matches!(e.reason, jmespath::ErrorReason::Parse(_))),
    }
}

#[test]
fn long_flat_non_sentences_are_rejected_with_a_parse_error() {
    if let Ok(which) = std::env::var("HUNT_C03_CHILD") {
        child(&which);
        return;
    }
    // control: the same shapes, short, are rejected with a parse error
    for unit in ["[]", ".a", "||a"] {
        let e = jmespath::compile(&long_non_sentence(unit, 100)).unwrap_err();
        assert!(matches!(e.reason, jmespath::ErrorReason::Parse(_)));
    }
    for which in ["flatten", "dot", "or"] {
        let status = Command::new(std::env::current_exe().unwrap())
            .args(["--exact", "long_flat_non_sentences_are_rejected_with_a_parse_error", "--test-threads=1"])
            .env("HUNT_C03_CHILD", which)
            .status()
            .unwrap();
        assert!(
            status.success(),
            "compile() of the long {} non-sentence did not return a parse error; child ended with {:?}",
            which,
            status
        );
    }
}
