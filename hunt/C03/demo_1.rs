// C03 candidate 1: the empty quoted identifier `""` compiles although the ABNF requires
// at least one character:  quoted-string = quote 1*(unescaped-char / escaped-char) quote
//
// Place at jmespath/tests/demo_1.rs ; FAILS on the unmodified library.

fn rejected_with_parse_error(expr: &str) -> bool {
    match jmespath::compile(expr) {
        Ok(_) => false,
        Err(e) => matches!(e.reason, jmespath::ErrorReason::Parse(_)),
    }
}

#[test]
fn empty_quoted_identifier_is_not_a_sentence() {
    // control: one-character quoted identifiers are sentences
    assert!(jmespath::compile("\"a\"").is_ok());
    assert!(jmespath::compile("foo.\"a\"").is_ok());
    // `""` has zero characters between the quotes: not derivable from quoted-string
    for expr in ["\"\"", "foo.\"\"", "{\"\": a}", "\"\".\"\"", "foo[?\"\" == `1`]"] {
        assert!(
            rejected_with_parse_error(expr),
            "{:?} is not a sentence of the grammar (quoted-string needs 1*char) but compiled",
            expr
        );
    }
}
