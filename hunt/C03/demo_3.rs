// C03 candidate 3: a quoted identifier with a \uXXXX escape naming a surrogate code unit
// that is not part of a pair is a sentence of the ABNF
//   escaped-char = escape ( ... / %x75 4HEXDIG )
// but is refused.
//
// Place at jmespath/tests/demo_3.rs ; FAILS on the unmodified library.

#[test]
fn every_four_hex_digit_escape_is_an_escaped_char() {
    // controls
    assert!(jmespath::compile("\"\\u0041\"").is_ok());
    assert!(jmespath::compile("\"\\ud7ff\"").is_ok());
    assert!(jmespath::compile("\"\\ue000\"").is_ok());
    assert!(jmespath::compile("\"\\ud83d\\ude00\"").is_ok());
    for expr in ["\"\\ud800\"", "\"\\udc00\"", "\"\\udfff\"", "\"\\ud800x\"", "foo.\"\\uDBFF\""] {
        let r = jmespath::compile(expr);
        assert!(
            r.is_ok(),
            "{:?} is derivable from quoted-string (escape 'u' 4HEXDIG) but was refused: {:?}",
            expr,
            r.err().map(|e| e.reason)
        );
    }
}
