// C03 candidate 4: a JSON literal nested 128 or more levels deep is valid JSON (hence a
// sentence: literal = "`" json-value "`"; the property says "every sentence of the grammar
// (any length and nesting) must compile") but is refused with a parse error
// ("recursion limit exceeded", the default limit of serde_json).
// The expression itself has nesting depth 1 (a single token), so this is not the
// recorded stack-overflow-at-depth-100000 item; nothing overflows here.
//
// Place at jmespath/tests/demo_4.rs ; FAILS on the unmodified library.

fn nested_array_literal(depth: usize) -> String {
    format!("`{}{}`", "[".repeat(depth), "]".repeat(depth))
}

fn nested_object_literal(depth: usize) -> String {
    format!("`{}1{}`", "{\"a\":".repeat(depth), "}".repeat(depth))
}

#[test]
fn json_literals_of_any_nesting_compile() {
    // control: depth 127 compiles
    assert!(jmespath::compile(&nested_array_literal(127)).is_ok());
    assert!(jmespath::compile(&nested_object_literal(127)).is_ok());
    for depth in [128usize, 129, 200, 1000] {
        for expr in [nested_array_literal(depth), nested_object_literal(depth)] {
            // the literal is valid JSON: a bracket counter is enough to see it is balanced
            let r = jmespath::compile(&expr);
            assert!(
                r.is_ok(),
                "valid JSON literal of depth {} refused: {:?}",
                depth,
                r.err().map(|e| e.reason)
            );
        }
    }
}
