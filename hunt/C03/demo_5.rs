// C03 candidate 5: JSON literals whose number is grammatically valid JSON but does not
// fit a finite double are refused ("number out of range"), e.g. `1e999`.
// number = [ minus ] int [ frac ] [ exp ]  puts no bound on the exponent.
//
// Place at jmespath/tests/demo_5.rs ; FAILS on the unmodified library.

#[test]
fn json_number_literals_of_any_magnitude_compile() {
    // controls: large but representable, and underflowing, numbers compile
    assert!(jmespath::compile("`1e308`").is_ok());
    assert!(jmespath::compile("`1e-999`").is_ok());
    assert!(jmespath::compile("`123456789012345678901234567890`").is_ok());
    for expr in ["`1e999`", "`-1e999`", "`1.7976931348623159e308`", "`[1, 2e400]`", "foo[?a < `1E+400`]"] {
        let r = jmespath::compile(expr);
        assert!(
            r.is_ok(),
            "{:?} holds valid JSON but was refused: {:?}",
            expr,
            r.err().map(|e| e.reason)
        );
    }
}
