// C03 candidate 2: raw strings containing control characters (U+0000..U+001F) compile
// although the ABNF excludes them:
//   raw-string-char  = (%x20-26 / %x28-5B / %x5D-10FFFF) / preserved-escape / raw-string-escape
//   preserved-escape = escape (%x20-26 / %x28-5B / %x5D-10FFFF)
//
// Place at jmespath/tests/demo_2.rs ; FAILS on the unmodified library.

fn rejected_with_parse_error(expr: &str) -> bool {
    match jmespath::compile(expr) {
        Ok(_) => false,
        Err(e) => matches!(e.reason, jmespath::ErrorReason::Parse(_)),
    }
}

#[test]
fn control_characters_are_not_raw_string_characters() {
    // controls: printable raw strings are sentences, and the same control characters are
    // (correctly) refused inside quoted identifiers and JSON literals
    assert!(jmespath::compile("'a b'").is_ok());
    assert!(rejected_with_parse_error("\"a\nb\""));
    assert!(rejected_with_parse_error("`\"a\nb\"`"));
    for expr in ["'\n'", "'a\tb'", "'\u{0}'", "'\u{1f}'", "'\\\n'", "foo[?bar == 'x\ry']"] {
        assert!(
            rejected_with_parse_error(expr),
            "{:?} contains a character below U+0020 inside a raw string: not a sentence, but it compiled",
            expr
        );
    }
}
