// C04 candidate 2 (LOW confidence; same root cause as the already known ".[a, b] ends the
// right-hand side of a projection", but a different observable: no projection is involved and
// only the public tree differs, no search result).
//
//   a.[b][0]      parses as   (a.[b])[0]          Sub(Sub(a, ML[b]), [0])
//   a.{k: b}[0]   parses as    a.({k: b}[0])      Sub(a, Sub(MH{k: b}, [0]))
//   a.b[0]        parses as    a.(b[0])           Sub(a, Sub(b, [0]))
//   a.f(b)[0]     parses as    a.(f(b)[0])
//
// The property: binding-power order "... < dot < not < bracket < call", and "the tree exposed
// through the public AST equals the tree these rules define". A bracket binds tighter than a
// dot, so the operand to the right of the dot takes the bracket first - for every kind of
// operand. For a multi-select list it does not.
//
// Place at jmespath/tests/demo_2.rs. FAILS on the library as it stands.

use jmespath::ast::Ast;

fn shape(a: &Ast) -> String {
    match a {
        Ast::Field { name, .. } => name.clone(),
        Ast::Identity { .. } => "@".into(),
        Ast::Literal { value, .. } => format!("`{}`", value),
        Ast::Index { idx, .. } => format!("[{}]", idx),
        Ast::Slice { start, stop, step, .. } => format!("[{:?}:{:?}:{}]", start, stop, step),
        Ast::Subexpr { lhs, rhs, .. } => format!("Sub({}, {})", shape(lhs), shape(rhs)),
        Ast::Or { lhs, rhs, .. } => format!("Or({}, {})", shape(lhs), shape(rhs)),
        Ast::And { lhs, rhs, .. } => format!("And({}, {})", shape(lhs), shape(rhs)),
        Ast::Not { node, .. } => format!("Not({})", shape(node)),
        Ast::Comparison { comparator, lhs, rhs, .. } => {
            format!("Cmp{:?}({}, {})", comparator, shape(lhs), shape(rhs))
        }
        Ast::Projection { lhs, rhs, .. } => format!("Proj({}, {})", shape(lhs), shape(rhs)),
        Ast::Flatten { node, .. } => format!("Flat({})", shape(node)),
        Ast::ObjectValues { node, .. } => format!("Vals({})", shape(node)),
        Ast::Condition { predicate, then, .. } => {
            format!("Cond({}, {})", shape(predicate), shape(then))
        }
        Ast::MultiList { elements, .. } => format!(
            "ML[{}]",
            elements.iter().map(shape).collect::<Vec<_>>().join(", ")
        ),
        Ast::MultiHash { elements, .. } => format!(
            "MH{{{}}}",
            elements
                .iter()
                .map(|k| format!("{}: {}", k.key, shape(&k.value)))
                .collect::<Vec<_>>()
                .join(", ")
        ),
        Ast::Function { name, args, .. } => format!(
            "{}({})",
            name,
            args.iter().map(shape).collect::<Vec<_>>().join(", ")
        ),
        Ast::Expref { ast, .. } => format!("&({})", shape(ast)),
    }
}

fn tree(e: &str) -> String {
    shape(&jmespath::parse(e).unwrap())
}

#[test]
fn bracket_binds_tighter_than_dot_for_the_other_operands() {
    // These pass.
    assert_eq!(tree("a.b[0]"), "Sub(a, Sub(b, [0]))");
    assert_eq!(tree("a.{k: b}[0]"), "Sub(a, Sub(MH{k: b}, [0]))");
    assert_eq!(tree("a.f(b)[0]"), "Sub(a, Sub(f(b), [0]))");
    assert_eq!(tree("a.{k: b}[*].c"), "Sub(a, Proj(MH{k: b}, c))");
}

#[test]
fn bracket_binds_tighter_than_dot_for_a_multi_select_list() {
    // Library: Sub(Sub(a, ML[b]), [0])
    assert_eq!(tree("a.[b][0]"), "Sub(a, Sub(ML[b], [0]))");
}

#[test]
fn bracket_wildcard_binds_tighter_than_dot_for_a_multi_select_list() {
    // Library: Proj(Sub(a, ML[b]), c)
    assert_eq!(tree("a.[b][*].c"), "Sub(a, Proj(ML[b], c))");
}
