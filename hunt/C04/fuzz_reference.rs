// Scratch differential fuzz: library parser vs. reference parser written from the statement.
use jmespath::ast::Ast;

fn s(a: &Ast) -> String {
    match a {
        Ast::Field { name, .. } => format!("F:{}", name),
        Ast::Identity { .. } => "@".into(),
        Ast::Literal { value, .. } => format!("L:{}", value),
        Ast::Index { idx, .. } => format!("[{}]", idx),
        Ast::Slice { start, stop, step, .. } => format!("[{:?}:{:?}:{}]", start, stop, step),
        Ast::Subexpr { lhs, rhs, .. } => format!("Sub({}, {})", s(lhs), s(rhs)),
        Ast::Or { lhs, rhs, .. } => format!("Or({}, {})", s(lhs), s(rhs)),
        Ast::And { lhs, rhs, .. } => format!("And({}, {})", s(lhs), s(rhs)),
        Ast::Not { node, .. } => format!("Not({})", s(node)),
        Ast::Comparison { comparator, lhs, rhs, .. } => {
            format!("Cmp{:?}({}, {})", comparator, s(lhs), s(rhs))
        }
        Ast::Projection { lhs, rhs, .. } => format!("Proj({}, {})", s(lhs), s(rhs)),
        Ast::Flatten { node, .. } => format!("Flat({})", s(node)),
        Ast::ObjectValues { node, .. } => format!("Vals({})", s(node)),
        Ast::Condition { predicate, then, .. } => format!("Cond({}, {})", s(predicate), s(then)),
        Ast::MultiList { elements, .. } => {
            format!("ML[{}]", elements.iter().map(s).collect::<Vec<_>>().join(", "))
        }
        Ast::MultiHash { elements, .. } => format!(
            "MH{{{}}}",
            elements
                .iter()
                .map(|k| format!("{}: {}", k.key, s(&k.value)))
                .collect::<Vec<_>>()
                .join(", ")
        ),
        Ast::Function { name, args, .. } => {
            format!("Fn:{}({})", name, args.iter().map(s).collect::<Vec<_>>().join(", "))
        }
        Ast::Expref { ast, .. } => format!("&({})", s(ast)),
    }
}

// ---------- reference ----------
#[derive(Clone, Debug, PartialEq)]
enum T {
    Id(String),
    QId(String),
    Num(i32),
    Lit(String),
    Dot,
    Star,
    Flatten,
    And,
    Or,
    Pipe,
    Filter,
    Lb,
    Rb,
    Comma,
    Colon,
    Not,
    Cmp(&'static str),
    At,
    Amp,
    Lp,
    Rp,
    Lc,
    Rc,
    Eof,
}

fn lex(e: &str) -> Option<Vec<T>> {
    let c: Vec<char> = e.chars().collect();
    let mut i = 0;
    let mut out = vec![];
    while i < c.len() {
        let ch = c[i];
        match ch {
            ' ' => {
                i += 1;
            }
            'a'..='z' | 'A'..='Z' | '_' => {
                let mut b = String::new();
                while i < c.len() && (c[i].is_ascii_alphanumeric() || c[i] == '_') {
                    b.push(c[i]);
                    i += 1;
                }
                out.push(T::Id(b));
            }
            '"' => {
                let mut b = String::new();
                i += 1;
                while i < c.len() && c[i] != '"' {
                    b.push(c[i]);
                    i += 1;
                }
                if i >= c.len() {
                    return None;
                }
                i += 1;
                out.push(T::QId(b));
            }
            '`' => {
                let mut b = String::new();
                i += 1;
                while i < c.len() && c[i] != '`' {
                    b.push(c[i]);
                    i += 1;
                }
                if i >= c.len() {
                    return None;
                }
                i += 1;
                out.push(T::Lit(b));
            }
            '\'' => {
                let mut b = String::new();
                i += 1;
                while i < c.len() && c[i] != '\'' {
                    b.push(c[i]);
                    i += 1;
                }
                if i >= c.len() {
                    return None;
                }
                i += 1;
                out.push(T::Lit(format!("\"{}\"", b)));
            }
            '0'..='9' | '-' => {
                let mut b = String::new();
                b.push(ch);
                i += 1;
                while i < c.len() && c[i].is_ascii_digit() {
                    b.push(c[i]);
                    i += 1;
                }
                if b == "-" || b.starts_with("-0") {
                    return None;
                }
                out.push(T::Num(b.parse().ok()?));
            }
            '.' => {
                out.push(T::Dot);
                i += 1;
            }
            '*' => {
                out.push(T::Star);
                i += 1;
            }
            '@' => {
                out.push(T::At);
                i += 1;
            }
            ']' => {
                out.push(T::Rb);
                i += 1;
            }
            '{' => {
                out.push(T::Lc);
                i += 1;
            }
            '}' => {
                out.push(T::Rc);
                i += 1;
            }
            '(' => {
                out.push(T::Lp);
                i += 1;
            }
            ')' => {
                out.push(T::Rp);
                i += 1;
            }
            ',' => {
                out.push(T::Comma);
                i += 1;
            }
            ':' => {
                out.push(T::Colon);
                i += 1;
            }
            '[' => {
                if i + 1 < c.len() && c[i + 1] == ']' {
                    out.push(T::Flatten);
                    i += 2;
                } else if i + 1 < c.len() && c[i + 1] == '?' {
                    out.push(T::Filter);
                    i += 2;
                } else {
                    out.push(T::Lb);
                    i += 1;
                }
            }
            '|' => {
                if i + 1 < c.len() && c[i + 1] == '|' {
                    out.push(T::Or);
                    i += 2;
                } else {
                    out.push(T::Pipe);
                    i += 1;
                }
            }
            '&' => {
                if i + 1 < c.len() && c[i + 1] == '&' {
                    out.push(T::And);
                    i += 2;
                } else {
                    out.push(T::Amp);
                    i += 1;
                }
            }
            '=' => {
                if i + 1 < c.len() && c[i + 1] == '=' {
                    out.push(T::Cmp("Equal"));
                    i += 2;
                } else {
                    return None;
                }
            }
            '!' => {
                if i + 1 < c.len() && c[i + 1] == '=' {
                    out.push(T::Cmp("NotEqual"));
                    i += 2;
                } else {
                    out.push(T::Not);
                    i += 1;
                }
            }
            '<' => {
                if i + 1 < c.len() && c[i + 1] == '=' {
                    out.push(T::Cmp("LessThanEqual"));
                    i += 2;
                } else {
                    out.push(T::Cmp("LessThan"));
                    i += 1;
                }
            }
            '>' => {
                if i + 1 < c.len() && c[i + 1] == '=' {
                    out.push(T::Cmp("GreaterThanEqual"));
                    i += 2;
                } else {
                    out.push(T::Cmp("GreaterThan"));
                    i += 1;
                }
            }
            _ => return None,
        }
    }
    out.push(T::Eof);
    Some(out)
}

// Levels from the statement.
const PIPE: u32 = 1;
const OR: u32 = 2;
const AND: u32 = 3;
const CMP: u32 = 5;
const FLATTEN: u32 = 9;
const WILD: u32 = 20;
const DOT: u32 = 40;
const NOT: u32 = 45;
const BRACKET: u32 = 55;
const CALL: u32 = 60;

struct P {
    t: Vec<T>,
    i: usize,
    filter_level: u32,
    known16: bool,
}

type R = Result<String, String>;

impl P {
    fn pk(&self, k: usize) -> &T {
        self.t.get(self.i + k).unwrap_or(&T::Eof)
    }
    fn adv(&mut self) -> T {
        let t = self.pk(0).clone();
        if self.i < self.t.len() {
            self.i += 1;
        }
        t
    }
    // infix/postfix power of the token, None when it is not an operator
    fn power(&self, t: &T) -> Option<u32> {
        Some(match t {
            T::Pipe => PIPE,
            T::Or => OR,
            T::And => AND,
            T::Cmp(_) => CMP,
            T::Flatten => FLATTEN,
            T::Filter => self.filter_level,
            T::Dot => DOT,
            T::Lb => BRACKET,
            T::Lp => CALL,
            _ => return None,
        })
    }
    fn looser_than_projection(&self, t: &T) -> bool {
        matches!(
            t,
            T::Pipe | T::Or | T::And | T::Cmp(_) | T::Rb | T::Rp | T::Rc | T::Comma | T::Flatten | T::Eof
        ) || matches!(t, T::Id(_) | T::QId(_) | T::Num(_) | T::Lit(_) | T::At | T::Amp | T::Colon)
    }
    fn expr(&mut self, rbp: u32) -> R {
        let mut left = self.prefix()?;
        loop {
            let t = self.pk(0).clone();
            match self.power(&t) {
                Some(p) if p > rbp => {
                    left = self.infix(left)?;
                }
                Some(_) => break,
                None => {
                    // tokens that the library gives a nonzero power but no led
                    match t {
                        T::Star if rbp < 20 => return Err("led star".into()),
                        T::Not if rbp < 45 => return Err("led not".into()),
                        T::Lc if rbp < 50 => return Err("led lbrace".into()),
                        _ => break,
                    }
                }
            }
        }
        Ok(left)
    }
    fn prefix(&mut self) -> R {
        match self.adv() {
            T::At => Ok("@".into()),
            T::Id(n) => Ok(format!("F:{}", n)),
            T::QId(n) => {
                if self.pk(0) == &T::Lp {
                    return Err("quoted fn".into());
                }
                Ok(format!("F:{}", n))
            }
            T::Star => self.values("@".into()),
            T::Lit(v) => Ok(format!("L:{}", v)),
            T::Lb => match self.pk(0) {
                T::Num(_) | T::Colon => self.index(),
                T::Star if self.pk(1) == &T::Rb => {
                    self.adv();
                    self.adv();
                    let rhs = self.prhs(WILD)?;
                    Ok(format!("Proj(@, {})", rhs))
                }
                _ => self.mlist(),
            },
            T::Flatten => self.flatten("@".into()),
            T::Lc => self.mhash(),
            T::Not => {
                let n = self.expr(NOT)?;
                Ok(format!("Not({})", n))
            }
            T::Filter => self.filter("@".into()),
            T::Lp => {
                let r = self.expr(0)?;
                if self.adv() != T::Rp {
                    return Err("expected )".into());
                }
                if self.pk(0) == &T::Lp {
                    return Err("paren fn".into());
                }
                Ok(r)
            }
            t => Err(format!("bad prefix {:?}", t)),
        }
    }
    fn infix(&mut self, left: String) -> R {
        match self.adv() {
            T::Dot => {
                if self.pk(0) == &T::Star {
                    self.adv();
                    self.values(left)
                } else {
                    let rhs = self.dot_rhs(DOT)?;
                    Ok(format!("Sub({}, {})", left, rhs))
                }
            }
            T::Lb => match self.pk(0) {
                T::Num(_) | T::Colon => {
                    let r = self.index()?;
                    Ok(format!("Sub({}, {})", left, r))
                }
                T::Star => {
                    self.adv();
                    if self.adv() != T::Rb {
                        return Err("expected ] after *".into());
                    }
                    let rhs = self.prhs(WILD)?;
                    Ok(format!("Proj({}, {})", left, rhs))
                }
                _ => Err("bad bracket".into()),
            },
            T::Or => {
                let r = self.expr(OR)?;
                Ok(format!("Or({}, {})", left, r))
            }
            T::And => {
                let r = self.expr(AND)?;
                Ok(format!("And({}, {})", left, r))
            }
            T::Pipe => {
                let r = self.expr(PIPE)?;
                Ok(format!("Sub({}, {})", left, r))
            }
            T::Cmp(c) => {
                let r = self.expr(CMP)?;
                Ok(format!("Cmp{}({}, {})", c, left, r))
            }
            T::Lp => {
                if let Some(name) = left.strip_prefix("F:") {
                    if !name.contains('(') && !name.contains(' ') {
                        let args = self.list(T::Rp)?;
                        return Ok(format!("Fn:{}({})", name, args.join(", ")));
                    }
                }
                Err("bad fn name".into())
            }
            T::Flatten => self.flatten(left),
            T::Filter => self.filter(left),
            t => Err(format!("bad infix {:?}", t)),
        }
    }
    fn values(&mut self, left: String) -> R {
        let rhs = self.prhs(WILD)?;
        Ok(format!("Proj(Vals({}), {})", left, rhs))
    }
    fn flatten(&mut self, left: String) -> R {
        let rhs = self.prhs(FLATTEN)?;
        Ok(format!("Proj(Flat({}), {})", left, rhs))
    }
    fn filter(&mut self, left: String) -> R {
        let c = self.expr(0)?;
        if self.adv() != T::Rb {
            return Err("expected ] filter".into());
        }
        let rhs = self.prhs(self.filter_level)?;
        Ok(format!("Proj({}, Cond({}, {}))", left, c, rhs))
    }
    fn dot_rhs(&mut self, rbp: u32) -> R {
        match self.pk(0) {
            T::Lb => {
                self.adv();
                let ml = self.mlist()?;
                if self.known16 {
                    Ok(ml)
                } else {
                    // continue with the operators that bind tighter than rbp
                    let mut left = ml;
                    loop {
                        let t = self.pk(0).clone();
                        match self.power(&t) {
                            Some(p) if p > rbp => left = self.infix(left)?,
                            _ => break,
                        }
                    }
                    Ok(left)
                }
            }
            T::Id(_) | T::QId(_) | T::Star | T::Lc => self.expr(rbp),
            t => Err(format!("bad dot rhs {:?}", t)),
        }
    }
    fn prhs(&mut self, rbp: u32) -> R {
        let t = self.pk(0).clone();
        match t {
            T::Dot => {
                self.adv();
                self.dot_rhs(rbp)
            }
            T::Filter => self.expr(rbp),
            T::Lb => match self.pk(1) {
                T::Num(_) | T::Colon => self.expr(rbp),
                T::Star if self.pk(2) == &T::Rb => self.expr(rbp),
                _ => Err("bad bracket in projection".into()),
            },
            ref t if self.looser_than_projection(t) => Ok("@".into()),
            t => Err(format!("bad after projection {:?}", t)),
        }
    }
    fn index(&mut self) -> R {
        let mut parts: [Option<i32>; 3] = [None, None, None];
        let mut pos = 0;
        loop {
            match self.adv() {
                T::Num(n) => {
                    parts[pos] = Some(n);
                    match self.pk(0) {
                        T::Colon | T::Rb => {}
                        _ => return Err("idx".into()),
                    }
                }
                T::Rb => break,
                T::Colon => {
                    if pos >= 2 {
                        return Err("colons".into());
                    }
                    pos += 1;
                    match self.pk(0) {
                        T::Num(_) | T::Colon | T::Rb => {}
                        _ => return Err("idx2".into()),
                    }
                }
                _ => return Err("idx3".into()),
            }
        }
        if pos == 0 {
            Ok(format!("[{}]", parts[0].ok_or("noidx")?))
        } else {
            let rhs = self.prhs(WILD)?;
            Ok(format!(
                "Proj([{:?}:{:?}:{}], {})",
                parts[0],
                parts[1],
                parts[2].unwrap_or(1),
                rhs
            ))
        }
    }
    fn mlist(&mut self) -> R {
        let l = self.list(T::Rb)?;
        if l.is_empty() {
            return Err("empty ml".into());
        }
        Ok(format!("ML[{}]", l.join(", ")))
    }
    fn mhash(&mut self) -> R {
        let mut kv = vec![];
        loop {
            let k = match self.adv() {
                T::Id(k) | T::QId(k) => k,
                _ => return Err("key".into()),
            };
            if self.adv() != T::Colon {
                return Err("colon".into());
            }
            let v = self.expr(0)?;
            kv.push(format!("{}: {}", k, v));
            match self.adv() {
                T::Rc => break,
                T::Comma => continue,
                _ => return Err("mh".into()),
            }
        }
        Ok(format!("MH{{{}}}", kv.join(", ")))
    }
    fn list(&mut self, close: T) -> Result<Vec<String>, String> {
        let mut v = vec![];
        if self.pk(0) == &close {
            self.adv();
            return Ok(v);
        }
        loop {
            if close == T::Rp && self.pk(0) == &T::Amp {
                self.adv();
                let e = self.expr(0)?;
                v.push(format!("&({})", e));
            } else {
                v.push(self.expr(0)?);
            }
            match self.adv() {
                T::Comma => continue,
                ref t if t == &close => break,
                _ => return Err("list".into()),
            }
        }
        Ok(v)
    }
}

fn reference(e: &str, filter_level: u32, known16: bool) -> R {
    let t = lex(e).ok_or("lex")?;
    let mut p = P { t, i: 0, filter_level, known16 };
    let r = p.expr(0)?;
    if p.pk(0) != &T::Eof {
        return Err("trailing".into());
    }
    Ok(r)
}

// ---------- generator ----------
struct Rng(u64);
impl Rng {
    fn next(&mut self) -> u64 {
        self.0 ^= self.0 << 13;
        self.0 ^= self.0 >> 7;
        self.0 ^= self.0 << 17;
        self.0
    }
    fn below(&mut self, n: usize) -> usize {
        (self.next() % n as u64) as usize
    }
}

fn gen(r: &mut Rng, d: usize) -> String {
    if d == 0 {
        return ["a", "b", "c", "@", "`1`", "'s'", "*", "[0]", "[*]", "[]", "[1:]", "\"q\""][r.below(12)].to_string();
    }
    match r.below(30) {
        0..=2 => gen(r, 0),
        3 => format!("{} | {}", gen(r, d - 1), gen(r, d - 1)),
        4 => format!("{} || {}", gen(r, d - 1), gen(r, d - 1)),
        5 => format!("{} && {}", gen(r, d - 1), gen(r, d - 1)),
        6 => format!(
            "{} {} {}",
            gen(r, d - 1),
            ["==", "!=", "<", "<=", ">", ">="][r.below(6)],
            gen(r, d - 1)
        ),
        7 => format!("!{}", gen(r, d - 1)),
        8 => format!("({})", gen(r, d - 1)),
        9 => format!("{}.{}", gen(r, d - 1), gen(r, d - 1)),
        10 => format!("{}.*", gen(r, d - 1)),
        11 => format!("{}[*]", gen(r, d - 1)),
        12 => format!("{}[]", gen(r, d - 1)),
        13 => format!("{}[?{}]", gen(r, d - 1), gen(r, d - 1)),
        14 => format!("{}[{}]", gen(r, d - 1), ["0", "-1", "2"][r.below(3)]),
        15 => format!("{}[{}]", gen(r, d - 1), ["1:", ":2", "::2", "0:3:1", ":"][r.below(5)]),
        16 => format!("{}.[{}, {}]", gen(r, d - 1), gen(r, d - 1), gen(r, d - 1)),
        17 => format!("{}.{{k: {}}}", gen(r, d - 1), gen(r, d - 1)),
        18 => format!("[{}, {}]", gen(r, d - 1), gen(r, d - 1)),
        19 => format!("{{k: {}, \"j\": {}}}", gen(r, d - 1), gen(r, d - 1)),
        20 => format!("f({})", gen(r, d - 1)),
        21 => format!("g({}, &{})", gen(r, d - 1), gen(r, d - 1)),
        22 => format!("[?{}]", gen(r, d - 1)),
        23 => format!("{}.h({})", gen(r, d - 1), gen(r, d - 1)),
        24 => format!("{}.{}", gen(r, d - 1), ["a", "b", "c"][r.below(3)]),
        25 => format!("{}[?{}].{}", gen(r, d - 1), gen(r, d - 1), ["a", "b", "c"][r.below(3)]),
        26 => format!("{}{}", gen(r, d - 1), gen(r, d - 1)),
        27 => format!("{}.{}[?{}]", gen(r, d - 1), ["a", "b"][r.below(2)], gen(r, d - 1)),
        28 => format!("{}[*].{}", gen(r, d - 1), gen(r, d - 1)),
        _ => format!("{}[].{}", gen(r, d - 1), gen(r, d - 1)),
    }
}

const SOUP: &[&str] = &[
    "a", "b", ".", "[*]", "[]", "[?", "]", "[0]", "[1:]", "*", "||", "&&", "|", "==", "<", "!", "(", ")", "[", ",",
    "{", "k:", "}", "f(", "&", "@", "`1`", ".[", ".{", "!=", " ", "[", "0", ":", "\"q\"",
];

fn run(filter_level: u32, known16: bool, n: usize, report: usize) -> usize {
    let mut r = Rng(0x9E3779B97F4A7C15);
    let mut bad = 0;
    let mut ok = 0;
    let mut seen = std::collections::HashSet::new();
    for k in 0..n {
        let e = if k % 4 == 3 {
            let len = 1 + r.below(9);
            (0..len).map(|_| SOUP[r.below(SOUP.len())]).collect::<String>()
        } else {
            let d = 1 + r.below(4);
            gen(&mut r, d)
        };
        if e.len() > 120 || !seen.insert(e.clone()) {
            continue;
        }
        let lib = jmespath::parse(&e).map(|a| s(&a)).map_err(|_| ());
        let rf = reference(&e, filter_level, known16).map_err(|_| ());
        if lib.is_ok() {
            ok += 1;
        }
        if lib != rf {
            bad += 1;
            if bad <= report {
                println!("DIFF {}\n   lib {:?}\n   ref {:?}", e, lib, reference(&e, filter_level, known16));
            }
        }
    }
    println!("filter_level={} known16={} distinct={} parsed_ok={} diffs={}", filter_level, known16, seen.len(), ok, bad);
    bad
}

#[test]
fn fuzz_table_as_is() {
    // reference with filter one notch above wildcard (as the table) and the known multi-select behaviour
    let bad = run(21, true, 400000, 20);
    assert_eq!(bad, 0);
}

#[test]
fn fuzz_filter_same_as_wildcard_level() {
    run(20, true, 100000, 10);
}

#[test]
fn fuzz_multiselect_continues() {
    run(21, false, 100000, 10);
}
