// C04 candidate 1: the right-hand side of a FILTER projection stops at a following "[?",
// although "[?" is not a token that binds looser than a projection.
//
//   a[?x].b[?y]   parses as   (a[?x].b)[?y]
//   a[*].b[?y]    parses as    a[*].(b[?y])        (likewise a[1:].b[?y], a[].b[?y], a.*.b[?y])
//   a[?x][?y]     parses as    a[?x].([?y])        (the filter IS taken into the right-hand side
//                                                   when it follows the "]" directly)
//
// The property: "a projection's right-hand side extending exactly until a token that binds
// looser than a projection (pipe, or, and, comparators, closing brackets, comma, flatten)".
// "[?" is none of these, so the right-hand side of a[?x] must be  .b[?y] .
//
// Place at jmespath/tests/demo_1.rs. Uses only the public API and serde_json.
// The assertions state what the property demands; they FAIL on the library as it stands.

use jmespath::ast::Ast;

/// The tree without offsets.
fn shape(a: &Ast) -> String {
    match a {
        Ast::Field { name, .. } => name.clone(),
        Ast::Identity { .. } => "@".into(),
        Ast::Literal { value, .. } => format!("`{}`", value),
        Ast::Index { idx, .. } => format!("[{}]", idx),
        Ast::Slice { start, stop, step, .. } => format!("[{:?}:{:?}:{}]", start, stop, step),
        Ast::Subexpr { lhs, rhs, .. } => format!("Sub({}, {})", shape(lhs), shape(rhs)),
        Ast::Or { lhs, rhs, .. } => format!("Or({}, {})", shape(lhs), shape(rhs)),
        Ast::And { lhs, rhs, .. } => format!("And({}, {})", shape(lhs), shape(rhs)),
        Ast::Not { node, .. } => format!("Not({})", shape(node)),
        Ast::Comparison { comparator, lhs, rhs, .. } => {
            format!("Cmp{:?}({}, {})", comparator, shape(lhs), shape(rhs))
        }
        Ast::Projection { lhs, rhs, .. } => format!("Proj({}, {})", shape(lhs), shape(rhs)),
        Ast::Flatten { node, .. } => format!("Flat({})", shape(node)),
        Ast::ObjectValues { node, .. } => format!("Vals({})", shape(node)),
        Ast::Condition { predicate, then, .. } => {
            format!("Cond({}, {})", shape(predicate), shape(then))
        }
        Ast::MultiList { elements, .. } => format!(
            "ML[{}]",
            elements.iter().map(shape).collect::<Vec<_>>().join(", ")
        ),
        Ast::MultiHash { elements, .. } => format!(
            "MH{{{}}}",
            elements
                .iter()
                .map(|k| format!("{}: {}", k.key, shape(&k.value)))
                .collect::<Vec<_>>()
                .join(", ")
        ),
        Ast::Function { name, args, .. } => format!(
            "{}({})",
            name,
            args.iter().map(shape).collect::<Vec<_>>().join(", ")
        ),
        Ast::Expref { ast, .. } => format!("&({})", shape(ast)),
    }
}

fn tree(e: &str) -> String {
    shape(&jmespath::parse(e).unwrap())
}

fn search(e: &str, json: &str) -> serde_json::Value {
    let data = jmespath::Variable::from_json(json).unwrap();
    let r = jmespath::compile(e).unwrap().search(data).unwrap();
    serde_json::from_str(&r.to_string()).unwrap()
}

const DATA: &str = r#"{"a":[{"x":true, "b":[{"y":true,"v":1},{"y":false,"v":2}]},
                            {"x":false,"b":[{"y":true,"v":3}]}]}"#;

#[test]
fn the_other_projections_take_a_later_filter_into_their_right_hand_side() {
    // These pass: they show what "the right-hand side extends over [?" looks like.
    assert_eq!(tree("a[*].b[?y]"), "Proj(a, Proj(b, Cond(y, @)))");
    assert_eq!(tree("a[].b[?y]"), "Proj(Flat(a), Proj(b, Cond(y, @)))");
    assert_eq!(tree("a.*.b[?y]"), "Proj(Vals(a), Proj(b, Cond(y, @)))");
    assert_eq!(tree("a[1:].b[?y]"), "Sub(a, Proj([Some(1):None:1], Proj(b, Cond(y, @))))");
    // ... and so does a filter projection when the second filter follows directly,
    assert_eq!(tree("a[?x][?y]"), "Proj(a, Cond(x, Proj(@, Cond(y, @))))");
    // ... or when another projection stands in between.
    assert_eq!(
        tree("a[?x][*].b[?y]"),
        "Proj(a, Cond(x, Proj(@, Proj(b, Cond(y, @)))))"
    );
}

#[test]
fn filter_projection_rhs_extends_over_a_later_filter_tree() {
    // Demanded: the right-hand side of a[?x] is  .b[?y]  ("[?" does not bind looser than a projection).
    // Library:  Proj(Proj(a, Cond(x, b)), Cond(y, @))   i.e. (a[?x].b)[?y]
    assert_eq!(tree("a[?x].b[?y]"), "Proj(a, Cond(x, Proj(b, Cond(y, @))))");
}

#[test]
fn filter_projection_rhs_extends_over_a_later_filter_after_an_index() {
    // a[*][0][?y] is a[*].([0][?y]); the same must hold for the filter projection.
    assert_eq!(tree("a[*][0][?y]"), "Proj(a, Proj([0], Cond(y, @)))");
    // Library: Proj(Proj(a, Cond(x, [0])), Cond(y, @))
    assert_eq!(tree("a[?x][0][?y]"), "Proj(a, Cond(x, Proj([0], Cond(y, @))))");
}

#[test]
fn filter_projection_rhs_extends_over_a_later_filter_search_result() {
    // With the right-hand side .b[?y], every selected element e contributes e.b[?y].
    // Library: [] (it filters the list of the b-arrays by "y", which no array has).
    assert_eq!(
        search("a[?x].b[?y]", DATA),
        serde_json::json!([[{"y": true, "v": 1}]])
    );
}

#[test]
fn a_filter_that_keeps_everything_is_the_wildcard() {
    // If both right-hand sides extend by the same rule, a[?`true`] and a[*] cannot differ.
    // Library: left [] , right [[{"v":1,"y":true}],[{"v":3,"y":true}]]
    assert_eq!(
        search("a[?`true`].b[?y]", DATA),
        search("a[*].b[?y]", DATA)
    );
}
