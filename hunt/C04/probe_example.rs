use jmespath::ast::Ast;
fn s(a: &Ast) -> String {
    match a {
        Ast::Field { name, .. } => name.clone(),
        Ast::Identity { .. } => "@".into(),
        Ast::Literal { value, .. } => format!("`{}`", value),
        Ast::Index { idx, .. } => format!("[{}]", idx),
        Ast::Slice { start, stop, step, .. } => format!("[{:?}:{:?}:{}]", start, stop, step),
        Ast::Subexpr { lhs, rhs, .. } => format!("Sub({}, {})", s(lhs), s(rhs)),
        Ast::Or { lhs, rhs, .. } => format!("Or({}, {})", s(lhs), s(rhs)),
        Ast::And { lhs, rhs, .. } => format!("And({}, {})", s(lhs), s(rhs)),
        Ast::Not { node, .. } => format!("Not({})", s(node)),
        Ast::Comparison { comparator, lhs, rhs, .. } => format!("Cmp{:?}({}, {})", comparator, s(lhs), s(rhs)),
        Ast::Projection { lhs, rhs, .. } => format!("Proj({}, {})", s(lhs), s(rhs)),
        Ast::Flatten { node, .. } => format!("Flat({})", s(node)),
        Ast::ObjectValues { node, .. } => format!("Vals({})", s(node)),
        Ast::Condition { predicate, then, .. } => format!("Cond({}, {})", s(predicate), s(then)),
        Ast::MultiList { elements, .. } => format!("ML[{}]", elements.iter().map(s).collect::<Vec<_>>().join(", ")),
        Ast::MultiHash { elements, .. } => format!("MH{{{}}}", elements.iter().map(|k| format!("{}: {}", k.key, s(&k.value))).collect::<Vec<_>>().join(", ")),
        Ast::Function { name, args, .. } => format!("{}({})", name, args.iter().map(s).collect::<Vec<_>>().join(", ")),
        Ast::Expref { ast, .. } => format!("&({})", s(ast)),
    }
}
fn main() {
    for e in std::env::args().skip(1) {
        match jmespath::parse(&e) {
            Ok(a) => println!("{:<30} => {}", e, s(&a)),
            Err(err) => println!("{:<30} => ERR {}", e, err.to_string().replace('\n', " / ")),
        }
    }
}
