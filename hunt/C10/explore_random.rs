use jmespath::{compile, Variable};
use serde_json::Value;

struct Lcg(u64);
impl Lcg { fn next(&mut self) -> u64 { self.0 = self.0.wrapping_mul(6364136223846793005).wrapping_add(1442695040888963407); self.0 >> 11 } 
 fn below(&mut self, n: u64) -> u64 { self.next() % n } }

fn num(r: &mut Lcg) -> String {
    match r.below(8) {
        0 => format!("{}", r.below(5) as i64 - 2),
        1 => format!("{}.0", r.below(5) as i64 - 2),
        2 => { let bits = (r.next() << 11) ^ r.next(); let f = f64::from_bits(bits); if f.is_finite() { format!("{:e}", f) } else { "0".into() } }
        3 => format!("{}e{}", r.below(9) + 1, r.below(700) as i64 - 350),
        4 => format!("-{}e{}", r.below(9) + 1, r.below(700) as i64 - 350),
        5 => format!("{}", (r.next() << 11) ^ r.next()),
        6 => format!("-{}", ((r.next() << 11) ^ r.next()) >> 1),
        _ => format!("{}.{}", r.below(3), r.below(1000)),
    }
}

fn val(r: &mut Lcg, d: u32) -> String {
    let k = if d == 0 { r.below(5) } else { r.below(7) };
    match k {
        0 => "null".into(),
        1 => if r.below(2) == 0 { "true".into() } else { "false".into() },
        2 => num(r),
        3 => format!("\"{}\"", ["", "a", "b", "1", "true", "null", "é", "[]"][r.below(8) as usize]),
        4 => num(r),
        5 => { let n = r.below(4); let v: Vec<String> = (0..n).map(|_| val(r, d - 1)).collect(); format!("[{}]", v.join(",")) }
        _ => { let n = r.below(4); let mut keys = vec![]; let v: Vec<String> = (0..n).filter_map(|_| { let k = ["a", "b", "c", ""][r.below(4) as usize]; if keys.contains(&k) { None } else { keys.push(k); Some(format!("\"{}\":{}", k, val(r, d - 1))) } }).collect(); format!("{{{}}}", v.join(",")) }
    }
}

// mutate: respell numbers / reorder keys producing an equal value
fn ref_eq(a: &Value, b: &Value, close: &mut bool) -> bool {
    match (a, b) {
        (Value::Null, Value::Null) => true,
        (Value::Bool(x), Value::Bool(y)) => x == y,
        (Value::String(x), Value::String(y)) => x == y,
        (Value::Number(x), Value::Number(y)) => {
            let (x, y) = (x.as_f64().unwrap(), y.as_f64().unwrap());
            if x == y { return true; }
            let rel = ((x - y) / (x.abs().max(y.abs()))).abs();
            if rel < 1e-12 { *close = true; }
            false
        }
        (Value::Array(x), Value::Array(y)) => x.len() == y.len() && x.iter().zip(y).all(|(p, q)| ref_eq(p, q, close)),
        (Value::Object(x), Value::Object(y)) => x.len() == y.len() && x.iter().all(|(k, p)| y.get(k).map_or(false, |q| ref_eq(p, q, close))),
        _ => false,
    }
}

#[test]
fn random() {
    let mut r = Lcg(12345);
    let ops = ["==", "!=", "<", "<=", ">", ">="];
    let exprs: Vec<_> = ops.iter().map(|o| compile(&format!("a {} b", o)).unwrap()).collect();
    let mut bad = 0;
    for it in 0..300000 {
        let a = val(&mut r, 3);
        let b = if r.below(3) == 0 { a.clone() } else { val(&mut r, 3) };
        let data = format!("{{\"a\": {}, \"b\": {}}}", a, b);
        let v = match Variable::from_json(&data) { Ok(v) => std::rc::Rc::new(v), Err(_) => continue };
        let va: Value = serde_json::from_str(&a).unwrap();
        let vb: Value = serde_json::from_str(&b).unwrap();
        let res: Vec<String> = exprs.iter().map(|e| e.search(v.clone()).unwrap().to_string()).collect();
        let mut close = false;
        let exp = ref_eq(&va, &vb, &mut close);
        if close { continue; }
        let mut msgs = vec![];
        if res[0] != exp.to_string() { msgs.push("eq"); }
        if res[1] != (!exp).to_string() { msgs.push("ne"); }
        if let (Value::Number(x), Value::Number(y)) = (&va, &vb) {
            let (x, y) = (x.as_f64().unwrap(), y.as_f64().unwrap());
            if res[2] != (x < y).to_string() { msgs.push("lt"); }
            if res[3] != (x <= y).to_string() { msgs.push("le"); }
            if res[4] != (x > y).to_string() { msgs.push("gt"); }
            if res[5] != (x >= y).to_string() { msgs.push("ge"); }
        } else {
            for i in 2..6 { if res[i] != "null" { msgs.push("ordnull"); } }
        }
        if !msgs.is_empty() { bad += 1; if bad < 40 { println!("#{} {} ?? {} -> {:?} {:?}", it, a, b, res, msgs); } }
    }
    println!("bad = {}", bad);
}
