// C10 candidate 3 (low confidence): integers above 2^53 are compared after
// conversion to f64, so distinct JSON integers compare '==' and are not ordered.
//
// serde_json keeps 9007199254740993 and 9007199254740992 as exact u64 values, but
// PartialEq / Ord for Variable::Number go through Number::as_f64(), where both
// become 9007199254740992.0.
//
// Property: "numbers by numeric value", ordering "consistent with numeric order".
// (If "well-separated" is read as a relative notion these integers are not
// well-separated: they are closer than one f64 ulp. Hence low confidence.)
use jmespath::{compile, Variable};

fn eval(expr: &str) -> String {
    compile(expr).unwrap().search(Variable::Null).unwrap().to_string()
}

#[test]
fn distinct_integers_are_not_equal() {
    assert_eq!(eval("`9007199254740993` == `9007199254740992`"), "false");
    assert_eq!(eval("`9007199254740993` != `9007199254740992`"), "true");
}

#[test]
fn distinct_integers_are_ordered() {
    assert_eq!(eval("`9007199254740993` > `9007199254740992`"), "true");
    assert_eq!(eval("`9007199254740992` < `9007199254740993`"), "true");
    assert_eq!(eval("`9007199254740993` <= `9007199254740992`"), "false");
    // u64::MAX against i64::MAX + 1 spelled as integers one apart
    assert_eq!(eval("`18446744073709551615` > `18446744073709551614`"), "true");
}

#[test]
fn integers_2047_apart_are_not_equal() {
    // both exact i64 values; as f64 they are two ulps apart and float_eq accepts them,
    // while '>' is also true: two of {<, ==, >} hold at once.
    let eq = eval("`9223372036854775807` == `9223372036854773760`");
    let gt = eval("`9223372036854775807` > `9223372036854773760`");
    assert_eq!(gt, "true");
    assert_eq!(eq, "false");
}
