use jmespath::{compile, Variable};
use serde_json::Value;

fn run(expr: &str, a: &str, b: &str) -> String {
    let data = format!("{{\"a\": {}, \"b\": {}}}", a, b);
    let v = Variable::from_json(&data).unwrap();
    let e = compile(expr).unwrap();
    match e.search(v) {
        Ok(r) => r.to_string(),
        Err(e) => format!("ERR {}", e),
    }
}

fn is_num(s: &str) -> bool {
    matches!(serde_json::from_str::<Value>(s).unwrap(), Value::Number(_))
}

#[test]
fn grid() {
    let pool = [
        "null", "true", "false", "0", "-0", "0.0", "-0.0", "1", "1.0", "1e0", "10e-1", "-1", "2", "1.5",
        "1e308", "1.7e308", "9e307", "-9e307", "-1.7e308", "1.7976931348623157e308",
        "5e-324", "1e-323", "2.2250738585072014e-308", "2.225073858507201e-308", "4.4501477170144023e-308",
        "3e-308", "-3e-308", "1e-308", "2e-308",
        "9007199254740992", "9007199254740993", "9223372036854775807", "9223372036854775806", "-9223372036854775808",
        "18446744073709551615", "18446744073709551616", "1e19",
        "0.71", "0.7100000000000002", "0.1", "0.30000000000000004", "0.3",
        "\"\"", "\"a\"", "\"1\"", "\"true\"", "\"null\"", "\"b\"", "\"\\u00e9\"", "\"e\\u0301\"", "\"é\"", "\"\\u0000\"",
        "[]", "[1]", "[1.0]", "[1,2]", "[2,1]", "[[]]", "[null]", "[{}]", "[\"1\"]", "[true]",
        "{}", "{\"a\":1}", "{\"a\":1.0}", "{\"a\":1,\"b\":2}", "{\"b\":2,\"a\":1}", "{\"a\":null}", "{\"b\":1}", "{\"a\":[]}", "{\"a\":{}}", "{\"\":1}",
        "{\"a\":1,\"a\":2}", "{\"a\":2}",
    ];
    let ops = ["==", "!=", "<", "<=", ">", ">="];
    let mut n = 0;
    for a in pool.iter() {
        for b in pool.iter() {
            let r: Vec<String> = ops.iter().map(|o| run(&format!("a {} b", o), a, b)).collect();
            let rs: Vec<String> = ops.iter().map(|o| run(&format!("b {} a", o), a, b)).collect();
            let mut bad = vec![];
            if r[0] != "true" && r[0] != "false" { bad.push("eq not bool".to_string()); }
            if (r[0] == "true") == (r[1] == "true") { bad.push("ne not negation".into()); }
            if r[0] != rs[0] { bad.push("eq asym".into()); }
            let va: Value = serde_json::from_str(a).unwrap();
            let vb: Value = serde_json::from_str(b).unwrap();
            if a == b && r[0] != "true" { bad.push("not reflexive".into()); }
            let both = is_num(a) && is_num(b);
            if !both {
                for i in 2..6 { if r[i] != "null" { bad.push(format!("{} not null", ops[i])); } }
                // structural equality using serde_json (no numbers at top-level but nested maybe)
                let exp = va == vb;
                // serde_json compares 1 vs 1.0 as different; skip when nested numbers
                let nested_num = a.contains(|c: char| c.is_ascii_digit()) && !a.contains('"') ;
                if !nested_num && !a.contains("\"a\":") && (r[0] == "true") != exp { bad.push(format!("eq {} expected {}", r[0], exp)); }
            } else {
                for i in 2..6 { if r[i] != "true" && r[i] != "false" { bad.push(format!("{} not bool", ops[i])); } }
                let lt = r[2] == "true"; let le = r[3] == "true"; let gt = r[4] == "true"; let ge = r[5] == "true"; let eq = r[0] == "true";
                let cnt = lt as u8 + eq as u8 + gt as u8;
                if cnt != 1 { bad.push(format!("trichotomy count {}", cnt)); }
                if le != (lt || eq) { bad.push("le iff".into()); }
                if ge != (gt || eq) { bad.push("ge iff".into()); }
                if lt != (rs[4] == "true") { bad.push("lt/gt swap".into()); }
            }
            if !bad.is_empty() {
                n += 1;
                println!("{} ?? {} : {:?} {:?}", a, b, r, bad);
            }
        }
    }
    println!("violations: {}", n);
}
