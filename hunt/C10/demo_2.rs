// C10 candidate 2: '<=' / '>=' do not agree with '<' / '>' and '=='.
//
// '==' uses the tolerant float_eq, while '<=' and '>=' use the exact f64 order
// (Ord::cmp -> partial_cmp). For two doubles that '==' declares equal but that are
// not bit-identical, the larger one is reported as neither '<' nor '<=' the smaller
// one although it is '==' to it.
//
// Property: "a<=b iff a<b or a==b" (this clause, unlike the trichotomy clause, is
// not restricted to well-separated numbers; the tolerance of '==' itself is the
// known/allowed behaviour, the disagreement between the operators is what is
// reported here).
use jmespath::{compile, Variable};

fn eval(expr: &str, data: &str) -> bool {
    let data = Variable::from_json(data).unwrap();
    let r = compile(expr).unwrap().search(data).unwrap();
    r.as_boolean().expect("number operands must give a boolean")
}

fn check(a: &str, b: &str) {
    let data = format!("{{\"a\": {}, \"b\": {}}}", a, b);
    let lt = eval("a < b", &data);
    let le = eval("a <= b", &data);
    let gt = eval("a > b", &data);
    let ge = eval("a >= b", &data);
    let eq = eval("a == b", &data);
    assert_eq!(le, lt || eq, "{a} <= {b} is {le} but {a} < {b} is {lt} and {a} == {b} is {eq}", a = a, b = b, le = le, lt = lt, eq = eq);
    assert_eq!(ge, gt || eq, "{a} >= {b} is {ge} but {a} > {b} is {gt} and {a} == {b} is {eq}", a = a, b = b, ge = ge, gt = gt, eq = eq);
}

#[test]
fn le_is_lt_or_eq() {
    // the pair from the doc comment of float_eq
    check("0.7100000000000002", "0.71");
}

#[test]
fn ge_is_gt_or_eq() {
    check("0.71", "0.7100000000000002");
}

#[test]
fn le_ge_with_computed_value() {
    // 0.1 + 0.2 as produced by sum(): == `0.3` is true, so <= must be true too
    let data = Variable::from_json("[0.1, 0.2]").unwrap();
    let eq = compile("sum(@) == `0.3`").unwrap().search(data.clone()).unwrap();
    let le = compile("sum(@) <= `0.3`").unwrap().search(data.clone()).unwrap();
    let lt = compile("sum(@) < `0.3`").unwrap().search(data).unwrap();
    assert_eq!(
        le.as_boolean().unwrap(),
        lt.as_boolean().unwrap() || eq.as_boolean().unwrap(),
        "sum([0.1,0.2]) <= 0.3 must hold iff < or == holds"
    );
}
