// C10 candidate 1: '==' on large same-sign doubles overflows inside float_eq and
// reports well-separated numbers as equal.
//
// float_eq (variable.rs) computes diff / (|a| + |b|) < EPSILON. When |a| + |b|
// exceeds f64::MAX the sum is +inf, the quotient is 0 and every pair of same-sign
// numbers with |a| + |b| > 1.797e308 compares equal, e.g. 1e308 == 1.7e308 and even
// 1.7976931348623157e308 == 1e293 (15 orders of magnitude apart).
//
// Property: "'==' is deep structural equality on JSON values (numbers by numeric
// value ...)", "'!=' is always its negation", "exactly one of a<b, a==b, a>b for
// well-separated numbers; a<=b iff a<b or a==b".
use jmespath::{compile, Variable};

fn eval(expr: &str, data: &str) -> String {
    let data = Variable::from_json(data).unwrap();
    compile(expr).unwrap().search(data).unwrap().to_string()
}

fn check_pair(a: &str, b: &str) {
    // a < b numerically, far apart (not "a few units in the last place").
    let data = format!("{{\"a\": {}, \"b\": {}}}", a, b);
    let r = |op: &str| eval(&format!("a {} b", op), &data);
    let rr = |op: &str| eval(&format!("b {} a", op), &data);

    assert_eq!(r("=="), "false", "{} == {} must be false (different numeric values)", a, b);
    assert_eq!(rr("=="), "false", "{} == {} must be false (symmetry)", b, a);
    assert_eq!(r("!="), "true", "{} != {} must be true", a, b);
    assert_eq!(r("<"), "true");
    assert_eq!(r(">"), "false");
    // exactly one of <, ==, >
    let n = [r("<"), r("=="), r(">")].iter().filter(|s| *s == "true").count();
    assert_eq!(n, 1, "exactly one of a<b, a==b, a>b must hold for {} and {}", a, b);
    // a >= b iff a > b or a == b
    assert_eq!(r(">=") == "true", r(">") == "true" || r("==") == "true",
        "a>=b iff a>b or a==b for {} and {}", a, b);
    // the same through literals and inside containers
    assert_eq!(eval(&format!("`{}` == `{}`", a, b), "null"), "false");
    assert_eq!(eval(&format!("`[{}]` == `[{}]`", a, b), "null"), "false");
    assert_eq!(eval(&format!("`{{\"k\": {}}}` != `{{\"k\": {}}}`", a, b), "null"), "true");
}

#[test]
fn large_doubles_that_differ_are_not_equal() {
    check_pair("1e308", "1.7e308");
}

#[test]
fn large_negative_doubles_that_differ_are_not_equal() {
    check_pair("-1.7e308", "-9e307");
}

#[test]
fn doubles_fifteen_orders_of_magnitude_apart_are_not_equal() {
    check_pair("1e293", "1.7976931348623157e308");
}
