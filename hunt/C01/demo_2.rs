//! C01 candidate 2: a filter that follows `.identifier` on the right-hand side
//! of a *filter* projection is not projected onto each element; it ends the
//! projection and is applied to the whole result instead.
//! parse_filter calls projection_rhs(Token::Filter.lbp() == 21) and the Pratt
//! loop needs `rbp < lbp`, so a second `[?` (lbp 21) stops the right-hand side,
//! whereas after `[*]`, `[]`, slices and `.*` (rbp 20) the same suffix continues it.
use jmespath::{compile, Variable};

fn search(expr: &str, doc: &str) -> String {
    let data = Variable::from_json(doc).unwrap();
    compile(expr).unwrap().search(data).unwrap().to_string()
}

const DOC: &str = r#"{"foo":[{"x":true,"bar":[{"y":true,"v":1},{"y":false}]}]}"#;

#[test]
fn filter_after_field_inside_filter_projection_is_projected() {
    // reference points: the same suffix `.bar[?y]` after the other projection kinds
    assert_eq!(search("foo[*].bar[?y]", DOC), r#"[[{"v":1,"y":true}]]"#);
    assert_eq!(search("foo[].bar[?y]", DOC), r#"[[{"v":1,"y":true}]]"#);
    assert_eq!(search("foo[0:].bar[?y]", DOC), r#"[[{"v":1,"y":true}]]"#);
    // and other bracket suffixes after a filter projection are projected too
    assert_eq!(search("foo[?x].bar[0]", DOC), r#"[{"v":1,"y":true}]"#);
    assert_eq!(search("foo[?x].bar[:1]", DOC), r#"[[{"v":1,"y":true}]]"#);
    // every element of foo passes [?x], so the filter projection must agree with foo[*]
    assert_eq!(search("foo[?x].bar[?y]", DOC), r#"[[{"v":1,"y":true}]]"#); // library: []
}
