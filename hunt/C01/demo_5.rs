//! C01 candidate 5 (low confidence): `!foo.bar` is parsed as `(!foo).bar`
//! (Not has binding power 45, Dot 40), so it yields null (a field of a
//! boolean) instead of the negation of foo.bar.
use jmespath::{compile, Variable};

fn search(expr: &str, doc: &str) -> String {
    let data = Variable::from_json(doc).unwrap();
    compile(expr).unwrap().search(data).unwrap().to_string()
}

#[test]
fn not_applies_to_the_whole_sub_expression() {
    assert_eq!(search("!foo[0]", r#"{"foo":[false]}"#), "true"); // holds
    assert_eq!(search("!foo.bar", r#"{"foo":{"bar":false}}"#), "true"); // library: null
    assert_eq!(search("!foo.bar", r#"{"foo":{"bar":true}}"#), "false"); // library: null
}
