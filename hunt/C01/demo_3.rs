//! C01 candidate 3: the grammar's `number = ["-"] 1*digit` admits `-0`; the
//! index expression `foo[-0]` (and slices such as `foo[-0:]`) is a valid
//! expression whose value is that of `foo[0]` / `foo[0:]`, but the lexer
//! rejects '-' followed by '0' and no value is returned.
use jmespath::{compile, Variable};

#[test]
fn minus_zero_index_and_slice_bound() {
    let data = Variable::from_json(r#"{"foo":[1,2]}"#).unwrap();
    let idx = compile("foo[-0]").expect("foo[-0] is a valid index expression");
    assert_eq!(idx.search(data.clone()).unwrap().to_string(), "1");
    let sl = compile("foo[-0:]").expect("foo[-0:] is a valid slice expression");
    assert_eq!(sl.search(data).unwrap().to_string(), "[1,2]");
}
