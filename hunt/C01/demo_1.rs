//! C01 candidate 1: '==' / '!=' on two large, clearly different numbers.
//! float_eq (variable.rs:70-85) computes diff / (|a| + |b|); when |a| + |b|
//! overflows to +inf the quotient is 0 and every pair of same-signed numbers
//! whose magnitudes sum above f64::MAX compares equal.
use jmespath::{compile, Variable};

fn search(expr: &str, doc: &str) -> String {
    let data = Variable::from_json(doc).unwrap();
    compile(expr).unwrap().search(data).unwrap().to_string()
}

#[test]
fn equality_of_well_separated_large_numbers() {
    // eight orders of magnitude apart
    assert_eq!(search("a == b", r#"{"a":1.7976931348623157e308,"b":1e300}"#), "false");
    // 1e308 and 1.7e308 differ by 70 %
    assert_eq!(search("`1e308` == `1.7e308`", "null"), "false");
    assert_eq!(search("`1e308` != `1.7e308`", "null"), "true");
    assert_eq!(search("`-1e308` == `-1.7e308`", "null"), "false");
    // the comparison is used by filters and by deep equality of containers
    assert_eq!(
        search("[?@ == `1e308`]", "[1e308, 1.2e308, 9e307, -1e308, 1]"),
        "[1e+308]"
    );
    assert_eq!(search("[a] == [b]", r#"{"a":9e307,"b":1.7e308}"#), "false");
    assert_eq!(search("{k: a} == {k: b}", r#"{"a":9e307,"b":1.7e308}"#), "false");
}
