//! C01 candidate 4: ordering operators convert integers to f64 before
//! comparing, so distinct JSON integers above 2^53 (which the library
//! otherwise carries exactly as i64 / u64) are not ordered.
use jmespath::{compile, Variable};

fn search(expr: &str, doc: &str) -> String {
    let data = Variable::from_json(doc).unwrap();
    compile(expr).unwrap().search(data).unwrap().to_string()
}

#[test]
fn ordering_of_distinct_large_integers() {
    // the values are kept exactly
    assert_eq!(search("a", r#"{"a":9007199254740993}"#), "9007199254740993");
    assert_eq!(search("a > b", r#"{"a":9007199254740993,"b":9007199254740992}"#), "true");
    assert_eq!(search("b < a", r#"{"a":9007199254740993,"b":9007199254740992}"#), "true");
    assert_eq!(search("a <= b", r#"{"a":9007199254740993,"b":9007199254740992}"#), "false");
    assert_eq!(
        search("[?@ > `18446744073709551614`]", "[18446744073709551615, 18446744073709551614]"),
        "[18446744073709551615]"
    );
}
