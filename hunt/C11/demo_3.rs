//! C11 candidate 3: '!' does not combine the result of its operand when the operand
//! is a dotted path, a flatten or a filter: `!a.b` is evaluated as `(!a).b`.
use jmespath::{compile, Rcvar, Variable};

fn search(expr: &str, data: &Rcvar) -> Rcvar {
    compile(expr).unwrap().search(data.clone()).unwrap()
}

fn not_of(operand: &str, data: &Rcvar) -> Rcvar {
    Rcvar::new(Variable::Bool(!search(operand, data).is_truthy()))
}

fn doc() -> Rcvar {
    Rcvar::new(Variable::from_json(r#"{"a":{"b":false},"c":[],"d":[0]}"#).unwrap())
}

#[test]
fn forms_that_already_follow_the_truth_table() {
    let doc = doc();
    assert_eq!(search("!a", &doc), not_of("a", &doc));
    assert_eq!(search("!d[0]", &doc), not_of("d[0]", &doc));
    assert_eq!(search("!d[*]", &doc), not_of("d[*]", &doc));
    assert_eq!(search("!(a.b)", &doc), not_of("a.b", &doc));
}

#[test]
fn not_of_a_dotted_path() {
    // library answers null (evaluates `(!a).b`); a.b is false, so `!a.b` must be true
    assert_eq!(search("!a.b", &doc()), not_of("a.b", &doc()));
}

#[test]
fn not_of_a_flatten() {
    // library answers null (evaluates `(!c)[]`); c[] is [], so `!c[]` must be true
    assert_eq!(search("!c[]", &doc()), not_of("c[]", &doc()));
}

#[test]
fn not_of_a_filter() {
    // library answers null (evaluates `(!d)[?..]`); d[?@ > `1`] is [], so the negation must be true
    assert_eq!(search("!d[?@ > `1`]", &doc()), not_of("d[?@ > `1`]", &doc()));
}
