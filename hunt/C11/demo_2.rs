//! C11 candidate 2: '(L) | (R)' differs from searching R on the result of searching L
//! when L yields an expression reference (any-typed parameters let one escape as a value).
use jmespath::{compile, Variable};

#[test]
fn pipe_equals_searching_rhs_on_result_of_lhs() {
    let doc = Variable::from_json("{}").unwrap();
    let l = "not_null(&a)";
    let r = "type(@)";

    let compound = compile(&format!("({}) | ({})", l, r))
        .unwrap()
        .search(doc.clone())
        .unwrap();

    let left = compile(l).unwrap().search(doc).unwrap();
    let separate = compile(r).unwrap().search(left).unwrap();

    // library (default features): compound = "expref", separate = "string"
    assert_eq!(compound, separate);
}

#[test]
fn filter_projection_over_escaped_exprefs() {
    let doc = Variable::from_json("{}").unwrap();
    let compound = compile("(to_array(&a)) | ([?@])").unwrap().search(doc.clone()).unwrap();
    let left = compile("to_array(&a)").unwrap().search(doc).unwrap();
    let separate = compile("[?@]").unwrap().search(left).unwrap();
    // library: compound = [] (an expref is not truthy), separate = ["<expression: ...>"]
    assert_eq!(compound, separate);
}
