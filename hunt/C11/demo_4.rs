//! C11 candidate 4 (low confidence, mandated by the JMESPath specification):
//! on the document null a multi-select is null, not the tuple / record of its members' results.
use jmespath::{compile, Rcvar, Variable};

fn search(expr: &str, data: &Rcvar) -> Rcvar {
    compile(expr).unwrap().search(data.clone()).unwrap()
}

#[test]
fn multi_select_on_null_is_the_tuple_of_member_results() {
    let doc = Rcvar::new(Variable::Null);
    let members = ["`1`", "@", "type(@)"];
    let tuple = Rcvar::new(Variable::Array(
        members.iter().map(|m| search(m, &doc)).collect(),
    ));
    assert_eq!(tuple.to_string(), r#"[1,null,"null"]"#);
    // library answers null
    assert_eq!(search("[`1`, @, type(@)]", &doc), tuple);
}

#[test]
fn multi_select_hash_on_null_is_the_record_of_member_results() {
    let doc = Rcvar::new(Variable::Null);
    let want = Variable::from_json(r#"{"k":1,"t":"null"}"#).unwrap();
    // library answers null
    assert_eq!(*search("{k: `1`, t: type(@)}", &doc), want);
}
