//! C11 candidate 1: in a FILTER projection a later `[?q]` in the right-hand side is
//! applied to the whole projected array instead of to each element separately
//! (wildcard, slice and flatten projections apply it per element).
use jmespath::{compile, Rcvar, Variable};

fn search(expr: &str, data: Rcvar) -> Rcvar {
    compile(expr).unwrap().search(data).unwrap()
}

/// The property's reading: apply predicate / right-hand side to each element separately,
/// keep order, drop non-truthy elements and null results.
fn per_element(lhs: &str, predicate: Option<&str>, rhs_on_element: &str, doc: &Rcvar) -> Rcvar {
    let left = search(lhs, doc.clone());
    let mut out = vec![];
    for e in left.as_array().expect("array") {
        if let Some(p) = predicate {
            if !search(p, e.clone()).is_truthy() {
                continue;
            }
        }
        let r = search(rhs_on_element, e.clone());
        if !r.is_null() {
            out.push(r);
        }
    }
    Rcvar::new(Variable::Array(out))
}

#[test]
fn filter_projection_applies_rhs_per_element_like_the_other_kinds() {
    let doc = Rcvar::new(Variable::from_json(r#"{"a":[{"b":[1,2]},{"b":[3]}]}"#).unwrap());
    let want = per_element("a", Some("b"), "@.b[?@ > `1`]", &doc);
    assert_eq!(want.to_string(), "[[2],[3]]");

    // the three sibling projection kinds agree with the per-element reading
    assert_eq!(search("a[*].b[?@ > `1`]", doc.clone()), want);
    assert_eq!(search("a[0:].b[?@ > `1`]", doc.clone()), want);
    assert_eq!(search("a[].b[?@ > `1`]", doc.clone()), want);

    // the filter kind does not: library answers [] (it evaluates (a[?b].b)[?@ > `1`])
    assert_eq!(search("a[?b].b[?@ > `1`]", doc.clone()), want);
}

#[test]
fn filter_projection_index_then_filter() {
    let doc = Rcvar::new(Variable::from_json(r#"{"a":[[[1,2]],[[3]]]}"#).unwrap());
    let want = per_element("a", Some("@"), "@[0][?@ > `1`]", &doc);
    assert_eq!(want.to_string(), "[[2],[3]]");
    assert_eq!(search("a[*][0][?@ > `1`]", doc.clone()), want);
    // library answers []
    assert_eq!(search("a[?@][0][?@ > `1`]", doc.clone()), want);
}
