//! C02 candidate 4 (low confidence): to_number converts strings that are not a
//! JSON number: blanks around the digits are accepted because the string is fed
//! to a JSON *document* parser, which skips surrounding whitespace.
//!
//! Place at jmespath/tests/demo_4.rs. Fails on the unmodified library.
use jmespath::{compile, Variable};

fn to_number(s: &str) -> String {
    let e = compile("to_number(@)").unwrap();
    e.search(Variable::String(s.to_owned())).unwrap().to_string()
}

#[test]
fn strings_that_are_not_a_json_number_give_null() {
    assert_eq!(to_number(" 1"), "null");
    assert_eq!(to_number("1 "), "null");
    assert_eq!(to_number("\t1"), "null");
    assert_eq!(to_number("\n1.5e3\r\n"), "null");
}
