//! C02 candidate 2: arithmetic built-ins (abs, ceil, floor, sum, avg) route every
//! number through f64, so an integer argument above 2^53 (held and printed exactly
//! by the library) comes back as a different integer.
//!
//! Place at jmespath/tests/demo_2.rs. Fails on the unmodified library.
use jmespath::{compile, Variable};

/// The result as an exact integer, if it denotes one.
fn int_result(expr: &str, json: &str) -> Option<i128> {
    let data = Variable::from_json(json).unwrap();
    let r = compile(expr).unwrap().search(data).unwrap();
    match &*r {
        Variable::Number(n) => {
            if let Some(u) = n.as_u64() {
                Some(u as i128)
            } else if let Some(i) = n.as_i64() {
                Some(i as i128)
            } else {
                let f = n.as_f64().unwrap();
                if f.fract() == 0.0 { Some(f as i128) } else { None }
            }
        }
        _ => None,
    }
}

#[test]
fn abs_of_an_integer_is_its_magnitude() {
    assert_eq!(int_result("abs(@)", "-9007199254740993"), Some(9007199254740993));
}

#[test]
fn ceil_of_an_integer_is_that_integer() {
    assert_eq!(int_result("ceil(@)", "9007199254740993"), Some(9007199254740993));
}

#[test]
fn floor_of_an_integer_is_that_integer() {
    assert_eq!(int_result("floor(@)", "9007199254740993"), Some(9007199254740993));
}

#[test]
fn sum_of_one_integer_is_that_integer() {
    assert_eq!(int_result("sum(@)", "[9007199254740993]"), Some(9007199254740993));
    assert_eq!(int_result("sum(@)", "[9007199254740992, 1]"), Some(9007199254740993));
}

#[test]
fn avg_of_equal_integers_is_that_integer() {
    assert_eq!(
        int_result("avg(@)", "[9007199254740993, 9007199254740993]"),
        Some(9007199254740993)
    );
}
