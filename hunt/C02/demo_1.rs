//! C02 candidate 1: ordering built-ins (max, min, sort, sort_by, max_by, min_by)
//! compare numbers after converting them to f64, so integers above 2^53 that the
//! library itself holds and prints exactly are treated as ties; max even returns
//! the strictly smaller element and min the strictly larger one.
//!
//! Place at jmespath/tests/demo_1.rs. Fails on the unmodified library.
use jmespath::{compile, Variable};

fn search(expr: &str, json: &str) -> String {
    let data = Variable::from_json(json).unwrap();
    compile(expr).unwrap().search(data).unwrap().to_string()
}

#[test]
fn max_returns_the_largest_element() {
    // the input survives unchanged, so the library does distinguish the two integers
    assert_eq!(
        search("@", "[9007199254740993, 9007199254740992]"),
        "[9007199254740993,9007199254740992]"
    );
    assert_eq!(search("max(@)", "[9007199254740993, 9007199254740992]"), "9007199254740993");
}

#[test]
fn min_returns_the_smallest_element() {
    assert_eq!(search("min(@)", "[9007199254740993, 9007199254740992]"), "9007199254740992");
}

#[test]
fn sort_is_ascending() {
    assert_eq!(
        search("sort(@)", "[9007199254740993, 9007199254740992]"),
        "[9007199254740992,9007199254740993]"
    );
    assert_eq!(
        search("sort(@)", "[18446744073709551615, 18446744073709551614]"),
        "[18446744073709551614,18446744073709551615]"
    );
}

#[test]
fn sort_by_is_ascending_by_key() {
    assert_eq!(
        search(
            "sort_by(@, &k)[*].i",
            r#"[{"k":9007199254740993,"i":0},{"k":9007199254740992,"i":1}]"#
        ),
        "[1,0]"
    );
}

#[test]
fn max_by_and_min_by_return_the_element_with_the_extreme_key() {
    assert_eq!(
        search(
            "max_by(@, &k).i",
            r#"[{"k":9007199254740992,"i":0},{"k":9007199254740993,"i":1}]"#
        ),
        "1"
    );
    assert_eq!(
        search(
            "min_by(@, &k).i",
            r#"[{"k":9007199254740993,"i":0},{"k":9007199254740992,"i":1}]"#
        ),
        "1"
    );
}
