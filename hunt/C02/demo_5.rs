//! C02 candidate 5 (low confidence, neighbour of the known "non-finite result"
//! item): avg / sum fail although the value the specification defines is an
//! ordinary finite number, because the running total overflows on the way.
//!
//! Place at jmespath/tests/demo_5.rs. Fails on the unmodified library.
use jmespath::{compile, Variable};

#[test]
fn avg_of_two_equal_numbers_is_that_number() {
    let data = Variable::from_json("[1e308, 1e308]").unwrap();
    let r = compile("avg(@)").unwrap().search(data);
    assert_eq!(r.map(|v| v.as_number()).ok(), Some(Some(1e308)));
}

#[test]
fn sum_with_finite_total() {
    let data = Variable::from_json("[1e308, 1e308, -1e308]").unwrap();
    let r = compile("sum(@)").unwrap().search(data);
    assert_eq!(r.map(|v| v.as_number()).ok(), Some(Some(1e308)));
}
