//! C02 candidate 3: to_number does not return the number the string denotes.
//! The string is re-parsed with serde_json's default (not correctly rounded)
//! float parser, so decimal strings that are EXACTLY representable as doubles
//! come back as a neighbouring double; for integer-valued strings below 2^53 the
//! result is a different integer. to_number(to_string(x)) != x for about one
//! double in five.
//!
//! Place at jmespath/tests/demo_3.rs. Fails on the unmodified library.
use jmespath::{compile, Variable};
use std::convert::TryFrom;

fn to_number(s: &str) -> f64 {
    let e = compile("to_number(@)").unwrap();
    e.search(Variable::String(s.to_owned())).unwrap().as_number().unwrap()
}

#[test]
fn integer_valued_decimal_below_2_pow_53() {
    // 8383708557433457 < 2^53: exactly representable, no rounding is involved.
    assert_eq!(to_number("8383708557433457.0"), 8383708557433457.0);
    assert_eq!(to_number("7536552822192561.0"), 7536552822192561.0);
}

#[test]
fn exactly_representable_fraction() {
    // 1e15 + 0.5 is a double; the library answers 1000000000000000.375
    assert_eq!(to_number("1000000000000000.5"), 1000000000000000.5);
    let e = compile("to_string(to_number(@))").unwrap();
    let r = e.search(Variable::String("1000000000000000.5".to_owned())).unwrap();
    assert_eq!(r.as_string().unwrap(), "1000000000000000.5");
}

#[test]
fn to_number_inverts_to_string_on_numbers() {
    let e = compile("to_number(to_string(@))").unwrap();
    let mut x: u64 = 0x9E3779B97F4A7C15;
    let mut bad = vec![];
    for _ in 0..20000 {
        x ^= x << 13;
        x ^= x >> 7;
        x ^= x << 17;
        let f = f64::from_bits(x);
        if !f.is_finite() {
            continue;
        }
        let v = Variable::try_from(serde_json::json!(f)).unwrap();
        let g = e.search(v).unwrap().as_number().unwrap();
        if g != f {
            bad.push((f, g));
        }
    }
    assert!(bad.is_empty(), "{} of 20000 doubles do not survive, e.g. {:?}", bad.len(), &bad[..bad.len().min(3)]);
}
