// C09 candidate 1: a JSON literal whose value nests 128 or more arrays / objects is
// rejected at compile time ("recursion limit exceeded"), although it is a JSON value
// and the property says "for every JSON value v, the backtick literal holding v's
// JSON text ... evaluates to v".
use jmespath::{compile, Variable};

#[test]
fn literal_of_128_nested_arrays_evaluates_to_that_value() {
    let n = 128;
    let text = format!("{}{}", "[".repeat(n), "]".repeat(n));
    let expr = format!("`{}`", text);
    let compiled = compile(&expr);
    assert!(
        compiled.is_ok(),
        "literal holding a valid JSON value (depth {}) was rejected: {}",
        n,
        compiled.err().map(|e| e.reason.to_string()).unwrap_or_default()
    );
    let got = compiled.unwrap().search(Variable::Null).unwrap();
    assert_eq!(serde_json::to_string(&*got).unwrap(), text);
}

#[test]
fn literal_of_128_nested_objects_evaluates_to_that_value() {
    let n = 128;
    let text = format!("{}1{}", "{\"a\":".repeat(n), "}".repeat(n));
    let expr = format!("`{}`", text);
    let compiled = compile(&expr);
    assert!(
        compiled.is_ok(),
        "literal holding a valid JSON value (depth {}) was rejected: {}",
        n,
        compiled.err().map(|e| e.reason.to_string()).unwrap_or_default()
    );
    let got = compiled.unwrap().search(Variable::Null).unwrap();
    assert_eq!(serde_json::to_string(&*got).unwrap(), text);
}

// Control: one level less is accepted and exact, so this is a hard threshold
// inside literal decoding, not a general depth limit of the expression language.
#[test]
fn control_depth_127_is_fine() {
    let n = 127;
    let text = format!("{}{}", "[".repeat(n), "]".repeat(n));
    let got = compile(&format!("`{}`", text)).unwrap().search(Variable::Null).unwrap();
    assert_eq!(serde_json::to_string(&*got).unwrap(), text);
}
