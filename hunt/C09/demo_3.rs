// C09 candidate 3 (reading-dependent): "for every string s, the raw-string literal
// spelling of s evaluates to s (only backslash-quote is an escape; every other
// backslash is literal)".  Spelling = s with every ' replaced by \' between quotes.
// Strings in which an odd run of backslashes stands directly before a quote have a
// spelling that the lexer mis-scans, because it consumes "backslash + next char"
// as a unit even when the next char is another backslash.
use jmespath::{compile, Variable};

fn raw_spelling(s: &str) -> String {
    format!("'{}'", s.replace('\'', "\\'"))
}

fn check(s: &str) {
    let expr = raw_spelling(s);
    let compiled = compile(&expr);
    assert!(
        compiled.is_ok(),
        "raw-string spelling {} of {:?} rejected: {}",
        expr,
        s,
        compiled.err().map(|e| e.reason.to_string()).unwrap_or_default()
    );
    let got = compiled.unwrap().search(Variable::Null).unwrap();
    assert_eq!(got.as_string().map(|x| x.as_str()), Some(s), "spelling {}", expr);
}

#[test]
fn backslash_then_quote() {
    // s = \'   spelled '\\''  : a literal backslash (not followed by a quote), then \' = quote.
    check("\\'");
}

#[test]
fn backslash_then_quote_inside() {
    check("a\\'b");
}

// Controls that pass: even runs of backslashes before a quote, and backslashes elsewhere.
#[test]
fn controls() {
    check("\\\\'");
    check("\\\\");
    check("a\\b'c\\n\\u0041");
}
