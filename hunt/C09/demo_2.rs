// C09 candidate 2: number literals outside the i64 / u64 / f64 model do not
// evaluate to their value: integers beyond u64 / below i64 are silently replaced
// by the nearest double (a different number), and numerals whose magnitude
// exceeds f64 are rejected although they are well-formed JSON values.
use jmespath::{compile, Variable};

fn eval(expr: &str) -> String {
    let got = compile(expr).unwrap().search(Variable::Null).unwrap();
    serde_json::to_string(&*got).unwrap()
}

#[test]
fn distinct_integer_literals_evaluate_to_distinct_values() {
    // 2^64 + 1 and 2^64 are different JSON values; each literal must evaluate to its own value.
    assert_ne!(eval("`18446744073709551617`"), eval("`18446744073709551616`"));
}

#[test]
fn integer_literal_just_below_i64_min_keeps_its_value() {
    // -(2^63) - 1 must not evaluate to a number equal to -(2^63).
    let a = compile("`-9223372036854775809`").unwrap().search(Variable::Null).unwrap();
    let b = compile("`-9223372036854775808`").unwrap().search(Variable::Null).unwrap();
    assert_ne!(a.as_number(), b.as_number());
}

#[test]
fn large_exponent_literal_is_a_json_value_and_is_accepted() {
    // 1e400 is a well-formed JSON number (RFC 8259 grammar); it is not a malformed quoted form.
    let r = compile("`1e400`");
    assert!(r.is_ok(), "rejected: {}", r.err().map(|e| e.reason.to_string()).unwrap_or_default());
}
