// C08 candidate 3: finite numerals at the top of the double range are refused
// ("number out of range") although they denote f64::MAX (some are even mathematically
// <= f64::MAX, one is the accepted numeral 1.7976931348623157e308 with two trailing zeros).
//
// The property demands: "For every JSON document, parsing it ... and searching with the
// identity expression returns a value that serialises to JSON equal to the input ...
// (any other finite numeral lands within 2 units in the last place ...)",
// quantified over "doubles incl. subnormals and large exponents".
use jmespath::{compile, Variable};

fn check(text: &str) {
    // referee: correctly rounded conversion gives the finite double f64::MAX
    assert_eq!(text.parse::<f64>().unwrap(), f64::MAX);
    let doc = Variable::from_json(text);
    assert!(doc.is_ok(), "{} refused: {:?}", text, doc);
    let out = compile("@").unwrap().search(doc.unwrap()).unwrap();
    let got = out.as_number().unwrap();
    // within 2 units in the last place of f64::MAX
    assert!(f64::MAX.to_bits() - got.to_bits() <= 2, "{} -> {:e}", text, got);
}

#[test]
fn accepted_spelling_is_accepted() {
    check("1.7976931348623157e308");
}

#[test]
fn same_number_with_two_trailing_zeros() {
    check("1.797693134862315700e308");
}

#[test]
fn max_truncated_to_20_digits_is_below_max() {
    // f64::MAX = 1.79769313486231570814527...e308, so this numeral is < f64::MAX
    check("1.7976931348623157081e308");
}

#[test]
fn nineteen_digits_below_max() {
    // strictly between the two largest doubles, nearer to f64::MAX
    check("1.797693134862315649e308");
}

#[test]
fn seventeen_digits_rounding_to_max() {
    // above f64::MAX by less than half a unit in the last place: denotes f64::MAX
    check("1.7976931348623158e308");
}
