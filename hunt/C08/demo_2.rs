// C08 candidate 2: for subnormal doubles (and texts denoting them) printing a value
// and re-parsing the text does NOT yield an equal value, even under the library's own
// (tolerant) Variable equality, which is exact below f64::MIN_POSITIVE.
//
// The property demands: "Printing a value and re-parsing the text yields an equal value"
// (quantified over "doubles incl. subnormals").
use jmespath::Variable;

fn print_reparse(v: &Variable) -> Variable {
    Variable::from_json(&v.to_string()).unwrap()
}

#[test]
fn from_text_short() {
    let v = Variable::from_json("2.18e-308").unwrap();
    let w = print_reparse(&v);
    assert_eq!(v, w, "printed {} re-parsed as {}", v, w);
}

#[test]
fn from_text_trailing_zero() {
    // 2.190e-308 parses to the double printed as 2.19e-308, whose text parses to another double
    let v = Variable::from_json("[2.190e-308]").unwrap();
    let w = print_reparse(&v);
    assert_eq!(v, w, "printed {} re-parsed as {}", v, w);
}

#[test]
fn from_double() {
    let x = 2.217921727875476e-308f64; // subnormal
    let v = Variable::Number(serde_json::Number::from_f64(x).unwrap());
    let w = print_reparse(&v);
    assert_eq!(v, w, "printed {} re-parsed as {}", v, w);
    assert_eq!(w.as_number().unwrap().to_bits(), x.to_bits());
}

#[test]
fn through_serde_json_value() {
    // the same value arriving through serde_json's generic value type
    let x = 8.89359959790536e-309f64;
    let val = serde_json::json!({ "k": x });
    let v: Variable = serde_json::from_value(val).unwrap();
    let w = print_reparse(&v);
    assert_eq!(v, w, "printed {} re-parsed as {}", v, w);
}
