// C08 candidate 4: documents nested 128 levels or deeper are refused
// ("recursion limit exceeded"), and values of that depth (reachable through
// serde_json's value type or as search results) are printed as texts the library
// cannot read back.
//
// The property demands: "For every JSON document ... nesting and array order are preserved"
// (quantified over "arbitrary nesting") and "Printing a value and re-parsing the text
// yields an equal value".
use jmespath::{compile, Variable};
use std::convert::TryFrom;

fn identity_text(text: &str) -> Result<String, String> {
    let doc = Variable::from_json(text)?;
    Ok(compile("@").unwrap().search(doc).unwrap().to_string())
}

#[test]
fn arrays_depth_127_pass() {
    let text = format!("{}{}", "[".repeat(127), "]".repeat(127));
    assert_eq!(identity_text(&text), Ok(text));
}

#[test]
fn arrays_depth_128() {
    let text = format!("{}{}", "[".repeat(128), "]".repeat(128));
    assert_eq!(identity_text(&text), Ok(text));
}

#[test]
fn objects_depth_200() {
    let text = format!("{}1{}", "{\"a\":".repeat(200), "}".repeat(200));
    assert_eq!(identity_text(&text), Ok(text));
}

#[test]
fn printed_value_is_readable_again() {
    // depth 127 document, one more level added by a query: a legitimate search result
    let text = format!("{}{}", "[".repeat(127), "]".repeat(127));
    let doc = Variable::from_json(&text).unwrap();
    let out = compile("[@]").unwrap().search(doc).unwrap();
    let printed = out.to_string();
    let back = Variable::from_json(&printed);
    assert_eq!(back.as_ref(), Ok(&*out), "printed text of length {} not readable", printed.len());
}

#[test]
fn value_from_serde_json_prints_and_reparses() {
    let mut val = serde_json::Value::Null;
    for _ in 0..300 {
        val = serde_json::Value::Array(vec![val]);
    }
    let var = Variable::try_from(&val).unwrap();
    let printed = var.to_string();
    assert_eq!(Variable::from_json(&printed), Ok(var));
}
