// C08 candidate 1: numerals with at most 15 significant digits and a decimal
// exponent within +-22 do NOT keep exactly the double they denote when the
// mantissa has a fractional part (or the numeral is a plain small decimal).
//
// The property demands: "every number written with at most 15 significant digits
// and a decimal exponent within +-22 keeps exactly the double it denotes", and that
// the identity query "returns a value that serialises to JSON equal to the input".
use jmespath::{compile, Variable};

fn check(text: &str, denoted: f64) {
    // the referee: Rust's correctly rounded decimal-to-double conversion
    assert_eq!(text.parse::<f64>().unwrap().to_bits(), denoted.to_bits());
    let doc = Variable::from_json(text).unwrap();
    let out = compile("@").unwrap().search(doc).unwrap();
    let got = out.as_number().unwrap();
    let printed = out.to_string();
    assert_eq!(
        got.to_bits(),
        denoted.to_bits(),
        "input {} denotes {:e} but the identity query returned {:e} (printed as {})",
        text, denoted, got, printed
    );
    // and the printed text must denote the same number as the input text
    assert_eq!(printed.parse::<f64>().unwrap().to_bits(), denoted.to_bits());
}

#[test]
fn two_digits_exponent_minus_22() {
    check("1.5e-22", 1.5e-22);
}

#[test]
fn two_digits_exponent_minus_22_b() {
    check("7.8e-22", 7.8e-22);
}

#[test]
fn seven_digits_exponent_minus_17() {
    check("4.669303e-17", 4.669303e-17);
}

#[test]
fn fourteen_digits_exponent_minus_13() {
    check("2.5785936254074e-13", 2.5785936254074e-13);
}

#[test]
fn fifteen_digits_exponent_minus_10() {
    check("2.1275996806205e-10", 2.1275996806205e-10);
}

#[test]
fn plain_decimal_three_digits() {
    // 1.01e-21 written without an exponent part
    check("0.00000000000000000000101", 1.01e-21);
}

#[test]
fn inside_a_document() {
    let text = "{\"a\":[1.5e-22]}";
    let out = compile("@").unwrap().search(Variable::from_json(text).unwrap()).unwrap();
    let x = out.get_field("a").get_index(0).as_number().unwrap();
    assert_eq!(x.to_bits(), 1.5e-22f64.to_bits(), "got {:e}, printed {}", x, out);
}
