// C08 candidate 5 (low confidence): JSON strings whose \u escapes name a surrogate
// code point that is not part of a pair are grammatical JSON (RFC 8259 section 7/8.2)
// but are refused, so their code points are not kept.
//
// The property demands: "strings keep every code point" (quantified over "strings over
// all of Unicode incl. escapes and surrogate pairs").
use jmespath::Variable;

#[test]
fn lone_leading_surrogate() {
    let r = Variable::from_json("\"\\ud800\"");
    assert!(r.is_ok(), "{:?}", r);
}

#[test]
fn lone_trailing_surrogate() {
    let r = Variable::from_json("[\"a\\udc00b\"]");
    assert!(r.is_ok(), "{:?}", r);
}
