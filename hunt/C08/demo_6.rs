// C08 candidate 6 (medium-low confidence): in the normal range printing a value and
// re-parsing the text moves the double (by up to 2 units in the last place per cycle);
// a single cycle is only "equal" under the tolerant Variable equality, and a second
// cycle is unequal even under that.
//
// The property demands: "Printing a value and re-parsing the text yields an equal value".
use jmespath::Variable;

fn print_reparse(v: &Variable) -> Variable {
    Variable::from_json(&v.to_string()).unwrap()
}

#[test]
fn one_cycle_keeps_the_double() {
    let v = Variable::from_json("3.9e-28").unwrap();
    let w = print_reparse(&v);
    assert_eq!(
        v.as_number().unwrap().to_bits(),
        w.as_number().unwrap().to_bits(),
        "{} re-parsed as {}", v, w
    );
}

#[test]
fn two_cycles_stay_equal_under_library_equality() {
    let v = Variable::from_json("3.9e-28").unwrap();
    let w = print_reparse(&print_reparse(&v));
    assert_eq!(v, w);
}

#[test]
fn printing_is_a_fixed_point() {
    // text -> value -> text -> value -> text: the two printed texts should agree
    let v = Variable::from_json("[1.71e218]").unwrap();
    let t1 = v.to_string();
    let t2 = print_reparse(&v).to_string();
    assert_eq!(t1, t2);
}
