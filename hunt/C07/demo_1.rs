// C07 candidate 1: a slice over an array that contains null elements does not
// return "exactly the elements the slice rule selects": the null elements
// disappear, because the parser wraps every slice in a projection and a
// projection discards null results.
//
// Python:  [None, 1, 2][0:2] == [None, 1]        [1, None, 2, None][::-1] == [None, 2, None, 1]
use serde_json::{json, Value};

fn search(expr: &str, data: Value) -> Value {
    let e = jmespath::compile(expr).unwrap();
    let r = e.search(data).unwrap();
    serde_json::to_value(&*r).unwrap()
}

#[test]
fn slice_keeps_the_null_elements_it_selects() {
    assert_eq!(search("[0:2]", json!([null, 1, 2])), json!([null, 1]));
}

#[test]
fn reversed_slice_keeps_the_null_elements_it_selects() {
    assert_eq!(
        search("[::-1]", json!([1, null, 2, null])),
        json!([null, 2, null, 1])
    );
}

#[test]
fn slice_length_is_the_number_of_selected_positions() {
    // ten positions, every second one selected: five elements, whatever they are
    assert_eq!(
        search("length([::2])", json!([null, 0, null, 1, null, 2, null, 3, null, 4])),
        json!(5)
    );
}
