// C07 candidate 3: the public method Variable::slice(start, stop, step) does
// not treat step 0 as an error. Only the interpreter checks step == 0; the
// public method falls into the "negative step" loop with step 0 and
//   - returns Some([]) (an ordinary empty selection) when start <= stop, and
//   - never terminates when start > stop: `while i > b { push; i += 0 }`
//     pushes the same element until memory is exhausted.
//
// The second test runs the call in a child process of this same test binary
// under an allocation cap, so that the demonstration fails cleanly instead of
// taking the machine down.
use jmespath::Variable;
use std::alloc::{GlobalAlloc, Layout, System};
use std::sync::atomic::{AtomicUsize, Ordering};

struct Capped;
static USED: AtomicUsize = AtomicUsize::new(0);
const CAP: usize = 256 << 20; // 256 MiB

unsafe impl GlobalAlloc for Capped {
    unsafe fn alloc(&self, l: Layout) -> *mut u8 {
        if USED.fetch_add(l.size(), Ordering::SeqCst) + l.size() > CAP {
            USED.fetch_sub(l.size(), Ordering::SeqCst);
            return std::ptr::null_mut();
        }
        System.alloc(l)
    }
    unsafe fn dealloc(&self, p: *mut u8, l: Layout) {
        USED.fetch_sub(l.size(), Ordering::SeqCst);
        System.dealloc(p, l)
    }
    unsafe fn realloc(&self, p: *mut u8, l: Layout, new: usize) -> *mut u8 {
        if new > l.size() {
            if USED.fetch_add(new - l.size(), Ordering::SeqCst) + (new - l.size()) > CAP {
                USED.fetch_sub(new - l.size(), Ordering::SeqCst);
                return std::ptr::null_mut();
            }
        } else {
            USED.fetch_sub(l.size() - new, Ordering::SeqCst);
        }
        System.realloc(p, l, new)
    }
}

#[global_allocator]
static A: Capped = Capped;

#[test]
fn step_zero_is_not_an_ordinary_selection() {
    let v = Variable::from_json("[0,1,2,3]").unwrap();
    // Option<Vec<_>> cannot carry an error value, so the only ways to refuse
    // step 0 are None or a panic; an ordinary Some(selection) is neither.
    let r = std::panic::catch_unwind(|| v.slice(Some(0), Some(1), 0));
    assert!(
        !matches!(r, Ok(Some(_))),
        "Variable::slice(0, 1, step 0) returned an ordinary selection: {:?}",
        r
    );
}

#[test]
fn step_zero_terminates() {
    if std::env::var("C07_DEMO3_CHILD").is_ok() {
        let v = Variable::from_json("[0,1,2,3]").unwrap();
        let r = std::panic::catch_unwind(|| v.slice(Some(3), Some(1), 0));
        // whatever it answers (None, a panic, ...) it has to come back
        drop(r);
        return;
    }
    let exe = std::env::current_exe().unwrap();
    let mut child = std::process::Command::new(exe)
        .args(["step_zero_terminates", "--exact", "--test-threads=1"])
        .env("C07_DEMO3_CHILD", "1")
        .stdout(std::process::Stdio::null())
        .stderr(std::process::Stdio::null())
        .spawn()
        .unwrap();
    let t0 = std::time::Instant::now();
    let status = loop {
        if let Some(s) = child.try_wait().unwrap() {
            break Some(s);
        }
        if t0.elapsed() > std::time::Duration::from_secs(60) {
            child.kill().ok();
            child.wait().ok();
            break None;
        }
        std::thread::sleep(std::time::Duration::from_millis(20));
    };
    match status {
        Some(s) => assert!(
            s.success(),
            "Variable::slice(3, 1, step 0) on a 4-element array did not return: the child ran out of its 256 MiB allocation cap ({})",
            s
        ),
        None => panic!("Variable::slice(3, 1, step 0) on a 4-element array still running after 60 s"),
    }
}
