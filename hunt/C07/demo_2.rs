// C07 candidate 2: the numeral "-0" (JMESPath grammar: number = ["-"] 1*digit)
// is refused by the lexer wherever a slice component or an index is written,
// so
//   [::-0]  is a *syntax* (Parse) error instead of the invalid-value error
//           that the property demands for step 0,
//   [-0:], [:-0], [-0]  fail to compile instead of behaving as 0
//           (Python: l[-0:] == l, l[:-0] == [], l[-0] == l[0]).
// "-01" is refused the same way although "01" is accepted.
use jmespath::{ErrorReason, RuntimeError};
use serde_json::{json, Value};

fn search(expr: &str, data: Value) -> Result<Value, jmespath::JmespathError> {
    let e = jmespath::compile(expr)?;
    let r = e.search(data)?;
    Ok(serde_json::to_value(&*r).unwrap())
}

#[test]
fn step_minus_zero_is_an_invalid_value_error() {
    let err = search("[::-0]", json!([1, 2, 3])).unwrap_err();
    match err.reason {
        ErrorReason::Runtime(RuntimeError::InvalidSlice) => (),
        ref other => panic!("step 0 must be the invalid-value error, got {:?}", other),
    }
}

#[test]
fn start_minus_zero_is_start_zero() {
    assert_eq!(search("[-0:]", json!([1, 2, 3])).unwrap(), json!([1, 2, 3]));
}

#[test]
fn stop_minus_zero_is_stop_zero() {
    assert_eq!(search("[:-0]", json!([1, 2, 3])).unwrap(), json!([]));
}

#[test]
fn index_minus_zero_is_index_zero() {
    assert_eq!(search("[-0]", json!([1, 2, 3])).unwrap(), json!(1));
}

#[test]
fn negative_numeral_with_leading_zero() {
    // "[01]" compiles and selects index 1; "[-01]" must select the last element
    assert_eq!(search("[01]", json!([1, 2, 3])).unwrap(), json!(2));
    assert_eq!(search("[-01]", json!([1, 2, 3])).unwrap(), json!(3));
}
