#!/bin/bash
# C18 candidate 2: when stdout cannot be written (full device, closed pipe) jp panics
# (-u with a string result, --ast), or exits 0 having printed nothing (one-line result),
# or leaves partial output and exits 1 (multi-line result).
# usage: demo_2.sh /path/to/jp      exit 0 = property respected.  Needs /dev/full (Linux).
JP="$1"; export RUST_BACKTRACE=0
[ -c /dev/full ] || { echo "no /dev/full"; exit 2; }
T=$(mktemp -d) || exit 2; trap 'rm -rf "$T"' EXIT
printf '{"a":"x","b":[1,2]}' > "$T/in.json"
fail=0
chk() { # label, rc, stderr file : demand a diagnosis + non-zero exit, and no panic
  if [ "$2" -eq 101 ] || grep -q 'panicked at' "$3"; then echo "VIOLATION $1: panicked (rc=$2)"; fail=1
  elif [ "$2" -eq 0 ]; then echo "VIOLATION $1: exit 0 although nothing could be printed"; fail=1
  elif [ ! -s "$3" ]; then echo "VIOLATION $1: no diagnosis"; fail=1; fi; }
"$JP" -u -f "$T/in.json" a >/dev/full 2>"$T/e"; chk "-u string result, stdout=/dev/full" $? "$T/e"
"$JP" --ast a              >/dev/full 2>"$T/e"; chk "--ast, stdout=/dev/full" $? "$T/e"
"$JP" -f "$T/in.json" a    >/dev/full 2>"$T/e"; chk "one-line result, stdout=/dev/full" $? "$T/e"
"$JP" -f "$T/in.json" b    >/dev/full 2>"$T/e"; chk "multi-line result, stdout=/dev/full (passes: die! path)" $? "$T/e"
# closed pipe (reader gone before jp writes)
( sleep 0.5; "$JP" -u -f "$T/in.json" a 2>"$T/e"; echo $? >"$T/rc" ) | true
chk "-u string result, reader of the pipe gone" "$(cat "$T/rc")" "$T/e"
[ $fail -eq 0 ] && echo "ok"
exit $fail
