#!/bin/bash
# C18 candidate 1: command-line arguments that are not valid UTF-8 make jp panic
# (clap 2 ArgMatches::value_of -> "unexpected invalid UTF-8 code point", exit 101).
# usage: demo_1.sh /path/to/jp      exit 0 = property respected
JP="$1"; export RUST_BACKTRACE=0
T=$(mktemp -d) || exit 2; trap 'rm -rf "$T"' EXIT
fail=0
panicked() { [ "$1" -eq 101 ] || grep -q 'panicked at' "$2"; }

# (a) -f names a readable file holding valid JSON; only its NAME is not UTF-8.
#     Property: "For every expression and JSON input (from stdin or a file), jp exits 0 and
#     prints the pretty-printed JSON ... followed by a newline"; "it never panics".
F="$T/"$'in\xff.json'
printf '{"a":"x"}' > "$F" || { echo "cannot create non-UTF-8 file name here"; exit 2; }
"$JP" -f "$F" a >"$T/o" 2>"$T/e" </dev/null; rc=$?
if panicked $rc "$T/e"; then echo "VIOLATION (a): jp -f <non-UTF-8 name> a  panicked, rc=$rc"; fail=1
elif [ $rc -ne 0 ] || [ "$(cat "$T/o")" != '"x"' ]; then echo "VIOLATION (a): rc=$rc stdout=$(cat "$T/o")"; fail=1; fi

# (b) same for the expression file
E="$T/"$'ex\xfe.txt'
printf 'a' > "$E"
printf '{"a":"x"}' | "$JP" -e "$E" >"$T/o" 2>"$T/e"; rc=$?
if panicked $rc "$T/e"; then echo "VIOLATION (b): jp -e <non-UTF-8 name>  panicked, rc=$rc"; fail=1
elif [ $rc -ne 0 ] || [ "$(cat "$T/o")" != '"x"' ]; then echo "VIOLATION (b): rc=$rc stdout=$(cat "$T/o")"; fail=1; fi

# (c) non-existent file with a non-UTF-8 name: "unreadable file" -> diagnosis, no panic
"$JP" -f "$T/"$'missing\xff' a >"$T/o" 2>"$T/e" </dev/null; rc=$?
if panicked $rc "$T/e"; then echo "VIOLATION (c): unreadable non-UTF-8 file name panicked, rc=$rc"; fail=1
elif [ $rc -eq 0 ] || [ -s "$T/o" ] || [ ! -s "$T/e" ]; then echo "VIOLATION (c): rc=$rc"; fail=1; fi

# (d) the expression argument itself is not UTF-8: a bad expression -> diagnosis, no panic
printf '{"a":"x"}' | "$JP" $'a\xff' >"$T/o" 2>"$T/e"; rc=$?
if panicked $rc "$T/e"; then echo "VIOLATION (d): non-UTF-8 expression argument panicked, rc=$rc"; fail=1
elif [ $rc -eq 0 ] || [ -s "$T/o" ] || [ ! -s "$T/e" ]; then echo "VIOLATION (d): rc=$rc"; fail=1; fi

# (e) --ast with a non-UTF-8 expression
"$JP" --ast $'\xc3(' >"$T/o" 2>"$T/e" </dev/null; rc=$?
if panicked $rc "$T/e"; then echo "VIOLATION (e): --ast with non-UTF-8 expression panicked, rc=$rc"; fail=1
elif [ $rc -eq 0 ] || [ -s "$T/o" ] || [ ! -s "$T/e" ]; then echo "VIOLATION (e): rc=$rc"; fail=1; fi

[ $fail -eq 0 ] && echo "ok"
exit $fail
