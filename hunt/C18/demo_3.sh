#!/bin/bash
# C18 candidate 3: the die! macro panics when the diagnosis cannot be written to stderr.
# usage: demo_3.sh /path/to/jp      exit 0 = property respected.  Needs /dev/full (Linux).
JP="$1"; export RUST_BACKTRACE=0
[ -c /dev/full ] || { echo "no /dev/full"; exit 2; }
"$JP" 'a[' </dev/null >/dev/null 2>/dev/full; rc=$?
if [ $rc -eq 101 ]; then echo "VIOLATION: bad expression with stderr=/dev/full: exit 101 (panic 'Unable to write to stderr'), expected a plain non-zero failure exit"; exit 1; fi
[ $rc -ne 0 ] && echo ok || { echo "VIOLATION: exit 0"; exit 1; }
