// C14 candidate 2: a number is accepted as the tag of an internally / adjacently tagged enum
// (it is taken as the variant INDEX), where serde_json (from_str and from_value) refuses it.
// Cause: Variable's Deserializer forwards deserialize_identifier to deserialize_any, so the
// derived variant-identifier visitor gets visit_u64(n); serde_json only hands strings to
// deserialize_identifier and fails with "invalid type: integer `1`, expected variant identifier".
use jmespath::Variable;
use serde::Deserialize;
use serde_derive::{Deserialize, Serialize};

#[derive(Serialize, Deserialize, Debug, PartialEq, Clone)]
#[serde(tag = "t")]
enum IT {
    A { x: i32 },
    B,
}

#[derive(Serialize, Deserialize, Debug, PartialEq, Clone)]
#[serde(tag = "t", content = "c")]
enum AT {
    A { x: i32 },
    B,
    C(i32, i32),
}

fn same<T: serde::de::DeserializeOwned + std::fmt::Debug + PartialEq>(json: &str) {
    // the JSON is the result of a search (a literal, or the identity over a document)
    let expr = jmespath::compile("@").unwrap();
    let result = expr.search(Variable::from_json(json).unwrap()).unwrap();
    let from_lib: Option<T> = T::deserialize((*result).clone()).ok();
    let from_str: Option<T> = serde_json::from_str(json).ok();
    let from_value: Option<T> =
        serde_json::from_value(serde_json::from_str::<serde_json::Value>(json).unwrap()).ok();
    assert_eq!(from_str, from_value, "serde_json agrees with itself on {}", json);
    assert_eq!(from_lib, from_str, "decoding {} into {}", json, std::any::type_name::<T>());
}

#[test]
fn numeric_tag_internally_tagged_map() {
    same::<IT>("{\"t\":1}"); // library: Ok(B); serde_json: Err
}

#[test]
fn numeric_tag_internally_tagged_map_with_fields() {
    same::<IT>("{\"x\":5,\"t\":0}"); // library: Ok(A{x:5}); serde_json: Err
}

#[test]
fn numeric_tag_internally_tagged_seq() {
    same::<IT>("[1]"); // library: Ok(B); serde_json: Err
}

#[test]
fn numeric_tag_adjacently_tagged_seq() {
    same::<AT>("[2,[1,2]]"); // library: Ok(C(1,2)); serde_json: Err
}

#[test]
fn string_tags_still_agree() {
    same::<IT>("{\"t\":\"B\"}");
    same::<AT>("{\"t\":\"C\",\"c\":[1,2]}");
}
