// C14 candidate 5: 128-bit integers. serde_json converts i128 / u128 that fit the JSON number
// model (to_value: anything within i64::MIN..=u64::MAX; to_string: all of them) and decodes
// them back; the bridge implements neither serialize_i128/u128 nor deserialize_i128/u128,
// so conversion fails with "i128 is not supported" and decoding fails likewise.
use jmespath::{ToJmespath, Variable};
use serde::Deserialize;
use serde_derive::{Deserialize, Serialize};

#[derive(Serialize, Deserialize, Debug, PartialEq, Clone)]
struct Wide {
    id: u128,
    delta: i128,
}

#[test]
fn converts_128_bit_integers_like_serde_json() {
    let v = Wide { id: 5, delta: -5 };
    let expected = serde_json::to_value(&v).unwrap(); // {"delta":-5,"id":5}
    let lib = (&v).to_jmespath(); // library: Err(... u128 is not supported ...)
    assert!(lib.is_ok(), "conversion failed: {}", lib.unwrap_err());
    assert_eq!(serde_json::to_value(&*lib.unwrap()).unwrap(), expected);
}

#[test]
fn search_over_u128_equals_search_over_its_json_text() {
    let v: Vec<u128> = vec![1, u64::MAX as u128];
    let text = serde_json::to_string(&v).unwrap();
    let expr = jmespath::compile("[1]").unwrap();
    let over_text = expr.search(Variable::from_json(&text).unwrap()).unwrap();
    let over_typed = expr.search(&v); // library: Err
    assert_eq!(over_typed.ok(), Some(over_text));
}

#[test]
fn decodes_128_bit_integers_like_serde_json() {
    let json = "{\"id\":18446744073709551615,\"delta\":-9223372036854775808}";
    let from_str: Wide = serde_json::from_str(json).unwrap();
    let from_value: Wide = serde_json::from_value(serde_json::from_str(json).unwrap()).unwrap();
    assert_eq!(from_str, from_value);
    let from_lib = Wide::deserialize(Variable::from_json(json).unwrap()); // library: Err(u128 is not supported)
    assert_eq!(from_lib.ok(), Some(from_str));
}
