// C14 candidate 4: decoding an object with a visitor that stops before the last entry silently
// drops the remaining entries (the map counterpart of the already repaired array/tuple case).
// serde_json refuses: from_str -> "trailing comma ...", from_value -> "invalid length 2,
// expected fewer elements in map". Variable::deserialize_any (Object arm) and
// VariantDeserializer::struct_variant call visit_map without checking that the iterator is exhausted.
use jmespath::Variable;
use serde::de::{self, Deserialize, Deserializer, MapAccess, Visitor};
use std::fmt;

#[derive(Debug, PartialEq)]
struct FirstEntry(String, i32);

impl<'de> Deserialize<'de> for FirstEntry {
    fn deserialize<D: Deserializer<'de>>(d: D) -> Result<Self, D::Error> {
        struct V;
        impl<'de> Visitor<'de> for V {
            type Value = FirstEntry;
            fn expecting(&self, f: &mut fmt::Formatter) -> fmt::Result {
                f.write_str("a map with one entry")
            }
            fn visit_map<A: MapAccess<'de>>(self, mut m: A) -> Result<FirstEntry, A::Error> {
                match m.next_entry::<String, i32>()? {
                    Some((k, v)) => Ok(FirstEntry(k, v)),
                    None => Err(de::Error::custom("empty")),
                }
            }
        }
        d.deserialize_map(V)
    }
}

#[test]
fn one_entry_agrees() {
    let json = "{\"a\":1}";
    let lib = FirstEntry::deserialize(Variable::from_json(json).unwrap()).ok();
    assert_eq!(lib, serde_json::from_str::<FirstEntry>(json).ok());
    assert_eq!(lib, Some(FirstEntry("a".into(), 1)));
}

#[test]
fn surplus_entries_are_refused_like_serde_json() {
    let json = "{\"a\":1,\"b\":2}";
    let result = jmespath::compile("@").unwrap().search(Variable::from_json(json).unwrap()).unwrap();
    let from_str = serde_json::from_str::<FirstEntry>(json).ok();
    let from_value = serde_json::from_value::<FirstEntry>(serde_json::from_str(json).unwrap()).ok();
    assert_eq!(from_str, None);
    assert_eq!(from_value, None);
    let from_lib = FirstEntry::deserialize((*result).clone()).ok();
    // library: Some(FirstEntry("a", 1))
    assert_eq!(from_lib, from_str);
}
