// C14 candidate 1: an enum value with a zero-field tuple variant does not survive the trip.
// `E::Z()` converts to {"Z":[]} (same as serde_json), but decoding {"Z":[]} back fails,
// because VariantDeserializer::tuple_variant -> SeqDeserializer::deserialize_any calls
// visit_unit() for an empty array instead of visit_seq().
use jmespath::ToJmespath;
use serde::Deserialize;
use serde_derive::{Deserialize, Serialize};

#[derive(Serialize, Deserialize, Debug, PartialEq, Clone)]
enum E {
    Z(),
    T(i32, String),
}

#[test]
fn zero_field_tuple_variant_survives_the_trip() {
    let v = E::Z();
    // conversion agrees with serde_json
    let var = (&v).to_jmespath().unwrap();
    let text = serde_json::to_string(&v).unwrap();
    assert_eq!(text, "{\"Z\":[]}");
    assert_eq!(serde_json::to_string(&*var).unwrap(), text);
    // identity search, then decode the search result
    let result = jmespath::compile("@").unwrap().search(&v).unwrap();
    let from_json: E = serde_json::from_str(&text).unwrap(); // serde_json: Ok(E::Z)
    assert_eq!(from_json, v);
    let from_lib = E::deserialize((*result).clone());
    // property: "yields what serde_json yields from the same JSON, so a value survives the trip"
    assert_eq!(from_lib.ok(), Some(v));
}

#[test]
fn nested_zero_field_tuple_variant() {
    let v = vec![Some(E::Z()), Some(E::T(1, "x".into())), None];
    let result = jmespath::compile("@").unwrap().search(&v).unwrap();
    let text = serde_json::to_string(&v).unwrap();
    let from_json: Vec<Option<E>> = serde_json::from_str(&text).unwrap();
    assert_eq!(from_json, v);
    let from_lib = <Vec<Option<E>>>::deserialize((*result).clone());
    assert_eq!(from_lib.ok(), Some(v));
}
