// C14 candidate 8 (low confidence, `specialized` feature only; build with a nightly toolchain or
// RUSTC_BOOTSTRAP=1 cargo test --features specialized --test demo_8):
// Variable is itself a Serialize type. serde_json's image of Variable::Expref(..) is the string
// "<expression: ..>" and the default / sync builds search it as that string, but the specialised
// identity impls (ToJmespath for Variable / &Variable / Rcvar / &Rcvar) keep it an expref, so the
// same value is searched differently depending on the feature set.
use jmespath::ast::Ast;
use jmespath::Variable;

#[test]
fn expref_value_is_searched_as_its_json_image() {
    let v = Variable::Expref(Ast::Identity { offset: 0 });
    let image = serde_json::to_value(&v).unwrap();
    assert!(image.is_string());
    let expr = jmespath::compile("type(@)").unwrap();
    let over_image = expr.search(&image).unwrap();
    let over_typed = expr.search(&v).unwrap();
    // default build: "string" == "string"; specialized build: "expref" != "string"
    assert_eq!(over_typed, over_image);
}
