// C14 candidate 3: a struct variant cannot be decoded from its array form, although
// (a) serde_json::from_str decodes it, and (b) the library itself decodes a plain struct
// from an array. VariantDeserializer::struct_variant only accepts Variable::Object.
// (serde_json::from_value has the same restriction; from the JSON text serde_json yields Ok.)
use jmespath::Variable;
use serde::Deserialize;
use serde_derive::{Deserialize, Serialize};

#[derive(Serialize, Deserialize, Debug, PartialEq, Clone)]
struct P {
    a: i32,
    b: Option<bool>,
}

#[derive(Serialize, Deserialize, Debug, PartialEq, Clone)]
enum E {
    S { a: i32, b: Option<bool> },
    ZS {},
}

#[test]
fn plain_struct_from_array_agrees() {
    let json = "[1,true]";
    let lib = P::deserialize(Variable::from_json(json).unwrap()).ok();
    assert_eq!(lib, serde_json::from_str::<P>(json).ok());
    assert_eq!(lib, Some(P { a: 1, b: Some(true) }));
}

#[test]
fn struct_variant_from_array() {
    // e.g. the result of searching  {"S": [a, b]}  (a multi-select hash over a document)
    let expr = jmespath::compile("{S: [a, b]}").unwrap();
    let result = expr.search(P { a: 1, b: Some(true) }).unwrap();
    let json = serde_json::to_string(&*result).unwrap();
    assert_eq!(json, "{\"S\":[1,true]}");
    let from_json = serde_json::from_str::<E>(&json).ok();
    assert_eq!(from_json, Some(E::S { a: 1, b: Some(true) }));
    let from_lib = E::deserialize((*result).clone()).ok();
    assert_eq!(from_lib, from_json);
}

#[test]
fn empty_struct_variant_from_empty_array() {
    let json = "{\"ZS\":[]}";
    let from_json = serde_json::from_str::<E>(json).ok();
    assert_eq!(from_json, Some(E::ZS {}));
    let from_lib = E::deserialize(Variable::from_json(json).unwrap()).ok();
    assert_eq!(from_lib, from_json);
}
