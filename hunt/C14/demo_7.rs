// C14 candidate 7 (low confidence): types that borrow from the input (&str, structs with
// #[serde(borrow)] &str fields) cannot be decoded from a search result, while
// serde_json::from_str decodes them from the same JSON (when the string has no escapes).
// The library's Deserializer is over an owned Variable and only ever calls visit_string.
// (serde_json::from_value has the same limitation.)
use jmespath::ToJmespath;
use serde::Deserialize;
use serde_derive::{Deserialize, Serialize};

#[derive(Serialize, Deserialize, Debug, PartialEq, Clone)]
struct Name<'a> {
    #[serde(borrow)]
    name: &'a str,
}

#[test]
fn borrowed_str_survives_the_trip() {
    let v = Name { name: "abc" };
    let text = serde_json::to_string(&v).unwrap();
    let from_json: Name = serde_json::from_str(&text).unwrap();
    assert_eq!(from_json, v);
    let var = (&v).to_jmespath().unwrap();
    let from_lib = Name::deserialize((*var).clone()); // library: Err(invalid type: string "abc", expected a borrowed string)
    assert_eq!(from_lib.ok(), Some(v));
}
