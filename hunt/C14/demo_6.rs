// C14 candidate 6 (low confidence): an f32 is searched as the widened double
// (0.1f32 -> 0.10000000149011612), whereas its JSON text is `0.1`; so "searching a typed value
// equals searching its JSON text" fails for f32 values that are not exactly representable
// with a short double spelling. NOTE: serde_json::to_value(0.1f32) widens the same way, so the
// library does equal serde_json's *Value* image; it differs from serde_json's *text* image.
use jmespath::{ToJmespath, Variable};

#[test]
fn f32_search_equals_search_of_its_json_text() {
    let v = vec![0.1f32, 0.5f32];
    let text = serde_json::to_string(&v).unwrap();
    assert_eq!(text, "[0.1,0.5]");
    for e in ["[0] == `0.1`", "to_string(@)", "[?@ < `0.1000000001`] | length(@)"].iter() {
        let expr = jmespath::compile(e).unwrap();
        let over_text = expr.search(Variable::from_json(&text).unwrap()).unwrap();
        let over_typed = expr.search(&v).unwrap();
        assert_eq!(
            serde_json::to_string(&*over_typed).unwrap(),
            serde_json::to_string(&*over_text).unwrap(),
            "expression {}",
            e
        );
    }
}

#[test]
fn f32_conversion_equals_json_text() {
    let lib = 0.1f32.to_jmespath().unwrap();
    assert_eq!(serde_json::to_string(&*lib).unwrap(), serde_json::to_string(&0.1f32).unwrap());
}
