use jmespath::*;
use std::sync::Arc;
fn build(kind: &str, d: usize) -> (String, String) {
    match kind {
        "paren" => (format!("{}a{}", "(".repeat(d), ")".repeat(d)), "{\"a\":1}".into()),
        "flat" => (format!("a{}", "[]".repeat(d)), "{\"a\":[[1]]}".into()),
        "abs" => (format!("{}a{}", "abs(".repeat(d), ")".repeat(d)), "{\"a\":1}".into()),
        "list" => (format!("{}a{}", "[".repeat(d), "]".repeat(d)), "{\"a\":1}".into()),
        "hash" => (format!("{}a{}", "{k:".repeat(d), "}".repeat(d)), "{\"a\":1}".into()),
        "not" => (format!("{}a", "!".repeat(d)), "{\"a\":1}".into()),
        "filter" => (format!("a{}", "[?@".repeat(d) + &"]".repeat(d)), "{\"a\":[[1]]}".into()),
        "map" => (format!("{}@{}", "map(&".repeat(d), ",@)".repeat(d)), "[[1]]".into()),
        "sortby" => (format!("{}@{}", "sort_by(@,&".repeat(d), ")".repeat(d)), "[1]".into()),
        "dot" => (format!("a{}", ".a".repeat(d)), "{\"a\":1}".into()),
        "pipe" => (format!("a{}", "|a".repeat(d)), "{\"a\":1}".into()),
        "or" => (format!("a{}", "||a".repeat(d)), "{\"a\":null}".into()),
        "data" => ("@".into(), format!("{}1{}", "[".repeat(d), "]".repeat(d))),
        "datasearch" => ("to_string(@)".into(), format!("{}1{}", "[".repeat(d), "]".repeat(d))),
        "cmp" => (format!("{}a{}", "(a==".repeat(d), ")".repeat(d)), "{\"a\":1}".into()),
        "star" => (format!("a{}", "[*]".repeat(d)), "{\"a\":[[1]]}".into()),
        "lit" => (format!("`{}1{}`", "[".repeat(d), "]".repeat(d)), "1".into()),
        _ => panic!(),
    }
}
fn main() {
    let a: Vec<String> = std::env::args().collect();
    let kind = a[1].clone();
    let d: usize = a[2].parse().unwrap();
    let stack: usize = a[3].parse().unwrap();
    let f = move || {
        let (e, j) = build(&kind, d);
        let ex = compile(&e).map(Arc::new);
        let ex = match ex { Ok(x) => x, Err(er) => { println!("compile err {}", er.reason); return; } };
        let v = match Variable::from_json(&j) { Ok(v) => Rcvar::new(v), Err(e) => { println!("json err {}", e); return; } };
        let r = ex.search(v);
        match r { Ok(r) => { let s = r.to_string(); println!("ok {}", &s[..s.len().min(20)]) }, Err(er) => println!("search err {}", er.reason) }
    };
    if stack == 0 { f() } else {
        std::thread::Builder::new().stack_size(stack).spawn(f).unwrap().join().unwrap();
    }
}
