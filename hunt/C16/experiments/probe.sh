#!/bin/bash
# usage: probe.sh bin kind stack ; binary search minimal crashing depth up to 100000
bin=$1; kind=$2; stack=$3
ok() { $bin $kind $1 $stack >/dev/null 2>&1; }
lo=1; hi=20000
if ok $hi; then echo "$kind stack=$stack: no crash up to $hi ($($bin $kind $hi $stack 2>&1 | head -c 60))"; exit; fi
while [ $((hi-lo)) -gt 1 ]; do mid=$(((lo+hi)/2)); if ok $mid; then lo=$mid; else hi=$mid; fi; done
echo "$kind stack=$stack: first crash at depth $hi (last ok: $($bin $kind $lo $stack 2>&1 | head -c 60))"
