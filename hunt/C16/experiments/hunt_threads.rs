#![cfg(feature = "sync")]
use jmespath::functions::{ArgumentType, CustomFunction, Signature};
use jmespath::*;
use std::sync::{Arc, Barrier};
use std::thread;

const DOC: &str = r#"{"a":[{"n":3,"s":"c","t":[1,2]},{"n":1,"s":"a","t":[3]},{"n":2,"s":"b","t":[]}],
 "o":{"x":1,"y":[1,2,3],"z":{"k":"v"}},"s":"héllo","e":[],"f":1.5,"neg":-0.0,"big":18446744073709551615,
 "m":[1,"a",null,true,[1],{"a":1}]}"#;

const ALL_EXPRS: &[&str] = &[
    "a[*].n",
    "a[?n > `1`].s",
    "sort_by(a, &n)[*].s",
    "max_by(a, &n).s",
    "min_by(a, &s)",
    "a[].t[]",
    "o.*",
    "keys(o)",
    "values(o)",
    "length(s)",
    "reverse(s)",
    "to_string(@)",
    "to_number('12')",
    "merge(o, {q: `1`})",
    "map(&n, a)",
    "a[::-1][*].n",
    "a[0:2].s | join(',', @)",
    "sum(a[*].n)",
    "avg(a[*].n)",
    "abs(neg)",
    "big",
    "sort(m)",
    "sort_by(m, &@)",
    "max(m)",
    "unknown(a)",
    "abs('x')",
    "a[::0]",
    "sort_by(a, &t)",
    "max_by(a, &t)",
    "length(`1`)",
    "a[*].[n, s]",
    "a[*].{n: n, s: s}",
    "m[?@ == `1`]",
    "contains(m, `[1]`)",
    "!a || e && s",
    "not_null(nope, e, s)",
    "type(&a)",
    "`{\"lit\": [1, 2, {\"x\": null}]}`.lit[2]",
    "ceil(f)",
    "floor(f)",
    "starts_with(s, 'h')",
    "ends_with(s, 'o')",
    "to_array(o)",
    "a[-1].t[-1]",
    "a[?t][].t[0]",
    "a[",
    "a.b.",
    "\u{e9}",
    "sort_by(a, &n)\n  | [*].t\n  | abs(@)",
];

fn exprs() -> Vec<&'static str> {
    if cfg!(miri) {
        ALL_EXPRS.iter().cloned().step_by(7).collect()
    } else {
        ALL_EXPRS.to_vec()
    }
}

fn show(r: Result<Rcvar, JmespathError>) -> String {
    match r {
        Ok(v) => format!("OK {}", v),
        Err(e) => format!("ERR {:?}", e),
    }
}

fn show_c(r: &Result<Expression<'_>, JmespathError>) -> String {
    match r {
        Ok(e) => format!("OK {:?} {:?}", e, e.as_ast()),
        Err(e) => format!("ERR {:?}", e),
    }
}

#[test]
fn first_use_race_then_shared_everything() {
    #[allow(non_snake_case)]
    let EXPRS = exprs();
    let nthreads = if cfg!(miri) { 3 } else { 16 };
    let iters = if cfg!(miri) { 1 } else { 200 };
    let data: Rcvar = Rcvar::new(Variable::from_json(DOC).unwrap());

    // ---- phase 1: the very first use of the default runtime happens concurrently
    let barrier = Arc::new(Barrier::new(nthreads));
    let handles: Vec<_> = (0..nthreads)
        .map(|t| {
            let barrier = barrier.clone();
            let data = data.clone();
            let EXPRS = EXPRS.clone();
            thread::spawn(move || {
                barrier.wait();
                let mut out = vec![];
                for i in 0..EXPRS.len() {
                    let e = EXPRS[(i + t) % EXPRS.len()];
                    let c = jmespath::compile(e);
                    let s = show_c(&c);
                    let r = c.map(|c| show(c.search(data.clone())));
                    out.push((e, s, r));
                }
                out
            })
        })
        .collect();
    let conc: Vec<_> = handles.into_iter().map(|h| h.join().unwrap()).collect();

    // sequential reference (own, separately built runtime + default runtime)
    let mut own = Runtime::new();
    own.register_builtin_functions();
    for per_thread in &conc {
        for (e, s, r) in per_thread {
            let c1 = own.compile(e);
            let c2 = jmespath::compile(e);
            assert_eq!(&show_c(&c1), s, "compile {}", e);
            assert_eq!(&show_c(&c2), s, "compile {}", e);
            let r1 = c1.map(|c| show(c.search(data.clone())));
            let r2 = c2.map(|c| show(c.search(data.clone())));
            assert_eq!(&r1, r, "search {}", e);
            assert_eq!(&r2, r, "search {}", e);
        }
    }

    // ---- phase 2: shared compiled expressions, shared input, own runtime with custom fn shared by reference
    own.register_function(
        "ident",
        Box::new(CustomFunction::new(
            Signature::new(vec![ArgumentType::Any], None),
            Box::new(|args: &[Rcvar], _: &mut Context| Ok(args[0].clone())),
        )),
    );
    let own: &'static Runtime = Box::leak(Box::new(own));
    let mut shared: Vec<Expression<'static>> = vec![];
    for e in EXPRS.iter() {
        if let Ok(c) = own.compile(e) {
            shared.push(c);
        }
        if let Ok(c) = jmespath::compile(e) {
            shared.push(c);
        }
    }
    shared.push(own.compile("ident(a)[*].n | ident(@)").unwrap());
    shared.push(own.compile("map(&ident(n), a)").unwrap());
    let expected: Vec<String> = shared.iter().map(|c| show(c.search(data.clone()))).collect();
    let shared = Arc::new(shared);
    let expected = Arc::new(expected);
    let barrier = Arc::new(Barrier::new(nthreads));
    let handles: Vec<_> = (0..nthreads)
        .map(|t| {
            let (barrier, data, shared, expected) =
                (barrier.clone(), data.clone(), shared.clone(), expected.clone());
            thread::spawn(move || {
                barrier.wait();
                let mut keep = vec![];
                for it in 0..iters {
                    for i in 0..shared.len() {
                        let k = (i + t * 7 + it) % shared.len();
                        let r = shared[k].search(data.clone());
                        if let Ok(ref v) = r {
                            keep.push(v.clone()); // results may alias input / literals: keep and drop on another schedule
                        }
                        assert_eq!(show(r), expected[k], "expr {}", shared[k]);
                        // clone the expression inside the thread too
                        if it == 0 {
                            let c = shared[k].clone();
                            assert_eq!(show(c.search(&*data)), expected[k]);
                        }
                    }
                    if keep.len() > 1000 {
                        keep.clear();
                    }
                }
                keep
            })
        })
        .collect();
    let kept: Vec<_> = handles.into_iter().map(|h| h.join().unwrap()).collect();
    drop(data);
    drop(kept);
    let data2: Rcvar = Rcvar::new(Variable::from_json(DOC).unwrap());
    for (k, c) in shared.iter().enumerate() {
        assert_eq!(show(c.search(data2.clone())), expected[k]);
    }
}
