use jmespath::*;
use std::sync::{Arc, Barrier};
fn main() {
    let n = 3000;
    let data = Rcvar::new(Variable::from_json(r#"{"a":[3,1,2],"b":{"c":"x"}}"#).unwrap());
    let b = Arc::new(Barrier::new(n));
    let hs: Vec<_> = (0..n).map(|t| { let b = b.clone(); let data = data.clone();
        std::thread::Builder::new().stack_size(256*1024).spawn(move || {
            b.wait();
            let r = match t % 4 {
                0 => compile("sort(a)").unwrap().search(data).unwrap().to_string(),
                1 => { let f = DEFAULT_RUNTIME.get_function("length").is_some(); compile("b.c").unwrap().search(data).unwrap().to_string() + &f.to_string() }
                2 => { let rt: &Runtime = &*DEFAULT_RUNTIME; rt.compile("sum(a)").unwrap().search(data).unwrap().to_string() }
                _ => format!("{:?}", compile("a[").map(|_| ()).map_err(|e| e.offset)),
            };
            (t % 4, r)
        }).unwrap() }).collect();
    let exp = ["[1,2,3]", "\"x\"true", "6.0", "Err(2)"];
    for h in hs { let (k, r) = h.join().unwrap(); assert_eq!(r, exp[k], "kind {}", k); }
    println!("all ok");
}
