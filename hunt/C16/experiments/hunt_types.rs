#![cfg(feature = "sync")]
use jmespath::ast::{Ast, Comparator, KeyValuePair};
use jmespath::functions::*;
use jmespath::*;

fn ss<T: Send + Sync>() {}
fn ss_static<T: Send + Sync + 'static>() {}

#[test]
fn all_public_types_send_sync() {
    ss::<Expression<'static>>();
    ss::<Expression<'_>>();
    ss_static::<Runtime>();
    ss_static::<Variable>();
    ss_static::<Rcvar>();
    ss_static::<Ast>();
    ss_static::<Comparator>();
    ss_static::<KeyValuePair>();
    ss_static::<JmespathError>();
    ss_static::<ErrorReason>();
    ss_static::<RuntimeError>();
    ss::<Context<'static>>();
    ss_static::<Signature>();
    ss_static::<ArgumentType>();
    ss_static::<CustomFunction>();
    ss_static::<Box<dyn Function>>();
    ss::<&dyn Function>();
    ss_static::<ParseResult>();
    ss_static::<Result<Rcvar, JmespathError>>();
    ss_static::<DEFAULT_RUNTIME>();
    ss_static::<AbsFn>();
    ss_static::<AvgFn>();
    ss_static::<CeilFn>();
    ss_static::<ContainsFn>();
    ss_static::<EndsWithFn>();
    ss_static::<FloorFn>();
    ss_static::<JoinFn>();
    ss_static::<KeysFn>();
    ss_static::<LengthFn>();
    ss_static::<MapFn>();
    ss_static::<MinFn>();
    ss_static::<MaxFn>();
    ss_static::<MaxByFn>();
    ss_static::<MinByFn>();
    ss_static::<MergeFn>();
    ss_static::<NotNullFn>();
    ss_static::<ReverseFn>();
    ss_static::<SortFn>();
    ss_static::<SortByFn>();
    ss_static::<StartsWithFn>();
    ss_static::<SumFn>();
    ss_static::<ToArrayFn>();
    ss_static::<ToNumberFn>();
    ss_static::<ToStringFn>();
    ss_static::<TypeFn>();
    ss_static::<ValuesFn>();
    // Unwind-safety is often implied by "no interior mutability"
    fn us<T: std::panic::UnwindSafe + std::panic::RefUnwindSafe>() {}
    us::<Variable>();
    us::<Ast>();
    us::<Rcvar>();
}
