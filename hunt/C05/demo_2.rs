//! C05 demo 2 (LOW confidence, see FINDINGS.md): a 650-character expression of
//! nesting depth 32 on the document `0` keeps search busy for thousands of years.
//!
//! Place at jmespath/tests/demo_2.rs and run
//!     cargo test --test demo_2 -- --nocapture
//!
//! `[@,@,@,@]|[@,@,@,@]|...` (k times) builds a value that is a complete 4-ary
//! tree of depth k in which all children of every node are the SAME shared Rc,
//! so it costs O(k) time and memory to build.  Evaluating that chain twice and
//! comparing the two results with `==` walks both trees structurally (the
//! pointer short-cut of Rc's PartialEq only helps when both sides are the same
//! allocation), i.e. 4^k element comparisons: measured about 8 ns each in a
//! release build (35 ms for 2^22 of them), times four with every further
//! `|[@,@,@,@]`.  With k = 32 the call needs on the order of 2^64 steps
//! (thousands of years); memory use stays tiny, the thread simply never
//! comes back.
//!
//! The property demands that the call "returns Ok or a JmespathError in bounded
//! time; it never ... loops forever" / "no panic, abort or hang on any input".

use jmespath::{compile, Variable};
use std::sync::mpsc;
use std::time::Duration;

fn chain(k: usize) -> String {
    let x = vec!["[@,@,@,@]"; k].join("|");
    format!("({}) == ({})", x, x)
}

#[test]
fn equality_of_two_small_shared_trees_answers_in_reasonable_time() {
    // Sanity: the same construction with k = 6 answers `true` immediately.
    let small = compile(&chain(6)).unwrap();
    assert_eq!(
        "true",
        small.search(Variable::from_json("0").unwrap()).unwrap().to_string()
    );

    let (tx, rx) = mpsc::channel();
    std::thread::spawn(move || {
        let text = chain(32);
        assert!(text.len() < 650);
        let expr = compile(&text).expect("the expression is valid");
        let r = expr
            .search(Variable::from_json("0").unwrap())
            .map(|v| v.to_string())
            .map_err(|e| e.to_string());
        let _ = tx.send(r);
    });
    let answer = rx.recv_timeout(Duration::from_secs(30));
    assert!(
        answer.is_ok(),
        "search on the document `0` with an expression of fewer than 650 characters did not return within 30 s"
    );
}
