//! C05 demo 1: a slice over an array of 2^31 elements panics inside search.
//!
//! Place at jmespath/tests/demo_1.rs and run
//!     cargo test --release --test demo_1 -- --nocapture
//! (a debug build works too, it is just slower and the panic message is
//! "attempt to add with overflow" instead of "index out of bounds").
//!
//! RESOURCES: peak resident memory is about 32 GiB and the run takes a few
//! minutes (about 160 s with --release on the hunt machine).  The test checks
//! /proc/meminfo first and SKIPS (passes, printing a notice) when fewer than
//! 40 GiB are available; set C05_DEMO1_FORCE=1 to run regardless.
//!
//! The document is the one-element array `[0]`.  The expression first grows it
//! with multi-select + flatten (`[@,@,...][]` multiplies the length), six times
//! by 16 and once by 128, giving 16^6 * 128 = 2^31 elements that all share one
//! reference-counted number, and then applies the slice `[0:-1]`.
//!
//! The property says: "For every string given to compile and every JSON document
//! given to search, the call returns Ok or a JmespathError in bounded time; it
//! never panics, overflows an integer or the stack, indexes out of bounds ..."
//! and quantifies over JSON values of "any size".

use jmespath::{compile, Variable};
use std::panic::{catch_unwind, AssertUnwindSafe};

fn grow(factor: usize) -> String {
    format!("[{}][]", vec!["@"; factor].join(","))
}

fn mem_available_gib() -> Option<u64> {
    let s = std::fs::read_to_string("/proc/meminfo").ok()?;
    let line = s.lines().find(|l| l.starts_with("MemAvailable:"))?;
    let kb: u64 = line.split_whitespace().nth(1)?.parse().ok()?;
    Some(kb / (1024 * 1024))
}

#[test]
fn slice_of_an_array_with_2_pow_31_elements_does_not_panic() {
    if std::env::var("C05_DEMO1_FORCE").is_err() {
        match mem_available_gib() {
            Some(g) if g >= 40 => {}
            other => {
                eprintln!("SKIPPED: needs about 32 GiB of memory, available: {:?} GiB", other);
                return;
            }
        }
    }
    let mut parts: Vec<String> = (0..6).map(|_| grow(16)).collect();
    parts.push(grow(128));
    parts.push("[0:-1]".to_string());
    let text = parts.join(" | ");
    let expr = compile(&text).expect("the expression is valid");
    let doc = Variable::from_json("[0]").unwrap();

    let outcome = catch_unwind(AssertUnwindSafe(|| {
        // Only the shape of the outcome matters: Ok(_) or Err(JmespathError).
        expr.search(doc).map(|v| v.as_array().map(|a| a.len()))
    }));

    match outcome {
        Ok(result) => eprintln!("search returned {:?}", result),
        Err(payload) => {
            let msg = payload
                .downcast_ref::<String>()
                .cloned()
                .or_else(|| payload.downcast_ref::<&str>().map(|s| s.to_string()));
            panic!(
                "search must return Ok or a JmespathError, but it panicked: {:?}",
                msg
            );
        }
    }
}
