// Candidate 3 (low confidence): a call to an unregistered name whose argument
// fails does not fail with unknown-function, because arguments are evaluated
// before the name is looked up.
// Property clause: "... and fails with unknown-function otherwise."
use jmespath::{ErrorReason, Runtime, RuntimeError};

#[test]
fn call_to_unregistered_name_fails_with_unknown_function() {
    let mut rt = Runtime::new();
    rt.register_builtin_functions();
    let err = rt.compile("nosuch(abs('x'))").unwrap().search(()).unwrap_err();
    match err.reason {
        ErrorReason::Runtime(RuntimeError::UnknownFunction(ref name)) => assert_eq!(name, "nosuch"),
        ref other => panic!("expected unknown-function for nosuch, got {:?}", other),
    }
}
