// Candidate 1 (low confidence): a custom function can redirect the rest of the
// evaluation to another runtime through the public field `Context::runtime`;
// the interpreter restores `ctx.offset` after a call but not `ctx.runtime`.
// Property clause: "an expression compiled from it calls, for each name,
// exactly the most recently registered function of that name still registered".
use jmespath::functions::Function;
use jmespath::{Context, JmespathError, Rcvar, Runtime, Variable, DEFAULT_RUNTIME};

#[test]
fn calls_after_a_custom_function_still_use_the_compiling_runtime() {
    let mut rt = Runtime::new();
    // `length` is registered exactly once on rt: a custom function.
    rt.register_function(
        "length",
        Box::new(|_args: &[Rcvar], _ctx: &mut Context<'_>| -> Result<Rcvar, JmespathError> {
            Ok(Rcvar::new(Variable::String("custom".to_owned())))
        }) as Box<dyn Function>,
    );
    // A custom function that stores another runtime into the context it was given.
    rt.register_function(
        "swap",
        Box::new(|_args: &[Rcvar], ctx: &mut Context<'_>| -> Result<Rcvar, JmespathError> {
            ctx.runtime = &*DEFAULT_RUNTIME;
            Ok(Rcvar::new(Variable::Bool(true)))
        }) as Box<dyn Function>,
    );
    let expr = rt.compile("[length(@), swap(), length(@)]").unwrap();
    let result = expr.search(Variable::from_json("[1, 2]").unwrap()).unwrap();
    let items = result.as_array().unwrap();
    assert_eq!(items[0].as_string().map(|s| s.as_str()), Some("custom"));
    // The expression was compiled from rt, whose only `length` is the custom one.
    assert_eq!(
        items[2].as_string().map(|s| s.as_str()),
        Some("custom"),
        "third element was computed by the built-in length of another runtime: {:?}",
        items[2]
    );
}
