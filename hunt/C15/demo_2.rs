// Candidate 2 (low confidence): ArgumentType::Any accepts an expression reference,
// so a custom function declared as f(any) is invoked with an unevaluated `&expr`.
// Property clause: "a custom function declared with a signature is only invoked
// when the arguments satisfy it" -- under the JMESPath reading in which `any`
// ranges over the six JSON types and `expression` is a separate type.
use jmespath::functions::{ArgumentType, CustomFunction, Signature};
use jmespath::{Context, Rcvar, Runtime, Variable};
use std::sync::atomic::{AtomicUsize, Ordering};
use std::sync::Arc;

#[test]
fn any_parameter_is_not_satisfied_by_an_expression_reference() {
    let calls = Arc::new(AtomicUsize::new(0));
    let c = calls.clone();
    let mut rt = Runtime::new();
    rt.register_function(
        "f",
        Box::new(CustomFunction::new(
            Signature::new(vec![ArgumentType::Any], None),
            Box::new(move |_args: &[Rcvar], _ctx: &mut Context<'_>| {
                c.fetch_add(1, Ordering::SeqCst);
                Ok(Rcvar::new(Variable::Null))
            }),
        )),
    );
    let r = rt.compile("f(&a)").unwrap().search(());
    assert_eq!(calls.load(Ordering::SeqCst), 0, "closure invoked with an expref for an `any` parameter");
    assert!(r.is_err());
}
