use jmespath::{compile, ErrorReason, JmespathError, RuntimeError, Variable};

struct Rng(u64);
impl Rng {
    fn next(&mut self) -> u64 { self.0 ^= self.0 << 13; self.0 ^= self.0 >> 7; self.0 ^= self.0 << 17; self.0 }
    fn below(&mut self, n: usize) -> usize { (self.next() % n as u64) as usize }
    fn chance(&mut self, p: usize) -> bool { self.below(100) < p }
}

#[derive(Debug, Clone, PartialEq)]
enum Kind { Unknown, Arity, Type, Slice, Ret }

#[derive(Debug, Clone)]
struct Site { kind: Kind, lo: usize, hi: usize }

struct B { s: String, rng: Rng, sites: Vec<Site>, budget: i32, plant: usize, ws: usize }

const FIELDS: &[&str] = &["a", "b", "c", "\"é\"", "\"日本\"", "\"a\\nb\"", "\"𝄞\""];
const LITS: &[&str] = &["`1`", "`\"é𝄞\"`", "`[1,2,3]`", "`{\"a\":[1,\"x\"]}`", "'日本語'", "'x'", "`null`", "`[]`", "`[[1],[2,\"é\"]]`", "`true`", "`\"a\nb\"`", "'l1\nl2'"];

impl B {
    fn t(&mut self, tok: &str) -> usize {
        if self.rng.chance(self.ws) {
            let w = ["", " ", " ", "\n", "\t", "\r\n", " \n ", "\n\n"][self.rng.below(8)];
            self.s.push_str(w);
        }
        let p = self.s.len();
        self.s.push_str(tok);
        p
    }
    fn field(&mut self) { let f = FIELDS[self.rng.below(FIELDS.len())]; self.t(f); }
    fn atom(&mut self) {
        match self.rng.below(4) {
            0 => { self.t("@"); }
            1 | 2 => self.field(),
            _ => { let l = LITS[self.rng.below(LITS.len())]; self.t(l); }
        }
    }
    // a parenthesised-safe primary expression
    fn x(&mut self) {
        self.budget -= 1;
        if self.budget <= 0 { self.atom(); return; }
        let plant = self.rng.chance(self.plant);
        if plant { self.failing(); return; }
        match self.rng.below(22) {
            0 | 1 => self.atom(),
            2 => { self.x(); self.t("."); self.field(); }
            3 => { self.x(); self.t("["); let n = ["0", "-1", "1", "2147483647", "-2147483648"][self.rng.below(5)]; self.t(n); self.t("]"); }
            4 => { self.x(); self.t("["); self.t("*"); self.t("]"); if self.rng.chance(50) { self.t("."); self.field(); } }
            5 => { self.x(); self.t("[]"); if self.rng.chance(50) { self.t("."); self.field(); } }
            6 => { self.x(); self.t("[?"); self.x(); self.t("]"); if self.rng.chance(40) { self.t("."); self.safecall(); } }
            7 => { self.x(); self.t("["); let sl = [":", "1:", ":2", "::2", "::-1", "1:3:1", "-3:-1", "::2147483647", "::-2147483648"][self.rng.below(9)];
                   for ch in sl.split_inclusive(':') { if ch.ends_with(':') { if ch.len() > 1 { self.t(&ch[..ch.len()-1]); } self.t(":"); } else { self.t(ch); } }
                   self.t("]"); if self.rng.chance(40) { self.t("."); self.safecall(); } }
            8 => { self.t("("); self.x(); self.t("||"); self.x(); self.t(")"); }
            9 => { self.t("("); self.x(); self.t("&&"); self.x(); self.t(")"); }
            10 => { self.t("("); self.t("!"); self.x(); self.t(")"); }
            11 => { self.t("("); self.x(); let op = ["==", "!=", "<", "<=", ">", ">="][self.rng.below(6)]; self.t(op); self.x(); self.t(")"); }
            12 => { self.t("("); self.x(); self.t("|"); self.x(); self.t(")"); }
            13 => { self.t("["); self.x(); self.t(","); self.x(); self.t("]"); }
            14 => { self.t("{"); self.t("k"); self.t(":"); self.x(); self.t(","); self.t("\"é\""); self.t(":"); self.x(); self.t("}"); }
            15 => { self.x(); self.t("."); self.t("*"); }
            16 => { self.x(); self.t("."); self.safecall(); }
            _ => self.safecall(),
        }
    }
    fn arr(&mut self) { // an expression that always yields an array
        self.t("to_array"); self.t("("); self.x(); self.t(")");
    }
    fn safecall(&mut self) {
        match self.rng.below(14) {
            0 => { self.t("type"); self.t("("); self.x(); self.t(")"); }
            1 => self.arr(),
            2 => { self.t("to_string"); self.t("("); self.x(); self.t(")"); }
            3 => { self.t("to_number"); self.t("("); self.x(); self.t(")"); }
            4 => { self.t("not_null"); self.t("("); self.x(); self.t(","); self.x(); self.t(")"); }
            5 => { self.t("map"); self.t("("); self.t("&"); self.x(); self.t(","); self.arr(); self.t(")"); }
            6 => { let f = ["sort_by", "max_by", "min_by"][self.rng.below(3)]; self.t(f); self.t("("); self.arr(); self.t(","); self.t("&"); self.t("type"); self.t("("); self.x(); self.t(")"); self.t(")"); }
            7 => { self.t("length"); self.t("("); self.arr(); self.t(")"); }
            8 => { self.t("reverse"); self.t("("); self.arr(); self.t(")"); }
            9 => { self.t("contains"); self.t("("); self.arr(); self.t(","); self.x(); self.t(")"); }
            10 => { self.t("sum"); self.t("("); self.t("map"); self.t("("); self.t("&"); self.t("length"); self.t("("); self.t("to_array"); self.t("("); self.x(); self.t(")"); self.t(")"); self.t(","); self.arr(); self.t(")"); self.t(")"); }
            11 => { let f = ["sort_by", "max_by", "min_by"][self.rng.below(3)]; self.t(f); self.t("("); self.arr(); self.t(","); self.t("&"); self.t("to_string"); self.t("("); self.x(); self.t(")"); self.t(")"); }
            12 => { self.t("merge"); self.t("("); self.t("`{}`"); self.t(","); self.t("`{\"q\":1}`"); self.t(")"); }
            _ => { self.t("join"); self.t("("); self.t("'é'"); self.t(","); self.t("map"); self.t("("); self.t("&"); self.t("to_string"); self.t("("); self.x(); self.t(")"); self.t(","); self.arr(); self.t(")"); self.t(")"); }
        }
    }
    fn site(&mut self, kind: Kind, lo: usize, hi: usize) { self.sites.push(Site { kind, lo, hi }); }
    fn failing(&mut self) {
        match self.rng.below(13) {
            0 => { let n = ["nope", "Abs", "sortby", "_x1"][self.rng.below(4)]; self.t(n); let p = self.t("("); self.site(Kind::Unknown, p, p); if self.rng.chance(70) { self.x(); } self.t(")"); }
            1 => { self.t("type"); let p = self.t("("); self.site(Kind::Arity, p, p); self.t(")"); }
            2 => { self.t("type"); let p = self.t("("); self.site(Kind::Arity, p, p); self.x(); self.t(","); self.x(); self.t(")"); }
            3 => { let f = ["sort_by", "map", "max_by", "join", "contains"][self.rng.below(5)]; self.t(f); let p = self.t("("); self.site(Kind::Arity, p, p); self.x(); self.t(")"); }
            4 => { self.t("abs"); let p = self.t("("); self.site(Kind::Type, p, p); self.t("type"); self.t("("); self.x(); self.t(")"); self.t(")"); }
            5 => { self.t("length"); let p = self.t("("); self.site(Kind::Type, p, p); self.t("!"); self.x(); self.t(")"); }
            6 => { self.t("keys"); let p = self.t("("); self.site(Kind::Type, p, p); self.arr(); self.t(")"); }
            7 => { self.x(); let lo = self.t("["); let sl = ["::0", "1:2:0", ":-1:0"][self.rng.below(3)];
                   for c in sl.chars() { let mut b = [0u8; 4]; let st = c.encode_utf8(&mut b).to_string(); if st == "-" { self.t("-1"); } else if st == "1" && sl == ":-1:0" { } else { self.t(&st); } }
                   let hi = self.t("]"); self.site(Kind::Slice, lo, hi); }
            8 => { let f = ["sort_by", "max_by", "min_by"][self.rng.below(3)]; self.t(f); let p = self.t("("); self.site(Kind::Ret, p, p);
                   self.t("`[1,2]`"); self.t(","); self.t("&"); self.arr(); self.t(")"); }
            9 => { let f = ["sort_by", "max_by", "min_by"][self.rng.below(3)]; self.t(f); let p = self.t("("); self.site(Kind::Ret, p, p);
                   self.t("`[1,\"a\",2]`"); self.t(","); self.t("&"); self.t("not_null"); self.t("("); self.t("@"); self.t(","); self.x(); self.t(")"); self.t(")"); }
            10 => { let f = ["sort_by", "max_by", "min_by"][self.rng.below(3)]; self.t(f); let p = self.t("("); self.site(Kind::Ret, p, p);
                   self.t("`[\"b\",\"a\",2]`"); self.t(","); self.t("&"); self.t("("); self.t("type"); self.t("("); self.x(); self.t(")"); self.t("&&"); self.t("@"); self.t(")"); self.t(")"); }
            11 => { self.t("map"); let p = self.t("("); self.site(Kind::Type, p, p); self.t("&"); self.x(); self.t(","); self.t("type"); self.t("("); self.x(); self.t(")"); self.t(")"); }
            _ => { self.t("sort_by"); let p = self.t("("); self.site(Kind::Type, p, p); self.arr(); self.t(","); self.x(); self.t(")"); }
        }
    }
}

fn coords(expr: &str, offset: usize) -> (usize, usize) {
    let pre = &expr[..offset];
    let line = pre.matches('\n').count();
    let col = match pre.rfind('\n') { Some(i) => pre[i + 1..].chars().count(), None => pre.chars().count() };
    (line, col)
}

fn check_common(expr: &str, e: &JmespathError) {
    assert_eq!(e.expression, expr, "expression text");
    assert!(e.offset <= expr.len() && expr.is_char_boundary(e.offset), "offset {} in {:?}", e.offset, expr);
    let (l, c) = coords(expr, e.offset);
    assert_eq!((e.line, e.column), (l, c), "coords for {:?} at {}", expr, e.offset);
    let r = e.to_string();
    let header = format!("{} (line {}, column {})\n", e.reason, l, c);
    assert!(r.starts_with(&header), "header {:?}", r);
    let body = &r[header.len()..];
    let lines: Vec<&str> = expr.split('\n').collect();
    let mut exp = String::new();
    for (i, ln) in lines.iter().enumerate() {
        exp.push_str(ln);
        if i + 1 < lines.len() || i == l { exp.push('\n'); }
        if i == l { exp.push_str(&" ".repeat(c)); exp.push_str("^\n"); }
    }
    assert_eq!(body, exp, "rendering of {:?}", expr);
}

fn kind_of(r: &RuntimeError) -> Kind {
    match r {
        RuntimeError::InvalidSlice => Kind::Slice,
        RuntimeError::TooManyArguments { .. } | RuntimeError::NotEnoughArguments { .. } => Kind::Arity,
        RuntimeError::UnknownFunction(_) => Kind::Unknown,
        RuntimeError::InvalidType { .. } => Kind::Type,
        RuntimeError::InvalidReturnType { .. } => Kind::Ret,
    }
}

#[test]
fn fuzz_structured() {
    let docs: Vec<Variable> = [
        r#"{"a":[3,1,2],"b":{"a":"x","c":[{"a":1},{"a":"é"}]},"c":"日本","é":[[1,2],[3]],"日本":{"k":null}}"#,
        r#"[{"a":1,"b":[1,2,3]},{"a":"s","c":{"a":[]}}]"#,
        r#"{"a":{"a":{"a":[1,[2,[3]]]}},"b":[],"c":null,"é":"𝄞","a\nb":[{"é":1}]}"#,
        r#"null"#, r#""str""#, r#"[]"#, r#"{}"#, r#"[[1,"a"],[null,true],[{"a":[0]}]]"#,
    ].iter().map(|s| Variable::from_json(s).unwrap()).collect();
    let iters: u64 = std::env::var("HUNT_ITERS").ok().and_then(|s| s.parse().ok()).unwrap_or(200000);
    let mut compiled = 0u64; let mut parse_err = 0u64; let mut rt_err = 0u64; let mut ok = 0u64;
    for seed in 1..=iters {
        let mut rng = Rng(seed.wrapping_mul(0x9E3779B97F4A7C15) | 1);
        for _ in 0..4 { rng.next(); }
        let budget = 2 + rng.below(25) as i32;
        let plant = [0, 0, 3, 8, 20][rng.below(5)];
        let ws = [0, 20, 60][rng.below(3)];
        let mut b = B { s: String::new(), rng, sites: vec![], budget, plant, ws };
        b.x();
        if b.rng.chance(10) { b.t(""); }
        let expr = b.s.clone();
        match compile(&expr) {
            Err(e) => {
                parse_err += 1;
                assert!(matches!(e.reason, ErrorReason::Parse(_)));
                check_common(&expr, &e);
                if parse_err < 6 { println!("PARSE ERR {:?}: {:?}", expr, e.reason); }
            }
            Ok(c) => {
                compiled += 1;
                for d in &docs {
                    match c.search(d) {
                        Ok(_) => { ok += 1; }
                        Err(e) => {
                            rt_err += 1;
                            let rk = match &e.reason { ErrorReason::Runtime(r) => kind_of(r), ErrorReason::Parse(p) => panic!("parse-class runtime failure {:?} for {:?}", p, expr) };
                            check_common(&expr, &e);
                            let hit = b.sites.iter().any(|s| s.kind == rk && ((rk != Kind::Slice && s.lo == e.offset) || (rk == Kind::Slice && s.lo <= e.offset && e.offset <= s.hi)));
                            assert!(hit, "error {:?} at {} not at a planted site of that kind; sites {:?}; expr {:?}", e.reason, e.offset, b.sites, expr);
                        }
                    }
                }
            }
        }
    }
    println!("compiled={} parse_err={} rt_err={} ok={}", compiled, parse_err, rt_err, ok);
}

#[test]
fn fuzz_mutations() {
    let doc = Variable::from_json(r#"{"a":[3,1,2],"b":{"a":"x","c":[{"a":1},{"a":"é"}]},"c":"日本","é":[[1,2],[3]],"日本":{"k":null}}"#).unwrap();
    let iters: u64 = std::env::var("HUNT_ITERS").ok().and_then(|s| s.parse().ok()).unwrap_or(300000);
    let soup: Vec<&str> = vec!["a", "b", "é", "日", "𝄞", "\"é\"", "'日'", "`1`", "`", "'", "\"", "\\", ".", "[", "]", "[]", "[?", "*", "|", "||", "&", "&&", "(", ")", "{", "}", ",", ":", "=", "==", "!=", "!", "<", "<=", ">", "-", "-1", "0", "1", "99999999999", "@", " ", "\n", "\r\n", "\t", "\r", "abs", "sort_by", "nope", "\u{2028}", "\u{0085}", "\u{feff}", "\u{0301}", "#", "%", "-0", "-٣", "٣", "²", "\u{0}", "::0", "[::0]"];
    let mut kinds = std::collections::BTreeMap::new();
    for seed in 1..=iters {
        let mut rng = Rng(seed.wrapping_mul(0xD1B54A32D192ED03) | 1);
        for _ in 0..4 { rng.next(); }
        let mut expr: String;
        if rng.chance(50) {
            let budget = 2 + rng.below(12) as i32;
            let mut b = B { s: String::new(), rng: Rng(rng.next() | 1), sites: vec![], budget, plant: 5, ws: 20 };
            b.x();
            expr = b.s;
            let n = 1 + rng.below(3);
            for _ in 0..n {
                let chars: Vec<char> = expr.chars().collect();
                if chars.is_empty() { break; }
                let i = rng.below(chars.len() + 1);
                let mut out: String = chars[..i.min(chars.len())].iter().collect();
                match rng.below(3) {
                    0 => { out.push_str(soup[rng.below(soup.len())]); out.extend(chars[i.min(chars.len())..].iter()); }
                    1 => { if i < chars.len() { out.extend(chars[i + 1..].iter()); } }
                    _ => { out.push_str(soup[rng.below(soup.len())]); if i < chars.len() { out.extend(chars[i + 1..].iter()); } }
                }
                expr = out;
            }
        } else {
            expr = String::new();
            let n = rng.below(12);
            for _ in 0..n { expr.push_str(soup[rng.below(soup.len())]); }
        }
        match compile(&expr) {
            Err(e) => {
                assert!(matches!(e.reason, ErrorReason::Parse(_)));
                check_common(&expr, &e);
                if let ErrorReason::Parse(m) = &e.reason { *kinds.entry(m.split(" -- ").next().unwrap().split(':').next().unwrap().to_string()).or_insert(0u64) += 1; }
            }
            Ok(c) => {
                if let Err(e) = c.search(&doc) {
                    match &e.reason { ErrorReason::Runtime(r) => {
                        check_common(&expr, &e);
                        let ch = expr[e.offset..].chars().next();
                        match kind_of(r) { Kind::Slice => assert_eq!(ch, Some(']'), "{:?} {}", expr, e.offset), _ => assert_eq!(ch, Some('('), "{:?} {}", expr, e.offset) }
                        *kinds.entry(format!("RT {:?}", kind_of(r))).or_insert(0u64) += 1;
                    }
                    ErrorReason::Parse(p) => panic!("parse-class runtime failure {:?} for {:?}", p, expr) }
                }
            }
        }
    }
    for (k, v) in kinds { println!("{:8} {}", v, k); }
}

#[test]
fn direct_new_all_offsets() {
    let pieces = ["a", "é", "日", "𝄞", "\n", "\n", "\r\n", "\r", "\t", " ", "\u{0301}", "(", "\n\n"];
    for seed in 1..=200000u64 {
        let mut rng = Rng(seed.wrapping_mul(0x9E3779B97F4A7C15) | 1);
        for _ in 0..4 { rng.next(); }
        let n = rng.below(10);
        let mut s = String::new();
        for _ in 0..n { s.push_str(pieces[rng.below(pieces.len())]); }
        for off in 0..=s.len() {
            if !s.is_char_boundary(off) { continue; }
            let e = JmespathError::new(&s, off, ErrorReason::Parse("x".to_owned()));
            check_common(&s, &e);
            let e = JmespathError::new(&s, off, ErrorReason::Runtime(RuntimeError::InvalidSlice));
            check_common(&s, &e);
        }
    }
}
