// Observation 3 (outside the letter of the statement; VERY LOW confidence as a violation).
//
//   cp _hunt/demo_3.rs jmespath/tests/ && cd jmespath && cargo test --offline --test demo_3
//
// The "invocation" detail of InvalidReturnType (shown in the rendered reason)
// is numbered from 1 when the first element fails and from 0 for every later
// element, so a failure on the first element and a failure on the second
// element both say "invocation 1".
use jmespath::{compile, ErrorReason, RuntimeError};

fn invocation(expr: &str) -> usize {
    let err = compile(expr).unwrap().search(()).unwrap_err();
    match err.reason {
        ErrorReason::Runtime(RuntimeError::InvalidReturnType { invocation, .. }) => invocation,
        other => panic!("{:?}", other),
    }
}

#[test]
fn invocation_number_tells_which_element_failed() {
    for f in ["sort_by", "max_by", "min_by"] {
        let first = invocation(&format!("{}(`[null, 1, 2]`, &@)", f));
        let second = invocation(&format!("{}(`[1, null, 2]`, &@)", f));
        let third = invocation(&format!("{}(`[1, 2, null]`, &@)", f));
        assert_eq!(third, second + 1, "{}", f);
        assert_eq!(second, first + 1, "{}: first element -> {}, second element -> {}", f, first, second);
    }
}
