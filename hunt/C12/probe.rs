use jmespath::{compile, ErrorReason, JmespathError, Variable};

fn show(e: &JmespathError) {
    println!("offset={} line={} col={} expr={:?} reason={:?}\n{}", e.offset, e.line, e.column, e.expression, e.reason, e);
}

#[test]
fn probe() {
    let data = Variable::from_json(r#"{"a":[3,1,2],"s":"x","o":{"k":1},"n":null, "m":[{"a":1},{"a":"x"}]}"#).unwrap();
    for ex in [
        "abs(s)", "éé.abs (s)", "\"é\"\n|| foo\n(a)", "a[::0]", "n[::0]", "a[ : \n: 0 \n ]", "sort_by(m, &a)", "sort_by(m, &to_array(a))",
        "max_by(m, &a)", "min_by(m, &type(a)) || abs(s)", "map(&abs(@), a)", "map(&a[::0], m)",
        "to_string(to_array(&a))", "sum(`[1e308,1e308]`)", "avg(a, a)", "merge()", "not_null()", "abs(`1`, `2`)",
        "sort_by(a, &@)[::0]", "a[?abs(s)]", "length(@[::0])", "abs(abs(s))", "foo(bar(s))", "foo(a[::0])",
        "sort_by(m, &a[::0])", "max_by(m, &map(&a[::0], @))", "join(', ', a)", "join(s, m[*].a)", "keys(a)", "`1`()", "@()",
        "a.b.c()", "a.length(@)", "length(@) == abs(s)", "sort_by(m, &abs(a))",
    ] {
        println!("=== {:?}", ex);
        match compile(ex) {
            Err(e) => { show(&e); }
            Ok(c) => match c.search(&data) {
                Err(e) => { show(&e); if let ErrorReason::Parse(_) = e.reason { println!("!!!! PARSE at runtime"); } }
                Ok(v) => println!("ok {}", v),
            },
        }
    }
}
