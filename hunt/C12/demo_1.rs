// Candidate 1 (LOW confidence; needs `--features specialized` on a nightly toolchain).
//
//   cp _hunt/demo_1.rs jmespath/tests/ && cd jmespath &&
//   cargo +nightly test --offline --features specialized --test demo_1
//
// With `specialized`, an `Rcvar` is given to `search` as it is (identity
// conversion), so a search result can be piped into another expression.  A
// search result may be an expression reference (`not_null(&...)`, `to_array(&...)`,
// ...).  The expression reference keeps the offsets of the expression it was
// written in; when another expression evaluates it, a failure inside it is
// reported with those foreign offsets against the text of the *other*
// expression: the offset can lie beyond the end of the text, the column is not
// the column of the offset, and the caret points at nothing.
//
// On the default feature set the same program converts the expression
// reference into a string first (generic serde path), `map` refuses it with a
// truthful type error at its own parenthesis, and this test passes.
use jmespath::{compile, ErrorReason};

fn coords(expr: &str, offset: usize) -> (usize, usize) {
    let pre = &expr[..offset];
    let line = pre.matches('\n').count();
    let col = match pre.rfind('\n') {
        Some(i) => pre[i + 1..].chars().count(),
        None => pre.chars().count(),
    };
    (line, col)
}

#[test]
fn failure_inside_a_piped_expression_reference_is_located_in_the_expression_being_evaluated() {
    let first = compile("not_null(&                                   abs(@))").unwrap();
    let piped = first.search(()).unwrap(); // an expression reference
    let text = "map(@,`[\"é\"]`)";
    let second = compile(text).unwrap();
    let err = second
        .search(piped)
        .expect_err("abs of a string (or map of a non-expref) must fail");
    assert!(matches!(err.reason, ErrorReason::Runtime(_)), "{:?}", err);
    assert_eq!(err.expression, text);
    // "The reported offset lies within the expression on a character boundary"
    assert!(
        err.offset <= text.len() && text.is_char_boundary(err.offset),
        "offset {} is not inside {:?} (length {})",
        err.offset,
        text,
        text.len()
    );
    // "points at the call that failed (its opening parenthesis)"
    assert_eq!(&text[err.offset..err.offset + 1], "(");
    // "the reported line and column are exactly the zero-based line and character column of that offset"
    assert_eq!((err.line, err.column), coords(text, err.offset));
}
