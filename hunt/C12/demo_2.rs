// Candidate 2 (VERY LOW confidence; default feature set, custom function).
//
//   cp _hunt/demo_2.rs jmespath/tests/ && cd jmespath && cargo test --offline --test demo_2
//
// Same root cause as candidate 1, reached through the public custom-function
// API instead of the `specialized` identity conversion: an expression
// reference value does not remember the text it was parsed from, only
// offsets.  A custom function that returns an expression reference parsed from
// other text (`jmespath::parse` and `Variable::Expref` are public) makes a
// built-in (`map`, `sort_by`, ...) evaluate it under the Context of the outer
// expression; a failure inside it is reported against the outer text with the
// inner offsets.
use jmespath::functions::{ArgumentType, CustomFunction, Signature};
use jmespath::{parse, Context, ErrorReason, Rcvar, Runtime, Variable};

#[test]
fn failure_inside_a_manufactured_expression_reference_is_located_in_the_expression_being_evaluated() {
    let mut runtime = Runtime::new();
    runtime.register_builtin_functions();
    runtime.register_function(
        "lambda",
        Box::new(CustomFunction::new(
            Signature::new(vec![ArgumentType::String], None),
            Box::new(|args: &[Rcvar], _: &mut Context<'_>| {
                let ast = parse(args[0].as_string().unwrap())?;
                Ok(Rcvar::new(Variable::Expref(ast)))
            }),
        )),
    );
    let text = "map(lambda(s),`[\"é\"]`)";
    let expr = runtime.compile(text).unwrap();
    let data = serde_json::json!({"s": "                                  abs(@)"});
    let err = expr.search(data).expect_err("abs of a string must fail");
    assert!(matches!(err.reason, ErrorReason::Runtime(_)), "{:?}", err);
    assert_eq!(err.expression, text);
    // "The reported offset lies within the expression on a character boundary"
    assert!(
        err.offset <= text.len() && text.is_char_boundary(err.offset),
        "offset {} is not inside {:?} (length {})",
        err.offset,
        text,
        text.len()
    );
    // "points at the call that failed (its opening parenthesis)"
    assert_eq!(&text[err.offset..err.offset + 1], "(");
}
