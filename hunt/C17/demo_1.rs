// C17 candidate 1: a library value holding an expression reference is converted
// differently by the specialised identity impls (Variable, &Variable, Rcvar, &Rcvar)
// and by the generic serde path.
//
// Place at jmespath/tests/demo_1.rs.
//   cargo test --offline --test demo_1                                   -> passes (generic path only)
//   cargo test --offline --features sync --test demo_1                   -> passes
//   cargo +nightly test --offline --features specialized --test demo_1   -> FAILS (all three tests)
//   cargo +nightly test --offline --features sync,specialized --test demo_1 -> FAILS
//
// The assertions state what the property demands: the fast-path conversion equals the
// generic serde conversion, and search gives the outcome of the default feature set.

use jmespath::ast::Ast;
use jmespath::{compile, Rcvar, ToJmespath, Variable};

fn expref() -> Variable {
    Variable::Expref(Ast::Identity { offset: 0 })
}

#[test]
fn fast_path_conversion_equals_generic_serde_path() {
    let x = expref();
    // Variable::from_serializable is the generic serde path in every feature set.
    let generic = Variable::from_serializable(&x).unwrap();
    for (label, fast) in [
        ("Variable", x.clone().to_jmespath().unwrap()),
        ("&Variable", (&x).to_jmespath().unwrap()),
        ("Rcvar", Rcvar::new(x.clone()).to_jmespath().unwrap()),
        ("&Rcvar", (&Rcvar::new(x.clone())).to_jmespath().unwrap()),
    ] {
        assert_eq!(
            format!("{:?}", generic),
            format!("{:?}", fast),
            "{}: specialised conversion differs from the generic serde path",
            label
        );
    }
}

#[test]
fn search_outcome_is_the_default_feature_set_outcome() {
    // Outcomes observed with default features (and with sync):
    //   type(@)      -> "string"
    //   length(@)    -> 36
    //   to_string(@) -> the string itself (no error)
    //   !@           -> false
    let x = expref();
    let ty = compile("type(@)").unwrap().search(&x).unwrap();
    assert_eq!("\"string\"", ty.to_string());
    let len = compile("length(@)").unwrap().search(&x);
    assert_eq!("36", len.expect("length(@) fails only with `specialized`").to_string());
    let s = compile("to_string(@)").unwrap().search(&x);
    assert!(s.is_ok(), "to_string(@) is an error only with `specialized`: {:?}", s);
    let not = compile("!@").unwrap().search(&x).unwrap();
    assert_eq!("false", not.to_string());
}

#[test]
fn nested_expref_inside_an_array() {
    let x = Variable::Array(vec![Rcvar::new(expref())]);
    let ty = compile("type([0])").unwrap().search(&x).unwrap();
    assert_eq!("\"string\"", ty.to_string());
}
