// C17 observation 3 (OUTSIDE the stated quantifier: needs a cargo feature of a dependency).
// If anything in the build graph enables serde_json's `arbitrary_precision` feature (cargo
// unifies features), serde_json::Number serialises as a one-field struct, and the generic
// serde path turns EVERY number of a serde_json::Value / Variable / Rcvar input into the
// object {"$serde_json::private::Number": "<text>"}; the specialised impls keep the number.
//
// To reproduce: add to jmespath/Cargo.toml [dev-dependencies]
//     serde_json = { version = "1", features = ["arbitrary_precision"] }
// place this file at jmespath/tests/demo_3.rs, then
//   cargo test --offline --test demo_3                                  -> FAILS
//   cargo +nightly test --offline --features specialized --test demo_3  -> passes
// (Without `arbitrary_precision` the test passes in every feature set.)

use jmespath::compile;
use serde_json::json;

#[test]
fn numbers_of_a_json_value_stay_numbers() {
    let v = json!({"a": 1, "b": [2.5]});
    assert_eq!("\"number\"", compile("type(a)").unwrap().search(&v).unwrap().to_string());
    assert_eq!("{\"a\":1,\"b\":[2.5]}", compile("@").unwrap().search(&v).unwrap().to_string());
}
