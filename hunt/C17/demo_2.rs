// C17 candidate 2 (probably an instance of the known "no depth limit" class, see FINDINGS.md):
// the generic serde conversion recurses once per nesting level of the input, the specialised
// conversion of an Rcvar / &Rcvar is the identity. A deeply nested (but perfectly
// JSON-representable) library value therefore gives different outcomes per feature set:
//   default, sync            : the process aborts with a stack overflow inside to_jmespath
//   specialized, sync+spec.  : Ok("array")
//
// Place at jmespath/tests/demo_2.rs.
//   cargo test --offline --test demo_2                                  -> FAILS (abort: stack overflow)
//   cargo test --offline --features sync --test demo_2                  -> FAILS (abort)
//   cargo +nightly test --offline --features specialized --test demo_2  -> passes
//
// The assertion states what the property demands: the same outcome in every feature set,
// i.e. the value "array" that the specialised build returns.

use jmespath::{compile, Rcvar, Variable};

#[test]
fn deep_library_value_gives_the_same_outcome_in_every_feature_set() {
    let handle = std::thread::Builder::new()
        .stack_size(8 << 20)
        .spawn(|| {
            // [[[ ... null ... ]]] nested 1_000_000 deep, built without recursion.
            let mut v = Rcvar::new(Variable::Null);
            for _ in 0..1_000_000 {
                v = Rcvar::new(Variable::Array(vec![v]));
            }
            let result = compile("type(@)").unwrap().search(&v);
            // Dropping the value recurses too; that is not what is being looked at.
            std::mem::forget(v);
            result.map(|r| r.to_string())
        })
        .unwrap();
    let outcome = handle.join().unwrap();
    assert_eq!(Ok("\"array\"".to_string()), outcome.map_err(|e| e.to_string()));
}
