fn main() {
    let v: serde_json::Value = serde_json::from_str(r#"{"a":1,"b":[2.5]}"#).unwrap();
    let e = jmespath::compile("@").unwrap();
    println!("{}", e.search(&v).unwrap());
    let e = jmespath::compile("a").unwrap();
    let r = e.search(&v).unwrap();
    println!("{} {:?}", r, r.get_type());
    let var = jmespath::Variable::from_json(r#"{"a":1}"#).unwrap();
    println!("{}", jmespath::compile("type(a)").unwrap().search(&var).unwrap());
}
