use jmespath::ast::Ast;
use jmespath::{compile, Rcvar, ToJmespath, Variable};
use serde_json::{json, Value};
use std::fmt::Write as _;

const EXPRS: &[&str] = &[
    "@",
    "type(@)",
    "to_string(@)",
    "to_number(@)",
    "to_array(@)",
    "@ == `0`",
    "@ == `null`",
    "@ < `1`",
    "abs(@)",
    "ceil(@)",
    "floor(@)",
    "length(@)",
    "keys(@)",
    "values(@)",
    "sort(@)",
    "reverse(@)",
    "[@, @]",
    "{a: @}",
    "not_null(@)",
    "!@",
    "@ && `1`",
    "@ || `1`",
    "a",
    "a.b",
    "[0]",
    "[-1]",
    "[*]",
    "*",
    "[]",
    "[::-1]",
    "[?@]",
    "max(@)",
    "min(@)",
    "sum(@)",
    "avg(@)",
    "join(',', @)",
    "contains(@, `1`)",
    "starts_with(@, 'a')",
    "merge(@, @)",
    "map(&@, @)",
    "sort_by(@, &@)",
    "max_by(@, &@)",
    "to_string(@) == to_string(@)",
    "nosuch(@)",
    "abs(",
];

fn run<T: ToJmespath + Clone>(out: &mut String, label: &str, v: T) {
    // conversion on its own
    match v.clone().to_jmespath() {
        Ok(r) => writeln!(out, "CONV {} => {:?} | {}", label, r, r).unwrap(),
        Err(e) => writeln!(out, "CONV {} => ERR {:?}", label, e).unwrap(),
    }
    for e in EXPRS {
        match compile(e) {
            Err(err) => writeln!(out, "{} :: {} => COMPILE ERR {:?}", label, e, err).unwrap(),
            Ok(c) => match c.search(v.clone()) {
                Ok(r) => writeln!(out, "{} :: {} => {:?} | {}", label, e, r, r).unwrap(),
                Err(err) => writeln!(out, "{} :: {} => ERR {:?}", label, e, err).unwrap(),
            },
        }
    }
}

fn deep(n: usize, arr: bool) -> Value {
    let mut v = json!(1);
    for _ in 0..n {
        v = if arr { Value::Array(vec![v]) } else { json!({ "a": v }) };
    }
    v
}

#[test]
fn transcript() {
    let mut out = String::new();
    let o = &mut out;

    // JSON values
    let texts = [
        "null", "true", "false", "0", "-0", "-0.0", "0.0", "1", "-1", "1.0", "1e0", "1.5",
        "9223372036854775807", "9223372036854775808", "18446744073709551615",
        "18446744073709551616", "-9223372036854775808", "-9223372036854775809",
        "1e308", "1.7976931348623157e308", "5e-324", "2.2250738585072014e-308", "0.1",
        "0.30000000000000004", "9007199254740993", "1e15", "1e16", "1e21", "1e-7",
        "123456789012345678901234567890",
        "\"\"", "\"a\"", "\"\\u0000\"", "\"\\ud83d\\ude00\"", "\"é\"", "\"\\n\\t\\\"\\\\\"", "\"1\"", "\"1e3\"",
        "\" 1 \"", "\"true\"", "\"null\"",
        "[]", "{}", "[1]", "[1,2,3]", "[3,1,2]", "[\"b\",\"a\"]", "[1,\"a\"]", "[null]", "[[]]", "[[1,2],[3]]",
        "[1.0,1]", "[true,false]", "[{\"a\":1},{\"a\":2}]",
        "{\"a\":1}", "{\"a\":{\"b\":2}}", "{\"b\":1,\"a\":2}", "{\"\":1}", "{\"a\":null}", "{\"é\":1,\"e\":2,\"z\":3,\"Z\":4}",
        "{\"a\":[1,2],\"b\":{\"c\":[]}}", "{\"\\u0000\":0}", "{\"a b\":1, \"a.b\":2, \"$serde_json::private::Number\":\"1\"}",
        "{\"$serde_json::private::Number\":\"1\"}", "{\"$serde_json::private::RawValue\":\"1\"}",
        "[18446744073709551615, -9223372036854775808, 1e308]",
    ];
    for t in texts.iter() {
        let v: Value = serde_json::from_str(t).unwrap();
        run(o, &format!("Value {}", t), v.clone());
        run(o, &format!("&Value {}", t), &v);
        let var = Variable::from_json(t).unwrap();
        run(o, &format!("Variable {}", t), var.clone());
        run(o, &format!("&Variable {}", t), &var);
        let rc = Rcvar::new(var.clone());
        run(o, &format!("Rcvar {}", t), rc.clone());
        run(o, &format!("&Rcvar {}", t), &rc);
        // generic always
        run(o, &format!("Some(Value) {}", t), Some(v.clone()));
        run(o, &format!("&&Value {}", t), &&v);
        run(o, &format!("Box<Value> {}", t), Box::new(v.clone()));
        run(o, &format!("Vec<Variable> {}", t), vec![var.clone()]);
    }
    for n in [10usize, 100, 200] {
        run(o, &format!("deep arr {}", n), deep(n, true));
        run(o, &format!("deep obj {}", n), deep(n, false));
        run(o, &format!("&deep arr {}", n), &deep(n, true));
    }
    // constructed numbers
    for n in [
        serde_json::Number::from(0u64),
        serde_json::Number::from(0i64),
        serde_json::Number::from(-1i64),
        serde_json::Number::from(u64::MAX),
        serde_json::Number::from(i64::MIN),
        serde_json::Number::from_f64(-0.0).unwrap(),
        serde_json::Number::from_f64(1.0).unwrap(),
        serde_json::Number::from_f64(f64::MAX).unwrap(),
        serde_json::Number::from_f64(f64::MIN_POSITIVE).unwrap(),
        serde_json::Number::from_f64(5e-324).unwrap(),
        serde_json::Number::from_f64(0.1f32 as f64).unwrap(),
    ] {
        run(o, &format!("Value::Number {:?}", n), Value::Number(n.clone()));
        run(o, &format!("Variable::Number {:?}", n), Variable::Number(n.clone()));
    }

    // Expref values
    let ex = Variable::Expref(Ast::Identity { offset: 0 });
    run(o, "Variable expref", ex.clone());
    run(o, "&Variable expref", &ex);
    run(o, "Rcvar expref", Rcvar::new(ex.clone()));
    run(o, "&Rcvar expref", &Rcvar::new(ex.clone()));
    let arr = Variable::Array(vec![Rcvar::new(ex.clone())]);
    run(o, "Variable [expref]", arr.clone());

    // strings
    for s in ["", "a", "\u{0}", "é", "😀", "1", " 1", "true", "null", "\"q\"", "a\nb", "\u{feff}", "\u{10ffff}"] {
        run(o, &format!("String {:?}", s), s.to_string());
        run(o, &format!("&str {:?}", s), s);
        run(o, &format!("&String {:?}", s), &s.to_string());
    }
    let long = "x".repeat(100000);
    run(o, "long String", long.clone());

    macro_rules! ints {
        ($($t:ty),*) => {$(
            for v in [<$t>::MIN, <$t>::MAX, 0 as $t, 1 as $t, (<$t>::MAX / 2), (<$t>::MIN / 2), (<$t>::MIN + 1)] {
                run(o, &format!("{} {}", stringify!($t), v), v);
                run(o, &format!("&{} {}", stringify!($t), v), &v);
            }
        )*};
    }
    ints!(i8, i16, i32, i64, isize, u8, u16, u32, u64, usize, i128, u128);
    for v in [i128::from(i64::MIN), i128::from(u64::MAX), i128::from(u64::MAX) + 1, -1i128] {
        run(o, &format!("i128 {}", v), v);
    }

    for v in [
        0.0f32, -0.0, 1.0, -1.0, 0.1, 0.3, 1.5, f32::MAX, f32::MIN, f32::MIN_POSITIVE, f32::EPSILON,
        1e-45, 16777217.0, 3.4028235e38, f32::NAN, f32::INFINITY, f32::NEG_INFINITY, 1e10, 1e20, 123456.79,
    ] {
        run(o, &format!("f32 {:?}", v), v);
        run(o, &format!("&f32 {:?}", v), &v);
    }
    for v in [
        0.0f64, -0.0, 1.0, -1.0, 0.1, 0.3, 1.5, f64::MAX, f64::MIN, f64::MIN_POSITIVE, f64::EPSILON,
        5e-324, 9007199254740993.0, 1e15, 1e16, 1e21, 1e22, 1e300, f64::NAN, f64::INFINITY, f64::NEG_INFINITY,
        9223372036854775807.0, 18446744073709551615.0, -9223372036854775808.0, 4294967296.0, 0.30000000000000004,
    ] {
        run(o, &format!("f64 {:?}", v), v);
        run(o, &format!("&f64 {:?}", v), &v);
    }
    run(o, "bool true", true);
    run(o, "bool false", false);
    run(o, "&bool true", &true);
    run(o, "unit", ());
    run(o, "&unit", &());
    run(o, "char", 'c');
    run(o, "Option<i32> None", None::<i32>);
    run(o, "tuple", (1u8, "a", 1.5f32, ()));

    let path = std::env::var("HUNT_OUT").unwrap_or_else(|_| "/tmp/wt5-C17/_hunt/out.txt".into());
    std::fs::write(path, out).unwrap();
}
