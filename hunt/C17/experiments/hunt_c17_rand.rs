use jmespath::{Rcvar, ToJmespath, Variable};
use serde_json::{Map, Number, Value};

struct Rng(u64);
impl Rng {
    fn next(&mut self) -> u64 {
        self.0 ^= self.0 << 13;
        self.0 ^= self.0 >> 7;
        self.0 ^= self.0 << 17;
        self.0
    }
    fn below(&mut self, n: u64) -> u64 { self.next() % n }
}

fn strict(a: &Variable, b: &Variable) -> bool {
    match (a, b) {
        (Variable::Null, Variable::Null) => true,
        (Variable::Bool(x), Variable::Bool(y)) => x == y,
        (Variable::String(x), Variable::String(y)) => x == y,
        (Variable::Number(x), Variable::Number(y)) => {
            x.is_i64() == y.is_i64() && x.is_u64() == y.is_u64() && x.is_f64() == y.is_f64()
                && x.as_i64() == y.as_i64() && x.as_u64() == y.as_u64()
                && x.as_f64().map(f64::to_bits) == y.as_f64().map(f64::to_bits)
                && x.to_string() == y.to_string()
        }
        (Variable::Array(x), Variable::Array(y)) => x.len() == y.len() && x.iter().zip(y).all(|(p, q)| strict(p, q)),
        (Variable::Object(x), Variable::Object(y)) => {
            x.len() == y.len() && x.iter().zip(y).all(|((k1, p), (k2, q))| k1 == k2 && strict(p, q))
        }
        _ => false,
    }
}

fn rstring(r: &mut Rng) -> String {
    let n = r.below(6);
    let mut s = String::new();
    for _ in 0..n {
        let c = match r.below(8) {
            0 => '\0',
            1 => 'a',
            2 => 'é',
            3 => '😀',
            4 => '"',
            5 => '\\',
            6 => char::from_u32(r.below(0xD800) as u32).unwrap_or('x'),
            _ => char::from_u32(0xE000 + r.below(0x10FFFF - 0xE000) as u32).unwrap_or('y'),
        };
        s.push(c);
    }
    s
}

fn rnum(r: &mut Rng) -> Number {
    match r.below(6) {
        0 => Number::from(r.next()),
        1 => Number::from(r.next() as i64),
        2 => Number::from_f64(f64::from_bits(r.next())).unwrap_or(Number::from(0)),
        3 => Number::from_f64(f32::from_bits(r.next() as u32) as f64).unwrap_or(Number::from(1)),
        4 => Number::from(r.below(10)),
        _ => Number::from(-(r.below(10) as i64)),
    }
}

fn rvalue(r: &mut Rng, depth: u32) -> Value {
    let k = if depth == 0 { r.below(4) } else { r.below(6) };
    match k {
        0 => Value::Null,
        1 => Value::Bool(r.below(2) == 0),
        2 => Value::Number(rnum(r)),
        3 => Value::String(rstring(r)),
        4 => Value::Array((0..r.below(4)).map(|_| rvalue(r, depth - 1)).collect()),
        _ => {
            let mut m = Map::new();
            for _ in 0..r.below(4) {
                m.insert(rstring(r), rvalue(r, depth - 1));
            }
            Value::Object(m)
        }
    }
}

fn rvariable(r: &mut Rng, depth: u32) -> Variable {
    let k = if depth == 0 { r.below(4) } else { r.below(6) };
    match k {
        0 => Variable::Null,
        1 => Variable::Bool(r.below(2) == 0),
        2 => Variable::Number(rnum(r)),
        3 => Variable::String(rstring(r)),
        4 => Variable::Array((0..r.below(4)).map(|_| Rcvar::new(rvariable(r, depth - 1))).collect()),
        _ => {
            let mut m = std::collections::BTreeMap::new();
            for _ in 0..r.below(4) {
                m.insert(rstring(r), Rcvar::new(rvariable(r, depth - 1)));
            }
            Variable::Object(m)
        }
    }
}

fn check<T: ToJmespath + serde::Serialize + Clone + std::fmt::Debug>(x: T) {
    let fast = x.clone().to_jmespath();
    let generic = Variable::from_serializable(x.clone());
    match (fast, generic) {
        (Ok(a), Ok(b)) => assert!(strict(&a, &b), "{:?}: fast {:?} generic {:?}", x, a, b),
        (Err(_), Err(_)) => {}
        (a, b) => panic!("{:?}: fast {:?} generic {:?}", x, a, b),
    }
}

#[test]
fn random_conversions_agree() {
    let mut r = Rng(0x9E3779B97F4A7C15);
    for _ in 0..200000 {
        let v = rvalue(&mut r, 4);
        check(v.clone());
        check(&v);
        let var = rvariable(&mut r, 4);
        check(var.clone());
        check(&var);
        let rc = Rcvar::new(var);
        check(rc.clone());
        check(&rc);
        let s = rstring(&mut r);
        check(s.clone());
        check(s.as_str());
        let n = r.next();
        check(n as i8); check(n as i16); check(n as i32); check(n as i64); check(n as isize);
        check(n as u8); check(n as u16); check(n as u32); check(n as u64); check(n as usize);
        check(f32::from_bits(n as u32));
        check(f64::from_bits(n));
        check(n & 1 == 0);
        check(());
    }
}

#[test]
fn sanity_expref() {
    check(Variable::Expref(jmespath::ast::Ast::Identity { offset: 0 }));
}
