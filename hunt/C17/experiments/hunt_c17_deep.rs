use jmespath::{compile, Rcvar, Variable};
use serde_json::Value;

fn deep_value(n: usize) -> Value {
    let mut v = Value::Null;
    for _ in 0..n { v = Value::Array(vec![v]); }
    v
}
fn deep_var(n: usize) -> Rcvar {
    let mut v = Rcvar::new(Variable::Null);
    for _ in 0..n { v = Rcvar::new(Variable::Array(vec![v])); }
    v
}

#[test]
fn deep() {
    let n: usize = std::env::var("DEPTH").unwrap().parse().unwrap();
    let kind = std::env::var("KIND").unwrap();
    let h = std::thread::Builder::new().stack_size(8 << 20).spawn(move || {
        let e = compile("type(@)").unwrap();
        let r = if kind == "value" {
            let v = deep_value(n);
            let r = e.search(&v).unwrap();
            std::mem::forget(v);
            r
        } else {
            let v = deep_var(n);
            let r = e.search(&v).unwrap();
            std::mem::forget(v);
            r
        };
        println!("RESULT {}", r);
    }).unwrap();
    h.join().unwrap();
}
