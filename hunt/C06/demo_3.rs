//! C06 candidate 3 (low confidence): calling an unregistered name fails with an
//! unknown-function error. Because arguments are evaluated before the name is
//! looked up, the error of a failing argument wins.
//!
//! Place at jmespath/tests/demo_3.rs and run `cargo test --offline --test demo_3`.
//! FAILS on the unmodified library.

use jmespath::{compile, ErrorReason, RuntimeError, Variable};

fn reason(expr: &str) -> ErrorReason {
    let data = Variable::from_json(r#"{"a": [1, 2]}"#).unwrap();
    compile(expr).unwrap().search(data).unwrap_err().reason
}

#[test]
fn unregistered_name_is_an_unknown_function_error() {
    // Sanity
    assert!(matches!(
        reason("nosuch(a)"),
        ErrorReason::Runtime(RuntimeError::UnknownFunction(_))
    ));
    let mut wrong = vec![];
    for expr in ["nosuch(abs('a'))", "nosuch(abs())", "nosuch(a[::0])"] {
        let r = reason(expr);
        match r {
            ErrorReason::Runtime(RuntimeError::UnknownFunction(ref n)) if n == "nosuch" => {}
            other => wrong.push(format!("{} -> {:?}", expr, other)),
        }
    }
    assert!(wrong.is_empty(), "not an unknown-function error:\n  {}", wrong.join("\n  "));
}
