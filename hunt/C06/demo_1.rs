//! C06 candidate 1: an expression reference given where a value is required
//! (the `any` positions) must be refused with an invalid-type error.
//!
//! Place at jmespath/tests/demo_1.rs and run `cargo test --offline --test demo_1`.
//! FAILS on the unmodified library: every call below is accepted.

use jmespath::{compile, ErrorReason, RuntimeError, Variable};

fn outcome(expr: &str) -> String {
    let data = Variable::from_json(r#"{"a": 1, "arr": [1, 2], "s": "abc", "x": null}"#).unwrap();
    let compiled = compile(expr).unwrap_or_else(|e| panic!("{} does not compile: {}", expr, e));
    match compiled.search(data) {
        Ok(v) => format!("accepted, result {} of type {}", v, v.get_type()),
        Err(e) => match e.reason {
            ErrorReason::Runtime(RuntimeError::InvalidType { .. }) => "invalid-type".to_owned(),
            other => format!("other error {:?}", other),
        },
    }
}

#[test]
fn expref_where_a_value_is_required_is_an_invalid_type_error() {
    // Sanity: the library itself treats an expref as "not a value" for to_string,
    // and for every non-`any` value position.
    assert_eq!(outcome("to_string(&a)"), "invalid-type");
    assert_eq!(outcome("abs(&a)"), "invalid-type");
    assert_eq!(outcome("length(&a)"), "invalid-type");

    let mut wrong = vec![];
    for expr in [
        "type(&a)",
        "to_array(&a)",
        "to_number(&a)",
        "not_null(&a)",
        "not_null(x, &a)",
        "not_null(a, &a)",
        "contains(arr, &a)",
        "contains(s, &a)",
    ] {
        let got = outcome(expr);
        if got != "invalid-type" {
            wrong.push(format!("{} -> {}", expr, got));
        }
    }
    assert!(
        wrong.is_empty(),
        "expression references were accepted where values are required:\n  {}",
        wrong.join("\n  ")
    );
}
