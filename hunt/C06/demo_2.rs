//! C06 candidate 2: the result of a built-in has the function's declared result
//! type; no built-in is declared to return an expression reference (or a
//! container holding one), so a search can never hand an expref to the caller.
//!
//! Place at jmespath/tests/demo_2.rs and run `cargo test --offline --test demo_2`.
//! FAILS on the unmodified library.

use jmespath::{compile, Variable};

fn holds_expref(v: &Variable) -> bool {
    match v {
        Variable::Expref(_) => true,
        Variable::Array(items) => items.iter().any(|i| holds_expref(i)),
        Variable::Object(map) => map.values().any(|i| holds_expref(i)),
        _ => false,
    }
}

#[test]
fn builtin_results_are_json_values_of_the_declared_type() {
    let data = Variable::from_json(r#"{"a": 1, "x": null, "n": [{"k": 2}, {"k": 1}]}"#).unwrap();
    let mut wrong = vec![];
    for expr in [
        // not_null: declared result is a JSON value (any), got an expref
        "not_null(&a)",
        "not_null(x, &a)",
        // to_array: declared result is an array of JSON values, got [expref]
        "to_array(&a)",
        "reverse(to_array(&a))",
        // map: array of JSON values, got an array of exprefs
        "map(&not_null(&k), n)",
    ] {
        let compiled = compile(expr).unwrap();
        // An error (invalid-type) is what the property demands; a value holding an expref is not.
        if let Ok(v) = compiled.search(data.clone()) {
            if holds_expref(&v) {
                wrong.push(format!("{} -> {} (type {})", expr, v, v.get_type()));
            }
        }
    }
    // A built-in that "manufactures" the expref argument of another built-in:
    // sort_by's second parameter is written as a call, not as `&expr`, and is accepted.
    let compiled = compile("sort_by(n, not_null(x, &k))").unwrap();
    if let Ok(v) = compiled.search(data.clone()) {
        wrong.push(format!("sort_by(n, not_null(x, &k)) -> {} (not_null returned an expref)", v));
    }
    assert!(
        wrong.is_empty(),
        "built-ins returned expression references:\n  {}",
        wrong.join("\n  ")
    );
}
