// OBSERVATION ONLY -- not claimed as a C13 violation (see FINDINGS.md, "Considered and rejected", item 1).
// Outside the compile / clone / search API: a caller who drives Function::evaluate directly and keeps
// one Context for several calls sees Context::offset left modified by a call that failed on a
// zero-step slice inside an expression reference (interpreter.rs, Ast::Slice sets ctx.offset and
// does not restore it; Ast::Function does restore it). Expression::search is not affected because it
// builds a fresh Context for every search.
use jmespath::functions::{Function, MapFn};
use jmespath::{parse, Context, Rcvar, Variable, DEFAULT_RUNTIME};

#[test]
fn direct_function_call_leaves_offset_in_a_user_held_context() {
    let mut ctx = Context::new("0123456789", &DEFAULT_RUNTIME);
    assert_eq!(ctx.offset, 0);
    let expref = Rcvar::new(Variable::Expref(parse("[::0]").unwrap()));
    let arr = Rcvar::new(Variable::from_json("[[1]]").unwrap());
    assert!(MapFn::new().evaluate(&[expref, arr], &mut ctx).is_err());
    // Fails on the library as it stands: offset is 4 (the slice's offset inside "[::0]").
    assert_eq!(ctx.offset, 0);
}
