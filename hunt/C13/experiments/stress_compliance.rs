// Scratch stress test for C13 (purity).
use jmespath::{compile, Expression, Rcvar, Variable};
use serde_json::Value;
use std::fs;

struct Rng(u64);
impl Rng {
    fn next(&mut self) -> u64 {
        let mut x = self.0;
        x ^= x << 13;
        x ^= x >> 7;
        x ^= x << 17;
        self.0 = x;
        x
    }
    fn below(&mut self, n: usize) -> usize {
        (self.next() % (n as u64)) as usize
    }
}

fn load() -> (Vec<String>, Vec<String>) {
    let mut docs = vec![];
    let mut exprs = vec![];
    for e in fs::read_dir("tests/compliance").unwrap() {
        let p = e.unwrap().path();
        let v: Value = serde_json::from_str(&fs::read_to_string(&p).unwrap()).unwrap();
        for suite in v.as_array().unwrap() {
            docs.push(serde_json::to_string(&suite["given"]).unwrap());
            for c in suite["cases"].as_array().unwrap() {
                exprs.push(c["expression"].as_str().unwrap().to_string());
            }
        }
    }
    // extra expressions: error paths, exprefs, literals, slices
    for e in [
        "[::0]", "foo[::0]", "map(&[::0], @)", "sort_by(@, &a)", "max_by(@, &abs(@))",
        "not_null(&a)", "to_array(&a)", "type(&a)", "unknown(@)", "abs('x')",
        "map(&abs(@), @)", "`{\"a\": [1, 2.5, 1e300, -0.0, 18446744073709551615]}`",
        "sum([`1e308`, `1e308`])", "avg(`[]`)", "[@, @, @]", "{a: @, b: @}", "@",
        "`[1,2,3]`", "'raw'", "*", "[*]", "[]", "[?@]", "a || b", "a && b", "!a",
        "join(', ', *)", "merge(@, `{\"zz\": 1}`)", "reverse(@)", "sort(@)", "keys(@)",
        "values(@)", "length(@)", "to_string(@)", "to_number(@)", "contains(@, `1`)",
        "min(@)", "max(@)", "min_by(@, &@)", "sort_by(@, &to_string(@))",
        "map(&unknown(@), @)", "map(&[::0], `[1]`) || 'x'", "[0]", "[-1]", "[::-1]", "[1:3]",
        "[?a == `1`].b", "foo.bar.baz", "foo[*].bar", "foo[].bar[]", "a.b | c",
        "abs(", "foo.", "`bad", "\"\\ud800\"", "-", "[1,]", "a ~ b",
    ] {
        exprs.push(e.to_string());
    }
    for d in [
        "null", "1", "\"s\"", "[]", "{}", "[1,2,3]", "[3,1,2,1.0000000000000002]",
        "[\"b\",\"a\",\"c\"]", "{\"a\":1,\"b\":2}", "[{\"a\":2},{\"a\":1},{\"a\":3}]",
        "[[1,2],[3,[4]]]", "{\"a\":{\"b\":{\"c\":[1,2,3]}}}", "[1,\"a\",null,true,{},[]]",
        "{\"foo\":[{\"bar\":1},{\"bar\":2}]}", "[-1,-2.5,1e300]",
    ] {
        docs.push(d.to_string());
    }
    exprs.sort();
    exprs.dedup();
    docs.sort();
    docs.dedup();
    (docs, exprs)
}

fn render_search(e: &Expression<'_>, d: &Rcvar) -> String {
    match e.search(d) {
        Ok(v) => format!("OK {:?} || {}", v, v),
        Err(err) => format!("ERR {:?} || {}", err, err),
    }
}

#[test]
fn stress_purity() {
    let (docs, exprs) = load();
    eprintln!("{} docs, {} exprs", docs.len(), exprs.len());
    // baseline: compile results
    let base_compile: Vec<String> = exprs
        .iter()
        .map(|s| match compile(s) {
            Ok(e) => format!("OK {:?} {:?}", e.as_ast(), e.as_str()),
            Err(err) => format!("ERR {:?} || {}", err, err),
        })
        .collect();
    let ok_idx: Vec<usize> = (0..exprs.len()).filter(|&i| compile(&exprs[i]).is_ok()).collect();
    eprintln!("{} compilable", ok_idx.len());
    // baseline search: fresh compile, fresh doc
    let mut base = vec![vec![String::new(); docs.len()]; exprs.len()];
    for &i in &ok_idx {
        for (j, d) in docs.iter().enumerate() {
            let e = compile(&exprs[i]).unwrap();
            let doc = Rcvar::new(Variable::from_json(d).unwrap());
            base[i][j] = render_search(&e, &doc);
        }
    }
    // shared state
    let shared_docs: Vec<Rcvar> = docs.iter().map(|d| Rcvar::new(Variable::from_json(d).unwrap())).collect();
    let doc_dbg: Vec<String> = shared_docs.iter().map(|d| format!("{:?}", d)).collect();
    let doc_copies: Vec<Variable> = docs.iter().map(|d| Variable::from_json(d).unwrap()).collect();
    let mut pool: Vec<Option<Expression<'static>>> = vec![None; exprs.len()];
    let mut held: Vec<Rcvar> = vec![];
    let mut rng = Rng(0x9E3779B97F4A7C15);
    let iters: usize = std::env::var("C13_ITERS").ok().and_then(|s| s.parse().ok()).unwrap_or(300000);
    for it in 0..iters {
        let i = rng.below(exprs.len());
        match rng.below(6) {
            0 => {
                // recompile and compare
                let now = match compile(&exprs[i]) {
                    Ok(e) => format!("OK {:?} {:?}", e.as_ast(), e.as_str()),
                    Err(err) => format!("ERR {:?} || {}", err, err),
                };
                assert_eq!(now, base_compile[i], "compile differs for {:?} at {}", exprs[i], it);
                if let (Ok(a), Some(b)) = (compile(&exprs[i]), pool[i].as_ref()) {
                    assert!(a.as_ast() == b.as_ast());
                }
            }
            _ => {
                if compile(&exprs[i]).is_err() {
                    continue;
                }
                if pool[i].is_none() || rng.below(50) == 0 {
                    pool[i] = Some(compile(&exprs[i]).unwrap());
                }
                let j = rng.below(docs.len());
                let e = pool[i].as_ref().unwrap();
                let r = if rng.below(2) == 0 {
                    let c = e.clone();
                    let r = render_search(&c, &shared_docs[j]);
                    if rng.below(3) == 0 {
                        pool[i] = Some(c);
                    }
                    r
                } else {
                    render_search(e, &shared_docs[j])
                };
                assert_eq!(r, base[i][j], "search differs: {:?} on {} at {}", exprs[i], docs[j], it);
                // hold on to some results to keep Rc's shared
                if rng.below(10) == 0 {
                    if let Ok(v) = pool[i].as_ref().unwrap().search(&shared_docs[j]) {
                        held.push(v);
                        if held.len() > 200 {
                            held.swap_remove(rng.below(200));
                        }
                    }
                }
                assert_eq!(format!("{:?}", shared_docs[j]), doc_dbg[j]);
                assert!(*shared_docs[j] == doc_copies[j]);
            }
        }
    }
}
