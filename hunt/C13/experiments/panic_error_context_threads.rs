// Scratch: panics midway, custom runtimes, reused Context, threads (sync).
use jmespath::functions::{Function, MapFn, AbsFn};
use jmespath::{compile, parse, Context, Rcvar, Runtime, Variable, DEFAULT_RUNTIME};
use std::panic::{catch_unwind, AssertUnwindSafe};

fn show(r: &Result<Rcvar, jmespath::JmespathError>) -> String {
    match r {
        Ok(v) => format!("OK {:?}", v),
        Err(e) => format!("ERR {:?}", e),
    }
}

#[test]
fn panic_midway_then_reuse() {
    let mut rt = Runtime::new();
    rt.register_builtin_functions();
    rt.register_function(
        "boom",
        Box::new(|args: &[Rcvar], _: &mut Context<'_>| -> Result<Rcvar, jmespath::JmespathError> {
            if args[0].is_truthy() {
                panic!("boom")
            }
            Ok(args[0].clone())
        }),
    );
    let e = rt.compile("map(&boom(@), @)").unwrap();
    let good = Rcvar::new(Variable::from_json("[null, false, \"\"]").unwrap());
    let bad = Rcvar::new(Variable::from_json("[null, 1, null]").unwrap());
    let before = show(&e.search(&good));
    let bad_dbg = format!("{:?}", bad);
    for _ in 0..10 {
        let r = catch_unwind(AssertUnwindSafe(|| e.search(&bad)));
        assert!(r.is_err());
        assert_eq!(before, show(&e.search(&good)));
        assert_eq!(before, show(&e.clone().search(&good)));
        assert_eq!(bad_dbg, format!("{:?}", bad));
        // default runtime unaffected
        assert_eq!("OK Number(Number(1.0))", show(&compile("abs(`-1`)").unwrap().search(())));
    }
}

#[test]
fn error_midway_then_reuse() {
    let e = compile("map(&[::0], @) || abs('x')").unwrap();
    let e2 = compile("abs(@)").unwrap();
    let base2 = show(&e2.search("x"));
    let base = show(&e.search(Variable::from_json("[[1]]").unwrap()));
    for _ in 0..5 {
        assert_eq!(base, show(&e.search(Variable::from_json("[[1]]").unwrap())));
        assert_eq!(base2, show(&e2.search("x")));
        assert_eq!(base2, show(&e2.clone().search("x")));
    }
    eprintln!("{}\n{}", base, base2);
}

#[test]
fn reused_context_direct_function_calls() {
    // Not the search API: a user-held Context shared between direct Function::evaluate calls.
    let rt: &Runtime = &DEFAULT_RUNTIME;
    let mut ctx = Context::new("xxxxxxxxxxxxxxxx", rt);
    let expref = Rcvar::new(Variable::Expref(parse("[::0]").unwrap()));
    let arr = Rcvar::new(Variable::from_json("[[1]]").unwrap());
    let r1 = MapFn::new().evaluate(&[expref, arr], &mut ctx);
    eprintln!("r1 {:?} offset now {}", r1, ctx.offset);
    let r2 = AbsFn::new().evaluate(&[Rcvar::new(Variable::String("s".into()))], &mut ctx);
    eprintln!("r2 {:?}", r2);
}

#[cfg(feature = "sync")]
#[test]
fn threads_share_everything() {
    use std::sync::Arc;
    use std::thread;
    let exprs = [
        "sort_by(@, &a)[*].a", "map(&abs(@), [*].a)", "[?a > `1`]", "max_by(@, &a)", "[::0]",
        "map(&[::0], @)", "[*].a | sum(@)", "to_string(@)", "unknown(@)", "{x: [0].a, y: length(@)}",
    ];
    let doc = Arc::new(Variable::from_json("[{\"a\":3},{\"a\":-1},{\"a\":2.5}]").unwrap());
    let base: Vec<String> = exprs.iter().map(|s| show(&compile(s).unwrap().search(&doc))).collect();
    let shared: Arc<Vec<jmespath::Expression<'static>>> =
        Arc::new(exprs.iter().map(|s| compile(s).unwrap()).collect());
    let base = Arc::new(base);
    let mut hs = vec![];
    for t in 0..16 {
        let shared = shared.clone();
        let base = base.clone();
        let doc = doc.clone();
        hs.push(thread::spawn(move || {
            for k in 0..20000 {
                let i = (k * 7 + t) % shared.len();
                let r = if k % 3 == 0 {
                    show(&shared[i].clone().search(&doc))
                } else if k % 3 == 1 {
                    show(&shared[i].search(&doc))
                } else {
                    show(&compile(shared[i].as_str()).unwrap().search(&doc))
                };
                assert_eq!(r, base[i]);
            }
        }));
    }
    for h in hs {
        h.join().unwrap();
    }
}
