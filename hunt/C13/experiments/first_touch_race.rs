use std::sync::{Arc, Barrier};
use std::thread;
#[test]
fn first_touch_race() {
    let n = 64;
    let b = Arc::new(Barrier::new(n));
    let hs: Vec<_> = (0..n).map(|_| { let b = b.clone(); thread::spawn(move || {
        b.wait();
        let mut out = vec![];
        for s in ["sort_by(@, &a)[*].a", "abs(`-3`)", "length(@)", "nosuch(@)", "map(&to_string(@), @)"] {
            let e = jmespath::compile(s).unwrap();
            let d = jmespath::Variable::from_json("[{\"a\":2},{\"a\":1}]").unwrap();
            out.push(format!("{:?} {:?}", e.as_ast(), e.search(d)));
        }
        out
    })}).collect();
    let rs: Vec<_> = hs.into_iter().map(|h| h.join().unwrap()).collect();
    for r in &rs { assert_eq!(r, &rs[0]); }
}
