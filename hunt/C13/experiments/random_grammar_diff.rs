use jmespath::{compile, Expression, Rcvar, Variable};
struct Rng(u64);
impl Rng {
    fn next(&mut self) -> u64 { let mut x = self.0; x ^= x << 13; x ^= x >> 7; x ^= x << 17; self.0 = x; x }
    fn below(&mut self, n: usize) -> usize { (self.next() % (n as u64)) as usize }
}
const FIELDS: [&str; 5] = ["a", "b", "c", "\"k k\"", "é_"];
const LITS: [&str; 14] = ["`1`", "`-0.0`", "`1e300`", "`\"s\"`", "`[1,2,3]`", "`{\"a\":[1,{\"b\":2}]}`", "`null`", "`true`", "'raw'", "`[]`", "`18446744073709551615`", "`-9223372036854775808`", "`0.30000000000000004`", "`[\"b\",\"a\"]`"];
const FN1: [&str; 20] = ["abs", "avg", "ceil", "floor", "keys", "length", "max", "min", "not_null", "reverse", "sort", "sum", "to_array", "to_number", "to_string", "type", "values", "merge", "nosuch", "join"];
fn gen(r: &mut Rng, d: usize) -> String {
    if d == 0 { return match r.below(4) { 0 => "@".into(), 1 => FIELDS[r.below(3)].into(), 2 => LITS[r.below(LITS.len())].into(), _ => "*".into() }; }
    match r.below(22) {
        0 => format!("{}.{}", gen(r, d - 1), FIELDS[r.below(FIELDS.len())]),
        1 => format!("{}[{}]", gen(r, d - 1), r.below(5) as i64 - 2),
        2 => format!("{}[*]", gen(r, d - 1)),
        3 => format!("{}[]", gen(r, d - 1)),
        4 => format!("{}.*", gen(r, d - 1)),
        5 => format!("{}[?{}]", gen(r, d - 1), gen(r, d - 1)),
        6 => format!("{} | {}", gen(r, d - 1), gen(r, d - 1)),
        7 => format!("{} || {}", gen(r, d - 1), gen(r, d - 1)),
        8 => format!("{} && {}", gen(r, d - 1), gen(r, d - 1)),
        9 => format!("!{}", gen(r, d - 1)),
        10 => format!("({})", gen(r, d - 1)),
        11 => format!("[{}, {}]", gen(r, d - 1), gen(r, d - 1)),
        12 => format!("{{x: {}, y: {}}}", gen(r, d - 1), gen(r, d - 1)),
        13 => format!("{} {} {}", gen(r, d - 1), ["==", "!=", "<", "<=", ">", ">="][r.below(6)], gen(r, d - 1)),
        14 => format!("{}({})", FN1[r.below(FN1.len())], gen(r, d - 1)),
        15 => format!("{}({}, &{})", ["sort_by", "max_by", "min_by"][r.below(3)], gen(r, d - 1), gen(r, d - 1)),
        16 => format!("map(&{}, {})", gen(r, d - 1), gen(r, d - 1)),
        17 => { let s = ["", "0", "1", "-1", "2", "-2"]; format!("{}[{}:{}:{}]", gen(r, d - 1), s[r.below(6)], s[r.below(6)], s[r.below(6)]) }
        18 => format!("{}({}, {})", ["contains", "starts_with", "ends_with", "join", "merge"][r.below(5)], gen(r, d - 1), gen(r, d - 1)),
        19 => format!("{}.{{x: {}}}", gen(r, d - 1), gen(r, d - 1)),
        20 => format!("{}.[{}]", gen(r, d - 1), gen(r, d - 1)),
        _ => gen(r, d - 1),
    }
}
fn gendoc(r: &mut Rng, d: usize) -> String {
    if d == 0 { return ["1", "-2.5", "0", "\"s\"", "\"\"", "null", "true", "false", "[]", "{}", "1e300", "\"b\"", "3"][r.below(13)].into(); }
    match r.below(3) {
        0 => { let n = r.below(4); format!("[{}]", (0..n).map(|_| gendoc(r, d - 1)).collect::<Vec<_>>().join(",")) }
        1 => { let n = r.below(4); format!("{{{}}}", (0..n).map(|i| format!("\"{}\":{}", ["a", "b", "c", "k k"][i], gendoc(r, d - 1))).collect::<Vec<_>>().join(",")) }
        _ => gendoc(r, d - 1),
    }
}
fn show(e: &Expression<'_>, d: &Rcvar) -> String {
    match e.search(d) { Ok(v) => format!("OK {:?}", v), Err(x) => format!("ERR {:?}", x) }
}
#[test]
fn random_diff() {
    let mut r = Rng(88172645463325252);
    let docs: Vec<String> = (0..60).map(|_| gendoc(&mut r, 3)).collect();
    let shared: Vec<Rcvar> = docs.iter().map(|d| Rcvar::new(Variable::from_json(d).unwrap())).collect();
    let dbg: Vec<String> = shared.iter().map(|d| format!("{:?}", d)).collect();
    let mut exprs = vec![];
    let mut nerr = 0;
    while exprs.len() < 1500 {
        let s = gen(&mut r, 4);
        match compile(&s) { Ok(e) => exprs.push((s, e)), Err(_) => nerr += 1 }
    }
    eprintln!("uncompilable generated: {}", nerr);
    let mut base = vec![];
    let (mut ok, mut er) = (0, 0);
    for (s, _) in &exprs {
        let mut row = vec![];
        for d in &docs {
            let x = show(&compile(s).unwrap(), &Rcvar::new(Variable::from_json(d).unwrap()));
            if x.starts_with("OK") { ok += 1 } else { er += 1 }
            row.push(x);
        }
        base.push(row);
    }
    eprintln!("baseline ok {} err {}", ok, er);
    let mut held = vec![];
    for it in 0..400000 {
        let i = r.below(exprs.len());
        let j = r.below(docs.len());
        let (s, e) = &exprs[i];
        let x = match r.below(3) { 0 => show(e, &shared[j]), 1 => show(&e.clone(), &shared[j]), _ => show(&compile(s).unwrap(), &shared[j]) };
        assert_eq!(x, base[i][j], "{} on {} at {}", s, docs[j], it);
        assert!(compile(s).unwrap().as_ast() == e.as_ast());
        assert_eq!(format!("{:?}", compile(s).unwrap().as_ast()), format!("{:?}", e.as_ast()));
        if r.below(8) == 0 { if let Ok(v) = e.search(&shared[j]) { held.push(v); if held.len() > 500 { let k = r.below(500); held.swap_remove(k); } } }
        assert_eq!(format!("{:?}", shared[j]), dbg[j]);
    }
}
