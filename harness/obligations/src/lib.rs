//! C16, type level: with the `sync` feature the public types must be `Send + Sync`.  This crate contains nothing but the
//! obligations; if the library builds with `sync` but this crate does not, a type has lost the guarantee.

#[cfg(feature = "obligations")]
fn both<T: Send + Sync>() {}

/// the library is linked in any case
pub fn library_present() -> usize {
    jmespath::DEFAULT_RUNTIME.get_function("abs").is_some() as usize
}

#[cfg(feature = "obligations")]
pub fn obligations() {
    both::<jmespath::Expression<'static>>();
    both::<jmespath::Runtime>();
    both::<jmespath::Variable>();
    both::<jmespath::Rcvar>();
    both::<jmespath::ast::Ast>();
    both::<jmespath::JmespathError>();
    both::<jmespath::functions::Signature>();
    both::<Box<dyn jmespath::functions::Function>>();
    // the shared default runtime is reachable from every thread
    let r: &'static jmespath::Runtime = &jmespath::DEFAULT_RUNTIME;
    let _ = r;
}
