//! C16, type level: with the `sync` feature the public types must be `Send + Sync`.  This crate contains nothing but the
//! obligations; if the library builds with `sync` but this crate does not, a type has lost the guarantee.

fn both<T: Send + Sync>() {}

pub fn obligations() {
    both::<jmespath::Expression<'static>>();
    both::<jmespath::Runtime>();
    both::<jmespath::Variable>();
    both::<jmespath::Rcvar>();
    both::<jmespath::ast::Ast>();
    both::<jmespath::JmespathError>();
    both::<jmespath::functions::Signature>();
    both::<Box<dyn jmespath::functions::Function>>();
    // the shared default runtime is reachable from every thread
    let r: &'static jmespath::Runtime = &jmespath::DEFAULT_RUNTIME;
    let _ = r;
}
