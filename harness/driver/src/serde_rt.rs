//! C14 runner: the serde bridge.  "ser": a serde data-model tree is serialised by a dynamic `Serialize` implementation
//! that calls exactly the serializer method the node names; recorded: the library's image, serde_json's image, the
//! search result of `@` on the typed value.  "de": a JSON value is decoded into each type of a zoo through the library
//! (`T::deserialize(Variable)`) and through serde_json (`from_value`); recorded: both answers.

use crate::val::*;
use jmespath::{ToJmespath, Variable};
use serde::ser::{SerializeMap, SerializeSeq, SerializeStruct, SerializeStructVariant, SerializeTuple, SerializeTupleStruct, SerializeTupleVariant};
use serde::{Serialize, Serializer};
use serde_derive::{Deserialize, Serialize as DSerialize};
use serde_json::{json, Value};
use std::collections::BTreeMap;

const NAMES: [&str; 3] = ["A", "B", "C"];
const FIELDS: [&str; 3] = ["f0", "f1", "f2"];

pub struct Node<'a>(pub &'a Value);

fn name_of(v: &Value) -> &'static str {
    NAMES[(v.as_u64().unwrap_or(0) as usize) % 3]
}
fn fnum(n: &Value) -> f64 {
    match n.get("special").and_then(|s| s.as_str()) {
        Some("nan") => f64::NAN,
        Some("inf") => f64::INFINITY,
        Some("ninf") => f64::NEG_INFINITY,
        Some("negzero") => -0.0,
        Some("tiny") => 1e-45,          // a subnormal f32 once narrowed (and a small normal f64)
        Some("tiny64") => 5e-324,       // the smallest subnormal f64
        _ => n["p"].as_f64().unwrap_or(0.0) / n["q"].as_f64().unwrap_or(1.0),
    }
}

impl<'a> Serialize for Node<'a> {
    fn serialize<S: Serializer>(&self, s: S) -> Result<S::Ok, S::Error> {
        let n = self.0;
        let k = n["k"].as_str().unwrap_or("");
        let iv = n.get("v").and_then(|x| x.as_str()).unwrap_or("0");
        let kids = |key: &str| -> Vec<Value> { n.get(key).and_then(|x| x.as_array()).cloned().unwrap_or_default() };
        match k {
            "bool" => s.serialize_bool(n["b"].as_bool().unwrap_or(false)),
            "i8" => s.serialize_i8(iv.parse().unwrap_or(0)),
            "i16" => s.serialize_i16(iv.parse().unwrap_or(0)),
            "i32" => s.serialize_i32(iv.parse().unwrap_or(0)),
            "i64" => s.serialize_i64(iv.parse().unwrap_or(0)),
            "u8" => s.serialize_u8(iv.parse().unwrap_or(0)),
            "u16" => s.serialize_u16(iv.parse().unwrap_or(0)),
            "u32" => s.serialize_u32(iv.parse().unwrap_or(0)),
            "u64" => s.serialize_u64(iv.parse().unwrap_or(0)),
            "f32" => s.serialize_f32(fnum(n) as f32),
            "f64" => s.serialize_f64(fnum(n)),
            "char" => s.serialize_char(std::char::from_u32(n["c"].as_u64().unwrap_or(97) as u32).unwrap_or('a')),
            "str" => s.serialize_str(&uncps(&n["s"])),
            "bytes" => {
                let b: Vec<u8> = kids("b").iter().map(|x| x.as_u64().unwrap_or(0) as u8).collect();
                s.serialize_bytes(&b)
            }
            "none" => s.serialize_none(),
            "some" => s.serialize_some(&Node(&n["x"])),
            "unit" => s.serialize_unit(),
            "unit_struct" => s.serialize_unit_struct("Unit"),
            "unit_variant" => s.serialize_unit_variant("E", n["name"].as_u64().unwrap_or(0) as u32, name_of(&n["name"])),
            "newtype_struct" => s.serialize_newtype_struct("New", &Node(&n["x"])),
            "newtype_variant" => s.serialize_newtype_variant("E", n["name"].as_u64().unwrap_or(0) as u32, name_of(&n["name"]), &Node(&n["x"])),
            "seq" => {
                let xs = kids("xs");
                let mut st = s.serialize_seq(Some(xs.len()))?;
                for x in &xs {
                    st.serialize_element(&Node(x))?;
                }
                st.end()
            }
            "tuple" => {
                let xs = kids("xs");
                let mut st = s.serialize_tuple(xs.len())?;
                for x in &xs {
                    st.serialize_element(&Node(x))?;
                }
                st.end()
            }
            "tuple_struct" => {
                let xs = kids("xs");
                let mut st = s.serialize_tuple_struct("TS", xs.len())?;
                for x in &xs {
                    st.serialize_field(&Node(x))?;
                }
                st.end()
            }
            "tuple_variant" => {
                let xs = kids("xs");
                let mut st = s.serialize_tuple_variant("E", n["name"].as_u64().unwrap_or(0) as u32, name_of(&n["name"]), xs.len())?;
                for x in &xs {
                    st.serialize_field(&Node(x))?;
                }
                st.end()
            }
            "map" => {
                let es = kids("es");
                let mut st = s.serialize_map(Some(es.len()))?;
                for e in &es {
                    st.serialize_key(&Node(&e["key"]))?;
                    st.serialize_value(&Node(&e["v"]))?;
                }
                st.end()
            }
            "struct" => {
                let fs = kids("fs");
                let mut st = s.serialize_struct("S", fs.len())?;
                for f in &fs {
                    st.serialize_field(FIELDS[(f["f"].as_u64().unwrap_or(0) as usize) % 3], &Node(&f["v"]))?;
                }
                st.end()
            }
            "struct_variant" => {
                let fs = kids("fs");
                let mut st = s.serialize_struct_variant("E", n["name"].as_u64().unwrap_or(0) as u32, name_of(&n["name"]), fs.len())?;
                for f in &fs {
                    st.serialize_field(FIELDS[(f["f"].as_u64().unwrap_or(0) as usize) % 3], &Node(&f["v"]))?;
                }
                st.end()
            }
            _ => s.serialize_unit(),
        }
    }
}

/// tagged value with every integer kept as its decimal digits: {"t":"num","int":"..."}
/// a float; negative zero keeps its sign (field z): serde_json prints it as -0.0, and so must the library's image
fn float_tag(n: &serde_json::Number) -> Value {
    match n.as_f64() {
        Some(f) if f == 0.0 && f.is_sign_negative() => json!({"t":"num","p":0,"q":1,"z":true}),
        Some(f) if f != 0.0 && f.abs() < 1e-30 => json!({"t":"num","tiny":true}),
        _ => num_to_tagged(n),
    }
}
pub fn tag_var(v: &Variable) -> Value {
    match v {
        Variable::Number(n) if n.is_i64() || n.is_u64() => json!({"t":"num","int":n.to_string()}),
        Variable::Number(n) => float_tag(n),
        Variable::Array(a) => json!({"t":"arr","a":a.iter().map(|x| tag_var(x)).collect::<Vec<_>>()}),
        Variable::Object(m) => json!({"t":"obj","o":m.iter().map(|(k, x)| json!({"k":cps(k),"v":tag_var(x)})).collect::<Vec<_>>()}),
        other => to_tagged(other),
    }
}
pub fn tag_json(v: &Value) -> Value {
    match v {
        Value::Null => json!({"t":"null"}),
        Value::Bool(b) => json!({"t":"bool","b":b}),
        Value::Number(n) if n.is_i64() || n.is_u64() => json!({"t":"num","int":n.to_string()}),
        Value::Number(n) => float_tag(n),
        Value::String(s) => json!({"t":"str","s":cps(s)}),
        Value::Array(a) => json!({"t":"arr","a":a.iter().map(tag_json).collect::<Vec<_>>()}),
        Value::Object(m) => {
            let mut ks: Vec<&String> = m.keys().collect();
            ks.sort();
            json!({"t":"obj","o":ks.iter().map(|k| json!({"k":cps(k),"v":tag_json(&m[*k])})).collect::<Vec<_>>()})
        }
    }
}
/// tagged (with "int" digits) -> serde_json Value
pub fn untag(t: &Value) -> Value {
    match t["t"].as_str().unwrap_or("") {
        "null" => Value::Null,
        "bool" => json!(t["b"].as_bool().unwrap_or(false)),
        "num" => {
            if let Some(d) = t.get("int").and_then(|x| x.as_str()) {
                serde_json::from_str(d).unwrap_or(Value::Null)
            } else {
                json!(t["p"].as_f64().unwrap_or(0.0) / t["q"].as_f64().unwrap_or(1.0))
            }
        }
        "str" => json!(uncps(&t["s"])),
        "arr" => Value::Array(t["a"].as_array().map(|a| a.iter().map(untag).collect()).unwrap_or_default()),
        "obj" => {
            let mut m = serde_json::Map::new();
            for kv in t["o"].as_array().cloned().unwrap_or_default() {
                m.insert(uncps(&kv["k"]), untag(&kv["v"]));
            }
            Value::Object(m)
        }
        _ => Value::Null,
    }
}

// ---- the decode zoo ----
#[derive(Debug, PartialEq, Deserialize, DSerialize, Clone)]
struct Point { x: i32, y: i32 }
#[derive(Debug, PartialEq, Deserialize, DSerialize, Clone)]
struct Unit;
#[derive(Debug, PartialEq, Deserialize, DSerialize, Clone)]
struct Newtype(i32);
#[derive(Debug, PartialEq, Deserialize, DSerialize, Clone)]
struct Pair(i32, String);
#[derive(Debug, PartialEq, Deserialize, DSerialize, Clone)]
enum E { Unit, New(i32), Tup(i32, String), Str { a: bool }, Opt(Option<i32>), Nil(()) }
#[derive(Debug, PartialEq, Deserialize, DSerialize, Clone)]
struct Outer { p: Point, e: E, o: Option<Vec<i32>>, #[serde(default)] d: u8 }

#[derive(Debug, PartialEq, Eq, PartialOrd, Ord, Deserialize, DSerialize, Clone)]
struct UserId(String);
#[derive(Debug, PartialEq, Eq, PartialOrd, Ord, Deserialize, DSerialize, Clone)]
enum Color { Red, Blue }
#[derive(Debug, PartialEq, Deserialize, DSerialize, Clone)]
struct Flat { id: i32, #[serde(flatten)] extra: BTreeMap<String, i32> }

// enums tagged inside / beside their content: the tag must be the variant's NAME
#[derive(Debug, PartialEq, Deserialize, DSerialize, Clone)]
#[serde(tag = "t")]
enum IT { A { x: i32 }, B }
#[derive(Debug, PartialEq, Deserialize, DSerialize, Clone)]
#[serde(tag = "t", content = "c")]
enum AT { A { x: i32 }, B, C(i32, i32) }
#[derive(Debug, PartialEq, Deserialize, DSerialize, Clone)]
#[serde(untagged)]
enum UT { N(i32), S(String), P { x: i32 } }
// nulls that serde buffers before it reads them as units (internally tagged / untagged enums, flatten); a catch-all variant
#[derive(Debug, PartialEq, Deserialize, DSerialize, Clone)]
#[serde(tag = "kind")]
enum ITU { Ping { seq: u32, marker: Unit }, Tick { ghost: () } }
#[derive(Debug, PartialEq, Deserialize, DSerialize, Clone)]
#[serde(untagged)]
enum UTU { Pair { a: (), b: bool }, Num(i64) }
#[derive(Debug, PartialEq, Deserialize, DSerialize, Clone)]
struct InnerU { ack: (), n: i32 }
#[derive(Debug, PartialEq, Deserialize, DSerialize, Clone)]
struct FlatU { id: i32, #[serde(flatten)] inner: InnerU }
#[derive(Debug, PartialEq, Deserialize, DSerialize, Clone)]
enum Level { Low, Medium, High(u8), #[serde(other)] Unknown }
#[derive(Debug, PartialEq, Deserialize, DSerialize, Clone)]
#[serde(deny_unknown_fields)]
struct Strict { id: i32, #[serde(default)] note: Option<String> }
/// a hand-written visitor that reads exactly one entry of a map and stops
#[derive(Debug, PartialEq, Clone)]
struct FirstEntry(String, i32);
impl Serialize for FirstEntry {
    fn serialize<S: Serializer>(&self, s: S) -> Result<S::Ok, S::Error> {
        let mut m = s.serialize_map(Some(1))?;
        m.serialize_entry(&self.0, &self.1)?;
        m.end()
    }
}
impl<'de> serde::Deserialize<'de> for FirstEntry {
    fn deserialize<D: serde::Deserializer<'de>>(d: D) -> Result<Self, D::Error> {
        struct V;
        impl<'de> serde::de::Visitor<'de> for V {
            type Value = FirstEntry;
            fn expecting(&self, f: &mut std::fmt::Formatter<'_>) -> std::fmt::Result {
                f.write_str("a map")
            }
            fn visit_map<A: serde::de::MapAccess<'de>>(self, mut m: A) -> Result<FirstEntry, A::Error> {
                match m.next_entry::<String, i32>()? {
                    Some((k, v)) => Ok(FirstEntry(k, v)),
                    None => Err(serde::de::Error::custom("empty")),
                }
            }
        }
        d.deserialize_map(V)
    }
}

fn dec<T>(var: &Variable, val: &Value) -> (String, String, bool)
where
    T: serde::de::DeserializeOwned + std::fmt::Debug + Serialize,
{
    let a = T::deserialize(var.clone());
    let b: Result<T, _> = serde_json::from_value(val.clone());
    let sa = a.as_ref().map(|x| format!("Ok({:?})", x)).unwrap_or_else(|_| "Err".into());
    let sb = b.as_ref().map(|x| format!("Ok({:?})", x)).unwrap_or_else(|_| "Err".into());
    // a decoded value survives the trip back through the library unchanged
    let rt = match a {
        Ok(x) => match Variable::from_serializable(&x) {
            Ok(v2) => T::deserialize(v2).map(|y| format!("{:?}", y) == format!("{:?}", x)).unwrap_or(false),
            Err(_) => false,
        },
        Err(_) => true,
    };
    (sa, sb, rt)
}

pub const TYPES: [&str; 46] = ["bool", "i8", "u8", "i32", "i64", "u64", "f64", "char", "String", "Option<i32>", "()", "Unit", "Newtype",
    "Vec<i32>", "Vec<u8>", "(i32,String)", "Pair", "Point", "E", "BTreeMap<String,i32>", "Vec<Option<bool>>", "Outer", "Option<E>", "Vec<Point>",
    "BTreeMap<UserId,Vec<u32>>", "BTreeMap<char,i32>", "BTreeMap<Color,i32>", "Flat", "Vec<UserId>",
    "[i32;2]", "Box<Point>", "(UserId,i32)", "BTreeMap<String,Option<Point>>", "IT", "AT", "UT", "FirstEntry", "Vec<IT>", "Strict", "Vec<Strict>", "ITU", "UTU", "FlatU", "Level", "Vec<Level>", "f32"];

fn dec_by_name(ty: &str, var: &Variable, val: &Value) -> (String, String, bool) {
    match ty {
        "bool" => dec::<bool>(var, val),
        "i8" => dec::<i8>(var, val),
        "u8" => dec::<u8>(var, val),
        "i32" => dec::<i32>(var, val),
        "i64" => dec::<i64>(var, val),
        "u64" => dec::<u64>(var, val),
        "f64" => dec::<f64>(var, val),
        "char" => dec::<char>(var, val),
        "String" => dec::<String>(var, val),
        "Option<i32>" => dec::<Option<i32>>(var, val),
        "()" => dec::<()>(var, val),
        "Unit" => dec::<Unit>(var, val),
        "Newtype" => dec::<Newtype>(var, val),
        "Vec<i32>" => dec::<Vec<i32>>(var, val),
        "Vec<u8>" => dec::<Vec<u8>>(var, val),
        "(i32,String)" => dec::<(i32, String)>(var, val),
        "Pair" => dec::<Pair>(var, val),
        "Point" => dec::<Point>(var, val),
        "E" => dec::<E>(var, val),
        "BTreeMap<String,i32>" => dec::<BTreeMap<String, i32>>(var, val),
        "Vec<Option<bool>>" => dec::<Vec<Option<bool>>>(var, val),
        "Outer" => dec::<Outer>(var, val),
        "Option<E>" => dec::<Option<E>>(var, val),
        "Vec<Point>" => dec::<Vec<Point>>(var, val),
        "BTreeMap<UserId,Vec<u32>>" => dec::<BTreeMap<UserId, Vec<u32>>>(var, val),
        "BTreeMap<char,i32>" => dec::<BTreeMap<char, i32>>(var, val),
        "BTreeMap<Color,i32>" => dec::<BTreeMap<Color, i32>>(var, val),
        // maps whose Rust keys are integers are outside C14 ("values that serde can serialise with string-keyed maps"): serde_json parses
        // such keys back out of the key strings, the library does not (DESIGN.md 11.4)
        "Flat" => dec::<Flat>(var, val),
        "Vec<UserId>" => dec::<Vec<UserId>>(var, val),
        "[i32;2]" => dec::<[i32; 2]>(var, val),
        "Box<Point>" => dec::<Box<Point>>(var, val),
        "(UserId,i32)" => dec::<(UserId, i32)>(var, val),
        "BTreeMap<String,Option<Point>>" => dec::<BTreeMap<String, Option<Point>>>(var, val),
        "IT" => dec::<IT>(var, val),
        "AT" => dec::<AT>(var, val),
        "UT" => dec::<UT>(var, val),
        "FirstEntry" => dec::<FirstEntry>(var, val),
        "Vec<IT>" => dec::<Vec<IT>>(var, val),
        "Strict" => dec::<Strict>(var, val),
        "Vec<Strict>" => dec::<Vec<Strict>>(var, val),
        "ITU" => dec::<ITU>(var, val),
        "UTU" => dec::<UTU>(var, val),
        "FlatU" => dec::<FlatU>(var, val),
        "Level" => dec::<Level>(var, val),
        "Vec<Level>" => dec::<Vec<Level>>(var, val),
        "f32" => dec::<f32>(var, val),
        _ => ("?".into(), "?".into(), false),
    }
}

// ---- real std / derived types (their Serialize / Deserialize impls may branch on properties of the format) ----
#[derive(Debug, PartialEq, Deserialize, DSerialize, Clone)]
struct Host { name: String, addr: std::net::IpAddr, peers: Vec<std::net::SocketAddr>, ttl: std::time::Duration }
#[derive(Debug, PartialEq, Deserialize, DSerialize, Clone)]
enum Net { Addr(std::net::IpAddr), Pair(std::net::Ipv4Addr, u16), Named { at: std::net::Ipv6Addr } }

fn real<T>(x: T) -> Value
where
    T: serde::de::DeserializeOwned + std::fmt::Debug + Serialize,
{
    let lib = Variable::from_serializable(&x);
    let sj = serde_json::to_value(&x);
    let image = match &lib {
        Ok(v) => json!({"ok":tag_var(v)}),
        Err(_) => json!({"err":true}),
    };
    let sjimage = match &sj {
        Ok(v) => json!({"ok":tag_json(v)}),
        Err(_) => json!({"err":true}),
    };
    let expr = jmespath::compile("@").unwrap();
    let searched = match expr.search(&x) {
        Ok(r) => json!({"ok":tag_var(&r)}),
        Err(_) => json!({"err":true}),
    };
    // decode back: from the library's own image, and from the JSON text serde_json writes for the value (text-originated)
    let show = |r: Result<T, String>| r.map(|y| format!("Ok({:?})", y)).unwrap_or_else(|_| "Err".into());
    let dec_own = show(lib.clone().map_err(|e| e.to_string()).and_then(|v| T::deserialize(v).map_err(|e| e.to_string())));
    let text = sj.as_ref().map(|v| v.to_string()).unwrap_or_else(|_| "null".into());
    let dec_text = show(Variable::from_json(&text).and_then(|v| T::deserialize(v).map_err(|e| e.to_string())));
    let dec_sj = show(serde_json::from_str::<T>(&text).map_err(|e| e.to_string()));
    json!({"image":image,"serde_json":sjimage,"searched":searched,"dec_own":ascii_cps(&dec_own),"dec_text":ascii_cps(&dec_text),
           "dec_serde_json":ascii_cps(&dec_sj),"orig":ascii_cps(&format!("Ok({:?})", x))})
}

pub const REALS: [&str; 30] = ["IpAddr4", "IpAddr6", "Ipv4Addr", "Ipv6Addr", "SocketAddr4", "SocketAddr6", "Duration", "PathBuf", "NonZeroU8", "Wrapping",
    "Reverse", "BTreeSet", "VecDeque", "Range", "BoundIn", "BoundUn", "SomeUnit", "ResultOk", "ResultErr", "BoxStr", "CowStr", "Arr3", "Nested", "Phantom",
    "Host", "NetAddr", "NetPair", "NetNamed", "MapIp", "OptIp"];

fn real_by_name(name: &str) -> Value {
    use std::net::*;
    let v4 = Ipv4Addr::new(10, 1, 2, 3);
    let v6: Ipv6Addr = "2001:db8::1".parse().unwrap();
    match name {
        "IpAddr4" => real(IpAddr::V4(v4)),
        "IpAddr6" => real(IpAddr::V6(v6)),
        "Ipv4Addr" => real(v4),
        "Ipv6Addr" => real(v6),
        "SocketAddr4" => real(SocketAddr::new(IpAddr::V4(v4), 80)),
        "SocketAddr6" => real(SocketAddr::new(IpAddr::V6(v6), 443)),
        "Duration" => real(std::time::Duration::new(5, 7)),
        "PathBuf" => real(std::path::PathBuf::from("/tmp/x y")),
        "NonZeroU8" => real(std::num::NonZeroU8::new(7).unwrap()),
        "Wrapping" => real(std::num::Wrapping(300u32)),
        "Reverse" => real(std::cmp::Reverse(5i64)),
        "BTreeSet" => real([3u8, 1, 2].iter().cloned().collect::<std::collections::BTreeSet<u8>>()),
        "VecDeque" => real([1i32, -2].iter().cloned().collect::<std::collections::VecDeque<i32>>()),
        "Range" => real(1u32..4u32),
        "BoundIn" => real(std::ops::Bound::Included(3i32)),
        "BoundUn" => real(std::ops::Bound::<i32>::Unbounded),
        "SomeUnit" => real(Some(())),
        "ResultOk" => real(Ok::<i32, String>(1)),
        "ResultErr" => real(Err::<i32, String>("e".into())),
        "BoxStr" => real(String::from("b\u{1F600}").into_boxed_str()),
        "CowStr" => real(std::borrow::Cow::<'static, str>::Owned("c".into())),
        "Arr3" => real([1u8, 2, 255]),
        "Nested" => real((1i8, (2u8, String::from("s")), [Some(1.5f64), None])),
        "Phantom" => real(std::marker::PhantomData::<i32>),
        "Host" => real(Host { name: "h".into(), addr: IpAddr::V4(v4), peers: vec![SocketAddr::new(IpAddr::V6(v6), 1)], ttl: std::time::Duration::new(1, 0) }),
        "NetAddr" => real(Net::Addr(IpAddr::V6(v6))),
        "NetPair" => real(Net::Pair(v4, 8080)),
        "NetNamed" => real(Net::Named { at: v6 }),
        "MapIp" => real([(String::from("a"), IpAddr::V4(v4))].iter().cloned().collect::<BTreeMap<String, IpAddr>>()),
        "OptIp" => real(Some(IpAddr::V4(v4))),
        _ => json!({"harness":ascii_cps("unknown real type")}),
    }
}

/// "dec": the decoded value itself, given by its serde_json image, for the types the specification describes (spec/Decode.tla: Zoo)
fn dec_img<T>(var: &Variable, val: &Value) -> (Value, Value)
where
    T: serde::de::DeserializeOwned + std::fmt::Debug + Serialize,
{
    let img = |r: Option<T>| match r {
        Some(x) => match serde_json::to_value(&x) {
            Ok(v) => json!({"ok":tag_json(&v)}),
            Err(_) => json!({"harness":ascii_cps("the decoded value has no image")}),
        },
        None => json!({"err":true}),
    };
    (img(T::deserialize(var.clone()).ok()), img(serde_json::from_value::<T>(val.clone()).ok()))
}

pub const MODEL_TYPES: [(&str, &str); 46] = [("bool", "bool"), ("i8", "i8"), ("u8", "u8"), ("i32", "i32"), ("i64", "i64"), ("u64", "u64"), ("f64", "f64"),
    ("char", "char"), ("String", "String"), ("OptI32", "Option<i32>"), ("unit", "()"), ("Unit", "Unit"), ("Newtype", "Newtype"), ("VecI32", "Vec<i32>"),
    ("VecU8", "Vec<u8>"), ("TupI32String", "(i32,String)"), ("Pair", "Pair"), ("Point", "Point"), ("E", "E"), ("MapStringI32", "BTreeMap<String,i32>"),
    ("VecOptBool", "Vec<Option<bool>>"), ("Outer", "Outer"), ("OptE", "Option<E>"), ("VecPoint", "Vec<Point>"), ("MapUserIdVecU32", "BTreeMap<UserId,Vec<u32>>"),
    ("MapCharI32", "BTreeMap<char,i32>"), ("MapColorI32", "BTreeMap<Color,i32>"), ("Flat", "Flat"), ("VecUserId", "Vec<UserId>"), ("ArrI32x2", "[i32;2]"),
    ("BoxPoint", "Box<Point>"), ("TupUserIdI32", "(UserId,i32)"), ("MapStringOptPoint", "BTreeMap<String,Option<Point>>"), ("IT", "IT"), ("AT", "AT"),
    ("UT", "UT"), ("FirstEntry", "FirstEntry"), ("VecIT", "Vec<IT>"), ("Strict", "Strict"), ("VecStrict", "Vec<Strict>"), ("ITU", "ITU"), ("UTU", "UTU"), ("FlatU", "FlatU"), ("Level", "Level"), ("VecLevel", "Vec<Level>"), ("f32", "f32")];

fn dec_img_by_name(ty: &str, var: &Variable, val: &Value) -> Option<(Value, Value)> {
    Some(match ty {
        "bool" => dec_img::<bool>(var, val),
        "i8" => dec_img::<i8>(var, val),
        "u8" => dec_img::<u8>(var, val),
        "i32" => dec_img::<i32>(var, val),
        "i64" => dec_img::<i64>(var, val),
        "u64" => dec_img::<u64>(var, val),
        "f64" => dec_img::<f64>(var, val),
        "char" => dec_img::<char>(var, val),
        "String" => dec_img::<String>(var, val),
        "Option<i32>" => dec_img::<Option<i32>>(var, val),
        "()" => dec_img::<()>(var, val),
        "Unit" => dec_img::<Unit>(var, val),
        "Newtype" => dec_img::<Newtype>(var, val),
        "Vec<i32>" => dec_img::<Vec<i32>>(var, val),
        "Vec<u8>" => dec_img::<Vec<u8>>(var, val),
        "(i32,String)" => dec_img::<(i32, String)>(var, val),
        "Pair" => dec_img::<Pair>(var, val),
        "Point" => dec_img::<Point>(var, val),
        "E" => dec_img::<E>(var, val),
        "BTreeMap<String,i32>" => dec_img::<BTreeMap<String, i32>>(var, val),
        "Vec<Option<bool>>" => dec_img::<Vec<Option<bool>>>(var, val),
        "Outer" => dec_img::<Outer>(var, val),
        "Option<E>" => dec_img::<Option<E>>(var, val),
        "Vec<Point>" => dec_img::<Vec<Point>>(var, val),
        "BTreeMap<UserId,Vec<u32>>" => dec_img::<BTreeMap<UserId, Vec<u32>>>(var, val),
        "BTreeMap<char,i32>" => dec_img::<BTreeMap<char, i32>>(var, val),
        "BTreeMap<Color,i32>" => dec_img::<BTreeMap<Color, i32>>(var, val),
        "Flat" => dec_img::<Flat>(var, val),
        "Vec<UserId>" => dec_img::<Vec<UserId>>(var, val),
        "[i32;2]" => dec_img::<[i32; 2]>(var, val),
        "Box<Point>" => dec_img::<Box<Point>>(var, val),
        "(UserId,i32)" => dec_img::<(UserId, i32)>(var, val),
        "BTreeMap<String,Option<Point>>" => dec_img::<BTreeMap<String, Option<Point>>>(var, val),
        "IT" => dec_img::<IT>(var, val),
        "AT" => dec_img::<AT>(var, val),
        "UT" => dec_img::<UT>(var, val),
        "FirstEntry" => dec_img::<FirstEntry>(var, val),
        "Vec<IT>" => dec_img::<Vec<IT>>(var, val),
        "Strict" => dec_img::<Strict>(var, val),
        "Vec<Strict>" => dec_img::<Vec<Strict>>(var, val),
        "ITU" => dec_img::<ITU>(var, val),
        "UTU" => dec_img::<UTU>(var, val),
        "FlatU" => dec_img::<FlatU>(var, val),
        "Level" => dec_img::<Level>(var, val),
        "Vec<Level>" => dec_img::<Vec<Level>>(var, val),
        "f32" => dec_img::<f32>(var, val),
        _ => return None,
    })
}

pub fn run_case(case: &Value) -> Value {
    let mut obs = case.clone();
    let out = if case["kind"] == "real" {
        let name = case["name"].as_str().unwrap_or("").to_string();
        guarded(|| real_by_name(&name))
    } else if case["kind"] == "dec" {
        // one JSON value decoded into every type the specification describes; the decoded values are reported by their images
        guarded(|| {
            let val = untag(&case["json"]);
            let var = match Variable::from_json(&val.to_string()) {
                Ok(v) => v,
                Err(e) => return json!({"harness":ascii_cps(&e)}),
            };
            let mut res = serde_json::Map::new();
            for (m, h) in MODEL_TYPES.iter() {
                if let Some((a, b)) = dec_img_by_name(h, &var, &val) {
                    res.insert(m.to_string(), json!({"lib":a,"serde_json":b}));
                }
            }
            json!({"dec":Value::Object(res)})
        })
    } else if case["kind"] == "ser" {
        guarded(|| {
            let node = Node(&case["tree"]);
            let lib = Variable::from_serializable(&node);
            let sj = serde_json::to_value(&node);
            let image = match &lib {
                Ok(v) => json!({"ok":tag_var(v)}),
                Err(_) => json!({"err":true}),
            };
            let sjimage = match &sj {
                Ok(v) => json!({"ok":tag_json(v)}),
                Err(_) => json!({"err":true}),
            };
            // searching the typed value (through ToJmespath) with the identity expression
            let expr = jmespath::compile("@").unwrap();
            let searched = match expr.search(&node) {
                Ok(r) => json!({"ok":tag_var(&r)}),
                Err(_) => json!({"err":true}),
            };
            let tj = match (&node).to_jmespath() {
                Ok(r) => json!({"ok":tag_var(&r)}),
                Err(_) => json!({"err":true}),
            };
            json!({"image":image,"serde_json":sjimage,"searched":searched,"to_jmespath":tj})
        })
    } else {
        guarded(|| {
            let val = untag(&case["json"]);
            let var = match Variable::from_json(&val.to_string()) {
                Ok(v) => v,
                Err(e) => return json!({"harness":ascii_cps(&e)}),
            };
            let mut res = vec![];
            for ty in TYPES.iter() {
                let (a, b, rt) = dec_by_name(ty, &var, &val);
                res.push(json!({"ty":ty,"lib":ascii_cps(&a),"serde_json":ascii_cps(&b),"roundtrip":rt}));
            }
            json!({"decoded":res})
        })
    };
    obs.as_object_mut().unwrap().insert("out".into(), out);
    obs
}
