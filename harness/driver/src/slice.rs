//! Slice engine: `@[a:b:c]` / `@[n]` through the generic runner, and the public `Variable::slice`.

use crate::val::*;
use rand::rngs::StdRng;
use rand::{Rng, SeedableRng};
use serde_json::{json, Value};

pub fn run_case(case: &Value) -> Value {
    if case["kind"] == "method" {
        let mut obs = case.clone();
        let out = guarded(|| {
            let data = match tagged_to_var(&case["doc"]) {
                Ok(d) => d,
                Err(e) => return json!({"harness":ascii_cps(&e)}),
            };
            let step = case["step"].as_i64().unwrap_or(1) as i32;
            match data.slice(unopt(&case["start"]), unopt(&case["stop"]), step) {
                Some(v) => json!({"ok":{"t":"arr","a":v.iter().map(|x| to_tagged(x)).collect::<Vec<_>>()}}),
                None => json!({"ok":{"t":"null"}}),
            }
        });
        obs.as_object_mut().unwrap().insert("out".into(), out);
        obs
    } else {
        crate::search::run_case(case)
    }
}

/// Random abstract parameters (no text, no expectation): lengths up to 60, triples biased to +-len+-1 and to
/// the edge of the i32 range.  TLC spells them (Gen_Slice, MODE=spell) and judges the observations.
pub fn gen(seed: u64, n: usize) -> Vec<Value> {
    let mut rng = StdRng::seed_from_u64(seed ^ 0x51ce);
    let mut out = vec![];
    for _ in 0..n {
        let len: i64 = if rng.gen_bool(0.3) { rng.gen_range(0..6) } else { rng.gen_range(0..61) };
        let mut pick = |rng: &mut StdRng| -> i64 {
            match rng.gen_range(0..10) {
                0..=3 => rng.gen_range(-len - 2..=len + 2),
                4..=5 => rng.gen_range(-70..=70),
                6 => [2147483647i64, 2147483646, -2147483647, -2147483646][rng.gen_range(0..4)],
                7 => rng.gen_range(-2147483647i64..=2147483647),
                8 => [len, -len, len - 1, -len - 1, len + 1, 0][rng.gen_range(0..6)],
                _ => rng.gen_range(-3..=3),
            }
        };
        let mut opt = |rng: &mut StdRng| -> Value {
            if rng.gen_bool(0.2) {
                json!({"has":false,"v":0})
            } else {
                json!({"has":true,"v":pick(rng)})
            }
        };
        let start = opt(&mut rng);
        let stop = opt(&mut rng);
        let mut step = pick(&mut rng);
        if step == 0 {
            step = if rng.gen_bool(0.5) { 1 } else { -1 };
        }
        let kind = match rng.gen_range(0..10) {
            0..=5 => "slice",
            6..=8 => "method",
            _ => "index",
        };
        let stepomit = kind == "slice" && rng.gen_bool(0.1);
        out.push(json!({"kind":kind,"len":len,"start":start,"stop":stop,"step":step,"stepomit":stepomit}));
    }
    out
}
