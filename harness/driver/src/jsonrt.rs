//! C08 runner: JSON text -> Variable::from_json -> search("@") -> to_string; the serde_json::Value bridge; re-parse of
//! the printed text.  Records what came out (printed text, tagged value, IEEE bit patterns of non-integer numbers).

use crate::val::*;
use jmespath::Variable;
use serde_json::{json, Value};
use std::convert::TryFrom;

fn limbs(bits: u64) -> Value {
    json!([(bits >> 48) & 0xffff, (bits >> 32) & 0xffff, (bits >> 16) & 0xffff, bits & 0xffff])
}

/// numbers of the value in document order: {"int": digits text} or {"bits": [4 x 16 bit limbs]}
fn numbers(v: &Variable, out: &mut Vec<Value>) {
    match v {
        Variable::Number(n) => {
            if n.is_i64() || n.is_u64() {
                out.push(json!({"int":cps(&n.to_string())}));
            } else {
                out.push(json!({"bits":limbs(n.as_f64().unwrap_or(f64::NAN).to_bits())}));
            }
        }
        Variable::Array(a) => a.iter().for_each(|x| numbers(x, out)),
        Variable::Object(m) => m.values().for_each(|x| numbers(x, out)),
        _ => {}
    }
}

/// Equality without the library's own `==` (which is tolerant on numbers and the thing under test): integers digit for digit,
/// doubles within the 2 units in the last place C08 grants the JSON parser, strings / order / keys exactly.
fn strict_eq(a: &Variable, b: &Variable) -> bool {
    match (a, b) {
        (Variable::Null, Variable::Null) => true,
        (Variable::Bool(x), Variable::Bool(y)) => x == y,
        (Variable::String(x), Variable::String(y)) => x == y,
        (Variable::Number(x), Variable::Number(y)) => {
            let xi = x.is_i64() || x.is_u64();
            let yi = y.is_i64() || y.is_u64();
            if xi || yi {
                xi && yi && x.to_string() == y.to_string()
            } else {
                match (x.as_f64(), y.as_f64()) {
                    (Some(f), Some(g)) => (ordered(f) as i128 - ordered(g) as i128).abs() <= 2,
                    _ => false,
                }
            }
        }
        (Variable::Array(x), Variable::Array(y)) => x.len() == y.len() && x.iter().zip(y.iter()).all(|(p, q)| strict_eq(p, q)),
        (Variable::Object(x), Variable::Object(y)) => {
            x.len() == y.len() && x.iter().zip(y.iter()).all(|((k1, v1), (k2, v2))| k1 == k2 && strict_eq(v1, v2))
        }
        _ => false,
    }
}

pub fn run_case(case: &Value) -> Value {
    let mut obs = case.clone();
    let text = uncps(&case["text"]);
    let out = guarded(|| {
        // the double each numeral of the case denotes, by Rust's correctly rounded parser (trusted denotation oracle)
        let want: Vec<Value> = case["numerals"].as_array().map(|a| a.iter().map(|n| {
            let s = uncps(n);
            match s.parse::<f64>() { Ok(f) => json!({"bits":limbs(f.to_bits()),"finite":f.is_finite()}), Err(_) => json!({"bits":[0,0,0,0],"finite":false}) }
        }).collect()).unwrap_or_default();
        let var = match Variable::from_json(&text) {
            Ok(v) => v,
            Err(e) => return json!({"parse_err":ascii_cps(&e),"want":want}),
        };
        let expr = jmespath::compile("@").unwrap();
        let res = match expr.search(var.clone()) {
            Ok(r) => r,
            Err(e) => return json!({"err":err_to_json(&e, "@")}),
        };
        let printed = res.to_string();
        let mut nums = vec![];
        numbers(&res, &mut nums);
        // print -> parse again
        let reparsed = Variable::from_json(&printed);
        let reparse_equal = reparsed.as_ref().map(|r| r == &*res).unwrap_or(false);
        let reprint_same_text = reparsed.as_ref().map(|r| r.to_string() == printed).unwrap_or(false);
        // strict comparison of the re-parsed value (`==` on values is tolerant on numbers): node by node through the tagged form
        let reparse_text_equal = reparsed.as_ref().map(|r| strict_eq(r, &res)).unwrap_or(false);
        // the two printing routes (Display and the Serialize impl through serde_json) must produce the same text
        let print_routes_agree = serde_json::to_string(&*res).map(|t| t == printed).unwrap_or(false);
        // serde_json::Value bridge, both directions, against serde_json's own reading of the same text
        let sj: Option<Value> = serde_json::from_str(&text).ok();
        let to_value = serde_json::to_value(&*res).ok();
        let bridge_to = sj.is_some() && to_value == sj;
        let back = to_value.clone().and_then(|v| Variable::try_from(v).ok());
        let back_ref = to_value.as_ref().and_then(|v| Variable::try_from(v).ok());
        let bridge_from = back.as_ref().map(|b| b == &*res && b.to_string() == printed).unwrap_or(false)
            && back_ref.as_ref().map(|b| b.to_string() == printed).unwrap_or(false);
        let deser: Option<Variable> = to_value.and_then(|v| serde_json::from_value(v).ok());
        let bridge_deser = deser.map(|b| b.to_string() == printed).unwrap_or(false);
        // a value nested deeper than the interchange files can carry is not sent (the judge then checks the relations only)
        fn depth(v: &Variable) -> usize {
            match v {
                Variable::Array(a) => 1 + a.iter().map(|x| depth(x)).max().unwrap_or(0),
                Variable::Object(m) => 1 + m.values().map(|x| depth(x)).max().unwrap_or(0),
                _ => 0,
            }
        }
        let value = if depth(&res) > 100 { json!({"t":"toodeep"}) } else { to_tagged(&res) };
        json!({"printed":cps(&printed),"value":value,"nums":nums,"want":want,
               "reparse_equal":reparse_equal,"reprint_same_text":reprint_same_text,"reparse_text_equal":reparse_text_equal,"print_routes_agree":print_routes_agree,
               "bridge_to":bridge_to,"bridge_from":bridge_from,"bridge_deser":bridge_deser})
    });
    obs.as_object_mut().unwrap().insert("out".into(), out);
    obs
}
